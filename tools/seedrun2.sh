#!/bin/bash
# seedrun2.sh <Cxx> <patch.diff> [tier]: run a property's check against a seeded change WITHOUT touching /repo or /verif:
# a scratch worktree of /repo's HEAD (/tmp/sr/repo) gets the patch, a copy of /verif (/tmp/sr/verif) whose harness module
# replaces cql-proxy by that worktree runs the check with VERIF_REPO set.  Serialised by a lock; cleaned up afterwards.
prop=$1; patch=$2; tier=${3:-quick}
exec 9>/tmp/sr.lock; flock 9
mkdir -p /tmp/sr
git -C /repo worktree remove --force /tmp/sr/repo 2>/dev/null; rm -rf /tmp/sr/repo
git -C /repo worktree add -q --detach /tmp/sr/repo HEAD || exit 2
( cd /tmp/sr/repo && git apply "$patch" ) || { echo "SEEDRUN $prop $(basename $(dirname $patch)): patch does not apply"; git -C /repo worktree remove --force /tmp/sr/repo; exit 3; }
# the committed state of /verif (work in progress there must not leak into a seed run); build caches are kept
mkdir -p /tmp/sr/verif /tmp/sr/snap; rm -rf /tmp/sr/snap/*; git -C /verif archive HEAD | tar -x -C /tmp/sr/snap
rsync -a --delete --exclude .build --exclude replays --exclude 'coq/theories/Gen' --exclude '*.vo' --exclude '*.vos' --exclude '*.vok' --exclude '*.glob' --exclude '.*.aux' --exclude 'coq/Makefile*' --exclude 'coq/.Makefile.d' --exclude 'coq/.lia.cache' --exclude harness/go.sum /tmp/sr/snap/ /tmp/sr/verif/
[ -d /tmp/sr/verif/.build ] || rsync -a /verif/.build /tmp/sr/verif/
sed -i 's|=> /repo|=> /tmp/sr/repo|' /tmp/sr/verif/harness/go.mod
cd /tmp/sr/verif && VERIF_REPO=/tmp/sr/repo timeout 3000 ./check $prop --tier $tier > /tmp/sr/out.$prop 2>&1; rc=$?
grep -E "VIOLATION|KNOWN-FINDING|\[check\] C" /tmp/sr/out.$prop | cut -c1-300
mkdir -p /tmp/sr/replays; cp /tmp/sr/verif/replays/$prop-* /tmp/sr/replays/ 2>/dev/null
git -C /repo worktree remove --force /tmp/sr/repo 2>/dev/null; rm -rf /tmp/sr/repo
echo "SEEDRUN $prop $(basename $(dirname $patch))/$(basename $patch): exit=$rc"
