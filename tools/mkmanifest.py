#!/usr/bin/env python3
"""Regenerate MANIFEST.json from the table below (kept valid at all times)."""
import json, os, subprocess
ROOT = os.path.dirname(os.path.dirname(os.path.abspath(__file__)))
props = [json.loads(l) for l in open(os.path.join(ROOT, "properties.jsonl"))]
TECH = "machine-checked proof in Coq over an executable model + differential correspondence check against the Go code"
C = {}
def claim(pid, text, note, ref=None, tech=TECH):
    C[pid] = dict(text=text, note=note, ref=ref or "DESIGN.md §5 " + pid, tech=tech)

claim("C20", "Coq theorems (Props/C20.v) over name tables regenerated from proxy/run.go on every run: every documented spelling in any letter case selects the documented value, distinct names give distinct values, nothing undocumented is accepted, each inconsistent configuration named by the property is refused and an accepted one is effective with the named values; tied to the code by the go/ast translator plus a differential run of parseProtocolVersion/UnmarshalText and of proxy.Run (flags, env, YAML) against the extracted model.",
      "Coq 8.16.1 kernel, vm_compute reflection, no axioms; translator harness/cmd/vx; validate() hand-modelled from Run/buildNodes and tied by the proxy.Run correspondence; ASCII option names.",
      tech="machine-checked proof in Coq over a model regenerated from source + differential correspondence check")
claim("C15", "Coq theorems (Props/C15.v) for all event histories, all host lists and all values of the wrapping 64-bit counter: membership equals the set-based specification and stays duplicate-free, every plan is a rotation (hence permutation) of its snapshot, Next walks it then reports exhaustion, consecutive plans start at consecutive hosts and first-choice counts over any run differ by at most one (counter not crossing 2^64). Tied by a differential run of the public API (exhaustive well-formed histories over 3-4 hosts with plans held across events, random histories, counter values around 2^32/2^63/2^64 via a verif hook, concurrent stress).",
      "Coq kernel, no axioms; LB.v hand-written from proxycore/lb.go, tied by correspondence; well-formed histories (bootstrap lists duplicate-free, Add only for absent hosts) are a hypothesis discharged for mergeHosts under C16; concurrency is exercised, the Go memory model is not formalised.")

claim("C11", "Coq theorems (Props/C11.v): for every query string, prepared id, result-metadata id, batch child list, consistency and every option tail (an arbitrary byte list, so all flags/values/paging/serial-consistency/timestamp/keyspace/now-in-seconds layouts) in every protocol version, the partial decoders accept the reference layout, return the reference fields, and re-encode to the identical bytes; on arbitrary byte lists they return Ok or Err, never panic or run out of fuel, and keep only a suffix of their input. Tied by a differential run of codecs.CustomRawCodec (DecodeBody at frame level incl. a custom-payload prefix, message Encode and EncodedLength) against bodies produced by the reference encoder for v3/v4/v5/DSEv1/DSEv2, all their prefixes, field mutations, random and boundary bytes.",
      "Coq kernel, no axioms; Model/Codec.v hand-written from codecs/partial_codecs.go; the reference layout grammar is itself validated against frame.NewRawCodec() output on every run; lengths of strings < 2^31 and ids < 2^16 are hypotheses (protocol limits).")

claim("C05", "Coq theorems (Props/C05.v) over Model/Retry.v, whose four policy methods are regenerated from proxy/retrypolicy.go on every run: for every error response, retry count and idempotency class the decision is the documented one; for every environment (any per-attempt send failures and backend outcomes) the attempt sequence and reply equal the documented run, hosts are taken in plan order each at most once per traversal, a same-host attempt only follows that host's own answer, attempts <= hosts + 1 (+1 per successful re-prepare), 'no more hosts' exactly when the plan is exhausted, the loop terminates with a reply, and an idempotent request succeeds whenever a host of its plan answers successfully and the others fail in next-host-retried ways. Tied by direct calls of the policy on a boundary sweep and by scripted requests through the real proxy against a fake 3-host backend (exhaustive outcome sequences of length <= 2, random scripts under five sets of unreachable hosts, two-connection pools with one slot empty, a host with all 2048 stream ids in use, proxy-side idle close), comparing attempted hosts and the single reply.",
      "Coq kernel, no axioms; request life-cycle hand-modelled from proxy/request.go + proxycore/clientconn.go (re-prepare continuation); policy methods translated by harness/cmd/vx; wall-clock aspects (how fast a pool reconnects) are outside the model.")
claim("C04", "Coq theorems (Props/C04.v) over Model/Retry.v: for a request not classified idempotent, in every environment, an attempt whose outcome is not unavailable / bootstrapping / read timeout / unprepared is the last event of the run and the client receives exactly that error (or the connection-lost error); the only error decisions that re-send such a request are those three. Tied by scripted requests through the real proxy for 180 statement kinds whose class is known by construction (QUERY texts incl. now()/counter/LWT/delete-by-index/unparseable/batches, EXECUTE of ids prepared through the proxy or unknown to it, BATCH with every order of up to three children of five child types, graph payloads) against every outcome class, with the backend's own log counting executions.",
      "Coq kernel, no axioms; classification of statement text is C06's subject (here the class is an input chosen by construction and compared with the proxy's behaviour); connection loss includes proxy-initiated idle close.")

claim("C03", "Coq theorems (Props/C03.v) over Model/Frame.v (header codec and raw-frame forwarding as the reference library implements them): for every frame DecodeRawFrame accepts -- any version >= 3, direction, flag byte, opcode and any body bytes -- the bytes written when forwarding with another stream id equal the bytes received with bytes 2-3 replaced (request and response direction use the same function). Tied by end-to-end runs: generated QUERY/EXECUTE/BATCH/PREPARE frames (v3,v4,v5,DSEv1,DSEv2; tracing/custom-payload/warning/compressed flags; none/lz4/snappy) through two real proxy instances to a recording backend that answers with scripted raw frames of random flags and bodies; bytes compared in both directions and with the model's prediction; requests on the override path are judged by C12's predicate.",
      "Coq kernel, no axioms; the header layout is the library's (modelled, differential-tested); compression is outside the model (bodies are opaque bytes, so the theorem covers compressed bodies too).")
claim("C12", "Coq theorems (Props/C12.v) over Model/Override.v + Model/Codec.v: with no list nothing is ever re-encoded; SELECTs and requests with any other consistency are forwarded raw; a matching non-SELECT QUERY/EXECUTE/BATCH goes out as the reference layout of the same message (statement or id, result-metadata id, batch type and children, the whole option tail, the same custom payload, same flags) with only the consistency replaced and a length field equal to the body length. Tied by the same end-to-end runs as C03 against a proxy with a list and one without, the recording backend's bytes (decompressed by the harness) compared with the model's re-encoded body.",
      "Coq kernel, no axioms; 'is a SELECT' for EXECUTE means the id's PREPARE went through this proxy instance (an id the proxy never saw is treated as a write by code and model: recorded assumption); custom payload maps with more than one entry are re-encoded in Go map order, so override cases use at most one entry; a request carrying the response-only warning flag is outside the theorem (flag_warning = false).")

def chk(pid, c):
    return {"property_id": pid, "quick_cmd": "./check %s --tier quick" % pid, "thorough_cmd": "./check %s --tier thorough" % pid,
            "evidence_file": "/verif/evidence/%s.json" % pid, "replay_cmd_template": "./check %s --replay {path}" % pid,
            "engine": "coq-model+correspondence",
            "level_claimed": {"category": "proof", "text": c["text"], "design_ref": c["ref"]},
            "level_note": c["note"], "technique": c["tech"]}

NA = {}
hooks = subprocess.run(["git", "-C", "/repo", "log", "--format=%h %s"], capture_output=True, text=True).stdout.splitlines()
hook_commits = [l.split()[0] for l in hooks if l.split(" ", 1)[1].startswith("verif hook")]
m = {"version": 1, "setup_cmd": "./setup",
     "hooks": {"guard": "verif", "enable": "go build -tags verif (harness module /verif/harness replaces github.com/datastax/cql-proxy => /repo)",
               "baseline_off_cmd": "cd /repo && go test -mod=mod -vet=off -count=1 -timeout 25m ./...",
               "source_commits": hook_commits, "add_only": True},
     "engines": [{"name": "coq-model+correspondence", "path": "/verif/check", "serves_properties": sorted(C),
                  "kind_free_text": "Coq 8.16.1 development (coq/), models regenerated/tied to /repo on every run, extracted OCaml model runner vs Go harness differential check"}],
     "checks": [chk(p, C[p]) for p in sorted(C)],
     "notes": "See DESIGN.md. Every check rebuilds harness, translators, Coq models and proofs from /repo's working tree.",
     "not_applicable": [{"property_id": p["id"], "reason": NA.get(p["id"], "check under construction in this session (not yet claimed)")}
                        for p in props if p["id"] not in C]}
json.dump(m, open(os.path.join(ROOT, "MANIFEST.json"), "w"), indent=1)
print("claimed:", sorted(C))
