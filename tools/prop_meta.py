# per-property evidence metadata (exec'd by ./check)
PROP_META = {
 "C20": {
  "rule": "direct calls of parseProtocolVersion / clWrapper.UnmarshalText on every documented spelling in random letter case, near misses, numerals 0..199 and random printable ASCII; proxy.Run started through flags, environment variables and YAML against a fake backend for every documented version and consistency name, all version pairs, unknown names, numeric boundaries, peers/tokens shapes. Non-trivial = every case (each has a documented expected outcome); distinct = distinct input text.",
  "assumptions": [
   "option names are ASCII (Go's strings.ToLower also folds non-ASCII letters such as U+212A; the model lower-cases ASCII only and the theorems are stated for lower computed that way)",
   "heartbeat-interval/idle-timeout are validated, their run-time effect is not observed from outside",
   "Astra bundle/token back-ends are not started (the token path calls os.Exit inside the library)"],
  "trusted": ["Model/Config.v validate is hand-written from proxy/run.go Run and proxy.go buildNodes; its tie is the proxy.Run correspondence (exit status + externally observed version, max version, connections per host, consistency override)"],
 },
}
