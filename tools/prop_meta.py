# per-property evidence metadata (exec'd by ./check)
PROP_META = {
 "C20": {
  "rule": "direct calls of parseProtocolVersion / clWrapper.UnmarshalText on every documented spelling in random letter case, near misses, numerals 0..199 and random printable ASCII; proxy.Run started through flags, environment variables and YAML against a fake backend for every documented version and consistency name, all version pairs, unknown names, numeric boundaries, peers/tokens shapes. Non-trivial = every case (each has a documented expected outcome); distinct = distinct input text.",
  "assumptions": [
   "option names are ASCII (Go's strings.ToLower also folds non-ASCII letters such as U+212A; the model lower-cases ASCII only and the theorems are stated for lower computed that way)",
   "heartbeat-interval/idle-timeout are validated, their run-time effect is not observed from outside",
   "Astra bundle/token back-ends are not started (the token path calls os.Exit inside the library)"],
  "trusted": ["Model/Config.v validate is hand-written from proxy/run.go Run and proxy.go buildNodes; its tie is the proxy.Run correspondence (exit status + externally observed version, max version, connections per host, consistency override)"],
 },
 "C15": {
  "rule": "operation sequences (bootstrap/add/remove events, plan creation, Next calls on held plans, counter jumps, concurrent stress) run through proxycore.NewRoundRobinLoadBalancer's public API; exhaustive over all well-formed event histories up to the tier's length from every bootstrap subset with a plan created after every event and the previous plan drained after it; random long histories; runs of 30 back-to-back plans; counter boundary values. Non-trivial = every case; distinct = distinct operation sequence.",
  "assumptions": ["histories are well-formed (no Add of a present host, duplicate-free bootstrap list): what Cluster.mergeHosts emits",
                  "fewer than 2^64 plans between two observations (the 64-bit counter does not wrap)",
                  "concurrent use is only exercised (duplicate-free plans, no crash), not proved: the model is sequential"],
  "trusted": ["Model/LB.v hand-written from proxycore/lb.go; tie = differential run of OnEvent/NewQueryPlan/Next"],
 },
 "C11": {
  "rule": "bodies produced by the reference codec (go-cassandra-native-protocol) for generated QUERY/EXECUTE/BATCH messages over all option flags in v3,v4,v5,DSEv1,DSEv2 (valid=1, reference fields attached), every such body also cut at 4 prefixes and mutated in 3 leading bytes, random byte strings with tame declared lengths, hand-picked boundary bodies; a third of the cases are decoded behind a custom-payload prefix as client.Receive does. Non-trivial = all; distinct = distinct (opcode, version, body, prefix).",
  "assumptions": ["declared [long string] lengths in malformed bodies are kept below 16 MiB by the generator (memory), the theorem covers all lengths",
                  "string/id lengths below the protocol limits (2^31, 2^16)"],
  "trusted": ["Model/Codec.v hand-written from codecs/partial_codecs.go + codecs/reader.go; tie = differential run of CustomRawCodec.DecodeBody / message codec Encode / EncodedLength"],
 },
}
