#!/bin/bash
# confirm_seed.sh <worktree> <N>: confirm seeded change mN of a sub-agent in its scratch worktree:
# builds, existing suite passes, demo fails with the change and passes without it.
# Runs inside a private network namespace (the repo's tests bind fixed 127.0.0.x:9042).
wt=$1; n=$2
export GOFLAGS=-mod=mod GOPROXY=off
cd $wt || exit 2
git checkout -q -- . ; git clean -fdq -e out
meta=out/m${n}_meta.json
dir=$(python3 -c "import json;print(json.load(open('$meta'))['demo_dir'])")
demo=$(ls out/m${n}_demo* | head -1)
run=$(python3 -c "
import json,re
c=json.load(open('$meta'))['demo_cmd']
m=re.search(r'-run\s+\'?\"?([^\s\'\"]+)',c); print(m.group(1) if m else '.')")
res() { echo "$1"; }
git apply out/m${n}.diff || { echo "RESULT m$n apply-failed"; exit 1; }
go build ./... || { echo "RESULT m$n build-failed"; git checkout -q -- .; exit 1; }
unshare -n bash -c "ip link set lo up; go test -vet=off -count=1 -timeout 10m ./... 2>&1" > out/m${n}_suite.log; suite=$?
cp $demo $dir/zz_seed_demo_test.go
unshare -n bash -c "ip link set lo up; go test -vet=off -count=1 -timeout 10m -run '$run' ./$dir/ 2>&1" > out/m${n}_demo_with.log; with=$?
git checkout -q -- .
unshare -n bash -c "ip link set lo up; go test -vet=off -count=1 -timeout 10m -run '$run' ./$dir/ 2>&1" > out/m${n}_demo_without.log; without=$?
rm -f $dir/zz_seed_demo_test.go
echo "RESULT $(basename $wt) m$n suite=$suite demo_with_change=$with demo_without_change=$without (want 0, nonzero, 0)"
