"""Build everything the checks need: Go tools, generated Coq tables, the full Coq development
(all proofs), the extracted model runner.  Offline."""
import os, sys, subprocess
ROOT = os.path.dirname(os.path.dirname(os.path.abspath(__file__)))
sys.argv = [os.path.join(ROOT, "check")]
src = open(os.path.join(ROOT, "check")).read().replace('if __name__ == "__main__":\n    main()', "")
__file__ = os.path.join(ROOT, "check")
exec(compile(src, "check", "exec"))
info = {}
with Lock("build.lock"):
    build_go(info)
    translators(info)
    ok = build_models(info)
    print("translators:", info.get("translators"))
    print("models:", info.get("models_build"))
    rc, out = run(["timeout", "7200", "make", "-j16"], cwd=COQ, timeout=7300)
    print(out[-3000:])
    # a broken proof here is reported by the individual checks, not by setup
sys.exit(0 if ok else 1)
