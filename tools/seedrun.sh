#!/bin/bash
# seedrun.sh <Cxx> <patch.diff> [tier]: apply a seeded change to /repo, run the check, undo it.
prop=$1; patch=$2; tier=${3:-quick}
cd /repo || exit 2
if ! git diff --quiet; then echo "repo dirty"; exit 2; fi
git apply "$patch" || { echo "SEEDRUN $prop $(basename $patch): patch does not apply"; exit 3; }
cd /verif && timeout 3000 ./check $prop --tier $tier > /tmp/seedrun.out 2>&1; rc=$?
git -C /repo checkout -- . ; git -C /repo clean -fdq
grep -E "VIOLATION|KNOWN-FINDING|\[check\] C" /tmp/seedrun.out | cut -c1-300
echo "SEEDRUN $prop $(basename $(dirname $patch))/$(basename $patch): exit=$rc"
