#!/bin/bash
# wave3.sh <Cxx> <A|B> <mN>: confirm a sub-agent's seeded change (deliverables in /tmp/w3-<Cxx>-out/<A|B>) in a scratch
# worktree of /repo's HEAD: applies, builds, the pinned suite passes, the demonstration fails with the change and passes
# without it; then imports it as /verif/seeded/<Cxx>-<mN>/ and runs the property's quick check against it.
id=$1; x=$2; mn=$3
out=/tmp/${WAVE:-w3}-$id-out/$x
wt=/tmp/cf-$id-$x
export PATH=/root/go/pkg/mod/golang.org/toolchain@v0.0.1-go1.24.2.linux-amd64/bin:$PATH GOFLAGS=-mod=mod GOPROXY=off
[ -f $out/patch.diff ] || { echo "RESULT $id-$x no-patch"; exit 1; }
git -C /repo worktree remove --force $wt 2>/dev/null
git -C /repo worktree add -q --detach $wt HEAD || exit 2
cleanup() { git -C /repo worktree remove --force $wt 2>/dev/null; rm -rf $wt; }
cd $wt
rebased=false
if ! git apply $out/patch.diff 2>/dev/null; then
  if git apply -3 $out/patch.diff 2>/tmp/cf-$id-$x.applylog; then rebased=true; git reset -q; else echo "RESULT $id-$x apply-failed (needs manual rebase)"; cleanup; exit 1; fi
fi
git diff > /tmp/cf-$id-$x.patch
go build ./... 2>/tmp/cf-$id-$x.buildlog || { echo "RESULT $id-$x build-failed"; cleanup; exit 1; }
unshare -n bash -c "ip link set lo up; go test -vet=off -count=1 -timeout 10m ./... 2>&1" > /tmp/cf-$id-$x.suite.log; suite=$?
# demonstration: files and where they go
pkgdir=$(grep -oE '<worktree>/[A-Za-z_/]+/[A-Za-z0-9_]+_test\.go' $out/DEMO.txt | head -1 | sed 's|<worktree>/||; s|/[^/]*$||')
[ -z "$pkgdir" ] && pkgdir=$(grep -oE '\./[a-z]+/?' $out/DEMO.txt | head -1 | tr -d './')
run=$(grep -oE -- "-run[ =]+['\"]?[A-Za-z0-9_^\$|]+" $out/DEMO.txt | head -1 | sed -E "s/-run[ =]+['\"]?//")
race=""; grep -q -- "-race" $out/DEMO.txt && race="-race"
cp $out/*_test.go $pkgdir/ 2>/dev/null
demo() { unshare -n bash -c "ip link set lo up; go test $race -vet=off -count=1 -timeout 10m -run '$run' ./$pkgdir/ 2>&1"; }
demo > /tmp/cf-$id-$x.with.log; with=$?
git apply -R /tmp/cf-$id-$x.patch
demo > /tmp/cf-$id-$x.without.log; without=$?
echo "RESULT $id-$x suite=$suite demo_with_change=$with demo_without_change=$without rebased=$rebased pkg=$pkgdir run=$run $race (want 0, nonzero, 0)"
cleanup
if [ $suite -eq 0 ] && [ $with -ne 0 ] && [ $without -eq 0 ]; then
  d=/verif/seeded/$id-$mn; mkdir -p $d
  cp /tmp/cf-$id-$x.patch $d/patch.diff
  $rebased && cp $out/patch.diff $d/patch.orig.diff
  cp $out/*_test.go $out/DEMO.txt $out/NOTES.md $d/ 2>/dev/null
  # the demonstration must not be compiled as part of /verif
  for f in $d/*_test.go; do mv $f $f.txt; done
  cd /verif && tools/seedrun2.sh $id $d/patch.diff > /tmp/cf-$id-$x.seedrun 2>&1; cat /tmp/cf-$id-$x.seedrun | tail -4
  python3 - "$id" "$mn" "$x" "$rebased" "$pkgdir" "$run" "$race" <<'EOF'
import json,sys,re
id,mn,x,rebased,pkg,run,race=sys.argv[1:8]
d='/verif/seeded/%s-%s/'%(id,mn)
notes=open(d+'NOTES.md').read()
sr=open('/tmp/cf-%s-%s.seedrun'%(id,x)).read()
viol=[l for l in sr.splitlines() if 'VIOLATION' in l]
nofail='no-failing-input-found' in sr
rc=re.search(r'exit=(\d+)',sr)
import os
meta={"property":id,"origin":"wave %s sub-agent (given only the property text and a scratch worktree), change %s"%(os.environ.get("WAVE","w3")[1:],x),
 "what_it_breaks_and_needs":notes[:1800],
 "agent_demo":"go test %s -vet=off -count=1 -run %s ./%s/ (demo file: *_test.go.txt in this directory, copy into %s/)"%(race,run,pkg,pkg),
 "confirmed":"tools/wave3.sh: applied to a scratch worktree of /repo HEAD, go build ok, pinned suite passes with it (private netns), demonstration fails with the change and passes without it",
 "rebased":rebased=="true",
 "ran":"tools/seedrun.sh %s seeded/%s-%s/patch.diff"%(id,id,mn),
 "result":("detected: exit 1, " + ("VIOLATION ... no-failing-input-found" if nofail else "VIOLATION with a concrete failing input as replay")) if viol else "MISSED (exit %s)"%(rc.group(1) if rc else "?")}
json.dump(meta,open(d+'meta.json','w'),indent=1)
print("META",id,mn,meta["result"])
EOF
fi
