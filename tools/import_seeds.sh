#!/bin/bash
# import_seeds.sh <Cxx>: copy a sub-agent's confirmed mutants from /tmp/seed/<Cxx>/out into /verif/seeded/<Cxx>-mN/
p=$1
for n in 1 2 3; do
  src=/tmp/seed/$p/out
  [ -f $src/m$n.diff ] || continue
  d=/verif/seeded/$p-m$n; mkdir -p $d
  cp $src/m$n.diff $d/patch.diff
  cp $src/m${n}_demo_test.go $d/m${n}_demo_test.go
  cp $src/m${n}_meta.json $d/agent_meta.json
  if ! git -C /repo apply --check $d/patch.diff 2>/dev/null; then echo "$p-m$n: patch does not apply to current /repo HEAD (needs rebase)"; fi
done
ls /verif/seeded | grep $p
