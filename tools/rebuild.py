#!/usr/bin/env python3
# rebuild everything a check needs (go binaries, generated tables, Coq, extraction) without running a check
import os
src = open('/verif/check').read()
src = src[:src.rindex('if __name__')]
__file__ = '/verif/check'
exec(compile(src, '/verif/check', 'exec'))
info = {}
with Lock("build.lock"):
    build_go(info); translators(info); build_models(info)
print("built")
