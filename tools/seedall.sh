#!/bin/bash
# seedall.sh: run every seeded change against its property's quick check; one summary line each
cd /verif
for d in seeded/C*; do
  n=$(basename $d); p=${n%%-*}
  if ! git -C /repo apply --check /verif/$d/patch.diff 2>/dev/null; then echo "SEEDALL $n does-not-apply"; continue; fi
  out=$(tools/seedrun.sh $p /verif/$d/patch.diff 2>&1)
  rc=$(echo "$out" | grep -o "exit=[0-9]*" | tail -1)
  nf=$(echo "$out" | grep -c "no-failing-input-found")
  echo "SEEDALL $n $rc nofail=$nf $(echo "$out" | grep '\[check\]' | tail -1 | cut -c1-120)"
done
