#!/bin/bash
# seedall.sh [pattern]: run every seeded change against its property's quick check (isolated: tools/seedrun2.sh);
# one summary line each.  The committed state of /verif is what runs.
cd /verif
for d in seeded/${1:-C}*; do
  n=$(basename $d); p=${n%%-*}
  out=$(tools/seedrun2.sh $p /verif/$d/patch.diff 2>&1)
  rc=$(echo "$out" | grep -o "exit=[0-9]*" | tail -1)
  nf=$(echo "$out" | grep -c "no-failing-input-found")
  echo "SEEDALL $n $rc nofail=$nf $(echo "$out" | grep '\[check\]' | tail -1 | cut -c1-120) $(echo "$out" | grep -o 'patch does not apply')"
done
