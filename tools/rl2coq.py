#!/usr/bin/env python3
"""rl2coq.py <lexer.rl> <out.v>: translate the scanner of parser/lexer.rl (a Ragel subset) into a
Coq list of (regular expression, action) pairs in rule order.

Recognised subset: named definitions `name = expr;`, the scanner `main := |* expr => { action }; ... *|;`,
expressions built from alternation `|`, concatenation, postfix `? * + {n}`, parentheses, single- or
double-quoted literals (with backslash escapes), `[...]` classes with ranges, escapes and leading `^`,
`/literal/i` case-insensitive literals, the builtins `digit`, `any`, `alpha`, `alnum`, `space`, and
references to earlier definitions.  Actions: `tk = tkName` (token), optional `l.id = l.data[ts:te]`
(identifier text kept), `fbreak`; an action without a token assignment is a skip rule.
Anything else makes the translator decline (exit 1) so that the check falls back to the baseline copy."""
import re, sys

class Decline(Exception):
    pass

def die(msg):
    raise Decline(msg)

# ---------------------------------------------------------------- tokenizer of Ragel expressions
def lex_expr(s):
    toks, i = [], 0
    while i < len(s):
        c = s[i]
        if c.isspace():
            i += 1
        elif c in "'\"":
            j, out = i + 1, []
            while j < len(s) and s[j] != c:
                if s[j] == '\\':
                    j += 1
                    out.extend(escape(s[j]))
                else:
                    out.extend(s[j].encode('utf-8'))
                j += 1
            if j >= len(s):
                die("unterminated literal")
            toks.append(('lit', out))
            i = j + 1
        elif c == '[':
            j = i + 1
            items = []
            neg = False
            if s[j] == '^':
                neg = True
                j += 1
            while s[j] != ']':
                if s[j] == '\\':
                    j += 1
                    items.append(escape(s[j])[0])
                else:
                    b = s[j].encode('utf-8')
                    if len(b) != 1:
                        die("non-ASCII byte in class")
                    items.append(b[0])
                j += 1
                if s[j] == '-' and s[j + 1] != ']':
                    j += 1
                    if s[j] == '\\':
                        j += 1
                        hi = escape(s[j])[0]
                    else:
                        hi = ord(s[j])
                    j += 1
                    lo = items.pop()
                    items.append((lo, hi))
            ranges = [(x, x) if isinstance(x, int) else x for x in items]
            toks.append(('cls', (neg, ranges)))
            i = j + 1
        elif c == '/':
            j = s.index('/', i + 1)
            body = s[i + 1:j]
            if s[j + 1:j + 2] != 'i':
                die("regex literal without /i")
            toks.append(('ilit', list(body.encode('utf-8'))))
            i = j + 2
        elif c in '|()?*+':
            toks.append((c, None))
            i += 1
        elif c == '{':
            j = s.index('}', i)
            toks.append(('rep', int(s[i + 1:j])))
            i = j + 1
        elif c.isalpha() or c == '_':
            j = i
            while j < len(s) and (s[j].isalnum() or s[j] == '_'):
                j += 1
            toks.append(('name', s[i:j]))
            i = j
        else:
            die("unexpected character %r in expression %r" % (c, s))
    return toks

def escape(c):
    return {'n': [10], 'r': [13], 't': [9], '0': [0]}.get(c, list(c.encode('utf-8')))

# ---------------------------------------------------------------- regex AST (Python side)
def lit(bs):
    r = ('eps',)
    for b in reversed(bs):
        r = cat(('cls', [(b, b)]), r)
    return r

def ilit(bs):
    r = ('eps',)
    for b in reversed(bs):
        if 65 <= b <= 90 or 97 <= b <= 122:
            lo = b | 0x20
            c = ('cls', [(lo - 32, lo - 32), (lo, lo)])
        else:
            c = ('cls', [(b, b)])
        r = cat(c, r)
    return r

def cat(a, b):
    if b == ('eps',):
        return a
    if a == ('eps',):
        return b
    return ('cat', a, b)

def alt(a, b):
    return ('alt', a, b)

def negate(ranges):
    out, lo = [], 0
    for a, b in sorted(ranges):
        if a > lo:
            out.append((lo, a - 1))
        lo = max(lo, b + 1)
    if lo <= 255:
        out.append((lo, 255))
    return out

BUILTIN = {
    'digit': ('cls', [(48, 57)]), 'any': ('cls', [(0, 255)]), 'alpha': ('cls', [(65, 90), (97, 122)]),
    'alnum': ('cls', [(48, 57), (65, 90), (97, 122)]), 'space': ('cls', [(9, 13), (32, 32)]),
}

class P:
    def __init__(self, toks, defs):
        self.t, self.i, self.defs = toks, 0, defs
    def peek(self):
        return self.t[self.i] if self.i < len(self.t) else (None, None)
    def alt(self):
        r = self.seq()
        while self.peek()[0] == '|':
            self.i += 1
            r = alt(r, self.seq())
        return r
    def seq(self):
        r = None
        while self.peek()[0] not in (None, '|', ')'):
            x = self.post()
            r = x if r is None else cat(r, x)
        if r is None:
            die("empty sequence")
        return r
    def post(self):
        a = self.atom()
        while True:
            k, v = self.peek()
            if k == '?':
                a = alt(a, ('eps',))
            elif k == '*':
                a = ('star', a)
            elif k == '+':
                a = cat(a, ('star', a))
            elif k == 'rep':
                r = ('eps',)
                for _ in range(v):
                    r = cat(a, r)
                a = r
            else:
                return a
            self.i += 1
    def atom(self):
        k, v = self.peek()
        self.i += 1
        if k == 'lit':
            return lit(v)
        if k == 'ilit':
            return ilit(v)
        if k == 'cls':
            neg, ranges = v
            return ('cls', negate(ranges) if neg else sorted(ranges))
        if k == 'name':
            if v in self.defs:
                return self.defs[v]
            if v in BUILTIN:
                return BUILTIN[v]
            die("unknown name %s" % v)
        if k == '(':
            r = self.alt()
            if self.peek()[0] != ')':
                die("missing )")
            self.i += 1
            return r
        die("unexpected token %s" % k)

def coq(r):
    k = r[0]
    if k == 'eps':
        return 'Eps'
    if k == 'cls':
        return '(Cls [' + '; '.join('(%d, %d)' % ab for ab in r[1]) + '])'
    if k == 'cat':
        return '(Cat %s %s)' % (coq(r[1]), coq(r[2]))
    if k == 'alt':
        return '(Alt %s %s)' % (coq(r[1]), coq(r[2]))
    if k == 'star':
        return '(Star %s)' % coq(r[1])
    die("bad node")

def main():
    src = open(sys.argv[1], encoding='utf-8').read()
    # token enum: the first const ( ... ) block with `tkInvalid token = iota`
    m = re.search(r'const \(\s*tkInvalid token = iota(.*?)\)', src, re.S)
    if not m:
        die("token enum not found")
    names = ['tkInvalid'] + [l.strip() for l in m.group(1).splitlines() if l.strip() and not l.strip().startswith('//')]
    enum = {n: i for i, n in enumerate(names)}
    for a, b in re.findall(r'^\s*(tk\w+)\s*=\s*(tk\w+)\s*$', src, re.M):
        if b in enum:
            enum[a] = enum[b]
    body = src[src.index('%%{', src.index('func (l *lexer) next()')):]
    body = body[3:body.index('}%%')]
    mm = re.search(r'main\s*:=\s*\|\*(.*?)\*\|\s*;', body, re.S)
    if not mm:
        die("scanner main := |* ... *| not found")
    defs_src = body[:mm.start()]
    defs = {}
    for stmt in split_statements(defs_src):
        if not stmt.strip():
            continue
        d = re.match(r'\s*(\w+)\s*=\s*(.*)$', stmt, re.S)
        if not d:
            die("cannot parse definition %r" % stmt[:40])
        p = P(lex_expr(d.group(2)), defs)
        defs[d.group(1)] = p.alt()
        if p.i != len(p.t):
            die("trailing tokens in definition %s" % d.group(1))
    rules = []
    for stmt in split_rules(mm.group(1)):
        e, act = stmt
        p = P(lex_expr(e), defs)
        r = p.alt()
        if p.i != len(p.t):
            die("trailing tokens in rule %r" % e)
        tk = re.search(r'\btk\s*=\s*(tk\w+)', act)
        keep = 'l.id' in act
        rest = re.sub(r'/\*.*?\*/', '', act, flags=re.S)
        rest = re.sub(r'\btk\s*=\s*tk\w+\s*;|l\.id\s*=\s*l\.data\[ts:te\]\s*;|fbreak\s*;', '', rest).strip()
        if rest:
            die("unsupported action %r" % act.strip())
        if tk:
            if tk.group(1) not in enum:
                die("unknown token %s" % tk.group(1))
            if 'fbreak' not in act:
                die("token rule without fbreak")
            rules.append((r, enum[tk.group(1)], keep, e.strip()))
        else:
            rules.append((r, None, False, e.strip()))
    out = ["(* GENERATED by tools/rl2coq.py from parser/lexer.rl -- do not edit *)",
           "From Coq Require Import List NArith.", "From CqlProxy Require Import Lib.Regex.", "Import ListNotations.", "Local Open Scope N_scope.", "",
           "(* (regular expression, action): Tok n keep_text | Skip ; in rule order (earlier rule wins a tie) *)",
           "Definition lex_rules : list (re * lex_action) :="]
    lines = []
    for r, tk, keep, e in rules:
        a = "Skip" if tk is None else "Tok %d %s" % (tk, "true" if keep else "false")
        lines.append("  (%s, %s) (* %s *)" % (coq(r), a, e.replace('*)', '* )').replace('(*', '( *')))
    out.append("  [\n" + ";\n".join(lines) + "\n  ].")
    out.append("")
    for n in ['tkInvalid', 'tkEOF', 'tkSelect', 'tkInsert', 'tkUpdate', 'tkDelete', 'tkBegin', 'tkApply', 'tkBatch', 'tkCreate', 'tkAlter', 'tkDrop',
              'tkInto', 'tkFrom', 'tkUse', 'tkUsing', 'tkIf', 'tkWhere', 'tkAnd', 'tkToken', 'tkIs', 'tkIn', 'tkNot', 'tkIdentifier', 'tkStar', 'tkComma',
              'tkDot', 'tkColon', 'tkQMark', 'tkEqual', 'tkAdd', 'tkSub', 'tkAddEqual', 'tkSubEqual', 'tkNotEqual', 'tkGt', 'tkLt', 'tkLtEqual', 'tkGtEqual',
              'tkLparen', 'tkRparen', 'tkLsquare', 'tkRsquare', 'tkLcurly', 'tkRcurly', 'tkInteger', 'tkFloat', 'tkBool', 'tkNull', 'tkStringLiteral',
              'tkHexNumber', 'tkUuid', 'tkDuration', 'tkNan', 'tkInfinity', 'tkEOS']:
        if n not in enum:
            die("token %s missing from the enum" % n)
        out.append("Definition %s : N := %d." % (n, enum[n]))
    open(sys.argv[2], 'w').write("\n".join(out) + "\n")

def split_statements(s):
    """split on ';' outside quotes, classes and /regex/"""
    out, cur, i = [], [], 0
    while i < len(s):
        c = s[i]
        if c in "'\"":
            j = i + 1
            while s[j] != c:
                j += 2 if s[j] == '\\' else 1
            cur.append(s[i:j + 1]); i = j + 1
        elif c == '[':
            j = i + 1
            while s[j] != ']':
                j += 2 if s[j] == '\\' else 1
            cur.append(s[i:j + 1]); i = j + 1
        elif c == '/':
            j = s.index('/', i + 1)
            cur.append(s[i:j + 1]); i = j + 1
        elif c == ';':
            out.append(''.join(cur)); cur = []; i += 1
        else:
            cur.append(c); i += 1
    if ''.join(cur).strip():
        out.append(''.join(cur))
    return out

def split_rules(s):
    """rules: expr => { action };"""
    out, i = [], 0
    while True:
        # find '=>' outside quotes
        j, depth = i, 0
        start = i
        found = None
        while j < len(s):
            c = s[j]
            if c in "'\"":
                k = j + 1
                while s[k] != c:
                    k += 2 if s[k] == '\\' else 1
                j = k + 1
            elif c == '[':
                k = j + 1
                while s[k] != ']':
                    k += 2 if s[k] == '\\' else 1
                j = k + 1
            elif c == '/':
                j = s.index('/', j + 1) + 1
            elif s[j:j + 2] == '=>':
                found = j
                break
            else:
                j += 1
        if found is None:
            if s[start:].strip():
                die("trailing text in scanner: %r" % s[start:].strip()[:40])
            return out
        expr = s[start:found]
        b = s.index('{', found)
        d, k = 0, b
        while True:
            if s[k] == '{':
                d += 1
            elif s[k] == '}':
                d -= 1
                if d == 0:
                    break
            k += 1
        act = s[b + 1:k]
        semi = s.index(';', k)
        out.append((expr, act))
        i = semi + 1

if __name__ == '__main__':
    try:
        main()
    except Decline as e:
        print("rl2coq: declined: %s" % e)
        sys.exit(1)
    except Exception as e:  # noqa
        print("rl2coq: declined: %s: %s" % (type(e).__name__, e))
        sys.exit(1)
