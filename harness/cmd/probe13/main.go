package main

import (
	"fmt"
	"time"

	"github.com/datastax/cql-proxy/proxy"
)

func main() {
	for _, next := range []bool{true, false} {
		for _, n := range []int{1, 3} {
			rep, ret := proxy.VerifExecuteWithoutConn(next, n, 2*time.Second)
			fmt.Printf("next=%v hosts=%d replies=%d returned=%v\n", next, n, rep, ret)
		}
	}
}
