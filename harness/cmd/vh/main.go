// vh: drives the real cql-proxy code for one property and prints one case per line
// (input TAB impl_output [TAB note]) in the value syntax of Lib/Val.v.
//
//	vh <property> <quick|thorough> <seed> <outfile> [replay-input]
package main

import (
	"bufio"
	"encoding/json"
	"fmt"
	"os"
	"sort"
	"strconv"

	"verifharness/hv"
)

type Ctx struct {
	Prop     string
	Tier     string
	Seed     uint64
	Rng      *hv.Rng
	w        *bufio.Writer
	N        int
	Stats    map[string]int
	Replay   string
	Thorough bool
	WorkDir  string
}

func (c *Ctx) Emit(in, out hv.V, note string) {
	c.w.WriteString(hv.Case(in, out, note))
	c.w.WriteByte('\n')
	c.N++
}

func (c *Ctx) Count(key string) { c.Stats[key]++ }

// Scale picks the quick or the thorough size.
func (c *Ctx) Scale(quick, thorough int) int {
	if c.Thorough {
		return thorough
	}
	return quick
}

var props = map[string]func(*Ctx){}

func main() {
	if len(os.Args) < 5 {
		fmt.Fprintln(os.Stderr, "usage: vh <property> <quick|thorough> <seed> <outfile> [replay-input]")
		os.Exit(2)
	}
	seed, _ := strconv.ParseUint(os.Args[3], 10, 64)
	f, err := os.Create(os.Args[4])
	if err != nil {
		fmt.Fprintln(os.Stderr, err)
		os.Exit(2)
	}
	ctx := &Ctx{Prop: os.Args[1], Tier: os.Args[2], Seed: seed, Rng: hv.NewRng(seed), w: bufio.NewWriterSize(f, 1<<20),
		Stats: map[string]int{}, Thorough: os.Args[2] == "thorough", WorkDir: os.Args[4] + ".d"}
	if len(os.Args) > 5 {
		ctx.Replay = os.Args[5]
	}
	_ = os.MkdirAll(ctx.WorkDir, 0o755)
	gen, ok := props[ctx.Prop]
	if !ok {
		fmt.Fprintln(os.Stderr, "vh: unknown property", ctx.Prop)
		os.Exit(2)
	}
	gen(ctx)
	ctx.w.Flush()
	f.Close()
	keys := make([]string, 0, len(ctx.Stats))
	for k := range ctx.Stats {
		keys = append(keys, k)
	}
	sort.Strings(keys)
	st, _ := json.Marshal(map[string]interface{}{"cases": ctx.N, "distribution": ctx.Stats})
	_ = os.WriteFile(os.Args[4]+".stats.json", st, 0o644)
}
