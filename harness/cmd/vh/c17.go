package main

// C17: the real cql-proxy binary as a subprocess in front of the fake backend, a canary client
// issuing a system query and a forwarded query after every hostile action.  Hostile actions:
// client byte streams (mutated headers, truncated frames, mutated bodies of every request kind,
// wrong-direction opcodes, hostile strings in keyspace / query / identifier positions, deep
// nesting up to a 16 MiB frame) under several maximum-version settings, and backend replies
// (wrong stream ids, wrong opcodes, short and flagged ERROR bodies, garbage, bad lengths,
// garbage EVENT frames on the control connection).
//
// One case per action: input (config action-kind descriptor) -> output (process-alive
// persistent-canary-ok fresh-canary-ok offending-connection-answered-or-closed).

import (
	"bytes"
	"context"
	"encoding/binary"
	"fmt"
	"net"
	"os"
	"os/exec"
	"path/filepath"
	"strings"
	"sync"
	"sync/atomic"
	"syscall"
	"time"

	"verifharness/fb"
	"verifharness/hv"
	"verifharness/px"

	"github.com/datastax/cql-proxy/codecs"
	"github.com/datastax/cql-proxy/proxycore"
	"github.com/datastax/go-cassandra-native-protocol/frame"
	"github.com/datastax/go-cassandra-native-protocol/message"
	"github.com/datastax/go-cassandra-native-protocol/primitive"
)

func init() { props["C17"] = genC17 }

type c17Proc struct {
	be      *fb.Backend
	cmd     *exec.Cmd
	addr    string
	stderr  *lockedBuf
	exited  chan struct{}
	canary  *px.Client
	cver    primitive.ProtocolVersion // version the canary speaks
	seq     int
	cfgName string
}

type lockedBuf struct {
	mu sync.Mutex
	b  bytes.Buffer
}

func (l *lockedBuf) Write(p []byte) (int, error) {
	l.mu.Lock()
	defer l.mu.Unlock()
	if l.b.Len() < 1<<20 {
		l.b.Write(p)
	}
	return len(p), nil
}
func (l *lockedBuf) String() string { l.mu.Lock(); defer l.mu.Unlock(); return l.b.String() }

type c17Cfg struct {
	name     string
	proxyVer string // --protocol-version
	proxyMax string // --max-protocol-version
	beMax    primitive.ProtocolVersion
	canary   primitive.ProtocolVersion
	clients  []primitive.ProtocolVersion // versions hostile clients try
}

var c17Cfgs = []c17Cfg{
	{"max-v4", "v4", "v4", 4, 4, []primitive.ProtocolVersion{3, 4, 5, 66}},
	{"max-v3", "v3", "v3", 4, 3, []primitive.ProtocolVersion{3, 4}},
	{"max-v5", "v4", "v5", 5, 4, []primitive.ProtocolVersion{4, 5}},
	{"max-dse2", "v4", "DSEv2", 66, 4, []primitive.ProtocolVersion{4, 5, 65, 66}},
	{"max-v5-backend-v4", "v4", "v5", 4, 4, []primitive.ProtocolVersion{4, 5}},
	{"max-dse1-backend-v4", "v4", "DSEv1", 4, 4, []primitive.ProtocolVersion{4, 65}},
}

func startC17(cfg c17Cfg) *c17Proc {
	prefix, port := px.Alloc()
	be := fb.New(prefix, port)
	be.MaxVersion = cfg.beMax
	for h := 1; h <= 2; h++ {
		if err := be.StartHost(h); err != nil {
			panic(err)
		}
	}
	be.SetTopology(1, 2)
	addr := fmt.Sprintf("%s220:%d", prefix, port+7)
	self, _ := os.Executable()
	cmd := exec.Command(filepath.Join(filepath.Dir(self), "cql-proxy"),
		"--contact-points", be.IP(1), "--port", fmt.Sprint(port), "--bind", addr,
		"--protocol-version", cfg.proxyVer, "--max-protocol-version", cfg.proxyMax,
		"--heartbeat-interval", "150ms", "--idle-timeout", "3s")
	cmd.Env = []string{"PATH=" + os.Getenv("PATH"), "HOME=" + os.Getenv("HOME")}
	p := &c17Proc{be: be, cmd: cmd, addr: addr, stderr: &lockedBuf{}, exited: make(chan struct{}), cver: cfg.canary, cfgName: cfg.name}
	cmd.Stderr = p.stderr
	cmd.Stdout = p.stderr
	if err := cmd.Start(); err != nil {
		panic(err)
	}
	go func() { _ = cmd.Wait(); close(p.exited) }()
	deadline := time.Now().Add(15 * time.Second)
	for {
		cl, err := px.Dial(addr)
		if err == nil {
			if err := cl.Startup(cfg.canary, ""); err == nil {
				p.canary = cl
				break
			}
			cl.Close()
		}
		if time.Now().After(deadline) || !p.alive() {
			panic("C17: the proxy did not start: " + p.stderr.String())
		}
		time.Sleep(10 * time.Millisecond)
	}
	return p
}

func (p *c17Proc) alive() bool {
	select {
	case <-p.exited:
		return false
	default:
		return true
	}
}

func (p *c17Proc) stop() {
	if p.canary != nil {
		p.canary.Close()
	}
	if p.alive() {
		_ = p.cmd.Process.Signal(os.Interrupt)
		select {
		case <-p.exited:
		case <-time.After(3 * time.Second):
			_ = p.cmd.Process.Kill()
		}
	}
	p.be.Shutdown()
}

// canaryOn: one system query answered by the proxy and one forwarded query answered by the backend
func (p *c17Proc) canaryOn(cl *px.Client) bool {
	p.seq++
	st := int16(1 + p.seq%30000)
	_ = cl.Send(p.cver, st, &message.Query{Query: "SELECT key, rpc_address FROM system.local", Options: &message.QueryOptions{}})
	if !c17Expect(cl, st, byte(primitive.OpCodeResult), 6*time.Second) {
		return false
	}
	tok := fmt.Sprintf("cny%d", p.seq)
	_ = cl.Send(p.cver, st+1, &message.Query{Query: "SELECT v FROM ks.t WHERE k = 'tok:" + tok + "'", Options: &message.QueryOptions{}})
	deadline := time.Now().Add(8 * time.Second)
	for time.Now().Before(deadline) {
		f, err := cl.Next(time.Until(deadline))
		if err != nil || f == nil {
			return false
		}
		if f.Stream != st+1 {
			continue
		}
		if f.Opcode == byte(primitive.OpCodeResult) {
			return bytes.Contains(f.Body, []byte(tok))
		}
		// an error while the backend connection is being replaced: try again
		time.Sleep(50 * time.Millisecond)
		_ = cl.Send(p.cver, st+1, &message.Query{Query: "SELECT v FROM ks.t WHERE k = 'tok:" + tok + "'", Options: &message.QueryOptions{}})
	}
	return false
}

func c17Expect(cl *px.Client, st int16, opcode byte, limit time.Duration) bool {
	deadline := time.Now().Add(limit)
	for time.Now().Before(deadline) {
		f, err := cl.Next(time.Until(deadline))
		if err != nil || f == nil {
			return false
		}
		if f.Stream == st {
			return f.Opcode == opcode
		}
	}
	return false
}

func (p *c17Proc) freshCanary() bool {
	cl, err := px.Dial(p.addr)
	if err != nil {
		return false
	}
	defer cl.Close()
	if err := cl.Startup(p.cver, ""); err != nil {
		return false
	}
	return p.canaryOn(cl)
}

// verdict after one hostile action
func (p *c17Proc) verdict(ctx *Ctx, kind int, desc string, offending bool, note string) {
	time.Sleep(5 * time.Millisecond)
	alive := p.alive()
	pc, fc := false, false
	if alive {
		pc = p.canaryOn(p.canary)
		if !pc {
			// the persistent canary's own connection must not have been disturbed; reconnect it so that later cases are judged on their own
			p.canary.Close()
			if cl, err := px.Dial(p.addr); err == nil && cl.Startup(p.cver, "") == nil {
				p.canary = cl
			}
		}
		fc = p.freshCanary()
		alive = p.alive()
	}
	if !alive {
		tail := p.stderr.String()
		if i := strings.Index(tail, "panic:"); i >= 0 {
			tail = tail[i:]
		} else if i := strings.Index(tail, "fatal error:"); i >= 0 {
			tail = tail[i:]
		}
		if len(tail) > 400 {
			tail = tail[:400]
		}
		note += " PROCESS EXITED: " + strings.ReplaceAll(strings.ReplaceAll(tail, "\n", " | "), "\t", " ")
	}
	ctx.Emit(hv.L(hv.S(p.cfgName), hv.I(int64(kind)), hv.S(desc)), hv.L(hv.Bool(alive), hv.Bool(pc), hv.Bool(fc), hv.Bool(offending)), note)
	ctx.Count(fmt.Sprintf("kind%d:%s", kind, strings.SplitN(note, " ", 2)[0]))
}

// hostile client stream: write the bytes on a fresh socket (optionally after a proper STARTUP),
// then see whether the connection is answered or closed.  complete=false means the stream
// ends inside a frame, where waiting for more bytes is legitimate.
func (p *c17Proc) clientStream(ctx *Ctx, kind int, desc string, startup primitive.ProtocolVersion, stream []byte, complete bool, note string) {
	if !p.alive() {
		return
	}
	cl, err := px.Dial(p.addr)
	offending := true
	if err == nil {
		started := true
		if startup != 0 {
			started = cl.Startup(startup, "") == nil
		}
		if started {
			_ = cl.SendRaw(stream)
			if complete {
				// a length field of 2^31-1 inside a small frame makes the reference decoder allocate that much before it
				// notices the short input, which can take seconds: slow, but answered
				f, err := cl.Next(30 * time.Second)
				offending = f != nil || err != nil // answered, or closed
				if !offending && p.alive() && os.Getenv("VH_DEBUG") != "" {
					// diagnostics: what every goroutine of the proxy is doing right now (this ends the proxy process)
					fmt.Fprintf(os.Stderr, "DEBUG c17: no answer to %s\n", desc)
					snap := p.be.Snapshot()
					for i := max(0, len(snap)-25); i < len(snap); i++ {
						x := snap[i]
						fmt.Fprintf(os.Stderr, "DEBUG c17 backend log: #%d %s host=%s conn=%d stream=%d opcode=%d tok=%q id=%s attempt=%d\n", x.Seq, x.Kind, x.Host, x.ConnID, x.Stream, x.Opcode, x.Token, x.PreparedID, x.Attempt)
					}
					_ = p.cmd.Process.Signal(syscall.SIGQUIT)
					time.Sleep(2 * time.Second)
					fmt.Fprintf(os.Stderr, "DEBUG c17 proxy stderr:\n%s\n", p.stderr.String())
					os.Exit(3)
				}
			} else {
				f, err := cl.Next(150 * time.Millisecond)
				_ = f
				_ = err
			}
		}
		cl.Close()
	}
	p.verdict(ctx, kind, desc, offending, note)
}

func frameBytes(version byte, flags byte, stream int16, opcode byte, body []byte) []byte {
	return px.FrameBytes(version, flags, stream, opcode, body)
}

func encBody(v primitive.ProtocolVersion, msg message.Message) []byte {
	var buf bytes.Buffer
	cl := &px.Client{}
	_ = cl
	raw := (&px.Client{Codec: frame.NewRawCodec()}).Encode(v, 1, msg, nil)
	buf.Write(raw[9:])
	return buf.Bytes()
}

func longString(s string) []byte {
	b := make([]byte, 4+len(s))
	binary.BigEndian.PutUint32(b, uint32(len(s)))
	copy(b[4:], s)
	return b
}

func shortString(s string) []byte {
	b := make([]byte, 2+len(s))
	binary.BigEndian.PutUint16(b, uint16(len(s)))
	copy(b[2:], s)
	return b
}

var c17Hostile = []string{"\"", "\"\"", "\"\"\"", "'", "", " ", "\x00", "a\x00b", "\"a", "a\"", "\"\"\"\"", strings.Repeat("k", 70000)[:65535], "\xff\xfe", "システム", "system", "SYSTEM", "\"system\"", "system.local", ";", "--", "/*", "$$", "ks; DROP", "\n", "\"\n\""}

// c17SysRows: malformed rows in the answers to the proxy's OWN system-table queries.  The control connection is dropped;
// the proxy reconnects it (after its reconnect delay of about two seconds) and reads system.local / system.peers again, now
// malformed.  One proxy process per shape, all at once.
func c17SysRows(ctx *Ctx) {
	shapes := []string{1: "system.local row with a null rpc_address", 2: "system.local row with a null data_center",
		3: "system.local row with rpc_address 0.0.0.0", 4: "system.local row with a three-byte rpc_address", 5: "system.local answered with zero rows",
		6: "system.local answered with a VOID result", 7: "system.local row with a null partitioner", 8: "system.peers rows with a null rpc_address",
		9: "system.peers rows with a null data_center", 10: "system.local answered with two rows", 11: "system.peers answered with a VOID result"}
	procs := map[int]*c17Proc{}
	for mode := 1; mode < len(shapes); mode++ {
		procs[mode] = startC17(c17Cfgs[0])
	}
	for mode, p := range procs {
		p.be.SetSysHostile(mode)
		p.be.DropRegistered()
	}
	time.Sleep(2800 * time.Millisecond)
	for _, p := range procs {
		p.be.SetSysHostile(0)
		p.be.DropRegistered()
	}
	deadline := time.Now().Add(6 * time.Second)
	for mode := 1; mode < len(shapes); mode++ {
		p := procs[mode]
		for p.be.ControlReady() == 0 && time.Now().Before(deadline) && p.alive() {
			time.Sleep(20 * time.Millisecond)
		}
		p.verdict(ctx, 13, shapes[mode], true, "hostile-system-table-rows")
		p.stop()
	}
}

// c17NoReader: a client that pipelines thousands of forwarded requests with large answers and does not read them, but
// stays connected.  Other clients must keep being served meanwhile, and afterwards.
func c17NoReader(ctx *Ctx) {
	p := startC17(c17Cfgs[0])
	defer p.stop()
	conn, err := net.DialTimeout("tcp", p.addr, 5*time.Second)
	if err != nil {
		panic(err)
	}
	defer conn.Close()
	hostile := &px.Client{C: conn, Codec: codecs.DefaultRawCodec}
	_, _ = conn.Write(hostile.Encode(p.cver, 1, message.NewStartup(), nil))
	if _, err := px.ReadFrame(conn); err != nil {
		panic("c17: startup of the non-reading client")
	}
	big := append([]byte{0, 0, 0, 1}, make([]byte, 16000)...)
	n := 3000
	go func() {
		for i := 0; i < n; i++ {
			tok := fmt.Sprintf("nr%dx%d", ctx.Seed%1000, i)
			p.be.SetScript(tok, fb.Outcome{Kind: fb.RawReply, RawOpcode: 8, RawBody: big})
			q := hostile.Encode(p.cver, int16(1+i%20000), &message.Query{Query: "SELECT v FROM ks.t WHERE k = 'tok:" + tok + "'", Options: &message.QueryOptions{}}, nil)
			if _, err := conn.Write(q); err != nil {
				return
			}
		}
	}()
	time.Sleep(1500 * time.Millisecond)
	p.verdict(ctx, 14, fmt.Sprintf("a client with %d pipelined requests (16 KB answers) that does not read them and stays connected", n), true, "client-that-does-not-read")
	_ = conn.Close()
	time.Sleep(500 * time.Millisecond)
	p.verdict(ctx, 15, "after the client that did not read has gone", true, "after-client-that-does-not-read")
}

// c17FailedSession: clients speaking a protocol version the proxy accepts but the backend does not (proxy maximum DSEv1,
// backend v4).  Every new (version, keyspace) pair makes the proxy create a session whose pools all fail critically;
// whatever the client is told, the process must survive the requests that follow.
func c17FailedSession(ctx *Ctx) {
	var cfg c17Cfg
	for _, c := range c17Cfgs {
		if c.name == "max-dse1-backend-v4" {
			cfg = c
		}
	}
	p := startC17(cfg)
	defer p.stop()
	for i := 0; i < ctx.Scale(12, 60) && p.alive(); i++ {
		cl, err := px.Dial(p.addr)
		offending := true
		if err == nil {
			if cl.Startup(primitive.ProtocolVersionDse1, "") == nil {
				_ = cl.Send(primitive.ProtocolVersionDse1, 1, &message.Query{Query: fmt.Sprintf("USE fs%d", i), Options: &message.QueryOptions{}})
				_, _ = cl.Next(3 * time.Second)
				for k := 0; k < 3; k++ {
					_ = cl.Send(primitive.ProtocolVersionDse1, int16(2+k), &message.Query{Query: fmt.Sprintf("SELECT v FROM ks.t WHERE k = 'tok:fs%dx%d'", i, k), Options: &message.QueryOptions{}})
					f, err := cl.Next(3 * time.Second)
					offending = f != nil || err != nil
				}
			}
			cl.Close()
		}
		p.verdict(ctx, 16, fmt.Sprintf("DSEv1 client %d over a v4 backend: USE, then three requests", i), offending, "session-whose-pools-fail")
	}
}

// c17SessionRace: the same, in process and with the scheduling made unlucky on purpose: ConnectSession reaches its select
// only after every pool has failed (hook verifPoint "session-select", 60 ms), so that "all pools done" and "a pool failed
// critically" are both ready.  A session that is handed out although it has no usable pool must still not crash the
// process when a request is sent through it (the panic would be in the caller's goroutine: it is recovered and reported).
func c17SessionRace(ctx *Ctx) {
	prefix, port := px.Alloc()
	be := fb.New(prefix, port)
	be.MaxVersion = primitive.ProtocolVersion4
	for h := 1; h <= 2; h++ {
		if err := be.StartHost(h); err != nil {
			panic(err)
		}
	}
	be.SetTopology(1, 2)
	defer be.Shutdown()
	c, cancel := context.WithCancel(context.Background())
	defer cancel()
	rp := proxycore.NewReconnectPolicyWithDelays(20*time.Millisecond, 200*time.Millisecond)
	cluster, err := proxycore.ConnectCluster(c, proxycore.ClusterConfig{Version: primitive.ProtocolVersion4,
		Resolver: proxycore.NewResolverWithDefaultPort([]string{be.IP(1)}, be.Port), ReconnectPolicy: rp,
		ConnectTimeout: 3 * time.Second, HeartBeatInterval: 30 * time.Second, IdleTimeout: 60 * time.Second})
	if err != nil {
		panic(err)
	}
	proxycore.VerifAtPoint.Store(func(name string) {
		if name == "session-select" {
			time.Sleep(60 * time.Millisecond)
		}
	})
	defer proxycore.VerifAtPoint.Store(func(string) {})
	host := &proxycore.Host{Endpoint: proxycore.NewEndpoint(fmt.Sprintf("%s:%d", be.IP(1), be.Port))}
	for i := 0; i < ctx.Scale(16, 200); i++ {
		cc, ccancel := context.WithTimeout(c, 3*time.Second)
		sess, serr := proxycore.ConnectSession(cc, cluster, proxycore.SessionConfig{Version: primitive.ProtocolVersionDse1, NumConns: 1, ReconnectPolicy: rp,
			ConnectTimeout: 3 * time.Second, HeartBeatInterval: 30 * time.Second, IdleTimeout: 60 * time.Second})
		ccancel()
		panicked := ""
		if serr == nil && sess != nil {
			func() {
				defer func() {
					if x := recover(); x != nil {
						panicked = fmt.Sprint(x)
					}
				}()
				_ = sess.Send(host, &dummyReq{})
			}()
		}
		note := "session-whose-pools-fail:scheduled-unluckily"
		if panicked != "" {
			note += " PROCESS WOULD EXIT: panic: " + panicked
		}
		ctx.Emit(hv.L(hv.S("in-process"), hv.I(17), hv.S(fmt.Sprintf("DSEv1 session %d over a v4 backend, ConnectSession delayed before its select", i))),
			hv.L(hv.Bool(panicked == ""), hv.Bool(true), hv.Bool(true), hv.Bool(true)), note)
		ctx.Count("kind17:session-race")
	}
}

// c17Compressed: a client that negotiated lz4 or snappy sends frames with the compressed flag whose bodies are not what a
// compressor produces: matches that end one to four bytes past the stated length, offsets of zero or beyond the output,
// length bytes that never end, stated lengths that are too short, too long or huge, truncated blocks, random bytes.
func c17Compressed(ctx *Ctx) {
	p := startC17(c17Cfgs[0])
	defer p.stop()
	r := ctx.Rng
	be32 := func(n uint32) []byte { return []byte{byte(n >> 24), byte(n >> 16), byte(n >> 8), byte(n)} }
	var bodies [][]byte
	for over := 0; over <= 6; over++ {
		// "abcd" as literals, then a match of length 4+over at offset 4; the stated length leaves room for 2 bytes of it
		tok := byte(0x40)
		b := append(be32(6), tok|byte(over&0x0f), 'a', 'b', 'c', 'd', 4, 0)
		bodies = append(bodies, b)
	}
	bodies = append(bodies,
		append(be32(8), 0x40, 'a', 'b', 'c', 'd', 0, 0),    // offset 0
		append(be32(8), 0x40, 'a', 'b', 'c', 'd', 9, 0),    // offset beyond the output
		append(be32(100), 0xf0, 255, 255, 255),             // literal length that never ends
		append(be32(100), 0x0f, 1, 0, 255, 255, 255),       // match length that never ends, no output to copy from
		append(be32(4), 0x40, 'a', 'b'),                    // literals beyond the input
		append(be32(2), 0x40, 'a', 'b', 'c', 'd'),          // stated length too short for the literals
		append(be32(0x7fffffff), 0x40, 'a', 'b', 'c', 'd'), // huge stated length
		append(be32(0xffffffff), 0x10, 'a'),                // "negative" stated length
		be32(0), be32(5), []byte{0, 0}, []byte{},           // nothing after the length, short length field
		append(be32(1<<20), append([]byte{0x1f, 'x', 1, 0}, bytes.Repeat([]byte{255}, 4000)...)...), // one byte repeated a million times
	)
	for i := 0; i < ctx.Scale(20, 3000); i++ {
		b := append(be32(uint32(r.Intn(64))), r.Bytes(r.Intn(40))...)
		bodies = append(bodies, b)
	}
	for _, comp := range []string{"lz4", "snappy"} {
		for i, body := range bodies {
			if !p.alive() {
				return
			}
			cl, err := px.Dial(p.addr)
			offending := true
			if err == nil {
				if cl.Startup(p.cver, comp) == nil {
					_ = cl.SendRaw(frameBytes(byte(p.cver), 0x01, 5, byte(primitive.OpCodeQuery), body))
					f, err := cl.Next(10 * time.Second)
					offending = f != nil || err != nil
				}
				cl.Close()
			}
			p.verdict(ctx, 18, fmt.Sprintf("%s body %d: %x", comp, i, body[:min(len(body), 24)]), offending, "hostile-compressed-body")
		}
	}
}

// c17FlaggedPrepare: a PREPARE whose header carries flags that mean nothing on a request (warning, tracing, beta), from
// clients of several versions and compressions; the hosts then forget the statement and a v4 client EXECUTEs it.  Whatever
// the proxy makes of such a PREPARE when it re-prepares the statement, the EXECUTE must be answered (the re-preparation
// can yield another id than the one the host asked for: executing again and again would never end).
func c17FlaggedPrepare(ctx *Ctx) {
	var cfg c17Cfg
	for _, c := range c17Cfgs {
		if c.name == "max-dse2" {
			cfg = c
		}
	}
	p := startC17(cfg)
	defer p.stop()
	n := 0
	for _, v := range []primitive.ProtocolVersion{3, 4, 5, 66} {
		for _, comp := range []string{"", "lz4", "snappy"} {
			if v == 5 && comp == "snappy" {
				continue
			}
			for _, fl := range []byte{0x08, 0x0a, 0x10} {
				if !p.alive() {
					return
				}
				n++
				q := fmt.Sprintf("SELECT v FROM ks.t WHERE k = ? AND n = %d", n)
				cl, err := px.Dial(p.addr)
				if err != nil || cl.Startup(v, comp) != nil {
					continue
				}
				raw := cl.Encode(v, 7, &message.Prepare{Query: q}, func(f *frame.Frame) {
					if comp != "" {
						f.SetCompress(true)
					}
				})
				raw[1] |= fl
				_ = cl.SendRaw(raw)
				f, _ := cl.Next(3 * time.Second)
				cl.Close()
				if f == nil || f.Opcode != byte(primitive.OpCodeResult) {
					continue // refused: nothing to follow up
				}
				p.be.Forget(1)
				p.be.Forget(2)
				answered := false
				if c2, err := px.Dial(p.addr); err == nil {
					if c2.Startup(primitive.ProtocolVersion4, "") == nil {
						id := md5Of(q)
						_ = c2.Send(primitive.ProtocolVersion4, 9, &message.Execute{QueryId: id, ResultMetadataId: id, Options: &message.QueryOptions{PositionalValues: []*primitive.Value{primitive.NewValue([]byte("tok:fp"))}}})
						f2, err2 := c2.Next(5 * time.Second)
						answered = f2 != nil || err2 != nil
					}
					c2.Close()
				}
				p.verdict(ctx, 19, fmt.Sprintf("PREPARE v%d %q flags %#x accepted, hosts forget, EXECUTE by a v4 client", v, comp, fl), answered, "flagged-prepare-then-execute")
			}
		}
	}
}

func genC17(ctx *Ctx) {
	r := ctx.Rng
	lz4Phase(ctx)
	c17SysRows(ctx)
	c17FlaggedPrepare(ctx)
	c17Compressed(ctx)
	c17FailedSession(ctx)
	c17SessionRace(ctx)
	c17NoReader(ctx)
	for ci, cfg := range c17Cfgs {
		p := startC17(cfg)
		full := ci == 0 || ctx.Thorough
		c17Client(ctx, p, cfg, r, full)
		if full {
			c17Storm(ctx, p, cfg)
		}
		if p.alive() && (full || cfg.name == "max-dse2") {
			c17Backend(ctx, p, cfg, r, full)
		}
		p.stop()
	}
}

func c17Client(ctx *Ctx, p *c17Proc, cfg c17Cfg, r *hv.Rng, full bool) {
	// (1) header bytes: every version byte with a few opcodes, before and after STARTUP
	vers := []int{0, 1, 2, 3, 4, 5, 6, 0x41, 0x42, 0x43, 0x7f, 0x80, 0x83, 0x84, 0x85, 0xc2, 0xff}
	if !full {
		vers = []int{0, 2, 5, 0x42, 0x84, 0xff}
	}
	if ctx.Thorough {
		vers = nil
		for v := 0; v < 256; v += 1 {
			vers = append(vers, v)
		}
	}
	for _, v := range vers {
		op := byte(hv.Pick(r, []int{0, 1, 2, 3, 5, 6, 7, 8, 9, 10, 11, 12, 13, 14, 15, 16, 17, 0x7f, 0xff}))
		body := hv.Pick(r, [][]byte{nil, {0, 0}, encBody(4, message.NewStartup()), encBody(4, &message.Query{Query: "SELECT 1", Options: &message.QueryOptions{}})})
		fl := byte(hv.Pick(r, []int{0, 1, 2, 4, 8, 16, 0xff}))
		st := primitive.ProtocolVersion(0)
		if r.Intn(2) == 0 {
			st = hv.Pick(r, cfg.clients)
		}
		// protocol versions 1 and 2 have an eight-byte header: these nine bytes are the start of a longer frame there
		legacy := v&0x7f == 1 || v&0x7f == 2
		p.clientStream(ctx, 1, fmt.Sprintf("v=%#x op=%d flags=%#x body=%d after-startup=%d", v, op, fl, len(body), st), st,
			frameBytes(byte(v), fl, 5, op, body), !legacy, "header")
	}
	// (2) declared lengths: negative, larger than what follows (then the socket closes), up to 16 MiB
	for _, l := range []int32{-1, -2147483648, 1, 100, 65536, 16<<20 - 1, 16 << 20, 2147483647} {
		hdr := frameBytes(4, 0, 1, byte(primitive.OpCodeQuery), nil)
		binary.BigEndian.PutUint32(hdr[5:], uint32(l))
		st := hv.Pick(r, cfg.clients)
		p.clientStream(ctx, 2, fmt.Sprintf("declared-length=%d after-startup=%d", l, st), st, append(hdr, 1, 2, 3), l < 0, "length")
	}
	// (3) truncated valid frames
	msgs := c17Messages(r)
	for i, m := range msgs {
		v := hv.Pick(r, cfg.clients)
		raw := (&px.Client{Codec: frame.NewRawCodec()}).Encode(v, 3, m, nil)
		cuts := []int{1, 8, 9, 10, len(raw) / 2, len(raw) - 1}
		if !full {
			cuts = []int{hv.Pick(r, cuts)}
		}
		for _, c := range cuts {
			if c <= 0 || c >= len(raw) {
				continue
			}
			st := primitive.ProtocolVersion(0)
			if m.GetOpCode() != primitive.OpCodeStartup && m.GetOpCode() != primitive.OpCodeOptions {
				st = v
			}
			p.clientStream(ctx, 3, fmt.Sprintf("message#%d %T v%d cut at %d of %d", i, m, v, c, len(raw)), st, raw[:c], false, "truncated")
		}
	}
	// (4) mutated bodies: byte flips, length fields blown up, bodies swapped between opcodes
	n4 := ctx.Scale(60, 3000)
	if !full {
		n4 = ctx.Scale(12, 300)
	}
	for i := 0; i < n4; i++ {
		m := hv.Pick(r, msgs)
		v := hv.Pick(r, cfg.clients)
		raw := (&px.Client{Codec: frame.NewRawCodec()}).Encode(v, 3, m, nil)
		body := append([]byte{}, raw[9:]...)
		op := raw[4]
		how := r.Intn(6)
		switch how {
		case 0:
			for k := 0; k < 1+r.Intn(4) && len(body) > 0; k++ {
				body[r.Intn(len(body))] ^= byte(1 << uint(r.Intn(8)))
			}
		case 1:
			if len(body) >= 4 {
				o := r.Intn(len(body) - 3)
				copy(body[o:], []byte{0x7f, 0xff, 0xff, 0xff})
			}
		case 2:
			if len(body) >= 4 {
				o := r.Intn(len(body) - 3)
				copy(body[o:], []byte{0xff, 0xff, 0xff, 0xff})
			}
		case 3:
			op = byte(hv.Pick(r, []int{1, 5, 7, 9, 10, 11, 13, 15}))
		case 4:
			body = body[:r.Intn(len(body)+1)]
		default:
			body = append(body, r.Bytes(1+r.Intn(16))...)
		}
		st := v
		if op == byte(primitive.OpCodeStartup) || op == byte(primitive.OpCodeOptions) {
			st = 0
		}
		fl := byte(0)
		if r.Intn(6) == 0 {
			fl = byte(hv.Pick(r, []int{1, 2, 4, 8, 16}))
		}
		p.clientStream(ctx, 4, fmt.Sprintf("%T v%d mutation=%d opcode=%d flags=%#x body=%x", m, v, how, op, fl, body), st,
			frameBytes(byte(v), fl, 3, op, body), true, "mutated-body")
	}
	// (5) hostile strings where the proxy interprets them
	strs := c17Hostile
	if !full {
		strs = []string{"\"", "\"\"", "", "\x00", "\"a", "システム"}
	}
	for _, s := range strs {
		for _, v := range cfg.clients {
			d := fmt.Sprintf("v%d string=%q", v, s)
			if len(d) > 120 {
				d = d[:120]
			}
			// USE, as QUERY and as PREPARE; SELECT on the system tables with the string as column / table / keyspace
			qs := []string{"USE " + s, "USE \"" + s + "\"", "SELECT " + s + " FROM system.local", "SELECT * FROM system." + s, "SELECT * FROM " + s + ".local",
				"SELECT count(" + s + ") FROM system.peers", "SELECT key AS " + s + " FROM system.local", "SELECT * FROM system.local WHERE key = '" + s + "'"}
			if !ctx.Thorough {
				qs = []string{qs[r.Intn(2)], qs[2+r.Intn(6)]}
			}
			for _, q := range qs {
				body := append(longString(q), 0, 1, 0) // consistency ONE, no flags
				if v >= 5 {
					body = append(longString(q), 0, 1, 0, 0, 0, 0)
				}
				if ctx.Thorough || r.Intn(2) == 0 {
					p.clientStream(ctx, 5, d+" QUERY "+fmt.Sprintf("%.60q", q), v, frameBytes(byte(v), 0, 2, byte(primitive.OpCodeQuery), body), true, "hostile-string")
					if !ctx.Thorough {
						continue
					}
				}
				pb := longString(q)
				if v >= 5 && v != 65 {
					pb = append(pb, 0, 0, 0, 0)
				}
				p.clientStream(ctx, 5, d+" PREPARE "+fmt.Sprintf("%.60q", q), v, frameBytes(byte(v), 0, 2, byte(primitive.OpCodePrepare), pb), true, "hostile-string")
			}
			if v >= 5 && v != 65 {
				// keyspace carried by the request itself (PREPARE and QUERY flags, v5 / DSEv2)
				pb := append(longString("SELECT * FROM local"), 0, 0, 0, 1)
				pb = append(pb, shortString(s)...)
				p.clientStream(ctx, 5, d+" PREPARE with keyspace", v, frameBytes(byte(v), 0, 2, byte(primitive.OpCodePrepare), pb), true, "hostile-string")
				qb := append(longString("SELECT * FROM local"), 0, 1, 0, 0, 0, 0x80)
				qb = append(qb, shortString(s)...)
				p.clientStream(ctx, 5, d+" QUERY with keyspace", v, frameBytes(byte(v), 0, 2, byte(primitive.OpCodeQuery), qb), true, "hostile-string")
			}
		}
	}
	// selectors on the handled tables that the grammar does not allow
	for _, q := range []string{"SELECT count() FROM system.local", "SELECT COUNT( ) FROM system.peers", "SELECT count(*, *) FROM system.local", "SELECT count(a, b) FROM system.peers",
		"SELECT now() FROM system.local", "SELECT now(1) FROM system.local", "SELECT f() FROM system.local", "SELECT FROM system.local", "SELECT , FROM system.local",
		"SELECT * FROM system.local WHERE", "SELECT *, key FROM system.local", "SELECT key key FROM system.local", "SELECT key AS FROM system.local", "SELECT count(*) AS FROM system.peers",
		"SELECT * FROM system.", "SELECT * FROM .local", "SELECT * FROM system..local", "USE", "USE ;", "USE system system", "SELECT * FROM system.peers_v2", "SELECT * FROM system_schema.keyspaces"} {
		if !full && r.Intn(3) != 0 {
			continue
		}
		v := hv.Pick(r, cfg.clients)
		body := append(longString(q), 0, 1, 0)
		if v >= 5 {
			body = append(longString(q), 0, 1, 0, 0, 0, 0)
		}
		p.clientStream(ctx, 6, fmt.Sprintf("v%d QUERY %q", v, q), v, frameBytes(byte(v), 0, 2, byte(primitive.OpCodeQuery), body), true, "odd-system-query")
		pb := longString(q)
		if v >= 5 && v != 65 {
			pb = append(pb, 0, 0, 0, 0)
		}
		p.clientStream(ctx, 6, fmt.Sprintf("v%d PREPARE %q", v, q), v, frameBytes(byte(v), 0, 2, byte(primitive.OpCodePrepare), pb), true, "odd-system-query")
	}
	// (7) every client version against this configuration: STARTUP then a forwarded request (session creation may fail)
	for _, v := range cfg.clients {
		for _, comp := range []string{"", "lz4", "snappy", "zstd"} {
			cl, err := px.Dial(p.addr)
			ok := true
			if err == nil {
				st := message.NewStartup()
				if comp != "" {
					st.Options["COMPRESSION"] = comp
				}
				_ = cl.Send(v, 0, st)
				if f, _ := cl.Next(4 * time.Second); f != nil && f.Opcode == byte(primitive.OpCodeReady) {
					for _, m := range []message.Message{
						&message.Query{Query: "SELECT v FROM ks.t WHERE k = 'tok:sess'", Options: &message.QueryOptions{}},
						&message.Prepare{Query: "SELECT v FROM ks.t WHERE k = ?"},
						&message.Execute{QueryId: md5Of("SELECT v FROM ks.t WHERE k = ?"), ResultMetadataId: md5Of("x"), Options: &message.QueryOptions{}},
						&message.Batch{Children: []*message.BatchChild{{Query: "INSERT INTO ks.t (k) VALUES ('tok:sess')"}}},
						&message.Query{Query: "USE ks1", Options: &message.QueryOptions{}},
						&message.Query{Query: "SELECT v FROM t WHERE k = 'tok:sess2'", Options: &message.QueryOptions{}},
					} {
						_ = cl.Send(v, 9, m)
						f, err := cl.Next(6 * time.Second)
						if f == nil && err == nil {
							ok = false // neither answered nor closed
						}
						if err != nil {
							break
						}
					}
				}
				cl.Close()
			}
			p.verdict(ctx, 7, fmt.Sprintf("client v%d compression=%q forwarded requests", v, comp), ok, "session-per-version")
		}
	}
	// (8) deep nesting, up to a 16 MiB frame
	depths := []int{1000, 100000, 16<<20 - 200}
	if !full {
		depths = []int{100000}
	}
	for di, d := range depths {
		// the statement is only parsed when the proxy has to decide whether it may be retried: the first attempt is answered
		// OVERLOADED.  "(a<" nests the type parameters of a cast, "f(" function calls.
		for oi, open := range []string{"[", "(", "{", "f(", "(a<", "(int)"} {
			if d > 1<<20 && open != "[" && open != "f(" && open != "(a<" && !ctx.Thorough {
				continue
			}
			n := d / len(open)
			nest := strings.Repeat(open, n)
			if open == "(a<" { // ONE cast whose type parameters nest: (a<a<a<...
				n = d / 2
				nest = "(" + strings.Repeat("a<", n)
			}
			tok := fmt.Sprintf("deep%dx%dx%d", ctx.Seed%1000, di, oi)
			p.be.SetScript(tok, fb.Outcome{Kind: fb.ErrMsg, Msg: &message.Overloaded{ErrorMessage: "scripted"}}, fb.Outcome{Kind: fb.OkRows})
			q := "INSERT INTO t (k, a) VALUES ('tok:" + tok + "', " + nest
			body := append(longString(q), 0, 1, 0)
			p.clientStream(ctx, 8, fmt.Sprintf("QUERY nesting %q x %d", open, n), p.cver, frameBytes(byte(p.cver), 0, 2, byte(primitive.OpCodeQuery), body), true, "deep-nesting")
			if d <= 1<<20 || ctx.Thorough || open == "(a<" {
				pq := "INSERT INTO t (k, a) VALUES (?, " + nest
				p.clientStream(ctx, 8, fmt.Sprintf("PREPARE nesting %q x %d", open, n), p.cver, frameBytes(byte(p.cver), 0, 2, byte(primitive.OpCodePrepare), longString(pq)), true, "deep-nesting")
			}
		}
		q := "UPDATE t SET a = 1 WHERE " + strings.Repeat("(", d)
		p.clientStream(ctx, 8, fmt.Sprintf("PREPARE relation nesting x %d", d), p.cver, frameBytes(byte(p.cver), 0, 2, byte(primitive.OpCodePrepare), longString(q)), true, "deep-nesting")
	}
	// (9) prepared ids of every length 0..20 that the proxy has never seen, in EXECUTE and as BATCH children, whose first
	// attempt is answered with an error that makes the proxy look the id up (is it idempotent?)
	p.be.SetScriptBeforeUnprepared(true)
	defer p.be.SetScriptBeforeUnprepared(false)
	for l := 0; l <= 20; l++ {
		if !full && l%5 != 3 {
			continue
		}
		id := make([]byte, l)
		for i := range id {
			id[i] = byte(0xa0 + i)
		}
		for k := 0; k < 2; k++ {
			tok := fmt.Sprintf("sid%dx%dx%d", ctx.Seed%1000, l, k)
			p.be.SetScript(tok, fb.Outcome{Kind: fb.ErrMsg, Msg: &message.Overloaded{ErrorMessage: "scripted"}}, fb.Outcome{Kind: fb.OkRows})
			val := []*primitive.Value{primitive.NewValue([]byte("tok:" + tok))}
			var body []byte
			var op primitive.OpCode
			if k == 0 {
				// EXECUTE: [short bytes] id, (result metadata id for v5/DSEv2), consistency, flags 0x01, values
				body = append(body, byte(l>>8), byte(l))
				body = append(body, id...)
				if p.cver.SupportsResultMetadataId() {
					body = append(body, byte(l>>8), byte(l))
					body = append(body, id...)
				}
				body = append(body, 0, 1, 0x01, 0, 1, 0, 0, 0, byte(len(val[0].Contents)))
				if p.cver >= primitive.ProtocolVersion5 {
					body = append(body[:len(body)-9], 0, 1, 0, 0, 0, 0x01, 0, 1, 0, 0, 0, byte(len(val[0].Contents)))
				}
				body = append(body, val[0].Contents...)
				op = primitive.OpCodeExecute
			} else {
				// BATCH: type, one child by id with one value, consistency, flags
				body = append(body, 0, 0, 1, 1, byte(l>>8), byte(l))
				body = append(body, id...)
				body = append(body, 0, 1, 0, 0, 0, byte(len(val[0].Contents)))
				body = append(body, val[0].Contents...)
				body = append(body, 0, 1, 0)
				if p.cver >= primitive.ProtocolVersion5 {
					body = append(body, 0, 0, 0)
				}
				op = primitive.OpCodeBatch
			}
			p.clientStream(ctx, 8, fmt.Sprintf("%v with an unknown %d-byte prepared id, first attempt answered OVERLOADED", op, l), p.cver,
				frameBytes(byte(p.cver), 0, 2, byte(op), body), true, "short-prepared-id")
		}
	}
}

func c17Messages(r *hv.Rng) []message.Message {
	id := md5Of("SELECT v FROM ks.t WHERE k = ?")
	val := []*primitive.Value{primitive.NewValue([]byte("tok:mut"))}
	return []message.Message{
		message.NewStartup(),
		&message.Options{},
		&message.Register{EventTypes: []primitive.EventType{primitive.EventTypeSchemaChange, primitive.EventTypeTopologyChange}},
		&message.AuthResponse{Token: []byte("\x00user\x00pass")},
		&message.Query{Query: "SELECT v FROM ks.t WHERE k = 'tok:mut'", Options: &message.QueryOptions{Consistency: primitive.ConsistencyLevelQuorum, PositionalValues: val, PageSize: 100, PagingState: []byte{1, 2, 3}}},
		&message.Query{Query: "SELECT * FROM system.local", Options: &message.QueryOptions{}},
		&message.Query{Query: "USE ks1", Options: &message.QueryOptions{}},
		&message.Prepare{Query: "SELECT v FROM ks.t WHERE k = ?"},
		&message.Prepare{Query: "SELECT * FROM system.peers"},
		&message.Execute{QueryId: id, ResultMetadataId: id, Options: &message.QueryOptions{PositionalValues: val}},
		&message.Batch{Type: primitive.BatchTypeLogged, Children: []*message.BatchChild{{Query: "INSERT INTO ks.t (k) VALUES (?)", Values: val}, {Id: id, Values: val}}, Consistency: primitive.ConsistencyLevelOne},
	}
}

// ---- hostile backend ----
func c17Backend(ctx *Ctx, p *c17Proc, cfg c17Cfg, r *hv.Rng, full bool) {
	i16 := func(v int16) *int16 { return &v }
	i32 := func(v int32) *int32 { return &v }
	unprep := append([]byte{0, 0, 0x25, 0}, shortString("unprepared")...)
	type rep struct {
		desc string
		out  fb.Outcome
	}
	reps := []rep{
		{"reply on another stream id", fb.Outcome{Kind: fb.RawReply, RawOpcode: 8, RawBody: []byte{0, 0, 0, 1}, RawStream: i16(12345)}},
		{"reply on stream -1", fb.Outcome{Kind: fb.RawReply, RawOpcode: 8, RawBody: []byte{0, 0, 0, 1}, RawStream: i16(-1)}},
		{"opcode 0xff", fb.Outcome{Kind: fb.RawReply, RawOpcode: 0xff, RawBody: []byte{1, 2, 3}}},
		{"request-direction frame", fb.Outcome{Kind: fb.RawReply, RawOpcode: 7, RawBody: longString("SELECT 1"), RawVersion: 4}},
		{"version byte 0", fb.Outcome{Kind: fb.RawReply, RawOpcode: 8, RawBody: []byte{0, 0, 0, 1}, RawVersion: 0x80}},
		{"version byte 0xff", fb.Outcome{Kind: fb.RawReply, RawOpcode: 8, RawBody: []byte{0, 0, 0, 1}, RawVersion: 0xff}},
		{"READY to a data request", fb.Outcome{Kind: fb.RawReply, RawOpcode: 2}},
		{"SUPPORTED garbage", fb.Outcome{Kind: fb.RawReply, RawOpcode: 6, RawBody: []byte{0xff, 0xff}}},
		{"EVENT opcode on a request stream", fb.Outcome{Kind: fb.RawReply, RawOpcode: 12, RawBody: []byte{0, 1}}},
		{"RESULT empty body", fb.Outcome{Kind: fb.RawReply, RawOpcode: 8}},
		{"RESULT kind garbage", fb.Outcome{Kind: fb.RawReply, RawOpcode: 8, RawBody: []byte{0x7f, 0xff, 0xff, 0xff, 9, 9}}},
		{"RESULT rows with huge counts", fb.Outcome{Kind: fb.RawReply, RawOpcode: 8, RawBody: []byte{0, 0, 0, 2, 0, 0, 0, 1, 0x7f, 0xff, 0xff, 0xff}}},
		{"negative declared length", fb.Outcome{Kind: fb.RawReply, RawOpcode: 8, RawBody: []byte{0, 0, 0, 1}, RawLen: i32(-5)}},
		{"declared length beyond the data, then the connection ends", fb.Outcome{Kind: fb.RawReply, RawOpcode: 8, RawBody: []byte{0, 0, 0, 1}, RawLen: i32(1 << 20), ThenClose: true}},
		{"compressed flag on an uncompressed connection", fb.Outcome{Kind: fb.RawReply, RawOpcode: 8, RawFlags: 1, RawBody: []byte{0, 0, 0, 1}}},
		{"UNPREPARED with a truncated id", fb.Outcome{Kind: fb.RawReply, RawOpcode: 0, RawBody: append(append([]byte{}, unprep...), 0, 16, 1, 2)}},
		{"UNPREPARED with an unknown id", fb.Outcome{Kind: fb.RawReply, RawOpcode: 0, RawBody: append(append([]byte{}, unprep...), shortString("nobody-prepared-this")...)}},
		{"UNPREPARED code only", fb.Outcome{Kind: fb.RawReply, RawOpcode: 0, RawBody: []byte{0, 0, 0x25, 0}}},
	}
	// ERROR frames with every body length 0..20 under each flag combination
	for _, fl := range []byte{0, 2, 8, 2 | 8, 4, 1, 0xff} {
		for l := 0; l <= 20; l++ {
			if !ctx.Thorough && (l%4 != int(fl)%4 || (!full && l > 4)) {
				continue
			}
			body := make([]byte, l)
			for i := range body {
				body[i] = byte(hv.Pick(r, []int{0, 0, 0x25, 1, 0xff}))
			}
			if l >= 4 && r.Intn(2) == 0 {
				copy(body, []byte{0, 0, 0x25, 0})
			}
			reps = append(reps, rep{fmt.Sprintf("ERROR flags=%#x body=%x", fl, body), fb.Outcome{Kind: fb.RawReply, RawOpcode: 0, RawFlags: fl, RawBody: body}})
		}
	}
	for i := 0; i < ctx.Scale(12, 2000); i++ {
		reps = append(reps, rep{"random reply", fb.Outcome{Kind: fb.RawReply, RawOpcode: byte(hv.Pick(r, []int{0, 2, 3, 6, 8, 12, 14, 16})), RawFlags: byte(hv.Pick(r, []int{0, 0, 1, 2, 4, 8})), RawBody: r.Bytes(r.Intn(40))}})
	}
	// a prepared statement so that EXECUTE and BATCH travel too
	q := "SELECT v FROM ks.t WHERE k = ?"
	id := md5Of(q)
	_ = p.canary.Send(p.cver, 77, &message.Prepare{Query: q})
	c17Expect(p.canary, 77, byte(primitive.OpCodeResult), 5*time.Second)
	p.be.PrepareEverywhere(q)
	for i, rp := range reps {
		if !p.alive() {
			return
		}
		tok := fmt.Sprintf("hb%dx%d", ctx.Seed%1000, i)
		// the hostile reply first, then a proper answer for whatever retry follows
		p.be.SetScript(tok, rp.out, fb.Outcome{Kind: fb.OkRows})
		cl, err := px.Dial(p.addr)
		if err != nil {
			p.verdict(ctx, 9, rp.desc, true, "hostile-backend-reply")
			continue
		}
		_ = cl.Startup(p.cver, "")
		val := []*primitive.Value{primitive.NewValue([]byte("tok:" + tok))}
		var m message.Message
		switch i % 3 {
		case 0:
			m = &message.Query{Query: "SELECT v FROM ks.t WHERE k = 'tok:" + tok + "'", Options: &message.QueryOptions{}}
		case 1:
			m = &message.Execute{QueryId: id, ResultMetadataId: id, Options: &message.QueryOptions{PositionalValues: val}}
		default:
			m = &message.Batch{Children: []*message.BatchChild{{Id: id, Values: val}}}
		}
		_ = cl.Send(p.cver, 4, m)
		_, _ = cl.Next(600 * time.Millisecond) // whatever the client gets, or nothing (the request was lost with its connection)
		cl.Close()
		p.verdict(ctx, 9, fmt.Sprintf("%s (to %T)", rp.desc, m), true, "hostile-backend-reply")
	}
	// hostile answers to the proxy's OWN requests: heartbeats (OPTIONS) of pooled and control connections answered
	// with UNPREPARED for a statement that IS in the prepared cache (the proxy then prepares it and has to do
	// something with the request it was "for"), with other errors, wrong opcodes and garbage
	cachedUnprep := append(append([]byte{}, unprep...), append([]byte{0, 16}, id...)...)
	for _, hb := range []rep{
		{"heartbeat answered UNPREPARED with a cached id", fb.Outcome{Kind: fb.RawReply, RawOpcode: 0, RawBody: cachedUnprep}},
		{"heartbeat answered UNPREPARED with an unknown id", fb.Outcome{Kind: fb.RawReply, RawOpcode: 0, RawBody: append(append([]byte{}, unprep...), shortString("nobody-prepared-this")...)}},
		{"heartbeat answered with a RESULT", fb.Outcome{Kind: fb.RawReply, RawOpcode: 8, RawBody: []byte{0, 0, 0, 1}}},
		{"heartbeat answered with an empty ERROR", fb.Outcome{Kind: fb.RawReply, RawOpcode: 0}},
		{"heartbeat answered with garbage SUPPORTED", fb.Outcome{Kind: fb.RawReply, RawOpcode: 6, RawBody: []byte{0xff, 0xff, 1}}},
		{"heartbeat answered on another stream", fb.Outcome{Kind: fb.RawReply, RawOpcode: 6, RawBody: []byte{0, 0}, RawStream: i16(777)}},
	} {
		if !p.alive() {
			return
		}
		var outs []fb.Outcome
		for k := 0; k < 6; k++ {
			outs = append(outs, hb.out)
		}
		p.be.QueueOptionsReplies(outs...)
		deadline := time.Now().Add(3 * time.Second)
		for p.be.OptionsRepliesLeft() > 0 && time.Now().Before(deadline) && p.alive() {
			time.Sleep(20 * time.Millisecond)
		}
		time.Sleep(300 * time.Millisecond) // the PREPARE the proxy may have sent is answered meanwhile
		p.verdict(ctx, 11, hb.desc, true, "hostile-heartbeat-reply")
	}
	// the proxy's own re-PREPARE answered with UNPREPARED for the cached statement (and other odd answers): the
	// hosts forget the statement, a client EXECUTEs it, the PREPARE the proxy then sends gets the hostile answer
	for _, pr := range []rep{
		{"re-PREPARE answered UNPREPARED with the cached id, then accepted", fb.Outcome{Kind: fb.RawReply, RawOpcode: 0, RawBody: cachedUnprep}},
		{"re-PREPARE answered with a void RESULT", fb.Outcome{Kind: fb.RawReply, RawOpcode: 8, RawBody: []byte{0, 0, 0, 1}}},
		{"re-PREPARE answered with garbage", fb.Outcome{Kind: fb.RawReply, RawOpcode: 8, RawBody: []byte{0, 0, 0, 4, 0xff}}},
		{"re-PREPARE answered with READY", fb.Outcome{Kind: fb.RawReply, RawOpcode: 2}},
	} {
		if !p.alive() {
			return
		}
		for h := 1; h <= 2; h++ {
			p.be.Forget(h)
		}
		p.be.SetPrepareOutcomes(hexOf(id), pr.out, pr.out)
		cl, err := px.Dial(p.addr)
		if err == nil {
			_ = cl.Startup(p.cver, "")
			_ = cl.Send(p.cver, 4, &message.Execute{QueryId: id, ResultMetadataId: id, Options: &message.QueryOptions{PositionalValues: []*primitive.Value{primitive.NewValue([]byte("tok:reprep"))}}})
			_, _ = cl.Next(1500 * time.Millisecond)
			cl.Close()
		}
		p.be.SetPrepareOutcomes(hexOf(id))
		p.be.PrepareEverywhere(q)
		p.verdict(ctx, 12, pr.desc, true, "hostile-reprepare-reply")
	}
	// garbage EVENT frames on the control connection
	for _, body := range [][]byte{nil, {0}, {0, 3, 'F', 'O', 'O'}, shortString("SCHEMA_CHANGE"), append(shortString("SCHEMA_CHANGE"), shortString("CREATED")...),
		append(shortString("TOPOLOGY_CHANGE"), shortString("NEW_NODE")...), append(append(shortString("STATUS_CHANGE"), shortString("UP")...), 99, 1, 2), r.Bytes(30)} {
		raw := fb.RawFrameBytes(byte(cfg.beMax), 0, -1, 12, body)
		if cfg.beMax > 4 {
			raw = fb.RawFrameBytes(4, 0, -1, 12, body)
		}
		p.be.EventRaw(raw)
		p.verdict(ctx, 10, fmt.Sprintf("EVENT body=%x", body), true, "hostile-event")
	}
}

// ---- connection storms: the reader and the writer of one client connection failing together ----
// Each hostile connection pipelines valid requests the proxy answers by itself (so its writer
// goroutine has work), then a frame that fails decoding (the reader goroutine fails), and is then
// reset (SO_LINGER 0) without reading anything (the writer fails on its own).  Other shapes: reset
// only, garbage only, half-close.  Many connections at once for a few seconds, then the verdict.
func c17Storm(ctx *Ctx, p *c17Proc, cfg c17Cfg) {
	v := byte(cfg.clients[0])
	options := frameBytes(v, 0, 1, byte(primitive.OpCodeOptions), nil)
	startup := frameBytes(v, 0, 0, byte(primitive.OpCodeStartup), encBody(primitive.ProtocolVersion(v), message.NewStartup()))
	sysq := frameBytes(v, 0, 2, byte(primitive.OpCodeQuery), encBody(primitive.ProtocolVersion(v), &message.Query{Query: "SELECT * FROM system.local", Options: &message.QueryOptions{}}))
	garbage := frameBytes(v, 0, 3, byte(primitive.OpCodeQuery), []byte{0, 0})
	shapes := []struct {
		name  string
		bytes []byte
		reset bool
	}{
		{"answers-pending+undecodable-frame+reset", append(append(append(bytes.Repeat(options, 6), startup...), bytes.Repeat(sysq, 4)...), garbage...), true},
		{"answers-pending+reset", append(bytes.Repeat(options, 8), startup...), true},
		{"undecodable-frame+reset", garbage, true},
		{"answers-pending+undecodable-frame+close", append(bytes.Repeat(options, 6), garbage...), false},
	}
	for _, sh := range shapes {
		if !p.alive() {
			return
		}
		dur := time.Duration(ctx.Scale(1500, 10000)) * time.Millisecond
		var wg sync.WaitGroup
		var conns atomic.Int64
		stop := time.Now().Add(dur)
		for w := 0; w < 8; w++ {
			wg.Add(1)
			go func() {
				defer wg.Done()
				for time.Now().Before(stop) && p.alive() {
					c, err := net.DialTimeout("tcp", p.addr, time.Second)
					if err != nil {
						time.Sleep(time.Millisecond)
						continue
					}
					_, _ = c.Write(sh.bytes)
					if sh.reset {
						if tc, ok := c.(*net.TCPConn); ok {
							_ = tc.SetLinger(0)
						}
					}
					_ = c.Close()
					conns.Add(1)
				}
			}()
		}
		wg.Wait()
		ctx.Count("storm-connections:" + sh.name + fmt.Sprintf(":%dk", conns.Load()/1000))
		p.verdict(ctx, 9, "storm "+sh.name, true, "storm")
	}
}
