package main

// C09: parser.IsQueryHandled on the product current keyspace x qualifier x table x statement
// shape, and end-to-end routing of QUERY and PREPARE (+EXECUTE) through the real proxy, where
// "handled" means the request never reached a backend.

import (
	"fmt"
	"strings"
	"time"

	"verifharness/fb"
	"verifharness/hv"
	"verifharness/px"

	"github.com/datastax/cql-proxy/parser"
	"github.com/datastax/go-cassandra-native-protocol/message"
	"github.com/datastax/go-cassandra-native-protocol/primitive"
)

func init() { props["C09"] = genC09 }

var c09Keyspaces = []string{"", "system", "SYSTEM", "sYsTeM", "\"system\"", "\"System\"", "\"SYSTEM\"", "myks", "\"myks\"", "systems", "system_auth", "\"sys\"\"tem\"", "ſystem", "syſtem", "K"}
var c09Qualifiers = []string{"", "system", "SYSTEM", "System", "\"system\"", "\"System\"", "myks", "MYKS", "\"my\"\"ks\"", "system_auth", "systemx", "\"systemx\"", "local"}
var c09Tables = []string{"local", "LOCAL", "Local", "\"local\"", "\"Local\"", "\"LOCAL\"", "peers", "PEERS", "\"peers\"", "peers_v2", "Peers_V2", "\"peers_v2\"", "\"PEERS_V2\"",
	"schema_keyspaces", "SCHEMA_KEYSPACES", "schema_columnfamilies", "schema_columns", "schema_usertypes", "\"schema_columns\"", "\"Schema_Keyspaces\"",
	"locals", "local_", "peer", "peers_v3", "size_estimates", "users", "\"pe\"\"ers\"", "system", "t"}

type c09Shape struct {
	f    func(target string) string
	kind int // 1 select of target, 2 use, 0 other/unknown
	name string
}

var c09Shapes = []c09Shape{
	{func(x string) string { return "SELECT * FROM " + x }, 1, "select-star"},
	{func(x string) string { return "select key, rpc_address from " + x + " where key = 'local'" }, 1, "select-cols-where"},
	{func(x string) string { return "SELECT count(*) FROM " + x + ";" }, 1, "select-count"},
	{func(x string) string {
		return "  SeLeCt\n\tpeer AS p ,  data_center\r\nFROM\n" + x + "  LIMIT 10 ALLOW FILTERING"
	}, 1, "select-spelled"},
	{func(x string) string { return "SELECT JSON * FROM " + x }, 1, "select-json"},
	{func(x string) string { return "SELECT DISTINCT key FROM " + x }, 1, "select-distinct"},
	{func(x string) string { return "SELECT \"from\", 'from' FROM " + x }, 1, "select-quoted-from"},
	{func(x string) string { return "SELECT f(a), now() FROM " + x }, 1, "select-functions"},
	{func(x string) string { return "SELECT * FROM " + x + " WHERE k IN (SELECT * FROM system.local)" }, 1, "select-trailing-from"},
	// every clause that can follow the table name directly
	{func(x string) string { return "SELECT peer FROM " + x + " GROUP BY peer" }, 1, "select-group-by"},
	{func(x string) string { return "SELECT * FROM " + x + " PER PARTITION LIMIT 1" }, 1, "select-per-partition-limit"},
	{func(x string) string { return "SELECT * FROM " + x + " ORDER BY key DESC" }, 1, "select-order-by"},
	{func(x string) string { return "SELECT * FROM " + x + " LIMIT 1" }, 1, "select-limit"},
	{func(x string) string { return "SELECT * FROM " + x + " ALLOW FILTERING" }, 1, "select-allow-filtering"},
	{func(x string) string { return "SELECT * FROM " + x + " -- comment" }, 1, "select-then-comment"},
	{func(x string) string { return "SELECT * FROM " + x + " /* c */ ;" }, 1, "select-then-block-comment"},
	{func(x string) string { return "INSERT INTO " + x + " (key) VALUES ('x')" }, 0, "insert"},
	{func(x string) string { return "UPDATE " + x + " SET a = 1 WHERE key = 'local'" }, 0, "update"},
	{func(x string) string { return "DELETE FROM " + x + " WHERE key = 'local'" }, 0, "delete"},
	{func(x string) string { return "TRUNCATE " + x }, 0, "truncate"},
	{func(x string) string { return "CREATE TABLE " + x + " (k int PRIMARY KEY)" }, 0, "create"},
}

func joinTarget(q, t string) string {
	if q == "" {
		return t
	}
	return q + "." + t
}

func handledDirect(cur, q string) hv.V {
	var out hv.V = hv.L(hv.I(9))
	func() {
		defer func() { _ = recover() }()
		h, st, err := parser.IsQueryHandled(parser.IdentifierFromString(cur), q)
		kind, name := int64(0), ""
		switch s := st.(type) {
		case *parser.SelectStatement:
			if h {
				kind, name = 1, s.Table
			} else {
				kind = 2
			}
		case *parser.UseStatement:
			kind, name = 3, s.Keyspace
		}
		if !h && err == nil && st == nil {
			kind = 0
		}
		out = hv.L(hv.Bool(h), hv.I(kind), hv.S(name), hv.Bool(err != nil))
	}()
	return out
}

func genC09(ctx *Ctx) {
	r := ctx.Rng
	// ---- the product, directly on the parser ----
	for _, cur := range c09Keyspaces {
		for _, q := range c09Qualifiers {
			for _, t := range c09Tables {
				for si, sh := range c09Shapes {
					if !ctx.Thorough && (si >= 3) && r.Intn(6) != 0 {
						continue
					}
					text := sh.f(joinTarget(q, t))
					in := hv.L(hv.S(cur), hv.S(text), hv.I(int64(sh.kind)), hv.S(q), hv.S(t), hv.I(0))
					ctx.Emit(in, handledDirect(cur, text), "direct:"+sh.name)
					ctx.Count("direct:" + sh.name)
				}
			}
		}
		for _, k := range append(append([]string{}, c09Keyspaces[1:12]...), "ks1", "\"Ks\"") {
			text := hv.Pick(r, []string{"USE ", "use ", "  UsE\n"}) + k + hv.Pick(r, []string{"", ";", " ;"})
			ctx.Emit(hv.L(hv.S(cur), hv.S(text), hv.I(2), hv.S(""), hv.S(""), hv.I(0)), handledDirect(cur, text), "direct:use")
		}
		for _, text := range []string{"USE", "USE 'x'", "USE 1", "SELECT * FROM", "SELECT * FROM 'local'", "SELECT * FROM system.", "SELECT * FROM system.local.x", "SELECT", "select from local",
			"SELECT * system.local", "", ";", "BEGIN BATCH APPLY BATCH", "SELECT a, FROM system.local", "SELECT a b FROM system.local", "SELECT count() FROM system.local", "SELECT count(a, b) FROM system.peers",
			"SELECT now(1) FROM system.local", "SELECT a AS FROM system.local", "SELECT a AS 1 FROM system.local", "SELECT (a) FROM system.local", "SELECT a.b FROM system.local", "SELECT * , * FROM system.local",
			"SELECT \"key\" FROM system.local", "SELECT KEY FROM system.local", "SELECT f( FROM system.local", "SELECT count(*) AS c FROM system.local"} {
			ctx.Emit(hv.L(hv.S(cur), hv.S(text), hv.I(0), hv.S(""), hv.S(""), hv.I(0)), handledDirect(cur, text), "direct:malformed")
		}
	}
	c09EndToEnd(ctx)
}

// c09EndToEnd: does the request reach a backend?  QUERY, and PREPARE followed by EXECUTE,
// under a keyspace established by USE on the same connection (and, for v5, given in PREPARE).
func c09EndToEnd(ctx *Ctx) {
	r := ctx.Rng
	prefix, port := px.Alloc()
	be := fb.New(prefix, port)
	if err := be.StartHost(1); err != nil {
		panic(err)
	}
	be.SetTopology(1)
	defer be.Shutdown()
	cfg := px.DefaultConfig(be)
	cfg.MaxVersion = primitive.ProtocolVersion5
	env, err := px.StartProxy(be, cfg)
	if err != nil {
		panic(err)
	}
	defer env.Close()
	seq := 0
	for _, ver := range []primitive.ProtocolVersion{primitive.ProtocolVersion4, primitive.ProtocolVersion5} {
		for curIdx, cur := range []string{"", "system", "\"system\"", "SYSTEM", "\"System\"", "myks", "system_auth"} {
			cl, err := px.Dial(env.Addr)
			if err != nil {
				panic(err)
			}
			if err := cl.Startup(ver, ""); err != nil {
				panic(err)
			}
			if cur != "" && ver == primitive.ProtocolVersion5 {
				// the keyspace is established by a PREPARED USE (PREPARE, then EXECUTE), as some drivers do
				_ = cl.Send(ver, 1, &message.Prepare{Query: "USE " + cur})
				f, _ := cl.Next(5 * time.Second)
				if f == nil || f.Opcode != byte(primitive.OpCodeResult) {
					panic("PREPARE USE " + cur + " failed")
				}
				frm, err := cl.Decode(f)
				if err != nil {
					panic(err)
				}
				pr, ok := frm.Body.Message.(*message.PreparedResult)
				if !ok {
					panic("PREPARE USE: not a PREPARED result")
				}
				_ = cl.Send(ver, 1, &message.Execute{QueryId: pr.PreparedQueryId, ResultMetadataId: pr.ResultMetadataId, Options: &message.QueryOptions{}})
				if f, _ := cl.Next(5 * time.Second); f == nil || f.Opcode != byte(primitive.OpCodeResult) {
					panic("EXECUTE of the prepared USE " + cur + " failed")
				}
				ctx.Count("e2e:keyspace-set-by-a-prepared-USE")
			} else if cur != "" {
				_ = cl.Send(ver, 1, &message.Query{Query: "USE " + cur, Options: &message.QueryOptions{}})
				if f, _ := cl.Next(5 * time.Second); f == nil || f.Opcode != byte(primitive.OpCodeResult) {
					panic("USE " + cur + " failed")
				}
			}
			// a USE the backend rejects must leave the keyspace established above in force
			if curIdx%2 == 1 {
				be.BadKeyspaces["badks"] = &message.Invalid{ErrorMessage: "Keyspace 'badks' does not exist"}
				_ = cl.Send(ver, 1, &message.Query{Query: "USE badks", Options: &message.QueryOptions{}})
				if f, _ := cl.Next(5 * time.Second); f == nil || f.Opcode != byte(primitive.OpCodeError) {
					panic("USE badks was not rejected")
				}
			}
			reached := func(tok string) bool {
				// a barrier request through the same session settles the backend log
				_ = cl.Send(ver, 99, &message.Query{Query: "SELECT v FROM ks.t WHERE k = 'barrier'", Options: &message.QueryOptions{}})
				for {
					f, _ := cl.Next(5 * time.Second)
					if f == nil || f.Stream == 99 {
						break
					}
				}
				for _, rec := range be.Snapshot() {
					if rec.Token == tok {
						return true
					}
				}
				return false
			}
			for i := 0; i < ctx.Scale(40, 400); i++ {
				q := hv.Pick(r, c09Qualifiers)
				t := hv.Pick(r, c09Tables)
				if r.Intn(2) == 0 {
					t = hv.Pick(r, c09Tables[:19])
				}
				seq++
				tok := fmt.Sprintf("h%dx%d", ctx.Seed%1000, seq)
				text := "SELECT * FROM " + joinTarget(q, t) + " WHERE key = 'tok:" + tok + "'"
				be.ResetLog()
				mode := r.Intn(3)
				pks := ""
				switch mode {
				case 0:
					_ = cl.Send(ver, 5, &message.Query{Query: text, Options: &message.QueryOptions{}})
					_, _ = cl.Next(5 * time.Second)
				default:
					p := &message.Prepare{Query: text}
					if ver == primitive.ProtocolVersion5 && mode == 2 {
						pks = hv.Pick(r, []string{"system", "myks", "\"system\"", "SYSTEM"})
						p.Keyspace = pks
					}
					_ = cl.Send(ver, 5, p)
					f, _ := cl.Next(5 * time.Second)
					if f == nil {
						// the connection died (that is a finding of its own): report as not handled and reconnect
						ctx.Emit(hv.L(hv.S(cur), hv.S(text), hv.I(1), hv.S(q), hv.S(t), hv.I(1)), hv.L(hv.I(7)), "e2e:prepare-no-answer")
						cl.Close()
						cl, _ = px.Dial(env.Addr)
						_ = cl.Startup(ver, "")
						if cur != "" {
							_ = cl.Send(ver, 1, &message.Query{Query: "USE " + cur, Options: &message.QueryOptions{}})
							_, _ = cl.Next(5 * time.Second)
						}
						continue
					}
				}
				eff := cur
				if pks != "" {
					eff = pks
				}
				h := !reached(tok)
				note := fmt.Sprintf("e2e:v%d:%s", ver, []string{"query", "prepare", "prepare-with-keyspace"}[mode])
				ctx.Emit(hv.L(hv.S(eff), hv.S(text), hv.I(1), hv.S(q), hv.S(t), hv.I(1)), hv.L(hv.Bool(h)), note)
				ctx.Count(note)
			}
			cl.Close()
		}
	}
	// the verdict depends on the connection's keyspace, not on the text alone: the very same statement text sent by
	// connections in different keyspaces, in both orders, and again after a USE on the same connection
	for _, ver := range []primitive.ProtocolVersion{primitive.ProtocolVersion4, primitive.ProtocolVersion5} {
		dial := func(cur string) *px.Client {
			cl, err := px.Dial(env.Addr)
			if err != nil {
				panic(err)
			}
			if err := cl.Startup(ver, ""); err != nil {
				panic(err)
			}
			if cur != "" {
				_ = cl.Send(ver, 1, &message.Query{Query: "USE " + cur, Options: &message.QueryOptions{}})
				if f, _ := cl.Next(5 * time.Second); f == nil || f.Opcode != byte(primitive.OpCodeResult) {
					panic("USE " + cur + " failed")
				}
			}
			return cl
		}
		ask := func(cl *px.Client, cur, q, t, text, tok, note string, prepare bool) {
			be.ResetLog()
			if prepare {
				_ = cl.Send(ver, 5, &message.Prepare{Query: text})
			} else {
				_ = cl.Send(ver, 5, &message.Query{Query: text, Options: &message.QueryOptions{}})
			}
			_, _ = cl.Next(5 * time.Second)
			_ = cl.Send(ver, 99, &message.Query{Query: "SELECT v FROM ks.t WHERE k = 'barrier'", Options: &message.QueryOptions{}})
			for {
				f, _ := cl.Next(5 * time.Second)
				if f == nil || f.Stream == 99 {
					break
				}
			}
			reachedBackend := false
			for _, rec := range be.Snapshot() {
				if rec.Token == tok {
					reachedBackend = true
				}
			}
			ctx.Emit(hv.L(hv.S(cur), hv.S(text), hv.I(1), hv.S(q), hv.S(t), hv.I(1)), hv.L(hv.Bool(!reachedBackend)), note)
			ctx.Count(note)
		}
		for i, t := range []string{"local", "peers", "PEERS_V2", "t", "\"local\"", "schema_keyspaces"} {
			for _, order := range [][2]string{{"system", "myks"}, {"myks", "system"}, {"", "system"}, {"SYSTEM", ""}} {
				seq++
				tok := fmt.Sprintf("s%dx%d", ctx.Seed%1000, seq)
				text := "SELECT * FROM " + t + " WHERE key = 'tok:" + tok + "'"
				a, b := dial(order[0]), dial(order[1])
				prep := (i+seq)%3 == 0
				ask(a, order[0], "", t, text, tok, "same-text:first-connection", prep)
				ask(b, order[1], "", t, text, tok, "same-text:second-connection-other-keyspace", prep)
				ask(a, order[0], "", t, text, tok, "same-text:first-connection-again", prep)
				// and one connection that changes its keyspace between two sends of the same text
				if order[1] != "" {
					_ = a.Send(ver, 1, &message.Query{Query: "USE " + order[1], Options: &message.QueryOptions{}})
					_, _ = a.Next(5 * time.Second)
					ask(a, order[1], "", t, text, tok, "same-text:after-USE-on-the-same-connection", prep)
				}
				a.Close()
				b.Close()
			}
		}
	}
	frontPhase(ctx)
	_ = strings.ToLower
}
