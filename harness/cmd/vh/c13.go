package main

// C13: raw-socket sequences of frames against the real proxy for each maximum version:
// every version byte x direction x opcode, STARTUP option maps, handshake orders, compressed
// frames on connections with and without negotiated compression.  Observed: the frames each
// step caused (delimited by a sentinel OPTIONS), whether the connection was closed, whether
// a backend saw the request, and the connection's final compression / event registration.

import (
	"bytes"
	"fmt"
	"io"
	"net"
	"strings"
	"time"

	"verifharness/fb"
	"verifharness/gen"
	"verifharness/hv"
	"verifharness/px"

	"github.com/datastax/cql-proxy/codecs"
	"github.com/datastax/go-cassandra-native-protocol/frame"
	"github.com/datastax/go-cassandra-native-protocol/message"
	"github.com/datastax/go-cassandra-native-protocol/primitive"
)

func init() { props["C13"] = genC13 }

type rawFrame struct {
	version byte
	resp    bool
	flags   byte
	stream  int
	opcode  byte
	body    []byte
}

// readAnyFrame reads one frame whose header has the v1/v2 (8 bytes) or v3+ (9 bytes) layout.
func readAnyFrame(c net.Conn, d time.Duration) (*rawFrame, error) {
	_ = c.SetReadDeadline(time.Now().Add(d))
	h := make([]byte, 2)
	if _, err := io.ReadFull(c, h); err != nil {
		return nil, err
	}
	f := &rawFrame{version: h[0] & 0x7f, resp: h[0]&0x80 != 0, flags: h[1]}
	if f.version >= 3 {
		r := make([]byte, 7)
		if _, err := io.ReadFull(c, r); err != nil {
			return nil, err
		}
		f.stream = int(int16(uint16(r[0])<<8 | uint16(r[1])))
		f.opcode = r[2]
		n := int(r[3])<<24 | int(r[4])<<16 | int(r[5])<<8 | int(r[6])
		f.body = make([]byte, n)
	} else {
		r := make([]byte, 6)
		if _, err := io.ReadFull(c, r); err != nil {
			return nil, err
		}
		f.stream = int(int8(r[0]))
		f.opcode = r[1]
		n := int(r[2])<<24 | int(r[3])<<16 | int(r[4])<<8 | int(r[5])
		f.body = make([]byte, n)
	}
	if _, err := io.ReadFull(c, f.body); err != nil {
		return nil, err
	}
	return f, nil
}

func frameBytesAny(vd byte, flags byte, stream int16, opcode byte, body []byte) []byte {
	if vd&0x7f >= 3 {
		return px.FrameBytes(vd, flags, stream, opcode, body)
	}
	out := []byte{vd, flags, byte(stream), opcode, byte(len(body) >> 24), byte(len(body) >> 16), byte(len(body) >> 8), byte(len(body))}
	return append(out, body...)
}

func encString(s string) []byte { return append([]byte{byte(len(s) >> 8), byte(len(s))}, s...) }

func encStringMap(kv ...string) []byte {
	out := []byte{byte(len(kv) / 2 >> 8), byte(len(kv) / 2)}
	for _, s := range kv {
		out = append(out, encString(s)...)
	}
	return out
}

func encStringList(ss ...string) []byte {
	out := []byte{byte(len(ss) >> 8), byte(len(ss))}
	for _, s := range ss {
		out = append(out, encString(s)...)
	}
	return out
}

type c13Env struct {
	ctx  *Ctx
	be   *fb.Backend
	env  *px.Env
	maxv primitive.ProtocolVersion
	seq  int
}

// classify one frame received from the proxy
func classify(f *rawFrame) hv.V {
	switch primitive.OpCode(f.opcode) {
	case primitive.OpCodeSupported:
		return hv.L(hv.I(6))
	case primitive.OpCodeReady:
		return hv.L(hv.I(2))
	case primitive.OpCodeError:
		code, msg, _ := errCodeAndMessage(f.body)
		switch {
		case strings.HasPrefix(msg, "Invalid or unsupported protocol version "):
			var v int
			fmt.Sscanf(strings.TrimPrefix(msg, "Invalid or unsupported protocol version "), "%d", &v)
			return hv.L(hv.I(0), hv.I(int64(code)), hv.I(1), hv.I(int64(v)))
		case strings.HasPrefix(msg, "Unsupported compression type"):
			return hv.L(hv.I(0), hv.I(int64(code)), hv.I(2))
		case strings.HasPrefix(msg, "Unsupported operation"):
			return hv.L(hv.I(0), hv.I(int64(code)), hv.I(3))
		}
		return hv.L(hv.I(0), hv.I(int64(code)), hv.I(9))
	}
	return hv.L(hv.I(int64(f.opcode)))
}

type step struct {
	frame   []byte
	logical []byte // decompressed body when the frame is compressed (nil otherwise)
	token   string
}

// run plays the steps on one fresh connection and emits one case.
func (e *c13Env) run(steps []step, note string) {
	c, err := net.DialTimeout("tcp", e.env.Addr, 5*time.Second)
	if err != nil {
		panic(err)
	}
	defer c.Close()
	sentVer := byte(4)
	if e.maxv < 4 {
		sentVer = 3
	}
	var results []hv.V
	closed := false
	// barrier sends a data request and collects everything up to its answer.  The request goes
	// through the same session (same version, same connection state) as a forwarded test frame
	// would, so when its answer is back both the backend log and the client-side frame order
	// are settled: anything the test frame caused arrived before it.
	barrier := func(ver byte) ([]*rawFrame, bool) {
		e.seq++
		st := int16(20000 + e.seq%10000)
		q := &message.Query{Query: "SELECT v FROM ks.t WHERE k = 'sentinel'", Options: &message.QueryOptions{Consistency: primitive.ConsistencyLevelOne}}
		body, _ := gen.Body(primitive.ProtocolVersion(ver), q)
		if _, err := c.Write(px.FrameBytes(ver, 0, st, byte(primitive.OpCodeQuery), body)); err != nil {
			return nil, false
		}
		var got []*rawFrame
		for {
			f, err := readAnyFrame(c, 5*time.Second)
			if err != nil {
				return got, false
			}
			if f.stream == int(st) && (f.opcode == byte(primitive.OpCodeResult) || f.opcode == byte(primitive.OpCodeError)) {
				return got, true
			}
			got = append(got, f)
		}
	}
	barrierVer := func(frame []byte) byte {
		if len(frame) > 0 {
			v := primitive.ProtocolVersion(frame[0] & 0x7f)
			if v >= 3 && v <= e.maxv && v.IsSupported() {
				return byte(v)
			}
		}
		return sentVer
	}
	for _, s := range steps {
		if closed {
			break
		}
		e.be.ResetLog()
		_, _ = c.Write(s.frame)
		got, alive := barrier(barrierVer(s.frame))
		reached := false
		if s.token != "" {
			for _, r := range e.be.Snapshot() {
				if r.Token == s.token {
					reached = true
				}
			}
		}
		var rs []hv.V
		for _, f := range got {
			if f.opcode == byte(primitive.OpCodeEvent) {
				continue
			}
			if reached && (f.opcode == byte(primitive.OpCodeResult) || (f.opcode == byte(primitive.OpCodeError) && !isProtocolError(f.body))) {
				continue // the backend's own answer to the dispatched request
			}
			rs = append(rs, classify(f))
		}
		switch {
		case !alive && len(rs) == 0:
			results = append(results, hv.L(hv.I(0)))
			closed = true
		case reached && len(rs) == 0:
			results = append(results, hv.L(hv.I(2)))
			if !alive {
				closed = true
			}
		default:
			results = append(results, hv.L(hv.I(1), hv.L(rs...)))
			if !alive {
				// frames were written and then the connection died: report both
				results = append(results, hv.L(hv.I(0)))
				closed = true
			}
		}
	}
	// final state: compression as the backend sees it for a request of this connection,
	// registration by injecting a schema event
	comp, registered := "", false
	if !closed {
		e.seq++
		tok := fmt.Sprintf("c13s%d", e.seq)
		q := &message.Query{Query: "SELECT v FROM ks.t WHERE k = 'tok:" + tok + "'", Options: &message.QueryOptions{Consistency: primitive.ConsistencyLevelOne}}
		var buf bytes.Buffer
		_ = codecs.DefaultRawCodec.EncodeFrame(frame.NewFrame(primitive.ProtocolVersion(sentVer), 77, q), &buf)
		e.be.ResetLog()
		_, _ = c.Write(buf.Bytes())
		if f, err := readAnyFrame(c, 5*time.Second); err == nil && f != nil {
			for _, r := range e.be.Snapshot() {
				if r.Token == tok {
					comp = r.Compression
				}
			}
		}
		e.be.Event(&message.SchemaChangeEvent{ChangeType: primitive.SchemaChangeTypeCreated, Target: primitive.SchemaChangeTargetKeyspace, Keyspace: "ks"})
		time.Sleep(15 * time.Millisecond)
		got, _ := barrier(sentVer)
		for _, f := range got {
			if f.opcode == byte(primitive.OpCodeEvent) {
				registered = true
			}
		}
	}
	var fv, lv []hv.V
	for _, s := range steps {
		fv = append(fv, hv.B(s.frame))
		if s.logical != nil {
			lv = append(lv, hv.B(s.logical))
		} else {
			lv = append(lv, hv.L())
		}
	}
	in := hv.L(hv.I(int64(e.maxv)), hv.S(""), hv.I(0), hv.L(fv...), hv.L(lv...))
	e.ctx.Emit(in, hv.L(hv.L(results...), hv.S(comp), hv.Bool(registered)), note)
}

func (e *c13Env) bodyFor(vd byte, opcode byte, tok string) []byte {
	v := primitive.ProtocolVersion(vd & 0x7f)
	if !v.IsSupported() {
		v = 4
	}
	var msg message.Message
	switch primitive.OpCode(opcode) {
	case primitive.OpCodeStartup:
		return encStringMap("CQL_VERSION", "3.0.0")
	case primitive.OpCodeRegister:
		return encStringList("SCHEMA_CHANGE")
	case primitive.OpCodeQuery:
		msg = &message.Query{Query: "SELECT v FROM ks.t WHERE k = 'tok:" + tok + "'", Options: &message.QueryOptions{Consistency: primitive.ConsistencyLevelOne}}
	case primitive.OpCodePrepare:
		msg = &message.Prepare{Query: "SELECT v FROM ks.t WHERE k = 'tok:" + tok + "' AND j = ?"}
	case primitive.OpCodeExecute:
		e := &message.Execute{QueryId: []byte("0123456789abcdef"), Options: &message.QueryOptions{Consistency: primitive.ConsistencyLevelOne,
			PositionalValues: []*primitive.Value{primitive.NewValue([]byte("tok:" + tok))}}}
		if v.SupportsResultMetadataId() {
			e.ResultMetadataId = []byte("0123456789abcdef")
		}
		msg = e
	case primitive.OpCodeBatch:
		msg = &message.Batch{Children: []*message.BatchChild{{Query: "INSERT INTO ks.t (k) VALUES (?)", Values: []*primitive.Value{primitive.NewValue([]byte("tok:" + tok))}}}, Consistency: primitive.ConsistencyLevelOne}
	case primitive.OpCodeAuthResponse:
		return []byte{0, 0, 0, 2, 1, 2}
	default:
		return nil
	}
	b, err := gen.Body(v, msg)
	if err != nil {
		return nil
	}
	return b
}

func genC13(ctx *Ctx) {
	r := ctx.Rng
	prefix, port := px.Alloc()
	be := fb.New(prefix, port)
	if err := be.StartHost(1); err != nil {
		panic(err)
	}
	be.SetTopology(1)
	defer be.Shutdown()
	opcodes := []byte{0x00, 0x01, 0x02, 0x03, 0x05, 0x06, 0x07, 0x08, 0x09, 0x0a, 0x0b, 0x0c, 0x0d, 0x0e, 0x0f, 0x10, 0x11, 0x04, 0x40, 0xff}
	for _, maxv := range []primitive.ProtocolVersion{3, 4, 5, 65, 66} {
		cfg := px.DefaultConfig(be)
		cfg.MaxVersion = maxv
		if maxv < 4 {
			cfg.Version = 3
		}
		env, err := px.StartProxy(be, cfg)
		if err != nil {
			panic(err)
		}
		e := &c13Env{ctx: ctx, be: be, env: env, maxv: maxv}
		tokn := 0
		one := func(vd byte, flags byte, opcode byte, note string) {
			tokn++
			tok := fmt.Sprintf("g%dm%dx%d", ctx.Seed%1000, maxv, tokn)
			body := e.bodyFor(vd, opcode, tok)
			e.run([]step{{frame: frameBytesAny(vd, flags, int16(1+tokn%100), opcode, body), token: tok}}, note)
			ctx.Count(note)
		}
		// A. version byte x direction x opcode
		for vd := 0; vd < 256; vd++ {
			v := primitive.ProtocolVersion(vd & 0x7f)
			ops := opcodes
			if !v.IsSupported() {
				ops = []byte{0x01, 0x05, 0x07}
				if !ctx.Thorough && vd%4 != 1 && vd > 8 && vd != 0x7f && vd != 0xff && vd != 64 && vd != 67 {
					continue
				}
			}
			for _, op := range ops {
				one(byte(vd), 0, op, fmt.Sprintf("version-x-opcode:max%d", maxv))
			}
		}
		// B. STARTUP option maps
		inRange := byte(3)
		names := []string{"lz4", "LZ4", "Lz4", "snappy", "SNAPPY", "Snappy", "", "bogus", "lz4 ", "deflate", "none", "lz", "snappyy"}
		keys := []string{"COMPRESSION", "compression", "Compression", "COMPRESSION "}
		for _, k := range keys {
			for _, n := range names {
				body := encStringMap("CQL_VERSION", "3.0.0", k, n)
				e.run([]step{{frame: px.FrameBytes(inRange, 0, 5, 1, body)}}, "startup-options")
				ctx.Count("startup-options")
			}
		}
		for _, pair := range [][2]string{{"lz4", "bogus"}, {"bogus", "lz4"}, {"snappy", "lz4"}, {"lz4", ""}} {
			body := encStringMap("COMPRESSION", pair[0], "COMPRESSION", pair[1]) // duplicate key: the last one wins
			e.run([]step{{frame: px.FrameBytes(inRange, 0, 5, 1, body)}}, "startup-duplicate-key")
		}
		// C. handshake orders (each message must get exactly one frame, state accumulates)
		msgs := []struct {
			op   byte
			body []byte
		}{
			{5, nil}, {1, encStringMap("CQL_VERSION", "3.0.0")}, {1, encStringMap("CQL_VERSION", "3.0.0", "COMPRESSION", "lz4")},
			{1, encStringMap("COMPRESSION", "zstd")}, {11, encStringList("SCHEMA_CHANGE")}, {11, encStringList("TOPOLOGY_CHANGE", "STATUS_CHANGE")},
			{11, encStringList("STATUS_CHANGE", "SCHEMA_CHANGE", "TOPOLOGY_CHANGE")}, {11, encStringList()}, {11, encStringList("BOGUS_EVENT")},
			{1, encStringMap("COMPRESSION", "snappy")},
		}
		for i := 0; i < ctx.Scale(60, 1500); i++ {
			var st []step
			for j := 1 + r.Intn(4); j > 0; j-- {
				m := msgs[r.Intn(len(msgs))]
				st = append(st, step{frame: px.FrameBytes(inRange, 0, int16(1+j), m.op, m.body)})
			}
			e.run(st, "handshake-sequence")
			ctx.Count("handshake-sequence")
		}
		// D. compressed frames with and without negotiated compression
		for _, algo := range []string{"lz4", "snappy"} {
			tokn++
			tok := fmt.Sprintf("g%dm%dz%d", ctx.Seed%1000, maxv, tokn)
			q := &message.Query{Query: "SELECT v FROM ks.t WHERE k = 'tok:" + tok + "'", Options: &message.QueryOptions{Consistency: primitive.ConsistencyLevelOne}}
			var buf bytes.Buffer
			frm := frame.NewFrame(primitive.ProtocolVersion(inRange), 9, q)
			frm.Header.Flags = frm.Header.Flags.Add(primitive.HeaderFlagCompressed)
			_ = codecs.DefaultRawCodecsWithCompression[algo].EncodeFrame(frm, &buf)
			logical, _ := gen.Body(primitive.ProtocolVersion(inRange), q)
			startup := step{frame: px.FrameBytes(inRange, 0, 1, 1, encStringMap("COMPRESSION", strings.ToUpper(algo)))}
			e.run([]step{startup, {frame: buf.Bytes(), logical: logical, token: tok}}, "compressed-after-startup")
			e.run([]step{{frame: buf.Bytes(), logical: logical, token: tok + "b"}}, "compressed-without-startup")
			e.run([]step{{frame: px.FrameBytes(inRange, 0, 1, 1, encStringMap("COMPRESSION", "bogus"))}, {frame: buf.Bytes(), logical: logical, token: tok + "c"}}, "compressed-after-rejected-startup")
			ctx.Count("compressed-frames")
		}
		// E. the gate judges every frame, not only the first one of a connection: frames of every version after a
		// completed handshake (STARTUP, or STARTUP and REGISTER, in an accepted version), then an in-range request
		// that shows the connection is still usable
		var accepted []byte
		for _, sv := range []byte{3, 4, 5, 65, 66} {
			if primitive.ProtocolVersion(sv) <= maxv || (primitive.ProtocolVersion(sv).IsDse() && maxv.IsDse() && primitive.ProtocolVersion(sv) <= maxv) {
				if !(primitive.ProtocolVersion(sv).IsDse() && !maxv.IsDse()) {
					accepted = append(accepted, sv)
				}
			}
		}
		for _, sv := range accepted {
			for _, vd := range []byte{1, 2, 3, 4, 5, 6, 64, 65, 66, 67, 0x7f} {
				for _, op := range []byte{0x05, 0x07, 0x09, 0x0a, 0x0b, 0x0d, 0x01} {
					if !ctx.Thorough && r.Intn(3) != 0 && primitive.ProtocolVersion(vd) <= maxv && vd >= 3 {
						continue // in-range combinations are section A's subject; keep a sample
					}
					tokn++
					tok := fmt.Sprintf("g%dm%de%d", ctx.Seed%1000, maxv, tokn)
					st := []step{{frame: px.FrameBytes(sv, 0, 1, 1, encStringMap("CQL_VERSION", "3.0.0"))}}
					if r.Intn(2) == 0 {
						st = append(st, step{frame: px.FrameBytes(sv, 0, 2, 11, encStringList("SCHEMA_CHANGE"))})
					}
					st = append(st, step{frame: frameBytesAny(vd, 0, 3, op, e.bodyFor(vd, op, tok)), token: tok})
					if primitive.ProtocolVersion(vd).IsSupported() {
						// unknown versions close the connection; after a known one the connection must still serve
						st = append(st, step{frame: px.FrameBytes(sv, 0, 4, 7, e.bodyFor(sv, 7, tok+"u")), token: tok + "u"})
					}
					e.run(st, "version-gate-after-handshake")
					ctx.Count(fmt.Sprintf("version-gate-after-handshake:max%d", maxv))
				}
			}
		}
		env.Close()
	}
	_ = hv.I
}

func isProtocolError(body []byte) bool {
	code, _, ok := errCodeAndMessage(body)
	return ok && code == 0x000A
}
