package main

// C03 / C12: generated QUERY / EXECUTE / BATCH / PREPARE frames (every version, header flag,
// compression) sent through the real proxy -- one instance with an unsupported-write-consistency
// list, one without -- to a recording backend that answers with scripted raw frames.
// C03 cases compare bytes in both directions; C12 cases describe what reached the backend
// (raw-identical or the re-encoded logical body).

import (
	"bytes"
	"crypto/md5"
	"encoding/hex"
	"fmt"
	"go.uber.org/zap"
	"os"
	"strings"
	"time"

	"net"
	"sort"
	"verifharness/fb"

	"verifharness/gen"
	"verifharness/hv"
	"verifharness/px"

	"github.com/datastax/cql-proxy/codecs"
	"github.com/datastax/cql-proxy/proxy"
	"github.com/datastax/go-cassandra-native-protocol/compression/snappy"
	"github.com/datastax/go-cassandra-native-protocol/frame"
	"github.com/datastax/go-cassandra-native-protocol/message"
	"github.com/datastax/go-cassandra-native-protocol/primitive"
)

func init() {
	props["C03"] = func(c *Ctx) { genForward(c, "C03") }
	props["C12"] = func(c *Ctx) { genForward(c, "C12") }
}

type fwProxy struct {
	env     *px.Env
	list    []primitive.ConsistencyLevel
	ovr     primitive.ConsistencyLevel
	clients map[string]*px.Client
	stream  int16
	name    string
}

func decompress(comp string, b []byte) ([]byte, error) {
	var out bytes.Buffer
	var err error
	switch comp {
	case "lz4":
		// with the decompressed length that precedes the block (the reference library's own decompressor only tries
		// buffers of up to eight times the compressed length)
		if len(b) < 4 {
			return nil, fmt.Errorf("lz4: short body")
		}
		n := int(b[0])<<24 | int(b[1])<<16 | int(b[2])<<8 | int(b[3])
		if n == 0 {
			return nil, nil
		}
		return lz4Reference(b[4:], n)
	case "snappy":
		err = snappy.Compressor{}.DecompressWithLength(bytes.NewReader(b), &out)
	default:
		return b, nil
	}
	return out.Bytes(), err
}

func (p *fwProxy) client(v primitive.ProtocolVersion, comp string) *px.Client {
	key := fmt.Sprintf("%d/%s", v, comp)
	if c, ok := p.clients[key]; ok {
		return c
	}
	c, err := px.Dial(p.env.Addr)
	if err != nil {
		panic(err)
	}
	if err := c.Startup(v, comp); err != nil {
		panic(fmt.Sprintf("startup v%d %s: %v", v, comp, err))
	}
	p.clients[key] = c
	return c
}

func inList(l []primitive.ConsistencyLevel, c primitive.ConsistencyLevel) bool {
	for _, x := range l {
		if x == c {
			return true
		}
	}
	return false
}

func genForward(ctx *Ctx, prop string) {
	frontPhase(ctx)
	r := ctx.Rng
	prefix, port := px.Alloc()
	be := fb.New(prefix, port)
	if err := be.StartHost(1); err != nil {
		panic(err)
	}
	be.SetTopology(1)
	mk := func(name string, list []primitive.ConsistencyLevel, ovr primitive.ConsistencyLevel) *fwProxy {
		cfg := px.DefaultConfig(be)
		cfg.MaxVersion = primitive.ProtocolVersionDse2
		proxy.VerifSetWriteConsistencyOverride(&cfg, list, ovr)
		if os.Getenv("VH_DEBUG") != "" {
			cfg.Logger, _ = zap.NewDevelopment()
		}
		env, err := px.StartProxy(be, cfg)
		if err != nil {
			panic(err)
		}
		return &fwProxy{env: env, list: list, ovr: ovr, clients: map[string]*px.Client{}, name: name}
	}
	withList := mk("list", []primitive.ConsistencyLevel{primitive.ConsistencyLevelLocalQuorum, primitive.ConsistencyLevelEachQuorum, primitive.ConsistencyLevelSerial, primitive.ConsistencyLevelAny},
		primitive.ConsistencyLevelQuorum)
	noList := mk("nolist", nil, primitive.ConsistencyLevelLocalQuorum)
	defer func() {
		for _, p := range []*fwProxy{withList, noList} {
			for _, c := range p.clients {
				c.Close()
			}
			p.env.Close()
		}
		be.Shutdown()
	}()

	selText, insText, foreignText := "SELECT v FROM ks.t WHERE k = ?", "INSERT INTO ks.t (k, v) VALUES (?, ?)", "UPDATE ks.t SET v = ? WHERE k = ?"
	ids := map[string][]byte{}
	for _, p := range []*fwProxy{withList, noList} {
		c := p.client(primitive.ProtocolVersion4, "")
		for _, q := range []string{selText, insText} {
			_ = c.Send(primitive.ProtocolVersion4, 1, &message.Prepare{Query: q})
			f, _ := c.Next(5 * time.Second)
			if f == nil || f.Opcode != byte(primitive.OpCodeResult) {
				panic("prepare failed")
			}
			ids[q] = be.PrepareEverywhere(q)
		}
	}
	ids[foreignText] = be.PrepareEverywhere(foreignText)

	comps := []string{"", "lz4", "snappy"}
	seq := 0
	maxVal := ctx.Scale(40, 4000)
	nCases := ctx.Scale(900, 30000)
	if os.Getenv("VH_ONLY_PIPELINED") != "" {
		nCases = 0
	}
	for i := 0; i < nCases; i++ {
		p := withList
		if i%3 == 2 {
			p = noList
		}
		v := gen.Versions[i%len(gen.Versions)]
		comp := comps[(i/5)%3]
		if comp == "snappy" && v == primitive.ProtocolVersion5 {
			comp = "lz4"
		}
		cl := p.client(v, comp)
		seq++
		tok := fmt.Sprintf("f%dx%d", ctx.Seed%1000, seq)
		// ---- the request ----
		var msg message.Message
		isSelect := false
		kind := ""
		switch r.Intn(10) {
		case 0, 1, 2:
			isSelect = r.Bool()
			txt := "INSERT INTO ks.t (k, v) VALUES ('tok:" + tok + "', 'x') -- " + gen.Text(r, 30)
			if isSelect {
				txt = "SeLeCt v FROM ks.t WHERE k = 'tok:" + tok + "' -- " + gen.Text(r, 30)
			}
			txt = strings.Map(func(c rune) rune {
				if c == '\n' || c == '\r' || c > 126 {
					return '.'
				}
				return c
			}, txt)
			if isSelect {
				switch r.Intn(6) {
				case 0: // comments inside the select clause that mention FROM
					txt = "SELECT v /* merged from 2 shards */ FROM ks.t WHERE k = 'tok:" + tok + "'"
				case 1:
					txt = "SELECT v -- read from 'ks'\n FROM ks.t WHERE k = 'tok:" + tok + "'"
				case 2:
					txt = "SELECT \"from\", v AS \"from\" /* from ( */ FROM ks.t WHERE k = 'tok:" + tok + "'"
				}
			}
			if r.Intn(6) == 0 {
				// content that compresses very well (a long run of one byte): ratios far above 8
				txt += " " + strings.Repeat(string(rune('a'+r.Intn(26))), 200+r.Intn(ctx.Scale(3000, 60000)))
				ctx.Count("highly-compressible-content")
			}
			msg = gen.Query(r, v, txt, maxVal)
			kind = "query"
		case 3, 4, 5:
			q := []string{selText, insText, foreignText}[r.Intn(3)]
			isSelect = q == selText
			e := gen.Execute(r, v, ids[q], maxVal)
			e.Options.NamedValues = nil
			val := r.Bytes(r.Intn(maxVal))
			if r.Intn(6) == 0 {
				val = bytes.Repeat([]byte{byte(r.Intn(256))}, 200+r.Intn(ctx.Scale(3000, 60000)))
				ctx.Count("highly-compressible-content")
			}
			if r.Intn(8) == 0 {
				// a long incompressible run followed by a repeat of its beginning: one literal run of more than two thousand
				// bytes before a match (the shape the pinned lz4 module's decoder rejected)
				val = r.Bytes(2100 + r.Intn(4000))
				val = append(val, val[:64]...)
				ctx.Count("long-literal-run-then-a-match")
			}
			e.Options.PositionalValues = []*primitive.Value{primitive.NewValue([]byte("tok:" + tok)), primitive.NewValue(val)}
			msg = e
			kind = "execute"
		case 6, 7, 8:
			var ch []*message.BatchChild
			for j := r.Intn(4); j >= 0; j-- {
				if r.Bool() {
					ch = append(ch, &message.BatchChild{Query: "INSERT INTO ks.t (k, v) VALUES (?, ?)", Values: []*primitive.Value{primitive.NewValue([]byte("tok:" + tok)), gen.Value(r, v, maxVal)}})
				} else {
					ch = append(ch, &message.BatchChild{Id: ids[insText], Values: []*primitive.Value{primitive.NewValue([]byte("tok:" + tok)), gen.Value(r, v, maxVal)}})
				}
			}
			msg = gen.Batch(r, v, ch)
			kind = "batch"
		default:
			msg = &message.Prepare{Query: "SELECT v FROM ks.t WHERE k = 'tok:" + tok + "' AND j = ?"}
			kind = "prepare"
		}
		var consistency primitive.ConsistencyLevel
		switch m := msg.(type) {
		case *message.Query:
			if r.Intn(2) == 0 {
				m.Options.Consistency = hv.Pick(r, withList.list)
			}
			consistency = m.Options.Consistency
		case *message.Execute:
			if r.Intn(2) == 0 {
				m.Options.Consistency = hv.Pick(r, withList.list)
			}
			consistency = m.Options.Consistency
		case *message.Batch:
			if r.Intn(2) == 0 {
				m.Consistency = hv.Pick(r, withList.list)
			}
			consistency = m.Consistency
		}
		overrides := kind != "prepare" && !isSelect && inList(p.list, consistency)
		// header flags and envelope
		flags := primitive.HeaderFlag(0)
		var payload map[string][]byte
		if r.Intn(3) == 0 {
			flags = flags.Add(primitive.HeaderFlagTracing)
		}
		if v >= primitive.ProtocolVersion4 && r.Intn(3) == 0 {
			flags = flags.Add(primitive.HeaderFlagCustomPayload)
			payload = map[string][]byte{}
			n := r.Intn(4)
			if overrides && n > 1 {
				n = 1 // re-encoding iterates a Go map: keep the byte order deterministic
			}
			for j := 0; j < n; j++ {
				payload[fmt.Sprintf("k%d%s", j, gen.Text(r, 5))] = r.Bytes(r.Intn(30))
			}
		}
		if !overrides && r.Intn(8) == 0 {
			flags = flags.Add(primitive.HeaderFlagWarning) // meaningless on a request, must still pass through
		}
		if comp != "" && r.Intn(4) != 0 {
			flags = flags.Add(primitive.HeaderFlagCompressed)
		}
		p.stream = (p.stream+1)%30000 + 1
		st := p.stream
		// The frame is assembled by hand: the reference frame encoder mis-counts the length of a
		// request with the tracing flag and writes a warning list for a flagged request.
		encBody := func(fl primitive.HeaderFlag) []byte {
			var buf bytes.Buffer
			hdr := &frame.Header{Version: v, Flags: fl.Remove(primitive.HeaderFlagWarning), OpCode: msg.GetOpCode()}
			if err := cl.Codec.EncodeBody(hdr, &frame.Body{Message: msg, CustomPayload: payload}, &buf); err != nil {
				panic(fmt.Sprintf("encode %T v%d flags %02x: %v", msg, v, byte(fl), err))
			}
			return buf.Bytes()
		}
		sent := px.FrameBytes(byte(v), byte(flags), st, byte(msg.GetOpCode()), encBody(flags))
		if comp == "lz4" && flags.Contains(primitive.HeaderFlagCompressed) && r.Intn(3) == 0 {
			// a client whose compressor is not the proxy's: the same content as ONE run of literals (a valid block of a
			// different length than what the reference compressor writes)
			u := encBody(flags.Remove(primitive.HeaderFlagCompressed))
			if len(u) > 0 {
				sent = px.FrameBytes(byte(v), byte(flags), st, byte(msg.GetOpCode()), lz4Stored(u))
				ctx.Count("lz4-body-from-another-compressor")
			}
		}
		logical := sent[9:]
		if flags.Contains(primitive.HeaderFlagCompressed) {
			var err error
			if logical, err = decompress(comp, sent[9:]); err != nil {
				if os.Getenv("VH_DEBUG") != "" {
					_ = os.WriteFile("/tmp/lz4plain.bin", encBody(flags.Remove(primitive.HeaderFlagCompressed)), 0o644)
				}
				panic(err)
			}
		}
		// ---- the scripted raw answer ----
		rflags := byte(0)
		for b, bit := range []byte{0x02, 0x04, 0x08} {
			if r.Intn(4) == 0 && !(bit == 0x04 && v < 4) {
				rflags |= bit
			}
			_ = b
		}
		if comp != "" && r.Intn(3) == 0 {
			rflags |= 0x01
		}
		ropcode := byte(primitive.OpCodeResult)
		rbody := r.Bytes(r.Intn(ctx.Scale(200, 20000)))
		if kind == "prepare" {
			rflags = 0
			var buf bytes.Buffer
			id := r.Bytes(16)
			_ = cl.Codec.EncodeBody(&frame.Header{Version: v, OpCode: primitive.OpCodeResult}, &frame.Body{Message: &message.PreparedResult{PreparedQueryId: id, ResultMetadataId: id,
				VariablesMetadata: &message.VariablesMetadata{}, ResultMetadata: &message.RowsMetadata{ColumnCount: 0}}}, &buf)
			rbody = buf.Bytes()
		} else if r.Intn(4) == 0 {
			ropcode = byte(primitive.OpCodeError)
			if len(rbody) >= 4 && rbody[2] == 0x25 {
				rbody[2] = 0x24 // keep clear of the UNPREPARED code (C08/C17 deal with it)
			}
			if len(rbody) >= 4 {
				rbody[0], rbody[1] = 0, 0 // an error code the retry policy ignores: 0x0000xxxx with xx != known codes
				rbody[2], rbody[3] = 0x7f, byte(r.Intn(200))
			}
		}
		// one request in six is first answered with a read timeout the policy retries on the same host:
		// every copy of the request that reaches a backend must be the same bytes
		retried := kind != "prepare" && r.Intn(6) == 0
		var hold chan struct{}
		if kind == "prepare" {
			be.PrepareErr[hexOf(md5Of(msg.(*message.Prepare).Query))] = []fb.Outcome{{Kind: fb.RawReply, RawFlags: rflags, RawOpcode: ropcode, RawBody: rbody}}
		} else if retried {
			// ... and half of those are held at the backend while ANOTHER request of the same client connection is sent and
			// answered, so that the copy that is sent again was kept across later traffic on its connection
			if r.Intn(2) == 0 {
				hold = make(chan struct{})
			}
			be.SetScript(tok, fb.Outcome{Kind: fb.ErrMsg, Hold: hold, Msg: &message.ReadTimeout{ErrorMessage: "scripted", Consistency: primitive.ConsistencyLevelQuorum, Received: 2, BlockFor: 2, DataPresent: false}},
				fb.Outcome{Kind: fb.RawReply, RawFlags: rflags, RawOpcode: ropcode, RawBody: rbody})
		} else {
			out := fb.Outcome{Kind: fb.RawReply, RawFlags: rflags, RawOpcode: ropcode, RawBody: rbody}
			if r.Intn(5) == 0 {
				// the answer reaches the proxy in several TCP segments: inside the header, at the header's end, inside the body
				out.Pieces = cutPoints(r, 9+len(rbody))
				ctx.Count("response-arrives-in-segments")
			}
			be.SetScript(tok, out)
		}
		if r.Intn(5) == 0 {
			// ... and so does the request
			from := 0
			for _, e := range cutPoints(r, len(sent)) {
				_ = cl.SendRaw(sent[from:e])
				from = e
				time.Sleep(300 * time.Microsecond)
			}
			_ = cl.SendRaw(sent[from:])
			ctx.Count("request-arrives-in-segments")
		} else {
			_ = cl.SendRaw(sent)
		}
		if hold != nil {
			p.stream = (p.stream+1)%30000 + 1
			st2 := p.stream
			if overrides && len(p.list) > 0 {
				// the held request was re-encoded with the override: the request sent meanwhile is re-encoded too, and is
				// SHORTER (whatever the first one's bytes were kept in must not be reused for this one)
				_ = cl.Send(v, st2, &message.Query{Query: "INSERT INTO ks.t (k, v) VALUES ('tok:" + tok + "i', 0)", Options: &message.QueryOptions{Consistency: p.list[r.Intn(len(p.list))]}})
				ctx.Count("retried-overridden-request-after-another-overridden-request")
			} else {
				filler := strings.Repeat("y", len(sent)+r.Intn(64))
				_ = cl.Send(v, st2, &message.Query{Query: "SELECT v FROM ks.t WHERE k = 'tok:" + tok + "i' -- " + filler, Options: &message.QueryOptions{Consistency: primitive.ConsistencyLevelOne}})
			}
			for {
				f, _ := cl.Next(5 * time.Second)
				if f == nil || f.Stream == st2 {
					break
				}
			}
			close(hold)
			ctx.Count("retried-after-another-request-on-the-same-client-connection")
		}
		got, _ := cl.Next(5 * time.Second)
		// what the backend saw
		var rec *fb.Rec
		var earlier []fb.Rec // the attempts before the last one (a retried request)
		deadline := time.Now().Add(700 * time.Millisecond)
		for rec == nil {
			earlier = nil
			for _, x := range be.Snapshot() {
				if x.Token == tok && (x.Kind == "query" || x.Kind == "execute" || x.Kind == "batch" || x.Kind == "prepare") {
					if rec != nil {
						earlier = append(earlier, *rec)
					}
					xx := x
					rec = &xx
				}
			}
			if (rec != nil && (!retried || len(earlier) > 0)) || time.Now().After(deadline) {
				break
			}
			rec = nil
			time.Sleep(5 * time.Millisecond)
		}
		be.ResetLog()
		if retried {
			ctx.Count(fmt.Sprintf("retried-on-same-host:attempts-seen-%d", len(earlier)+1))
		}
		note := fmt.Sprintf("%s:%s:v%d:%s:flags%02x", p.name, kind, v, comp, byte(flags))
		ctx.Count(fmt.Sprintf("%s:%s:v%d:%s", p.name, kind, v, comp))
		ctx.Count(fmt.Sprintf("reqflags:%02x", byte(flags)))
		if prop == "C03" {
			if !overrides {
				for _, e := range earlier {
					bs := int64(uint16(e.Raw[2])<<8 | uint16(e.Raw[3]))
					ctx.Emit(hv.L(hv.B(sent), hv.I(bs)), hv.L(hv.B(e.Raw)), "request-first-attempt:"+note)
				}
				if rec != nil {
					bs := int64(uint16(rec.Raw[2])<<8 | uint16(rec.Raw[3]))
					ctx.Emit(hv.L(hv.B(sent), hv.I(bs)), hv.L(hv.B(rec.Raw)), "request:"+note)
				} else {
					ctx.Emit(hv.L(hv.B(sent), hv.I(0)), hv.L(), "request:"+note)
				}
			}
			if rec != nil {
				back := fb.RawFrameBytes(byte(v), rflags, rec.Stream, ropcode, rbody)
				if got != nil {
					ctx.Emit(hv.L(hv.B(back), hv.I(int64(uint16(st)))), hv.L(hv.B(got.Raw)), "response:"+note)
				} else {
					ctx.Emit(hv.L(hv.B(back), hv.I(int64(uint16(st)))), hv.L(), "response:"+note)
				}
				ctx.Count(fmt.Sprintf("respflags:%02x", rflags))
			}
			if !overrides {
				continue
			}
			// with an override the forwarded frame may differ in the consistency field only:
			// the same observation as C12 makes, judged by the same predicate
		}
		// C12
		if kind == "prepare" {
			continue
		}
		var lv []hv.V
		for _, c := range p.list {
			lv = append(lv, hv.I(int64(c)))
		}
		in := hv.L(hv.I(int64(v)), hv.I(int64(flags.Remove(primitive.HeaderFlagCompressed))), hv.I(int64(msg.GetOpCode())), hv.B(logical), hv.Bool(isSelect), hv.L(lv...), hv.I(int64(p.ovr)))
		observe := func(rec *fb.Rec) hv.V {
			if bytes.Equal(rec.Raw[:2], sent[:2]) && bytes.Equal(rec.Raw[4:], sent[4:]) {
				return hv.L(hv.I(0))
			}
			body := rec.Raw[9:]
			lb := body
			okFrame := rec.Raw[0] == sent[0] && rec.Raw[1] == sent[1] && rec.Raw[4] == sent[4]
			if rec.Raw[1]&0x01 != 0 {
				var err error
				lb, err = decompress(comp, body)
				if err != nil {
					okFrame = false
				}
			}
			if okFrame {
				return hv.L(hv.I(1), hv.B(lb), hv.I(int64(len(lb))))
			}
			return hv.L(hv.I(3))
		}
		for i := range earlier {
			ctx.Emit(in, observe(&earlier[i]), "first-attempt-of-a-retried-request:"+note)
		}
		var out hv.V
		switch {
		case rec == nil:
			out = hv.L(hv.I(3))
			if os.Getenv("VH_DEBUG") != "" {
				if got != nil {
					fmt.Fprintf(os.Stderr, "DEBUG %s: no backend record; client got opcode %d body %q\n", note, got.Opcode, got.Body)
				} else {
					fmt.Fprintf(os.Stderr, "DEBUG %s: no backend record; client got nothing\n", note)
				}
				for _, x := range be.Snapshot() {
					fmt.Fprintf(os.Stderr, "   log: %s %s tok=%s\n", x.Kind, x.Host, x.Token)
				}
			}
			// the backend may be stuck inside a half-read frame: start afresh
			be.DropConns(1)
			time.Sleep(300 * time.Millisecond)
		default:
			out = observe(rec)
		}
		if retried && rec != nil && len(earlier) == 0 {
			out = hv.L(hv.I(3)) // the retried request reached the backend only once
			note = "retried-request-seen-once:" + note
		}
		if overrides {
			ctx.Count("override-applies")
		}
		ctx.Emit(in, out, note)
	}
	if prop == "C03" {
		pipelinedLarge(ctx, be, withList)
		pipelinedLargeRequests(ctx, be, noList)
		connioPhase(ctx)
		lz4Phase(ctx)
	}
}

// pipelinedLarge: several requests in flight on ONE client connection whose answers are large (tens of kilobytes to a
// megabyte and more) while the client is slower than the backend (it starts reading late, through a small receive buffer),
// so that answers queue up inside the proxy.  Each answer must still be the bytes the backend wrote for THAT request.
func pipelinedLarge(ctx *Ctx, be *fb.Backend, p *fwProxy) {
	r := ctx.Rng
	const v = primitive.ProtocolVersion4
	sizes := []int{20 << 10, 70 << 10, 100 << 10, 150 << 10, 260 << 10, 400 << 10}
	if ctx.Tier == "thorough" {
		sizes = append(sizes, 1<<20, 1<<20, 2<<20)
	}
	for round := 0; round < ctx.Scale(2, 10); round++ {
		conn, err := net.DialTimeout("tcp", p.env.Addr, 5*time.Second)
		if err != nil {
			panic(err)
		}
		if t, ok := conn.(*net.TCPConn); ok {
			_ = t.SetReadBuffer(128 << 10) // not below one loopback segment (64 KiB): a smaller buffer stalls the TCP connection itself
		}
		_ = conn.SetDeadline(time.Now().Add(60 * time.Second))
		_, _ = conn.Write(px.FrameBytes(byte(v), 0, 0, byte(primitive.OpCodeStartup), []byte{0, 1, 0, 11, 'C', 'Q', 'L', '_', 'V', 'E', 'R', 'S', 'I', 'O', 'N', 0, 5, '3', '.', '0', '.', '0'}))
		if f, err := px.ReadFrame(conn); err != nil || f.Opcode != byte(primitive.OpCodeReady) {
			panic(fmt.Sprintf("pipelined: startup: %v", err))
		}
		n := ctx.Scale(10, 24)
		var reqs bytes.Buffer
		toks, bodies := map[int16]string{}, map[int16][]byte{}
		for i := 1; i <= n; i++ {
			tok := fmt.Sprintf("pl%dx%dx%d", ctx.Seed%1000, round, i)
			size := sizes[r.Intn(len(sizes))] + r.Intn(4096)
			if round == 0 {
				size = sizes[(i-1)%len(sizes)] + r.Intn(4096)
			}
			// a body that names its request all the way through: 16 random bytes, then the request's number repeated
			body := append(r.Bytes(16), bytes.Repeat([]byte{byte('A' + i)}, size)...)
			be.SetScript(tok, fb.Outcome{Kind: fb.RawReply, RawFlags: 0, RawOpcode: byte(primitive.OpCodeResult), RawBody: body})
			toks[int16(i)], bodies[int16(i)] = tok, body
			var buf bytes.Buffer
			_ = codecs.DefaultRawCodec.EncodeFrame(frame.NewFrame(v, int16(i), &message.Query{Query: "SELECT v FROM ks.t WHERE k = 'tok:" + tok + "'", Options: &message.QueryOptions{Consistency: primitive.ConsistencyLevelOne}}), &buf)
			reqs.Write(buf.Bytes())
		}
		_, _ = conn.Write(reqs.Bytes())
		time.Sleep(400 * time.Millisecond) // the slow client: the answers pile up inside the proxy
		got := map[int16]*px.Frame{}
		for i := 0; i < n; i++ {
			f, err := px.ReadFrame(conn)
			if err != nil {
				if os.Getenv("VH_DEBUG") != "" {
					fmt.Fprintf(os.Stderr, "DEBUG pipelined: read %d of %d: %v\n", i, n, err)
				}
				break
			}
			got[f.Stream] = f
			if i%4 == 0 {
				time.Sleep(20 * time.Millisecond)
			}
		}
		_ = conn.Close()
		snap := be.Snapshot()
		be.ResetLog()
		for i := 1; i <= n; i++ {
			st := int16(i)
			var rec *fb.Rec
			for j := range snap {
				if snap[j].Token == toks[st] && snap[j].Kind == "query" {
					rec = &snap[j]
				}
			}
			if rec == nil {
				continue
			}
			back := fb.RawFrameBytes(byte(v), 0, rec.Stream, byte(primitive.OpCodeResult), bodies[st])
			note := fmt.Sprintf("response:pipelined-large:%dKiB", len(bodies[st])>>10)
			ctx.Count(fmt.Sprintf("pipelined-large-response:%dKiB+", (len(bodies[st])>>16)<<6))
			if g := got[st]; g != nil {
				ctx.Emit(hv.L(hv.B(back), hv.I(int64(uint16(st)))), hv.L(hv.B(g.Raw)), note)
			} else {
				ctx.Emit(hv.L(hv.B(back), hv.I(int64(uint16(st)))), hv.L(), note)
			}
		}
	}
}

// cutPoints: one to four ascending offsets strictly inside a frame of n bytes, biased towards the header and its end
func cutPoints(r *hv.Rng, n int) []int {
	set := map[int]bool{}
	for k := 1 + r.Intn(4); k > 0; k-- {
		var c int
		switch r.Intn(3) {
		case 0:
			c = 1 + r.Intn(9)
		case 1:
			c = 9
		default:
			c = 1 + r.Intn(n)
		}
		if c > 0 && c < n {
			set[c] = true
		}
	}
	var out []int
	for c := range set {
		out = append(out, c)
	}
	sort.Ints(out)
	return out
}

// pipelinedLargeRequests: several requests with LARGE bodies (70 KiB to 1 MiB) in flight on one client connection; the
// first is answered with a read timeout only after the others have been sent, so it is written again.  Every copy the
// backend receives, first attempts and retries, must be the bytes the client sent for THAT request.
func pipelinedLargeRequests(ctx *Ctx, be *fb.Backend, p *fwProxy) {
	r := ctx.Rng
	const v = primitive.ProtocolVersion4
	cl := p.client(v, "")
	for round := 0; round < ctx.Scale(2, 12); round++ {
		n := 3 + r.Intn(4)
		hold := make(chan struct{})
		var all bytes.Buffer
		sentBy := map[string][]byte{}
		var toks []string
		for i := 0; i < n; i++ {
			tok := fmt.Sprintf("lr%dx%dx%d", ctx.Seed%1000, round, i)
			toks = append(toks, tok)
			size := 70<<10 + r.Intn(ctx.Scale(200<<10, 1<<20))
			blob := bytes.Repeat([]byte{byte('a' + i)}, size)
			copy(blob, r.Bytes(64))
			msg := &message.Query{Query: "INSERT INTO ks.t (k, v) VALUES ('tok:" + tok + "', ?)",
				Options: &message.QueryOptions{Consistency: primitive.ConsistencyLevelOne, PositionalValues: []*primitive.Value{primitive.NewValue(blob)}}}
			p.stream = (p.stream+1)%30000 + 1
			raw := cl.Encode(v, p.stream, msg, nil)
			sentBy[tok] = raw
			all.Write(raw)
			if i == 0 {
				be.SetScript(tok, fb.Outcome{Kind: fb.ErrMsg, Hold: hold, Msg: &message.ReadTimeout{ErrorMessage: "scripted", Consistency: primitive.ConsistencyLevelQuorum, Received: 2, BlockFor: 2, DataPresent: false}},
					fb.Outcome{Kind: fb.OkRows})
			}
		}
		_ = cl.SendRaw(all.Bytes())
		// the others are answered while the first is held
		for i := 1; i < n; i++ {
			if f, _ := cl.Next(5 * time.Second); f == nil {
				break
			}
		}
		close(hold)
		_, _ = cl.Next(5 * time.Second)
		time.Sleep(30 * time.Millisecond)
		snap := be.Snapshot()
		be.ResetLog()
		for _, tok := range toks {
			attempts := 0
			for _, x := range snap {
				if x.Token == tok && x.Kind == "query" {
					attempts++
					bs := int64(uint16(x.Raw[2])<<8 | uint16(x.Raw[3]))
					ctx.Emit(hv.L(hv.B(sentBy[tok]), hv.I(bs)), hv.L(hv.B(x.Raw)), fmt.Sprintf("request:pipelined-large:%dKiB:attempt%d", len(sentBy[tok])>>10, attempts))
				}
			}
			if attempts == 0 {
				ctx.Emit(hv.L(hv.B(sentBy[tok]), hv.I(0)), hv.L(), "request:pipelined-large:never-reached-the-backend")
			}
			ctx.Count(fmt.Sprintf("pipelined-large-request:attempts-%d", attempts))
		}
	}
}

// lz4Stored: the length prefix and a block that holds b as one run of literals.
func lz4Stored(b []byte) []byte {
	out := []byte{byte(len(b) >> 24), byte(len(b) >> 16), byte(len(b) >> 8), byte(len(b))}
	if len(b) < 15 {
		out = append(out, byte(len(b)<<4))
	} else {
		out = append(out, 0xf0)
		n := len(b) - 15
		for n >= 255 {
			out = append(out, 255)
			n -= 255
		}
		out = append(out, byte(n))
	}
	return append(out, b...)
}

// lz4Reference decodes an LZ4 block by the format specification, without optimisations (the harness's own decoder: the
// reference library's is one of the things under test).
func lz4Reference(src []byte, max int) ([]byte, error) {
	var dst []byte
	i := 0
	length := func(n int) (int, error) {
		if n == 15 {
			for {
				if i >= len(src) {
					return 0, fmt.Errorf("lz4: short length")
				}
				b := src[i]
				i++
				n += int(b)
				if b != 255 {
					break
				}
			}
		}
		return n, nil
	}
	for i < len(src) {
		tok := src[i]
		i++
		lit, err := length(int(tok >> 4))
		if err != nil || i+lit > len(src) {
			return nil, fmt.Errorf("lz4: literals beyond the input")
		}
		dst = append(dst, src[i:i+lit]...)
		i += lit
		if i == len(src) {
			break
		}
		if i+2 > len(src) {
			return nil, fmt.Errorf("lz4: short offset")
		}
		off := int(src[i]) | int(src[i+1])<<8
		i += 2
		if off == 0 || off > len(dst) {
			return nil, fmt.Errorf("lz4: bad offset")
		}
		ml, err := length(int(tok & 15))
		if err != nil {
			return nil, err
		}
		for k := 0; k < ml+4; k++ {
			dst = append(dst, dst[len(dst)-off])
		}
		if len(dst) > max {
			return nil, fmt.Errorf("lz4: longer than the stated length")
		}
	}
	return dst, nil
}

func md5Of(s string) []byte {
	h := md5.Sum([]byte(s))
	return h[:]
}

func hexOf(b []byte) string { return hex.EncodeToString(b) }
