package main

// C14: histories of clients connecting, registering for subsets of event types, disconnecting,
// backend events of all three kinds and control-connection failovers through the real proxy.
// The observation is, per client socket, the ordered list of EVENT frames it received.  A
// second family runs clients that register and leave concurrently with a steady stream of
// events (one case per client, the registration placed where the client's first frame shows it
// happened).

import (
	"bytes"
	"context"
	"fmt"
	"net"
	"os"
	"reflect"
	"runtime/pprof"
	"sync"
	"sync/atomic"
	"time"

	"verifharness/fb"
	"verifharness/hv"
	"verifharness/px"

	"github.com/datastax/cql-proxy/codecs"
	"github.com/datastax/cql-proxy/proxy"
	"github.com/datastax/cql-proxy/proxycore"
	"github.com/datastax/go-cassandra-native-protocol/message"
	"github.com/datastax/go-cassandra-native-protocol/primitive"
)

func init() { props["C14"] = genC14 }

var c14Start = time.Now()
var c14Dumped bool

type c14Events struct {
	mu      sync.Mutex
	emitted map[int]message.Message // id -> what the backend emitted
	tag     string
}

func (ev *c14Events) schema(id int, r *hv.Rng) *message.SchemaChangeEvent {
	ks := fmt.Sprintf("%sev%d", ev.tag, id)
	m := &message.SchemaChangeEvent{ChangeType: hv.Pick(r, []primitive.SchemaChangeType{primitive.SchemaChangeTypeCreated, primitive.SchemaChangeTypeUpdated, primitive.SchemaChangeTypeDropped}),
		Keyspace: ks}
	switch r.Intn(5) {
	case 0:
		m.Target = primitive.SchemaChangeTargetKeyspace
	case 1:
		m.Target, m.Object = primitive.SchemaChangeTargetTable, hv.Pick(r, []string{"t", "Tbl", "a b", "täble"})
	case 2:
		m.Target, m.Object = primitive.SchemaChangeTargetType, "udt_"+fmt.Sprint(id)
	case 3:
		m.Target, m.Object, m.Arguments = primitive.SchemaChangeTargetFunction, "fn", hv.Pick(r, [][]string{{}, {"int"}, {"int", "text", "list<int>"}})
	default:
		m.Target, m.Object, m.Arguments = primitive.SchemaChangeTargetAggregate, "agg", []string{"bigint"}
	}
	if m.Arguments == nil && (m.Target == primitive.SchemaChangeTargetFunction || m.Target == primitive.SchemaChangeTargetAggregate) {
		m.Arguments = []string{}
	}
	ev.mu.Lock()
	ev.emitted[id] = m
	ev.mu.Unlock()
	return m
}

// classify an EVENT frame received by a client: the id of the emitted event it equals, or an
// error code (100000+id content differs, 200000+ wrong stream, 300000 not a schema event, 400000 undecodable)
func (ev *c14Events) classify(cl *px.Client, f *px.Frame) int {
	frm, err := cl.Decode(f)
	if err != nil {
		return 400000
	}
	m, ok := frm.Body.Message.(*message.SchemaChangeEvent)
	if !ok {
		return 300000
	}
	var id int
	if _, err := fmt.Sscanf(m.Keyspace, ev.tag+"ev%d", &id); err != nil {
		return 400001
	}
	ev.mu.Lock()
	want := ev.emitted[id]
	ev.mu.Unlock()
	w, _ := want.(*message.SchemaChangeEvent)
	if w == nil {
		return 400002
	}
	g := *m
	if g.Arguments == nil && w.Arguments != nil && len(w.Arguments) == 0 {
		g.Arguments = []string{}
	}
	if !reflect.DeepEqual(&g, w) {
		return 100000 + id
	}
	if f.Stream != -1 {
		return 200000 + id
	}
	return id
}

type c14Client struct {
	cl     *px.Client
	ver    primitive.ProtocolVersion
	got    []int
	stream int16
}

// drain: read whatever is queued plus everything up to an OPTIONS barrier
func (c *c14Client) drain(ev *c14Events) bool {
	c.stream = c.stream%1000 + 1
	frames, ok := c.cl.Barrier(c.ver, c.stream, 5*time.Second)
	for _, f := range frames {
		if f.Opcode == byte(primitive.OpCodeEvent) {
			c.got = append(c.got, ev.classify(c.cl, f))
		}
	}
	return ok
}

func c14Env(hosts int) (*fb.Backend, *px.Env) {
	prefix, port := px.Alloc()
	be := fb.New(prefix, port)
	var topo []int
	for i := 1; i <= hosts; i++ {
		if err := be.StartHost(i); err != nil {
			panic(err)
		}
		topo = append(topo, i)
	}
	be.SetTopology(topo...)
	cfg := px.DefaultConfig(be)
	cfg.MaxVersion = primitive.ProtocolVersionDse2
	cfg.ReconnectPolicy = proxycore.NewReconnectPolicyWithDelays(2*time.Millisecond, 10*time.Millisecond)
	env, err := px.StartProxy(be, cfg)
	if err != nil {
		panic(err)
	}
	return be, env
}

func c14WaitRegistered(be *fb.Backend) bool {
	deadline := time.Now().Add(8 * time.Second)
	for time.Now().Before(deadline) {
		if be.ControlReady() > 0 {
			return true
		}
		time.Sleep(2 * time.Millisecond)
	}
	return false
}

var c14Combos = []struct {
	ver  primitive.ProtocolVersion
	comp string
}{{4, ""}, {4, ""}, {3, ""}, {4, "lz4"}, {5, ""}, {66, ""}, {4, "snappy"}, {65, ""}}

func c14Dial(env *px.Env, r *hv.Rng) *c14Client {
	cl, err := px.Dial(env.Addr)
	if err != nil {
		panic(err)
	}
	cb := hv.Pick(r, c14Combos)
	if err := cl.Startup(cb.ver, cb.comp); err != nil {
		panic(err)
	}
	return &c14Client{cl: cl, ver: cb.ver}
}

func genC14(ctx *Ctx) {
	r := ctx.Rng
	evs := &c14Events{emitted: map[int]message.Message{}, tag: fmt.Sprintf("s%d", ctx.Seed%1000)}
	nextID := 0
	be, env := c14Env(3)
	defer be.Shutdown()
	defer env.Close()
	// ---- sequential histories ----
	for round := 0; round < ctx.Scale(30, 300); round++ {
		n := 2 + r.Intn(4)
		cur := make([]*c14Client, n) // current socket of client index (nil = not connected)
		got := make([][]int, n)      // frames of every socket the index ever had
		var ops []hv.V
		op := func(vs ...int64) {
			var l []hv.V
			for _, v := range vs {
				l = append(l, hv.I(v))
			}
			ops = append(ops, hv.L(l...))
		}
		settle := func() {
			// the witness (index 0: registered for everything throughout) shows the proxy has fanned the last event out
			w := cur[0]
			deadline := time.Now().Add(3 * time.Second)
			want := nextID - 1
			for time.Now().Before(deadline) {
				seen := false
				for _, g := range w.got {
					if g%100000 == want {
						seen = true
					}
				}
				if seen {
					break
				}
				f, _ := w.cl.Next(time.Until(deadline))
				if f == nil {
					break
				}
				if f.Opcode == byte(primitive.OpCodeEvent) {
					w.got = append(w.got, evs.classify(w.cl, f))
				}
			}
			time.Sleep(15 * time.Millisecond)
			for _, c := range cur {
				if c != nil {
					c.drain(evs)
				}
			}
		}
		connect := func(i int) {
			cur[i] = c14Dial(env, r)
			op(0, int64(i))
		}
		register := func(i int, types []primitive.EventType) {
			c := cur[i]
			c.stream = c.stream%1000 + 1
			_ = c.cl.Send(c.ver, c.stream, &message.Register{EventTypes: types})
			schema := false
			for _, t := range types {
				if t == primitive.EventTypeSchemaChange {
					schema = true
				}
			}
			// READY (events may arrive before it)
			deadline := time.Now().Add(5 * time.Second)
			for {
				f, _ := c.cl.Next(time.Until(deadline))
				if f == nil {
					panic("C14: REGISTER not answered")
				}
				if f.Opcode == byte(primitive.OpCodeEvent) {
					c.got = append(c.got, evs.classify(c.cl, f))
					continue
				}
				break
			}
			op(1, int64(i), map[bool]int64{false: 0, true: 1}[schema])
		}
		disconnect := func(i int) {
			c := cur[i]
			c.drain(evs)
			got[i] = append(got[i], c.got...)
			c.cl.Close()
			cur[i] = nil
			op(2, int64(i))
			time.Sleep(20 * time.Millisecond) // the proxy notices the closed socket
		}
		emitSchema := func() {
			id := nextID
			nextID++
			be.Event(evs.schema(id, r))
			op(3, 0, int64(id))
			settle()
		}
		allTypes := []primitive.EventType{primitive.EventTypeTopologyChange, primitive.EventTypeStatusChange, primitive.EventTypeSchemaChange}
		connect(0)
		register(0, allTypes)
		for k := 0; k < 10+r.Intn(20); k++ {
			i := 1 + r.Intn(n-1)
			switch x := r.Intn(12); {
			case x < 2:
				if cur[i] == nil {
					connect(i)
				} else {
					disconnect(i)
				}
			case x < 5:
				if cur[i] == nil {
					connect(i)
				}
				var types []primitive.EventType
				for _, t := range allTypes {
					if r.Intn(2) == 0 {
						types = append(types, t)
					}
				}
				if len(types) == 0 {
					types = []primitive.EventType{hv.Pick(r, allTypes)}
				}
				register(i, types)
			case x < 8:
				emitSchema()
			case x == 8:
				id := nextID
				nextID++
				be.Event(&message.TopologyChangeEvent{ChangeType: hv.Pick(r, []primitive.TopologyChangeType{primitive.TopologyChangeTypeNewNode, primitive.TopologyChangeTypeRemovedNode}),
					Address: &primitive.Inet{Addr: []byte{10, 9, byte(id >> 8), byte(id)}, Port: 9042}})
				op(3, 1, int64(id))
				emitSchema()
			case x == 9:
				id := nextID
				nextID++
				be.Event(&message.StatusChangeEvent{ChangeType: hv.Pick(r, []primitive.StatusChangeType{primitive.StatusChangeTypeUp, primitive.StatusChangeTypeDown}),
					Address: &primitive.Inet{Addr: []byte{10, 8, byte(id >> 8), byte(id)}, Port: 9042}})
				op(3, 2, int64(id))
				emitSchema()
			case x == 10:
				// control connection failover: it is closed, the proxy opens and registers another
				// sometimes the first attempts get as far as REGISTER and then cannot read the system tables
				refuser := 0
				switch r.Intn(3) {
				case 0:
					be.SetFailSystem(1 + r.Intn(3))
				case 1:
					// ... or the host that is tried next has stopped speaking the negotiated version (it answers v3 only): the
					// attempt gets as far as REGISTER, is given up because the version differs, and the one after it succeeds
					for h, n := range be.Registered() {
						if n > 0 {
							refuser = h%3 + 1
						}
					}
					if refuser != 0 {
						be.SetHostAccept(refuser, 3)
						ctx.Count("failover-past-a-host-that-refuses-the-version")
					}
				}
				be.DropRegistered()
				time.Sleep(5 * time.Millisecond)
				ok14 := c14WaitRegistered(be)
				if refuser != 0 {
					be.SetHostAccept(refuser)
				}
				if !ok14 {
					panic("C14: no control connection came back")
				}
				time.Sleep(20 * time.Millisecond)
				op(4)
				emitSchema()
			default:
				if cur[i] != nil {
					disconnect(i)
				}
			}
		}
		emitSchema()
		var out []hv.V
		for i := 0; i < n; i++ {
			if cur[i] != nil {
				got[i] = append(got[i], cur[i].got...)
				cur[i].cl.Close()
			}
			var l []hv.V
			for _, g := range got[i] {
				l = append(l, hv.I(int64(g)))
			}
			out = append(out, hv.L(l...))
		}
		time.Sleep(30 * time.Millisecond)
		ctx.Emit(hv.L(hv.I(int64(n)), hv.L(ops...)), hv.L(out...), fmt.Sprintf("history:%dclients", n))
		ctx.Count("history")
	}
	c14Concurrent(ctx, be, env, evs, &nextID)
	c14Backlogged(ctx, be, env, evs, &nextID)
	c14Burst(ctx, be, env, evs, &nextID)
	c14RefreshBurst(ctx, evs, &nextID)
	_ = proxy.Config{}
	_ = bytes.MinRead
}

// c14Concurrent: a steady stream of schema events while clients connect, register and leave on
// their own schedule.  Per client: the events it received, and the number of events that had
// been emitted when it saw READY.
// c14RefreshBurst: schema events keep arriving on the control connection while the cluster refreshes its hosts (a topology
// event was announced one refresh window earlier and the system-table answers take 80 ms).  proxycore.Cluster is driven
// through its public API with a short refresh window; a listener stands for the proxy.  Every event must reach the listener,
// once, in order, and without waiting for the refresh to time out.
func c14RefreshBurst(ctx *Ctx, evs *c14Events, nextID *int) {
	prefix, port := px.Alloc()
	be := fb.New(prefix, port)
	for h := 1; h <= 2; h++ {
		if err := be.StartHost(h); err != nil {
			panic(err)
		}
	}
	be.SetTopology(1, 2)
	defer be.Shutdown()
	for round := 0; round < ctx.Scale(2, 10); round++ {
		c, cancel := context.WithCancel(context.Background())
		cluster, err := proxycore.ConnectCluster(c, proxycore.ClusterConfig{Version: primitive.ProtocolVersion4,
			Resolver: proxycore.NewResolverWithDefaultPort([]string{be.IP(1)}, be.Port), ReconnectPolicy: proxycore.NewReconnectPolicyWithDelays(20*time.Millisecond, 200*time.Millisecond),
			RefreshWindow: 150 * time.Millisecond, RefreshTimeout: 3 * time.Second, ConnectTimeout: 3 * time.Second, HeartBeatInterval: 30 * time.Second, IdleTimeout: 60 * time.Second})
		if err != nil {
			panic(err)
		}
		var mu sync.Mutex
		var got []int
		_ = cluster.Listen(proxycore.ClusterListenerFunc(func(e proxycore.Event) {
			if s, ok := e.(*proxycore.SchemaChangeEvent); ok {
				var id int
				if _, err := fmt.Sscanf(s.Message.Keyspace, evs.tag+"ev%d", &id); err != nil {
					id = 400001
				}
				mu.Lock()
				got = append(got, id)
				mu.Unlock()
			}
		}))
		c14WaitRegistered(be)
		be.SetSysDelay(80 * time.Millisecond)
		ops := []hv.V{hv.L(hv.I(0), hv.I(0)), hv.L(hv.I(1), hv.I(0), hv.Bool(true))}
		be.Event(&message.TopologyChangeEvent{ChangeType: primitive.TopologyChangeTypeNewNode, Address: &primitive.Inet{Addr: []byte{127, 0, 0, 9}, Port: int32(be.Port)}})
		ops = append(ops, hv.L(hv.I(3), hv.I(1), hv.I(0)))
		er := hv.NewRng(ctx.Rng.Next())
		for k := 0; k < 100; k++ { // half a second of schema events, the refresh happens in the middle
			id := *nextID
			*nextID++
			be.Event(evs.schema(id, er))
			ops = append(ops, hv.L(hv.I(3), hv.I(0), hv.I(int64(id))))
			time.Sleep(5 * time.Millisecond)
		}
		time.Sleep(400 * time.Millisecond)
		mu.Lock()
		var l []hv.V
		for _, g := range got {
			l = append(l, hv.I(int64(g)))
		}
		mu.Unlock()
		be.SetSysDelay(0)
		cancel()
		ctx.Emit(hv.L(hv.I(1), hv.L(ops...)), hv.L(hv.L(l...)), "schema events during a refresh of the hosts")
		ctx.Count("events-during-refresh")
		time.Sleep(50 * time.Millisecond)
	}
}

// c14Backlogged: a registered client that has pipelined tens of thousands of requests and is not reading (its socket
// buffers and the proxy's queue for it are full) when schema events are announced; it then reads everything.  It is
// connected and registered: it must find every event, once, among the answers; so must a client that reads normally.
func c14Backlogged(ctx *Ctx, be *fb.Backend, env *px.Env, evs *c14Events, nextID *int) {
	const v = primitive.ProtocolVersion4
	for round := 0; round < ctx.Scale(1, 4); round++ {
		conn, err := net.DialTimeout("tcp", env.Addr, 5*time.Second)
		if err != nil {
			panic(err)
		}
		_ = conn.SetDeadline(time.Now().Add(120 * time.Second))
		slow := &px.Client{C: conn, Codec: codecs.DefaultRawCodec}
		_, _ = conn.Write(slow.Encode(v, 1, message.NewStartup(), nil))
		if f, err := px.ReadFrame(conn); err != nil || f.Opcode != byte(primitive.OpCodeReady) {
			panic("c14: startup of the backlogged client")
		}
		_, _ = conn.Write(slow.Encode(v, 2, &message.Register{EventTypes: []primitive.EventType{primitive.EventTypeSchemaChange}}, nil))
		if f, err := px.ReadFrame(conn); err != nil || f.Opcode != byte(primitive.OpCodeReady) {
			panic("c14: register of the backlogged client")
		}
		fast := c14Dial(env, ctx.Rng)
		_ = fast.cl.Send(fast.ver, 1, &message.Register{EventTypes: []primitive.EventType{primitive.EventTypeSchemaChange}})
		if f, _ := fast.cl.Next(5 * time.Second); f == nil {
			panic("c14: register of the fast client")
		}
		ops := []hv.V{hv.L(hv.I(0), hv.I(0)), hv.L(hv.I(1), hv.I(0), hv.Bool(true)), hv.L(hv.I(0), hv.I(1)), hv.L(hv.I(1), hv.I(1), hv.Bool(true))}
		// the backlog: queries the proxy answers by itself, written by a goroutine because the writes block once everything is full
		nq := ctx.Scale(40000, 120000)
		one := slow.Encode(v, 7, &message.Query{Query: "SELECT * FROM system.local", Options: &message.QueryOptions{}}, nil)
		wrote := make(chan struct{})
		go func() {
			defer close(wrote)
			batch := bytes.Repeat(one, 500)
			for i := 0; i < nq/500; i++ {
				if _, err := conn.Write(batch); err != nil {
					return
				}
			}
		}()
		time.Sleep(1500 * time.Millisecond) // the answers pile up
		er := hv.NewRng(ctx.Rng.Next())
		for k := 0; k < 3; k++ {
			id := *nextID
			*nextID++
			be.Event(evs.schema(id, er))
			ops = append(ops, hv.L(hv.I(3), hv.I(0), hv.I(int64(id))))
			time.Sleep(20 * time.Millisecond)
		}
		time.Sleep(300 * time.Millisecond)
		// now read everything
		var gotSlow []int
		answers := 0
		for answers < nq/500*500 {
			f, err := px.ReadFrame(conn)
			if err != nil {
				break
			}
			if f.Opcode == byte(primitive.OpCodeEvent) {
				gotSlow = append(gotSlow, evs.classify(slow, f))
			} else {
				answers++
			}
		}
		<-wrote
		// events announced while the last answers were being read arrive after them: one more round trip
		_, _ = conn.Write(slow.Encode(v, 9, &message.Options{}, nil))
		for {
			f, err := px.ReadFrame(conn)
			if err != nil {
				break
			}
			if f.Opcode == byte(primitive.OpCodeEvent) {
				gotSlow = append(gotSlow, evs.classify(slow, f))
			} else if f.Stream == 9 {
				break
			}
		}
		_ = conn.Close()
		fast.drain(evs)
		fast.cl.Close()
		var a, b []hv.V
		for _, x := range gotSlow {
			a = append(a, hv.I(int64(x)))
		}
		for _, x := range fast.got {
			b = append(b, hv.I(int64(x)))
		}
		ctx.Emit(hv.L(hv.I(2), hv.L(ops...)), hv.L(hv.L(a...), hv.L(b...)), fmt.Sprintf("backlogged client: %d answers read after the events", answers))
		ctx.Count("backlogged-client")
	}
}

// c14Burst: many registered clients and events that arrive faster than they are fanned out, so that the queue between
// the control connection's reader and the event loop is appended to while a batch taken from it is still being
// delivered.  Every client must get every event once, in the order the backend announced them.
func c14Burst(ctx *Ctx, be *fb.Backend, env *px.Env, evs *c14Events, nextID *int) {
	const n = 12
	for round := 0; round < ctx.Scale(2, 8); round++ {
		var cs []*c14Client
		var ops []hv.V
		for i := 0; i < n; i++ {
			c := c14Dial(env, ctx.Rng)
			_ = c.cl.Send(c.ver, 1, &message.Register{EventTypes: []primitive.EventType{primitive.EventTypeSchemaChange}})
			if f, _ := c.cl.Next(5 * time.Second); f == nil {
				panic("c14: register in the burst family")
			}
			cs = append(cs, c)
			ops = append(ops, hv.L(hv.I(0), hv.I(int64(i))), hv.L(hv.I(1), hv.I(int64(i)), hv.Bool(true)))
		}
		er := hv.NewRng(ctx.Rng.Next())
		last := -1
		for burst := 0; burst < 3; burst++ {
			for k := 0; k < ctx.Scale(150, 400); k++ {
				id := *nextID
				*nextID++
				be.Event(evs.schema(id, er))
				ops = append(ops, hv.L(hv.I(3), hv.I(0), hv.I(int64(id))))
				last = id
			}
			time.Sleep(40 * time.Millisecond)
		}
		var out []hv.V
		for _, c := range cs {
			// until the last event announced has arrived (or, when events were lost, for five seconds)
			deadline := time.Now().Add(5 * time.Second)
			for {
				c.drain(evs)
				seen := false
				for _, g := range c.got {
					if g%100000 == last {
						seen = true
					}
				}
				if seen || time.Now().After(deadline) {
					break
				}
				time.Sleep(30 * time.Millisecond)
			}
			time.Sleep(20 * time.Millisecond)
			c.drain(evs)
			var l []hv.V
			for _, g := range c.got {
				l = append(l, hv.I(int64(g)))
			}
			out = append(out, hv.L(l...))
			c.cl.Close()
		}
		ctx.Emit(hv.L(hv.I(n), hv.L(ops...)), hv.L(out...), fmt.Sprintf("burst: %d events to %d registered clients", len(ops)-2*n, n))
		ctx.Count("event-burst")
	}
}

func c14Concurrent(ctx *Ctx, be *fb.Backend, env *px.Env, evs *c14Events, nextID *int) {
	r := ctx.Rng
	for round := 0; round < ctx.Scale(3, 30); round++ {
		if os.Getenv("VH_DEBUG") != "" {
			fmt.Fprintf(os.Stderr, "DEBUG c14 round %d at %v: control ready %d registered %v\n", round, time.Since(c14Start).Round(time.Millisecond), be.ControlReady(), be.Registered())
		}
		first := *nextID
		total := 120
		var emitted int64 = int64(first) // ids below this have been written to the control connection
		stop := make(chan struct{})
		var wg sync.WaitGroup
		type res struct {
			readyAt, leftAt int
			stayed          bool
			got             []int
		}
		nc := 8 + r.Intn(8)
		results := make([]res, nc)
		seeds := make([]uint64, nc)
		for i := range seeds {
			seeds[i] = r.Next()
		}
		for i := 0; i < nc; i++ {
			wg.Add(1)
			go func(i int) {
				defer wg.Done()
				rr := hv.NewRng(seeds[i])
				time.Sleep(time.Duration(rr.Intn(40)) * time.Millisecond)
				c := c14Dial(env, rr)
				defer c.cl.Close()
				_ = c.cl.Send(c.ver, 1, &message.Register{EventTypes: []primitive.EventType{primitive.EventTypeSchemaChange}})
				for {
					f, _ := c.cl.Next(5 * time.Second)
					if f == nil {
						panic("C14: REGISTER not answered")
					}
					if f.Opcode == byte(primitive.OpCodeEvent) {
						c.got = append(c.got, evs.classify(c.cl, f))
						continue
					}
					break
				}
				results[i].readyAt = int(atomic.LoadInt64(&emitted))
				stay := rr.Intn(3) != 0
				results[i].stayed = stay
				if !stay {
					// leave early, abruptly, after some more events
					deadline := time.Now().Add(time.Duration(5+rr.Intn(40)) * time.Millisecond)
					for time.Now().Before(deadline) {
						f, _ := c.cl.Next(time.Until(deadline))
						if f != nil && f.Opcode == byte(primitive.OpCodeEvent) {
							c.got = append(c.got, evs.classify(c.cl, f))
						}
					}
					results[i].leftAt = int(atomic.LoadInt64(&emitted))
					results[i].got = c.got
					return
				}
				<-stop
				time.Sleep(30 * time.Millisecond)
				c.drain(evs)
				results[i].got = c.got
			}(i)
		}
		er := hv.NewRng(r.Next())
		for k := 0; k < total; k++ {
			id := *nextID
			*nextID++
			m := evs.schema(id, er)
			be.Event(m)
			atomic.StoreInt64(&emitted, int64(id+1))
			time.Sleep(time.Duration(200+er.Intn(600)) * time.Microsecond)
		}
		time.Sleep(150 * time.Millisecond)
		close(stop)
		wg.Wait()
		last := *nextID
		if os.Getenv("VH_DEBUG") != "" {
			starved := 0
			for _, rs := range results {
				if rs.stayed && len(rs.got) == 0 {
					starved++
				}
			}
			if starved > 2 && !c14Dumped {
				c14Dumped = true
				fmt.Fprintf(os.Stderr, "DEBUG c14 STALL in round %d at %v\n", round, time.Since(c14Start))
				_ = pprof.Lookup("goroutine").WriteTo(os.Stderr, 1)
			}
		}
		for i, rs := range results {
			// registration is placed where the first frame shows it took effect, at the latest when READY was seen
			reg := rs.readyAt
			if len(rs.got) > 0 && rs.got[0]%100000 < reg && rs.got[0] >= first {
				reg = rs.got[0] % 100000
			}
			// the event numbered readyAt may have been on its way through the proxy while the client registered (the counter is
			// advanced after the backend has written it): it may or may not be among the client's frames
			if len(rs.got) > 0 && rs.got[0]%100000 == reg+1 {
				reg++
			}
			var ops []hv.V
			for id := first; id < reg; id++ {
				ops = append(ops, hv.L(hv.I(3), hv.I(0), hv.I(int64(id))))
			}
			ops = append(ops, hv.L(hv.I(0), hv.I(0)), hv.L(hv.I(1), hv.I(0), hv.I(1)))
			end := last
			if !rs.stayed {
				// it left: what it must have is only what was emitted before it stopped reading; cut the history where its frames end
				end = reg + len(rs.got)
				if end > last {
					end = last
				}
			}
			for id := reg; id < end; id++ {
				ops = append(ops, hv.L(hv.I(3), hv.I(0), hv.I(int64(id))))
			}
			var l []hv.V
			for _, g := range rs.got {
				l = append(l, hv.I(int64(g)))
			}
			note := "concurrent:stayed"
			if !rs.stayed {
				note = "concurrent:left-early"
			}
			ctx.Emit(hv.L(hv.I(1), hv.L(ops...)), hv.L(hv.L(l...)), fmt.Sprintf("%s client %d of %d", note, i, nc))
			ctx.Count(note)
		}
	}
}
