package main

// Front: what the proxy does with ONE client frame, end to end (Model/Front.v): answered by the
// proxy itself, or forwarded -- raw or re-encoded with the overridden consistency -- and, when
// forwarded, whether the request is treated as idempotent (the first attempt is answered with
// SERVER_ERROR, which the policy retries on the next host exactly for idempotent requests).
// QUERY / EXECUTE / BATCH / PREPARE over statements of every class, prepared ids known and
// unknown to the proxy, graph payloads, listed and unlisted consistencies, three client
// keyspaces, two proxy configurations.

import (
	"bytes"
	"fmt"
	"time"

	"verifharness/fb"
	"verifharness/hv"
	"verifharness/px"

	"github.com/datastax/cql-proxy/proxy"
	"github.com/datastax/go-cassandra-native-protocol/frame"
	"github.com/datastax/go-cassandra-native-protocol/message"
	"github.com/datastax/go-cassandra-native-protocol/primitive"
)

type frontStmt struct {
	text  string // contains %s for the token literal when it can carry one
	token bool
}

var frontStmts = []frontStmt{
	{"INSERT INTO ks.t (k, v) VALUES ('%s', 1)", true},
	{"insert into ks.t (k, v) values ('%s', {1: 'a'}) using ttl 10;", true},
	{"INSERT INTO ks.t (k, v) VALUES ('%s', now())", true},
	{"INSERT INTO ks.t (k, v) VALUES ('%s', [1, {2: uuid()}])", true},
	{"UPDATE ks.t SET c = c + 1 WHERE k = '%s'", true},
	{"UPDATE ks.t SET s = s + {1} WHERE k = '%s'", true},
	{"UPDATE ks.t SET l = l + [1] WHERE k = '%s'", true},
	{"DELETE l[0] FROM ks.t WHERE k = '%s'", true},
	{"DELETE v FROM ks.t WHERE k = '%s'", true},
	{"INSERT INTO ks.t (k, v) VALUES ('%s', 1) IF NOT EXISTS", true},
	// conditions spelled in the less usual places
	{"INSERT INTO ks.t JSON '{\"k\": \"%s\"}'", true},
	{"INSERT INTO ks.t JSON '{\"k\": \"%s\"}' DEFAULT UNSET IF NOT EXISTS", true},
	{"INSERT INTO ks.t JSON '{\"k\": \"%s\"}' DEFAULT NULL IF NOT EXISTS USING TTL 5", true},
	{"INSERT INTO ks.t JSON '{\"k\": \"%s\"}' DEFAULT NULL USING TIMESTAMP 5", true},
	{"INSERT INTO ks.t (k, v) VALUES ('%s', 1) USING TTL 5 AND TIMESTAMP 6", true},
	{"UPDATE ks.t SET v = 1 WHERE k = '%s' IF v = 2", true},
	{"UPDATE ks.t USING TTL 5 SET v = 1 WHERE k = '%s' IF EXISTS", true},
	{"DELETE FROM ks.t WHERE k = '%s' IF v IN (1, 2)", true},
	{"DELETE FROM ks.t USING TIMESTAMP 5 WHERE k = '%s'", true},
	{"BEGIN BATCH INSERT INTO ks.t (k, v) VALUES ('%s', uuid()) INSERT INTO ks.t (k, v) VALUES ('x', 1) APPLY BATCH", true},
	{"BEGIN BATCH INSERT INTO ks.t (k, v) VALUES ('%s', 1) UPDATE ks.t SET v = 2 WHERE k = 'x' IF EXISTS APPLY BATCH", true},
	{"BEGIN UNLOGGED BATCH USING TIMESTAMP 5 INSERT INTO ks.t (k, v) VALUES ('%s', 1); DELETE FROM ks.t WHERE k = 'y'; APPLY BATCH", true},
	{"SELECT v FROM ks.t WHERE k = '%s'", true},
	{"SELECT v FROM t2 WHERE k = '%s'", true},
	{"BEGIN BATCH INSERT INTO ks.t (k, v) VALUES ('%s', 1) APPLY BATCH", true},
	{"BEGIN COUNTER BATCH UPDATE ks.t SET c = c + 1 WHERE k = '%s' APPLY BATCH", true},
	{"TRUNCATE ks.t -- '%s'", true},
	{"garbage '%s' that does not parse (", true},
	{"SELECT * FROM system.local WHERE key = '%s'", true},
	{"SELECT key FROM local WHERE key = '%s'", true},
	{"select peer from PEERS where peer = '%s'", true},
	{"SELECT * FROM system.peers_v2 WHERE peer = '%s'", true},
	{"SELECT * FROM myks.local WHERE key = '%s'", true},
	{"USE myks", false},
}

var frontPrepared = []string{
	"INSERT INTO ks.t (k, v) VALUES (?, ?)",
	"INSERT INTO ks.t (k, v) VALUES (?, now())",
	"UPDATE ks.t SET c = c + ? WHERE k = ?",
	"SELECT v FROM ks.t WHERE k = ?",
	"DELETE FROM ks.t WHERE k = ? IF EXISTS",
	"INSERT INTO ks.t JSON :payload IF NOT EXISTS",
	"INSERT INTO ks.t JSON ? DEFAULT UNSET IF NOT EXISTS",
	"INSERT INTO ks.t JSON ?",
	"UPDATE ks.t SET v = ? WHERE k = ? IF v = ?",
	"UPDATE ks.t SET s = s + ? WHERE k = ?",
}

var frontForeign = []string{"INSERT INTO ks.t2 (k, v) VALUES (?, ?)", "SELECT v FROM ks.t2 WHERE k = ?"}

func frontPhase(ctx *Ctx) {
	r := ctx.Rng
	prefix, port := px.Alloc()
	be := fb.New(prefix, port)
	for h := 1; h <= 2; h++ {
		if err := be.StartHost(h); err != nil {
			panic(err)
		}
	}
	be.SetTopology(1, 2)
	defer be.Shutdown()
	type fcfg struct {
		list   []primitive.ConsistencyLevel
		ovr    primitive.ConsistencyLevel
		graph  bool
		maxv   primitive.ProtocolVersion
		maxStr int64
	}
	cfgs := []fcfg{
		{[]primitive.ConsistencyLevel{primitive.ConsistencyLevelLocalQuorum, primitive.ConsistencyLevelEachQuorum}, primitive.ConsistencyLevelQuorum, false, primitive.ProtocolVersion5, 5},
		{nil, primitive.ConsistencyLevelLocalQuorum, true, primitive.ProtocolVersion4, 4},
	}
	seq := 0
	for ci, fc := range cfgs {
		cfg := px.DefaultConfig(be)
		cfg.MaxVersion = fc.maxv
		cfg.IdempotentGraph = fc.graph
		proxy.VerifSetWriteConsistencyOverride(&cfg, fc.list, fc.ovr)
		env, err := px.StartProxy(be, cfg)
		if err != nil {
			panic(err)
		}
		var lv []hv.V
		for _, c := range fc.list {
			lv = append(lv, hv.I(int64(c)))
		}
		cfgV := hv.L(hv.I(fc.maxStr), hv.L(lv...), hv.I(int64(fc.ovr)), hv.Bool(fc.graph))
		// prepared history: through the proxy (known to it) and directly at the backend (unknown to the proxy)
		var hist []hv.V
		ids := map[string][]byte{}
		prep, err := px.Dial(env.Addr)
		if err != nil {
			panic(err)
		}
		_ = prep.Startup(primitive.ProtocolVersion4, "")
		for _, q := range frontPrepared {
			_ = prep.Send(primitive.ProtocolVersion4, 1, &message.Prepare{Query: q})
			if f, _ := prep.Next(5 * time.Second); f == nil || f.Opcode != byte(primitive.OpCodeResult) {
				panic("front: prepare through the proxy failed: " + q)
			}
			ids[q] = be.PrepareEverywhere(q)
			hist = append(hist, hv.L(hv.B(ids[q]), hv.S(q), hv.S("")))
		}
		prep.Close()
		for _, q := range frontForeign {
			ids[q] = be.PrepareEverywhere(q)
		}
		histV := hv.L(hist...)
		keyspaces := []string{"", "system", "myks"}
		clients := map[string]*px.Client{}
		dial := func(ks string) *px.Client {
			cl, err := px.Dial(env.Addr)
			if err != nil {
				panic(err)
			}
			if err := cl.Startup(primitive.ProtocolVersion4, ""); err != nil {
				panic(err)
			}
			if ks != "" {
				_ = cl.Send(primitive.ProtocolVersion4, 1, &message.Query{Query: "USE " + ks, Options: &message.QueryOptions{}})
				if f, _ := cl.Next(5 * time.Second); f == nil || f.Opcode != byte(primitive.OpCodeResult) {
					panic("front: USE failed")
				}
			}
			return cl
		}
		for _, ks := range keyspaces {
			clients[ks] = dial(ks)
		}
		n := ctx.Scale(260, 6000)
		for i := 0; i < n; i++ {
			ks := keyspaces[r.Intn(3)]
			cl := clients[ks]
			v := primitive.ProtocolVersion4
			if fc.maxv >= 5 && r.Intn(3) == 0 {
				v = primitive.ProtocolVersion5
			}
			seq++
			tok := fmt.Sprintf("fr%dx%d", ctx.Seed%1000, seq)
			cons := hv.Pick(r, []primitive.ConsistencyLevel{primitive.ConsistencyLevelOne, primitive.ConsistencyLevelQuorum, primitive.ConsistencyLevelLocalQuorum, primitive.ConsistencyLevelEachQuorum})
			var payload map[string][]byte
			switch r.Intn(5) {
			case 0:
				payload = map[string][]byte{"graph-source": []byte("g")}
			case 1:
				payload = map[string][]byte{"other": []byte("x")}
			}
			var msg message.Message
			kind := ""
			prepIDHex := ""
			matchText := "" // a statement that carries no token is recognised at the backend by its text
			val := func() []*primitive.Value {
				return []*primitive.Value{primitive.NewValue([]byte("tok:" + tok)), primitive.NewValue([]byte{0, 0, 0, 1})}
			}
			switch r.Intn(10) {
			case 0, 1, 2, 3:
				st := frontStmts[r.Intn(len(frontStmts))]
				text := st.text
				if st.token {
					text = fmt.Sprintf(st.text, "tok:"+tok)
				} else {
					matchText = text
				}
				msg = &message.Query{Query: text, Options: &message.QueryOptions{Consistency: cons}}
				kind = "query"
			case 4, 5, 6:
				all := append(append([]string{}, frontPrepared...), frontForeign...)
				q := all[r.Intn(len(all))]
				e := &message.Execute{QueryId: ids[q], Options: &message.QueryOptions{Consistency: cons, PositionalValues: val()}}
				if v.SupportsResultMetadataId() {
					e.ResultMetadataId = ids[q]
				}
				msg = e
				kind = "execute"
			case 7, 8:
				var ch []*message.BatchChild
				for j := 1 + r.Intn(3); j > 0; j-- {
					if r.Bool() {
						st := frontStmts[r.Intn(11)] // mutations only
						ch = append(ch, &message.BatchChild{Query: fmt.Sprintf(st.text, "tok:"+tok)})
					} else {
						all := append(append([]string{}, frontPrepared...), frontForeign...)
						ch = append(ch, &message.BatchChild{Id: ids[all[r.Intn(len(all))]], Values: val()})
					}
				}
				msg = &message.Batch{Type: primitive.BatchTypeLogged, Children: ch, Consistency: cons}
				kind = "batch"
			default:
				st := frontStmts[r.Intn(len(frontStmts))]
				text := st.text
				if st.token {
					text = fmt.Sprintf(st.text, "tok:"+tok)
				}
				msg = &message.Prepare{Query: text}
				kind = "prepare"
				prepIDHex = hexOf(md5Of(text))
				payload = nil
			}
			stream := int16(1 + seq%20000)
			sent := cl.Encode(v, stream, msg, func(f *frame.Frame) {
				if payload != nil {
					f.SetCustomPayload(payload)
				}
			})
			srvErr := &message.ServerError{ErrorMessage: "scripted"}
			if kind == "prepare" {
				be.SetPrepareOutcomes(prepIDHex, fb.Outcome{Kind: fb.ErrMsg, Msg: srvErr})
			} else {
				be.SetScript(tok, fb.Outcome{Kind: fb.ErrMsg, Msg: srvErr}, fb.Outcome{Kind: fb.OkRows})
			}
			be.ResetLog()
			_ = cl.SendRaw(sent)
			f, ferr := cl.Next(5 * time.Second)
			// settle the backend log with a barrier request of the same client
			closed := ferr != nil
			if !closed {
				_ = cl.Send(primitive.ProtocolVersion4, 30000, &message.Query{Query: "SELECT v FROM ks.t WHERE k = 'barrier'", Options: &message.QueryOptions{}})
				for {
					b, berr := cl.Next(5 * time.Second)
					if berr != nil {
						closed = true
						break
					}
					if b == nil || b.Stream == 30000 {
						break
					}
				}
			}
			var recs []fb.Rec
			for _, x := range be.Snapshot() {
				switch {
				case kind == "prepare" && x.Kind == "prepare" && x.PreparedID == prepIDHex:
					recs = append(recs, x)
				case kind != "prepare" && matchText == "" && x.Token == tok && (x.Kind == "query" || x.Kind == "execute" || x.Kind == "batch"):
					recs = append(recs, x)
				case kind == "query" && matchText != "" && (x.Kind == "query" || x.Kind == "use" || x.Kind == "system") && bytes.Contains(x.Raw, []byte(matchText)):
					recs = append(recs, x)
				}
			}
			if kind == "prepare" {
				be.SetPrepareOutcomes(prepIDHex)
			}
			var out hv.V
			switch {
			case len(recs) > 0:
				reenc := !(bytes.Equal(recs[0].Raw[:2], sent[:2]) && bytes.Equal(recs[0].Raw[4:], sent[4:]))
				out = hv.L(hv.I(3), hv.Bool(reenc), hv.Bool(len(recs) > 1))
			case closed || (f == nil && ferr != nil):
				out = hv.L(hv.I(0))
			case f != nil:
				out = hv.L(hv.I(1))
			default:
				out = hv.L(hv.I(9))
			}
			if q, ok := msg.(*message.Query); ok && len(q.Query) >= 4 && (q.Query[:4] == "USE " || q.Query[:4] == "use ") {
				closed = true // the statement changed this connection's keyspace: start the client afresh
			}
			if closed {
				cl.Close()
				clients[ks] = dial(ks)
			}
			note := fmt.Sprintf("front:cfg%d:%s", ci, kind)
			ctx.Emit(hv.L(hv.I(4), cfgV, hv.L(hv.S(ks)), histV, hv.B(sent)), out, note)
			ctx.Count(note)
		}
		// state that changes on ONE connection: an id is EXECUTEd while the proxy does not know it, then PREPAREd through
		// the proxy, then EXECUTEd again -- on the same client connection and on another one
		for li, q := range []string{"SELECT v FROM ks.t WHERE k = ? AND j = 1", "INSERT INTO ks.t (k, v) VALUES (?, 7)", "SELECT v FROM ks.t WHERE k = ? AND j = 2 ALLOW FILTERING"} {
			id := be.PrepareEverywhere(q)
			cur := append([]hv.V{}, hist...)
			step := func(cl *px.Client, ks string, what string) {
				for _, cons := range []primitive.ConsistencyLevel{primitive.ConsistencyLevelOne, primitive.ConsistencyLevelLocalQuorum} {
					seq++
					tok := fmt.Sprintf("fl%dx%d", ctx.Seed%1000, seq)
					e := &message.Execute{QueryId: id, ResultMetadataId: id, Options: &message.QueryOptions{Consistency: cons,
						PositionalValues: []*primitive.Value{primitive.NewValue([]byte("tok:" + tok))}}}
					sent := cl.Encode(primitive.ProtocolVersion4, int16(1+seq%20000), e, nil)
					be.SetScript(tok, fb.Outcome{Kind: fb.ErrMsg, Msg: &message.ServerError{ErrorMessage: "scripted"}}, fb.Outcome{Kind: fb.OkRows})
					be.ResetLog()
					_ = cl.SendRaw(sent)
					f, _ := cl.Next(5 * time.Second)
					_ = cl.Send(primitive.ProtocolVersion4, 30000, &message.Query{Query: "SELECT v FROM ks.t WHERE k = 'barrier'", Options: &message.QueryOptions{}})
					for {
						b, berr := cl.Next(5 * time.Second)
						if berr != nil || b == nil || b.Stream == 30000 {
							break
						}
					}
					var recs []fb.Rec
					for _, x := range be.Snapshot() {
						if x.Token == tok && x.Kind == "execute" {
							recs = append(recs, x)
						}
					}
					out := hv.L(hv.I(9))
					switch {
					case len(recs) > 0:
						reenc := !(bytes.Equal(recs[0].Raw[:2], sent[:2]) && bytes.Equal(recs[0].Raw[4:], sent[4:]))
						out = hv.L(hv.I(3), hv.Bool(reenc), hv.Bool(len(recs) > 1))
					case f != nil:
						out = hv.L(hv.I(1))
					}
					note := fmt.Sprintf("front:cfg%d:execute:%s", ci, what)
					ctx.Emit(hv.L(hv.I(4), cfgV, hv.L(hv.S(ks)), hv.L(cur...), hv.B(sent)), out, note)
					ctx.Count(note)
				}
			}
			ks := keyspaces[li%len(keyspaces)]
			cl := clients[ks]
			step(cl, ks, "id-not-yet-prepared-through-the-proxy")
			_ = cl.Send(primitive.ProtocolVersion4, 2, &message.Prepare{Query: q})
			if f, _ := cl.Next(5 * time.Second); f == nil || f.Opcode != byte(primitive.OpCodeResult) {
				panic("front: late prepare failed: " + q)
			}
			cur = append(cur, hv.L(hv.B(id), hv.S(q), hv.S(ks)))
			step(cl, ks, "same-connection-after-the-prepare")
			other := keyspaces[(li+1)%len(keyspaces)]
			step(clients[other], other, "another-connection-after-the-prepare")
			hist = cur
		}
		for _, c := range clients {
			c.Close()
		}
		env.Close()
	}
}
