package main

// C01: every request gets exactly one reply on its own stream.  Concurrent clients with many
// streams in flight, scripted per-attempt outcomes, backend connections dropped while requests
// are pending (one host, or several hosts at the same moment), locally answered opcodes.
// A sentinel request per connection flushes late duplicates before the frames are counted.

import (
	"fmt"
	"sort"
	"sync"
	"time"

	"verifharness/fb"
	"verifharness/hv"
	"verifharness/px"

	"github.com/datastax/cql-proxy/proxy"
	"github.com/datastax/cql-proxy/proxycore"
	"github.com/datastax/go-cassandra-native-protocol/message"
	"github.com/datastax/go-cassandra-native-protocol/primitive"
)

func init() { props["C01"] = genC01 }

type c01Tally struct {
	requests, zero, one, many, wrongStream int
	detail                                 []string
}

// c01Client sends [n] requests at once, lets [during] happen, then reads until quiet.
// kinds: 0 idempotent query, 1 non-idempotent query, 2 OPTIONS, 3 system query, 4 PREPARE system query, 5 REGISTER, 6 USE, 7 unknown-id EXECUTE
func c01Round(e *echoEnv, tag, clients, streams int, r *hv.Rng, script func(rr *hv.Rng, tok string) []fb.Outcome, during func()) c01Tally {
	var mu sync.Mutex
	var tally c01Tally
	var wg, sent sync.WaitGroup
	seeds := make([]uint64, clients)
	for i := range seeds {
		seeds[i] = r.Next()
	}
	sent.Add(clients)
	release := make(chan struct{})
	for c := 0; c < clients; c++ {
		wg.Add(1)
		go func(c int) {
			defer wg.Done()
			rr := hv.NewRng(seeds[c])
			cl, err := px.Dial(e.env.Addr)
			if err != nil {
				panic(err)
			}
			defer cl.Close()
			if err := cl.Startup(primitive.ProtocolVersion4, ""); err != nil {
				panic(err)
			}
			counts := map[int16]int{}
			for s := 1; s <= streams; s++ {
				tok := fmt.Sprintf("q%dx%dx%d", tag, c, s)
				var msg message.Message
				switch k := rr.Intn(16); {
				case k < 8:
					msg = &message.Query{Query: "SELECT v FROM ks.t WHERE k = 'tok:" + tok + "'", Options: &message.QueryOptions{}}
				case k < 11:
					msg = &message.Query{Query: "INSERT INTO ks.t (k, v) VALUES ('tok:" + tok + "', now())", Options: &message.QueryOptions{}}
				case k == 11:
					msg = &message.Options{}
				case k == 12:
					msg = &message.Query{Query: "SELECT * FROM system.peers", Options: &message.QueryOptions{}}
				case k == 13:
					msg = &message.Prepare{Query: "SELECT key FROM system.local"}
				case k == 14:
					msg = &message.Register{EventTypes: []primitive.EventType{primitive.EventTypeSchemaChange}}
				default:
					msg = &message.Execute{QueryId: []byte("never-prepared-0"), Options: &message.QueryOptions{PositionalValues: []*primitive.Value{primitive.NewValue([]byte("tok:" + tok))}}}
				}
				if script != nil {
					e.be.SetScript(tok, script(rr, tok)...)
				}
				counts[int16(s)] = 0
				_ = cl.Send(primitive.ProtocolVersion4, int16(s), msg)
			}
			sent.Done()
			<-release
			// read until every stream has an answer or nothing arrives for a while, then flush with a sentinel
			deadline := time.Now().Add(12 * time.Second)
			answered := 0
			for answered < streams && time.Now().Before(deadline) {
				f, err := cl.Next(time.Until(deadline))
				if err != nil || f == nil {
					break
				}
				if f.Opcode == byte(primitive.OpCodeEvent) {
					continue
				}
				if _, ok := counts[f.Stream]; !ok {
					mu.Lock()
					tally.wrongStream++
					mu.Unlock()
					continue
				}
				if counts[f.Stream] == 0 {
					answered++
				}
				counts[f.Stream]++
			}
			extra, ok := cl.Barrier(primitive.ProtocolVersion4, 30000, 5*time.Second)
			_ = ok
			for _, f := range extra {
				if f.Opcode == byte(primitive.OpCodeEvent) {
					continue
				}
				if _, ok := counts[f.Stream]; ok {
					counts[f.Stream]++
				} else {
					mu.Lock()
					tally.wrongStream++
					mu.Unlock()
				}
			}
			mu.Lock()
			for s, n := range counts {
				tally.requests++
				switch {
				case n == 0:
					tally.zero++
					if len(tally.detail) < 5 {
						tally.detail = append(tally.detail, fmt.Sprintf("client %d stream %d: no reply", c, s))
					}
				case n == 1:
					tally.one++
				default:
					tally.many++
					if len(tally.detail) < 5 {
						tally.detail = append(tally.detail, fmt.Sprintf("client %d stream %d: %d replies", c, s, n))
					}
				}
			}
			mu.Unlock()
		}(c)
	}
	sent.Wait()
	if during != nil {
		during()
	}
	close(release)
	wg.Wait()
	sort.Strings(tally.detail)
	return tally
}

func emitTally(ctx *Ctx, t c01Tally, note string) {
	// input: (requests); output: (exactly-one none more-than-one on-unknown-stream)
	ctx.Emit(hv.L(hv.I(int64(t.requests))), hv.L(hv.I(int64(t.one)), hv.I(int64(t.zero)), hv.I(int64(t.many)), hv.I(int64(t.wrongStream))), note+" "+fmt.Sprint(t.detail))
	ctx.Count(note)
}

func c01Script(rr *hv.Rng, tok string) []fb.Outcome {
	var outs []fb.Outcome
	for i := rr.Intn(3); i > 0; i-- {
		o := randOutcome(rr).backend()
		o.Delay = time.Duration(rr.Intn(2000)) * time.Microsecond
		outs = append(outs, o)
	}
	return append(outs, fb.Outcome{Kind: fb.OkRows, Delay: time.Duration(rr.Intn(2000)) * time.Microsecond})
}

func genC01(ctx *Ctx) {
	r := ctx.Rng
	tag := 0
	fast := func(c *proxy.Config) {
		c.ReconnectPolicy = proxycore.NewReconnectPolicyWithDelays(time.Millisecond, 5*time.Millisecond)
	}
	// (a) scripted outcomes, nothing dropped from outside
	e := newEchoEnv(3, fast)
	for i := 0; i < ctx.Scale(4, 40); i++ {
		tag++
		emitTally(ctx, c01Round(e, tag, 1+r.Intn(4), 1+r.Intn(60), r, c01Script, nil), "scripted-outcomes")
	}
	// (b) one host loses all its connections while requests are held on every host
	for i := 0; i < ctx.Scale(4, 40); i++ {
		tag++
		hold := make(chan struct{})
		e.be.Default = fb.Outcome{Kind: fb.OkRows, Hold: hold}
		h := 1 + r.Intn(3)
		t := c01Round(e, tag, 2, 100, r, nil, func() {
			time.Sleep(150 * time.Millisecond)
			e.be.DropConns(h)
			time.Sleep(50 * time.Millisecond)
			close(hold)
		})
		e.be.Default = fb.Outcome{Kind: fb.OkRows}
		emitTally(ctx, t, "one-host-drops-connections")
		time.Sleep(100 * time.Millisecond)
	}
	e.close()
	// (c) every host loses its connections at the same moment, requests pending on all of them
	for i := 0; i < ctx.Scale(12, 100); i++ {
		tag++
		e := newEchoEnv(2, func(c *proxy.Config) {
			c.ReconnectPolicy = proxycore.NewReconnectPolicyWithDelays(300*time.Millisecond, 400*time.Millisecond)
		})
		hold := make(chan struct{})
		e.be.Default = fb.Outcome{Kind: fb.OkRows, Hold: hold}
		t := c01Round(e, tag, 2, 100, r, nil, func() {
			time.Sleep(150 * time.Millisecond)
			var wg sync.WaitGroup
			for h := 1; h <= 2; h++ {
				wg.Add(1)
				go func(h int) { defer wg.Done(); e.be.DropConns(h) }(h)
			}
			wg.Wait()
			time.Sleep(50 * time.Millisecond)
			close(hold)
		})
		emitTally(ctx, t, "all-hosts-drop-connections-together")
		e.close()
	}
	// (d) a host goes silent with its sockets open while requests are pending on it; the proxy itself closes those
	// connections when heartbeats stay unanswered for the idle timeout
	for i := 0; i < ctx.Scale(3, 24); i++ {
		tag++
		e := newEchoEnv(2, func(c *proxy.Config) {
			c.ReconnectPolicy = proxycore.NewReconnectPolicyWithDelays(time.Millisecond, 5*time.Millisecond)
			c.HeartBeatInterval = 50 * time.Millisecond
			c.IdleTimeout = 400 * time.Millisecond
			c.ConnectTimeout = 200 * time.Millisecond
		})
		h := 1 + r.Intn(2)
		e.be.Mute(h, true)
		t := c01Round(e, tag, 2, 40, r, nil, func() {
			time.Sleep(1200 * time.Millisecond)
			e.be.Mute(h, false)
		})
		emitTally(ctx, t, "silent-host-closed-by-the-proxy")
		e.close()
	}
	c01UnpreparedSaturated(ctx, &tag)
	c01OtherID(ctx, &tag)
	c01Traced(ctx, &tag)
}

// c01Traced: the proxy records every atomic step of its request path (build tag verif: stream-table pushes, pops, close
// notifications; each request's start, host choices, retry decisions, replies) while concurrent clients run scripted
// outcomes and hosts drop their connections; the record sequence is handed to the monitor of Model/Monitor.v, which accepts
// exactly the executions Model/Core.v / CorePrep.v allow.  One case per traced run.
func c01Traced(ctx *Ctx, tag *int) {
	r := ctx.Rng
	for run := 0; run < ctx.Scale(4, 40); run++ {
		proxycore.VerifTraceStart()
		e := newEchoEnv(3, func(c *proxy.Config) {
			c.ReconnectPolicy = proxycore.NewReconnectPolicyWithDelays(time.Millisecond, 5*time.Millisecond)
		})
		var tally c01Tally
		add := func(t c01Tally) {
			tally.requests += t.requests
			tally.one += t.one
			tally.zero += t.zero
			tally.many += t.many
			tally.wrongStream += t.wrongStream
		}
		for i := 0; i < 3; i++ {
			*tag++
			add(c01Round(e, *tag, 1+r.Intn(3), 1+r.Intn(40), r, c01Script, nil))
		}
		if run%2 == 1 {
			*tag++
			hold := make(chan struct{})
			e.be.Default = fb.Outcome{Kind: fb.OkRows, Hold: hold}
			h := 1 + r.Intn(3)
			add(c01Round(e, *tag, 2, 50, r, nil, func() {
				time.Sleep(150 * time.Millisecond)
				e.be.DropConns(h)
				time.Sleep(50 * time.Millisecond)
				close(hold)
			}))
			e.be.Default = fb.Outcome{Kind: fb.OkRows}
		}
		emitTrace(ctx, tally.zero == 0, fmt.Sprintf("traced-run: %d requests, %d answered once", tally.requests, tally.one))
		e.close()
	}
}

// emitTrace stops the recording started with proxycore.VerifTraceStart and hands the records to the monitor as one case.
// quiescent: every request of the run has been answered and read, so nothing may be left unanswered or registered.
func emitTrace(ctx *Ctx, quiescent bool, note string) {
	recs := proxycore.VerifTraceStop()
	kinds := map[string]int64{"table": 0, "push": 1, "pop": 2, "notify": 3, "closing": 4, "start": 5, "host": 6, "decision": 7, "reply": 8, "onclose": 9}
	var rv []hv.V
	reprepares := 0
	for _, x := range recs {
		rv = append(rv, hv.L(hv.I(kinds[x.Kind]), hv.I(x.Table), hv.I(x.Stream), hv.I(x.Req), hv.I(x.ReqKind), hv.I(x.Obj), hv.I(x.A), hv.I(x.B), hv.I(x.C), hv.S(x.S)))
		ctx.Count("trace-record:" + x.Kind)
		if x.Kind == "push" && x.ReqKind >= 2 {
			reprepares++
		}
	}
	ctx.Emit(hv.L(hv.I(8), hv.Bool(quiescent), hv.L(rv...)), hv.L(hv.I(0)), fmt.Sprintf("%s (%d records, %d re-PREPAREs)", note, len(recs), reprepares))
	ctx.Count("traced-run")
}

// c01UnpreparedSaturated: all but one stream id of the only backend connection are in use;
// EXECUTEs of a statement the host has forgotten are answered UNPREPARED while other clients
// keep grabbing whatever id becomes free, so that the proxy's own re-PREPARE sometimes cannot
// be sent.  Whatever happens, each EXECUTE must get exactly one reply.
func c01UnpreparedSaturated(ctx *Ctx, tag *int) {
	t, _ := unpreparedSaturated(ctx, tag, 1)
	emitTally(ctx, t, "unprepared-on-saturated-connection")
}

// unpreparedSaturated returns the tally and how many EXECUTEs were answered with UNPREPARED.
func unpreparedSaturated(ctx *Ctx, tag *int, hosts int) (c01Tally, int) {
	e := newEchoEnv(hosts, nil)
	defer e.close()
	*tag++
	prep, err := px.Dial(e.env.Addr)
	if err != nil {
		panic(err)
	}
	defer prep.Close()
	_ = prep.Startup(primitive.ProtocolVersion4, "")
	q := "SELECT v FROM ks.t WHERE k = ?"
	_ = prep.Send(primitive.ProtocolVersion4, 1, &message.Prepare{Query: q})
	if f, _ := prep.Next(5 * time.Second); f == nil {
		panic("prepare failed")
	}
	id := md5Of(q)
	// park 2047 requests
	park := make(chan struct{})
	parker, _ := px.Dial(e.env.Addr)
	defer parker.Close()
	_ = parker.Startup(primitive.ProtocolVersion4, "")
	const parked = 2047
	for s := 1; s <= parked; s++ {
		tok := fmt.Sprintf("q%dx9x%d", *tag, s)
		e.be.SetScript(tok, fb.Outcome{Kind: fb.OkRows, Hold: park})
		_ = parker.Send(primitive.ProtocolVersion4, int16(s), &message.Query{Query: "SELECT v FROM ks.t WHERE k = 'tok:" + tok + "'", Options: &message.QueryOptions{}})
	}
	time.Sleep(300 * time.Millisecond)
	// hammer: other clients keep one request in flight each
	stop := make(chan struct{})
	var hw sync.WaitGroup
	for h := 0; h < 6; h++ {
		hw.Add(1)
		go func(h int) {
			defer hw.Done()
			cl, err := px.Dial(e.env.Addr)
			if err != nil {
				return
			}
			defer cl.Close()
			_ = cl.Startup(primitive.ProtocolVersion4, "")
			for {
				select {
				case <-stop:
					return
				default:
				}
				_ = cl.Send(primitive.ProtocolVersion4, 1, &message.Query{Query: "SELECT v FROM ks.t WHERE k = 'hammer'", Options: &message.QueryOptions{}})
				if f, _ := cl.Next(2 * time.Second); f == nil {
					return
				}
			}
		}(h)
	}
	n := ctx.Scale(300, 3000)
	var t c01Tally
	unprepared := 0
	for i := 0; i < n; i++ {
		for h := 1; h <= hosts; h++ {
			e.be.Forget(h)
		}
		st := int16(1 + i%1000)
		_ = prep.Send(primitive.ProtocolVersion4, st, &message.Execute{QueryId: id, Options: &message.QueryOptions{
			PositionalValues: []*primitive.Value{primitive.NewValue([]byte("tok:exec"))}}})
		t.requests++
		f, _ := prep.Next(3 * time.Second)
		switch {
		case f == nil:
			t.zero++
			if len(t.detail) < 5 {
				t.detail = append(t.detail, fmt.Sprintf("EXECUTE #%d: no reply", i))
			}
		case f.Stream != st:
			t.wrongStream++
		default:
			t.one++
			if f.Opcode == byte(primitive.OpCodeError) {
				if code, _, ok := errCodeAndMessage(f.Body); ok && code == 0x2500 {
					unprepared++
				}
			}
		}
	}
	close(stop)
	hw.Wait()
	close(park)
	return t, unprepared
}
