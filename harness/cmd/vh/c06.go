package main

// C06 (and the statement generator shared with C09): CQL statements generated from a grammar
// whose idempotency is known by construction, re-spelled at random, plus token-boundary
// adversarial strings and arbitrary bytes; parser.IsQueryIdempotent and the lexer's token
// stream are the observables.

import (
	"encoding/hex"
	"fmt"
	"os"
	"strconv"
	"strings"
	"time"

	"verifharness/hv"

	"github.com/datastax/cql-proxy/parser"
)

func init() { props["C06"] = genC06 }

// ---------- grammar with ground truth ----------
type gen06 struct {
	r     *hv.Rng
	idem  bool // no non-idempotent construct so far
	plain bool // only literals, bind markers, set/map additions; no IF
	depth int
}

var litPool = []string{"1", "-42", "0", "3.14", "-1e10", "1.5E-3", "true", "FALSE", "null", "'text'", "'it''s'", "''", "$dollar$", "0xCAFE", "0X",
	"123e4567-e89b-12d3-a456-426614174000", "1h30m", "P1Y2M3D", "PT5S", "-P2W", "2d", "NaN", "-Infinity", "infinity", "1y2mo3w", "12µs", "3us"}
var funcPool = []string{"toTimestamp", "token", "myks.myfn", "abs", "system.toDate", "nower", "uuids", "other.now", "\"Now\"", "minTimeuuid", "ks2.uuid"}
var nonIdemFuncs = []string{"now", "uuid", "NOW", "Uuid", "system.now", "SYSTEM.uuid", "\"system\".now", "system . uuid", "\"now\"", "system.\"uuid\""}
var identPool = []string{"a", "b", "col1", "\"Quoted\"", "\"with \"\"q\"\"\"", "k", "v", "json", "values", "set", "ttl", "key", "contains", "timestamp", "type", "list_col", "x_1", "nowcol", "uuid_col"}
var typePool = []string{"int", "text", "list<int>", "map<text, int>", "frozen<set<uuid>>"}

func (g *gen06) pick(xs []string) string { return xs[g.r.Intn(len(xs))] }
func (g *gen06) ident() string           { return g.pick(identPool) }
func (g *gen06) table() string {
	if g.r.Intn(2) == 0 {
		return "ks." + g.pick([]string{"t", "tbl", "\"T\"", "local", "json", "values"})
	}
	return g.pick([]string{"t", "tbl", "users", "json", "JSON", "\"json\"", "set", "ttl", "key", "token_t", "batch_t"})
}

func (g *gen06) list(n int, f func() string, sep string) string {
	var xs []string
	for i := 0; i < n; i++ {
		xs = append(xs, f())
	}
	return strings.Join(xs, sep)
}

// term returns the text and a coarse type: "int", "prim", "list", "curly", "tuple", "bind", "func", "cast"
func (g *gen06) term() (string, string) {
	g.depth++
	defer func() { g.depth-- }()
	k := g.r.Intn(20)
	if g.depth > 3 && k >= 8 {
		k = g.r.Intn(8)
	}
	switch {
	case k < 2:
		return g.pick([]string{"1", "-7", "0", "12345678901234567890"}), "int"
	case k < 6:
		l := g.pick(litPool[3:])
		return l, "prim"
	case k < 8:
		if g.r.Bool() {
			return "?", "bind"
		}
		return ":" + g.pick([]string{"a", "name1", "\"Q\""}), "bind"
	case k < 10:
		return "[" + g.list(g.r.Intn(4), func() string { t, _ := g.term(); return t }, ", ") + "]", "list"
	case k < 12:
		return "{" + g.list(g.r.Intn(4), func() string { t, _ := g.term(); return t }, ", ") + "}", "curly"
	case k < 14:
		return "{" + g.list(1+g.r.Intn(3), func() string { a, _ := g.term(); b, _ := g.term(); return a + ": " + b }, ", ") + "}", "curly"
	case k < 15:
		return "{" + g.list(1+g.r.Intn(3), func() string { b, _ := g.term(); return g.pick([]string{"f1", "field2", "\"F\""}) + ": " + b }, ", ") + "}", "curly"
	case k < 16:
		return "(" + g.list(1+g.r.Intn(3), func() string {
			for { // a tuple starting with an identifier reads as a cast: no function calls here
				save := *g
				t, ty := g.term()
				if ty != "func" {
					return t
				}
				*g = save
			}
		}, ", ") + ")", "tuple"
	case k < 17:
		t, _ := g.term()
		g.plain = false
		return "(" + g.pick(typePool) + ") " + t, "cast"
	default:
		name := g.pick(funcPool)
		if g.r.Intn(4) == 0 {
			name = g.pick(nonIdemFuncs)
			g.idem = false
		}
		g.plain = false
		args := g.list(g.r.Intn(3), func() string {
			if g.r.Intn(3) == 0 {
				return g.ident()
			}
			t, _ := g.term()
			return t
		}, ", ")
		return name + "(" + args + ")", "func"
	}
}

func (g *gen06) plainTerm() string {
	for {
		save := *g
		t, ty := g.term()
		if ty != "func" && ty != "cast" && g.plain == save.plain && g.idem == save.idem {
			return t
		}
		*g = save
	}
}

func (g *gen06) using() string {
	switch g.r.Intn(5) {
	case 0:
		return " USING TTL " + g.pick([]string{"10", "?", ":ttl"})
	case 1:
		return " USING TIMESTAMP 12345 AND TTL ?"
	case 2:
		return " using ttl 5 and timestamp :ts"
	}
	return ""
}

func (g *gen06) relation() string {
	t := func() string { x, _ := g.term(); return x }
	op := g.pick([]string{"=", "<", "<=", ">", ">=", "!="})
	switch g.r.Intn(10) {
	case 0:
		return g.ident() + " IN (" + g.list(g.r.Intn(3), t, ", ") + ")"
	case 1:
		return g.ident() + " IN " + g.pick([]string{"?", ":vals"})
	case 2:
		return "(" + g.list(1+g.r.Intn(2), g.ident, ", ") + ") " + g.pick([]string{"=", "IN", ">"}) + " (" + g.list(1+g.r.Intn(2), t, ", ") + ")"
	case 3:
		return "token(" + g.list(1+g.r.Intn(2), g.ident, ", ") + ") " + op + " " + t()
	case 4:
		return g.ident() + " CONTAINS " + g.pick([]string{"", "KEY "}) + t()
	case 5:
		return g.ident() + " LIKE " + t()
	case 6:
		return g.ident() + " IS NOT NULL"
	case 7:
		return g.ident() + "[" + t() + "] " + op + " " + t()
	case 8:
		return "(" + g.ident() + " " + op + " " + t() + ")"
	}
	return g.ident() + " " + op + " " + t()
}

func (g *gen06) where() string {
	return " WHERE " + g.list(1+g.r.Intn(3), g.relation, " AND ")
}

func (g *gen06) lwt(insert bool) string {
	if g.r.Intn(5) != 0 {
		return ""
	}
	g.idem, g.plain = false, false
	if insert {
		return " IF NOT EXISTS"
	}
	return g.pick([]string{" IF EXISTS", " IF v = 1", " if a != 'x' AND b IN (1, 2)"})
}

func (g *gen06) insert() string {
	if g.r.Intn(8) == 0 {
		return "INSERT INTO " + g.table() + " JSON '{\"k\": 1}'" + g.lwt(true) + g.using()
	}
	n := 1 + g.r.Intn(4)
	return "INSERT INTO " + g.table() + " (" + g.list(n, g.ident, ", ") + ") VALUES (" + g.list(n, func() string { t, _ := g.term(); return t }, ", ") + ")" + g.lwt(true) + g.using()
}

func (g *gen06) updateOp() string {
	c := g.pick([]string{"a", "b", "cnt", "lst", "st", "mp"})
	switch g.r.Intn(9) {
	case 0, 1: // c = c +/- addend
		save := *g
		t, ty := g.term()
		if ty == "tuple" {
			*g = save
			return c + " = " + g.plainTerm() // unspecified addend kind: avoid
		}
		if ty != "curly" {
			g.idem = false // counter, list append/remove or ambiguous
		}
		return c + " = " + c + " " + g.pick([]string{"+", "-"}) + " " + t
	case 2: // c = addend + c
		save := *g
		t, ty := g.term()
		if ty == "tuple" || ty == "func" {
			*g = save
			return c + " = " + g.plainTerm()
		}
		if ty != "curly" {
			g.idem = false
		}
		return c + " = " + t + " + " + c
	case 3: // c += / -=
		save := *g
		t, ty := g.term()
		if ty == "tuple" {
			*g = save
			return c + " = " + g.plainTerm()
		}
		if ty != "curly" {
			g.idem = false
		}
		return c + " " + g.pick([]string{"+=", "-="}) + " " + t
	case 4:
		g.plain = false
		a, _ := g.term()
		b, _ := g.term()
		return c + "[" + a + "] = " + b
	case 5:
		g.plain = false
		b, _ := g.term()
		return c + ".fld = " + b
	}
	t, _ := g.term()
	return c + " = " + t
}

func (g *gen06) update() string {
	return "UPDATE " + g.table() + g.using() + " SET " + g.list(1+g.r.Intn(3), g.updateOp, ", ") + g.where() + g.lwt(false)
}

func (g *gen06) deleteStmt() string {
	sel := g.list(g.r.Intn(3), func() string {
		c := g.ident()
		switch g.r.Intn(4) {
		case 0:
			t, ty := g.term()
			g.plain = false
			if ty == "int" || ty == "bind" || ty == "func" || ty == "cast" {
				g.idem = false // delete by index (or possibly by index)
			}
			return c + "[" + t + "]"
		case 1:
			g.plain = false
			return c + ".fld"
		}
		return c
	}, ", ")
	if sel != "" {
		sel += " "
	}
	u := ""
	if g.r.Intn(4) == 0 {
		u = " USING TIMESTAMP " + g.pick([]string{"99", "?"})
	}
	return "DELETE " + sel + "FROM " + g.table() + u + g.where() + g.lwt(false)
}

func (g *gen06) dml() string {
	switch g.r.Intn(3) {
	case 0:
		return g.insert()
	case 1:
		return g.update()
	}
	return g.deleteStmt()
}

func (g *gen06) statement() string {
	switch g.r.Intn(10) {
	case 0:
		kind := g.pick([]string{"", "UNLOGGED ", "COUNTER ", "unlogged "})
		if strings.EqualFold(strings.TrimSpace(kind), "counter") {
			g.idem, g.plain = false, false
		}
		u := ""
		if g.r.Intn(4) == 0 {
			u = " USING TIMESTAMP 5"
		}
		sep := g.pick([]string{" ", "; ", ";\n"})
		return "BEGIN " + kind + "BATCH" + u + " " + g.list(1+g.r.Intn(3), g.dml, sep) + g.pick([]string{" ", "; "}) + "APPLY BATCH"
	}
	return g.dml()
}

// respell changes keyword case, whitespace and the trailing semicolon, keeping tokens intact.
var kwWords = map[string]bool{}

func init() {
	for _, w := range strings.Fields("insert into values update set where and delete from begin batch apply using ttl timestamp if not exists in is null contains key like json unlogged counter token select use true false nan infinity") {
		kwWords[w] = true
	}
}

func respell(r *hv.Rng, s string) string {
	var out strings.Builder
	if r.Intn(3) == 0 {
		out.WriteString(hv.Pick(r, []string{" ", "\t", "\n", " \r\n "}))
	}
	i := 0
	for i < len(s) {
		c := s[i]
		switch {
		case c == '\'' || c == '"' || c == '$':
			j := i + 1
			for j < len(s) {
				if s[j] == c {
					if j+1 < len(s) && s[j+1] == c {
						j += 2
						continue
					}
					break
				}
				j++
			}
			out.WriteString(s[i:min(j+1, len(s))])
			i = j + 1
		case c == ' ':
			out.WriteString(hv.Pick(r, []string{" ", "  ", "\t", "\n", "\r\n", " \n\t "}))
			i++
		case (c >= 'a' && c <= 'z') || (c >= 'A' && c <= 'Z'):
			j := i
			for j < len(s) && ((s[j] >= 'a' && s[j] <= 'z') || (s[j] >= 'A' && s[j] <= 'Z') || (s[j] >= '0' && s[j] <= '9') || s[j] == '_') {
				j++
			}
			w := s[i:j]
			if kwWords[strings.ToLower(w)] {
				b := []byte(w)
				for k := range b {
					if r.Bool() {
						b[k] ^= 0x20
					}
				}
				w = string(b)
			}
			out.WriteString(w)
			i = j
		default:
			out.WriteByte(c)
			i++
		}
	}
	switch r.Intn(4) {
	case 0:
		out.WriteString(";")
	case 1:
		out.WriteString(" ;\n")
	case 2:
		out.WriteString("  ")
	}
	return out.String()
}

// ---------- observables ----------
func classifyIdem(q string) hv.V {
	type res struct {
		idem bool
		err  error
		pan  bool
	}
	ch := make(chan res, 1)
	go func() {
		defer func() {
			if recover() != nil {
				ch <- res{pan: true}
			}
		}()
		i, e := parser.IsQueryIdempotent(q)
		ch <- res{idem: i, err: e}
	}()
	select {
	case r := <-ch:
		if r.pan {
			return hv.L(hv.I(9), hv.I(9))
		}
		return hv.L(hv.Bool(r.idem), hv.Bool(r.err != nil))
	case <-time.After(30 * time.Second):
		return hv.L(hv.I(8), hv.I(8))
	}
}

func lexV(q string) hv.V {
	var ts []hv.V
	for _, t := range parser.VerifLex(q) {
		ts = append(ts, hv.L(hv.I(int64(t.Tok)), hv.S(t.Text)))
	}
	return hv.L(ts...)
}

var adversarial = []string{
	"", " ", ";", "'", "''", "'''", "$", "$$", "$$$", "\"", "\"\"", "\"\"\"", "\"a", "a\"", "-", "--", "-1", "- 1", "-nan", "-NaN", "- infinity", "nan1", "infinityx",
	"0x", "0xg", "0xABCDEFG", "1.", "1.e5", "1e", "1e+", "1e+5", ".5", "1..2", "1.2.3", "123e4567-e89b-12d3-a456-426614174000", "123e4567-e89b-12d3-a456-42661417400", "123e4567-e89b-12d3-a456-4266141740000",
	"P", "PT", "P1Y", "-P1W", "P1Y2M", "P2021-01-01T00:00:00", "1mo", "1MO", "1m", "1ms", "1µs", "1µ", "1us", "1ns", "1n", "1y1", "1h30", "12dd",
	"<=", "<", ">=", "!=", "!", "+=", "+", "-=", "=+", "=-", "a.b", "a . b", "a..b", ":a", "::", "?a", "selectx", "xselect", "SELECT", "sElEcT", "in", "into", "int", "is", "if", "iff", "use", "using", "user",
	"trueish", "nullable", "not", "note", "token", "tokens", "and", "andy", "begin", "apply", "batch", "from", "where", "null", "create", "alter", "drop", "delete",
	"a\rb", "a\r\nb", "a\nb", "a\tb", "a\x00b", "\xff", "a\xffb", "'\xff'", "\"\xff\"", "'\n'", "\"\n\"", "\"a\"\"b\"", "é", "ſystem", "K", "[", "[[", "[1", "{", "{1:", "(", "(int", "(1,", "f(", "f(a", "f(a,", "f(a b)",
	"INSERT", "INSERT INTO", "INSERT INTO t", "INSERT INTO t (", "INSERT INTO t (a", "INSERT INTO t (a)", "INSERT INTO t (a) VALUES", "INSERT INTO t (a) VALUES (", "INSERT INTO t (a) VALUES (1", "INSERT INTO t (a) VALUES (1)",
	"INSERT INTO t (a) VALUES (1) IF", "INSERT INTO t (a) values (1) update", "INSERT INTO t JSON", "INSERT INTO t JSON '{}' IF NOT EXISTS", "INSERT INTO t.(a) VALUES (1)", "INSERT INTO t. u (a) VALUES (1)",
	"UPDATE t SET", "UPDATE t SET a", "UPDATE t SET a =", "UPDATE t SET a = 1", "UPDATE t SET a = 1 WHERE", "UPDATE t SET a = a", "UPDATE t SET a = a +", "UPDATE t SET a = a + 1 + 2 WHERE k = 1", "UPDATE t SET a = b + {1} WHERE k = 1",
	"UPDATE t SET a = 1 + a WHERE k = 1", "UPDATE t SET a = {1} + a WHERE k = 1", "UPDATE t SET a = {system.now()} WHERE k = 1", "UPDATE t SET a = {system.now(): 1} WHERE k = 1", "UPDATE t SET a = {f: now()} WHERE k = 1",
	"UPDATE t SET a = {x.y: 1} WHERE k = 1", "UPDATE t SET a[0] = 1 WHERE k = 1", "UPDATE t SET a.b = 1 WHERE k = 1", "UPDATE t USING TTL SET a = 1", "UPDATE t USING TTL 1 AND SET a = 1", "UPDATE SET a = 1",
	"DELETE FROM t WHERE k = 1", "DELETE a[1] FROM t WHERE k = 1", "DELETE a['k'] FROM t WHERE k = 1", "DELETE a[?] FROM t WHERE k = 1", "DELETE a[f()] FROM t", "DELETE a. FROM t", "DELETE a,, b FROM t", "DELETE FROM", "DELETE FROM t IF EXISTS",
	"DELETE FROM t WHERE k = now()", "DELETE FROM t WHERE k IN (1, uuid())", "DELETE FROM t WHERE (a, b) IN ((1, 2), (3, now()))", "DELETE FROM t WHERE token(k) > now()", "DELETE FROM t WHERE k IS NOT NULL",
	"DELETE FROM t WHERE k IS NULL", "DELETE FROM t WHERE ((k = 1))", "DELETE FROM t WHERE (((((k = 1", "DELETE FROM t WHERE k CONTAINS KEY now()", "DELETE FROM t WHERE k LIKE uuid()",
	"BEGIN BATCH APPLY BATCH", "BEGIN BATCH", "BEGIN BATCH APPLY", "BEGIN COUNTER BATCH APPLY BATCH", "BEGIN UNLOGGED BATCH INSERT INTO t (a) VALUES (1) APPLY BATCH", "BEGIN BATCH SELECT * FROM t APPLY BATCH",
	"BEGIN BATCH INSERT INTO t (a) VALUES (1) INSERT INTO t (a) VALUES (now()) APPLY BATCH", "BEGIN BATCH USING TIMESTAMP 1 INSERT INTO t (a) VALUES (1); APPLY BATCH;", "BEGIN BATCH INSERT INTO t (a) VALUES (1) APPLY BATCH extra",
	"BEGIN unloggedd BATCH APPLY BATCH", "begin BATCH INSERT INTO t (a) VALUES (1) ;; APPLY BATCH",
	"SELECT * FROM t", "select now() from t", "USE ks", "CREATE TABLE t (a int)", "ALTER TABLE t", "DROP TABLE t", "TRUNCATE t", "GRANT ALL", "1", "(", ")",
	"INSERT INTO t (a) VALUES (1); INSERT INTO t (a) VALUES (now())", "INSERT INTO t (a) VALUES (1) ; garbage", "INSERT INTO t (a) VALUES (1) garbage", "INSERT INTO t (a) VALUES (1) USING TTL now()",
}

// astCases: statements the extracted Coq sampler generated from the syntax of Model/Ast.v (file named by
// VH_C06_AST: seed TAB (xTEXT (tokens) doc cls plain wf)).  The implementation classifies and lexes the text the
// model printed, and two re-spellings of it.
func astCases(ctx *Ctx) {
	path := os.Getenv("VH_C06_AST")
	if path == "" {
		return
	}
	data, err := os.ReadFile(path)
	if err != nil {
		return
	}
	r := ctx.Rng
	for _, line := range strings.Split(string(data), "\n") {
		parts := strings.SplitN(line, "\t", 2)
		if len(parts) != 2 || !strings.HasPrefix(parts[1], "(x") {
			continue
		}
		seed, err := strconv.ParseInt(parts[0], 10, 64)
		if err != nil {
			continue
		}
		hx := parts[1][2:]
		if i := strings.IndexAny(hx, " )"); i >= 0 {
			hx = hx[:i]
		}
		text, err := hex.DecodeString(hx)
		if err != nil {
			continue
		}
		q := string(text)
		variants := []string{q, respell(r, q), respell(r, q)}
		for vi, v := range variants {
			note := "ast-canonical"
			if vi > 0 {
				note = "ast-respelled"
				if v == q {
					continue
				}
			}
			ctx.Emit(hv.L(hv.I(2), hv.I(seed), hv.S(v)), hv.L(classifyIdem(v), lexV(v)), note)
			ctx.Count(note)
		}
	}
}

func genC06(ctx *Ctx) {
	r := ctx.Rng
	astCases(ctx)
	seen := map[string]bool{}
	emitLex := func(q string) {
		ctx.Emit(hv.L(hv.I(0), hv.S(q)), lexV(q), "lex")
	}
	emitClass := func(q string, spec, plain, base int, note string) {
		ctx.Emit(hv.L(hv.I(1), hv.S(q), hv.I(int64(spec)), hv.I(int64(plain)), hv.I(int64(base))), classifyIdem(q), note)
		ctx.Count(note)
	}
	b2i := func(b bool) int {
		if b {
			return 1
		}
		return 0
	}
	for i := 0; i < ctx.Scale(2500, 60000); i++ {
		g := &gen06{r: r, idem: true, plain: true}
		q := g.statement()
		if seen[q] {
			continue
		}
		seen[q] = true
		spec, plain := b2i(g.idem), b2i(g.idem && g.plain)
		emitClass(q, spec, plain, 2, "grammar")
		ctx.Count(fmt.Sprintf("grammar:spec%d:plain%d", spec, plain))
		if i%4 == 0 {
			emitLex(q)
		}
		baseIdem, _ := parser.IsQueryIdempotent(q)
		for k := 0; k < ctx.Scale(3, 8); k++ {
			v := respell(r, q)
			emitClass(v, spec, plain, b2i(baseIdem), "respelled")
			if k == 0 && i%4 == 0 {
				emitLex(v)
			}
		}
	}
	// a statement followed by a byte that is no CQL token (with and without blanks around it) is not a statement of the
	// grammar, so no verdict is required of it (the classifier skips whatever follows an INSERT's value list, and the lexer
	// drops an invalid LAST byte -- DESIGN.md, observations); model and implementation must agree and must not crash
	for i := 0; i < ctx.Scale(120, 4000); i++ {
		g := &gen06{r: r, idem: true, plain: true}
		q := g.statement()
		junk := hv.Pick(r, []string{"@", "#", "!", "\x00", "\r", "\xc3", "%", "^", "&", "|", "~", "`", "\\", "\x7f", "\xff"})
		for _, v := range []string{q + " " + junk, q + junk, q + " " + junk + " ", q + "\n" + junk + "\n", q + "; " + junk} {
			emitClass(v, 2, 0, 2, "statement-followed-by-an-invalid-byte")
		}
	}
	for _, q := range adversarial {
		emitClass(q, 2, 0, 2, "adversarial")
		emitLex(q)
		for _, pre := range []string{"INSERT INTO t (a) VALUES (", "UPDATE t SET a = ", "DELETE FROM t WHERE k = "} {
			emitClass(pre+q, 2, 0, 2, "adversarial-in-context")
			emitLex(pre + q)
		}
	}
	// nesting around the parser's depth limit (terms and relations share one counter)
	for _, d := range []int{1, 2, 100, 250, 254, 255, 256, 257, 258, 300, 1000} {
		rep := strings.Repeat
		for _, q := range []string{
			"INSERT INTO t (a) VALUES (" + rep("[", d) + "1" + rep("]", d) + ")",
			"INSERT INTO t (a) VALUES (" + rep("(", d) + "1" + rep(")", d) + ")",
			"INSERT INTO t (a) VALUES (" + rep("{", d) + "1" + rep("}", d) + ")",
			"INSERT INTO t (a) VALUES (" + rep("f(", d) + "1" + rep(")", d) + ")",
			"INSERT INTO t (a) VALUES (" + rep("(int)", d) + "1)",
			"INSERT INTO t (a) VALUES (" + rep("{a:", d) + "1" + rep("}", d) + ")",
			"UPDATE t SET a = 1 WHERE " + rep("(", d) + "k = 1" + rep(")", d),
			"UPDATE t SET a = 1 WHERE " + rep("(", d/2) + "k = " + rep("[", d-d/2) + "1" + rep("]", d-d/2) + rep(")", d/2),
			"DELETE FROM t WHERE " + rep("(", d-1) + "k IN (" + rep("(", 1) + "1" + rep(")", 1) + ")" + rep(")", d-1),
			"BEGIN BATCH UPDATE t SET a = " + rep("[", d) + "1" + rep("]", d) + " WHERE k = 1 INSERT INTO t (a) VALUES (" + rep("[", d) + "now()" + rep("]", d) + ") APPLY BATCH",
		} {
			// beyond the parser's documented limit (256 levels) a statement is refused, i.e. not idempotent; within it no
			// ground truth is attached here (now() appears in the batch form)
			spec := 2
			if d > 258 {
				spec = 0
			}
			emitClass(q, spec, 0, 2, "nesting-depth")
		}
	}
	// statements that are not CQL at all although each piece is: never idempotent
	for _, q := range []string{
		"INSERT INTO t (a) VALUES (1) UPDATE cnt SET n = n + 1 WHERE k = 1", "INSERT INTO t (a) VALUES (1) INSERT INTO t (a) VALUES (now())",
		"UPDATE t SET a = 1 WHERE k = 1 APPLY BATCH", "DELETE FROM t WHERE k = 1 DELETE l[0] FROM t WHERE k = 1", "UPDATE t SET a = 1 WHERE k = 1 INSERT INTO t (a) VALUES (uuid())",
		"INSERT INTO t (a) VALUES (1) APPLY", "DELETE FROM t WHERE k = 1 UPDATE t SET c = c + 1 WHERE k = 1"} {
		emitClass(q, 0, 0, 2, "not-a-statement")
		for k := 0; k < 3; k++ {
			emitClass(respell(r, q), 0, 0, 2, "not-a-statement")
		}
	}
	// token-soup and raw bytes
	frags := []string{"INSERT", "INTO", "t", "(", ")", "VALUES", "a", ",", "1", "'s'", "now", "uuid", "system", ".", "{", "}", "[", "]", ":", "?", "UPDATE", "SET", "=", "+", "-", "+=", "WHERE", "AND", "IF",
		"DELETE", "FROM", "BEGIN", "BATCH", "APPLY", "USING", "TTL", "TIMESTAMP", ";", "IN", "<", ">", "json", "\"q\"", "0x1", "1.5", "token", "IS", "NOT", "NULL", "contains", "key", "like", "unlogged", "counter", "EXISTS"}
	for i := 0; i < ctx.Scale(3000, 100000); i++ {
		n := 1 + r.Intn(14)
		var parts []string
		for j := 0; j < n; j++ {
			parts = append(parts, frags[r.Intn(len(frags))])
		}
		q := strings.Join(parts, " ")
		if i%3 == 0 {
			q = hv.Pick(r, []string{"INSERT INTO t (a, b) VALUES ", "UPDATE t SET ", "DELETE ", "BEGIN BATCH "}) + q
		}
		emitClass(q, 2, 0, 2, "token-soup")
		if i%5 == 0 {
			emitLex(q)
		}
	}
	for i := 0; i < ctx.Scale(1500, 100000); i++ {
		b := r.Bytes(r.Intn(40))
		for j := range b {
			if r.Intn(3) != 0 {
				const alphabet = "'\"$-.0123456789aeEpPtTxX \xc2\xb5\n\r\t;()[]{}:<>=!+*,?snuowydhm"
				b[j] = alphabet[r.Intn(len(alphabet))]
			}
		}
		emitClass(string(b), 2, 0, 2, "random-bytes")
		emitLex(string(b))
	}
	// nesting depth
	for _, d := range []int{10, 100, ctx.Scale(2000, 50000)} {
		for _, br := range [][2]string{{"[", "]"}, {"(", ")"}, {"{", "}"}, {"f(", ")"}} {
			q := "INSERT INTO t (a) VALUES (" + strings.Repeat(br[0], d) + "1" + strings.Repeat(br[1], d) + ")"
			emitClass(q, 2, 0, 2, "deep-nesting")
			emitClass("INSERT INTO t (a) VALUES ("+strings.Repeat(br[0], d), 2, 0, 2, "deep-nesting-unclosed")
		}
	}
}
