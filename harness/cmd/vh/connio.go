package main

// The connection's writer goroutine (proxycore/conn.go) driven directly through the package's public API over a
// recording net.Conn: which bytes reach the socket, in which chunks.  Judged by Model/ConnIO.v: the chunks must be a
// possible chunking of the coalescing writer (acceptor `acc`, proved equivalent to the existence of a schedule) and, once
// the queue has drained, all the bytes queued, in order, exactly once.

import (
	"io"
	"net"
	"runtime"
	"sync"
	"time"

	"verifharness/hv"

	"github.com/datastax/cql-proxy/proxycore"
)

type recConn struct {
	mu     sync.Mutex
	chunks [][]byte
	total  int
	closed chan struct{}
	once   sync.Once
	slow   func() bool
}

func (c *recConn) Read(b []byte) (int, error) { <-c.closed; return 0, io.EOF }
func (c *recConn) Write(b []byte) (int, error) {
	select {
	case <-c.closed:
		return 0, io.ErrClosedPipe
	default:
	}
	c.mu.Lock()
	c.chunks = append(c.chunks, append([]byte(nil), b...))
	c.total += len(b)
	slow := c.slow != nil && c.slow()
	c.mu.Unlock()
	if slow {
		time.Sleep(150 * time.Microsecond) // a socket slower than the producers: the queue builds up, the writer coalesces
	}
	return len(b), nil
}
func (c *recConn) Close() error                       { c.once.Do(func() { close(c.closed) }); return nil }
func (c *recConn) LocalAddr() net.Addr                { return &net.TCPAddr{} }
func (c *recConn) RemoteAddr() net.Addr               { return &net.TCPAddr{} }
func (c *recConn) SetDeadline(t time.Time) error      { return nil }
func (c *recConn) SetReadDeadline(t time.Time) error  { return nil }
func (c *recConn) SetWriteDeadline(t time.Time) error { return nil }

type nopRecv struct{ closing chan struct{} }

func (n *nopRecv) Receive(r io.Reader) error { _, err := r.Read(make([]byte, 1)); return err }
func (n *nopRecv) Closing(err error)         { close(n.closing) }

func connioPhase(ctx *Ctx) {
	r := ctx.Rng
	size := func() int {
		switch k := r.Intn(20); {
		case k < 13:
			return r.Intn(400)
		case k < 16:
			return 1000 + r.Intn(5000)
		case k < 18:
			return proxycore.MaxCoalesceSize - 40 + r.Intn(80)
		case k < 19:
			return 2*proxycore.MaxCoalesceSize - 20 + r.Intn(40)
		default:
			return 20000 + r.Intn(30000)
		}
	}
	for cs := 0; cs < ctx.Scale(24, 600); cs++ {
		closeAfter := -1
		n := 4 + r.Intn(40)
		if cs%6 == 5 {
			closeAfter = r.Intn(n)
		}
		slowEvery := 1 + r.Intn(4)
		k := 0
		rc := &recConn{closed: make(chan struct{}), slow: func() bool { k++; return k%slowEvery == 0 }}
		recv := &nopRecv{closing: make(chan struct{})}
		c := proxycore.NewConn(rc, recv)
		c.Start()
		var senders []hv.V
		want := 0
		fill := byte(0)
		for i := 0; i < n; i++ {
			if i == closeAfter {
				_ = c.Close()
			}
			var writes [][]byte
			for w := 1 + r.Intn(3); w > 0; w-- {
				sz := size()
				if w > 1 && r.Bool() {
					sz = 9 // a header
				}
				fill++
				b := make([]byte, sz)
				for j := range b {
					b[j] = fill
				}
				if sz > 0 {
					b[0] = byte(i)
				}
				writes = append(writes, b)
			}
			err := c.Write(proxycore.SenderFunc(func(w io.Writer) error {
				for _, b := range writes {
					if _, err := w.Write(b); err != nil {
						return err
					}
				}
				return nil
			}))
			if err != nil {
				continue // not queued
			}
			var ws []hv.V
			for _, b := range writes {
				ws = append(ws, hv.B(b))
				want += len(b)
			}
			senders = append(senders, hv.L(ws...))
			switch r.Intn(6) {
			case 0:
				runtime.Gosched()
			case 1:
				time.Sleep(time.Duration(50+r.Intn(400)) * time.Microsecond)
			}
		}
		closed := closeAfter >= 0
		if !closed {
			deadline := time.Now().Add(3 * time.Second)
			for time.Now().Before(deadline) {
				rc.mu.Lock()
				t := rc.total
				rc.mu.Unlock()
				if t >= want {
					break
				}
				time.Sleep(200 * time.Microsecond)
			}
			time.Sleep(3 * time.Millisecond) // anything written after the queue drained would show up here
		} else {
			time.Sleep(2 * time.Millisecond)
		}
		rc.mu.Lock()
		var chunks []hv.V
		for _, ch := range rc.chunks {
			chunks = append(chunks, hv.B(ch))
		}
		nchunks := len(rc.chunks)
		rc.mu.Unlock()
		_ = c.Close()
		_ = rc.Close()
		select {
		case <-recv.closing:
		case <-time.After(2 * time.Second):
		}
		cl := int64(0)
		note := "connio:quiescent"
		if closed {
			cl = 1
			note = "connio:closed-midway"
		}
		ctx.Count(note)
		if nchunks < len(senders) {
			ctx.Count("connio:coalesced")
		}
		ctx.Emit(hv.L(hv.I(7), hv.I(proxycore.MaxCoalesceSize), hv.L(senders...), hv.L(chunks...), hv.I(cl)), hv.L(hv.I(0)), note)
	}
}
