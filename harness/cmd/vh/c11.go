package main

import (
	"bytes"
	"fmt"
	"time"

	"verifharness/gen"
	"verifharness/hv"

	"github.com/datastax/cql-proxy/codecs"
	"github.com/datastax/go-cassandra-native-protocol/frame"
	"github.com/datastax/go-cassandra-native-protocol/message"
	"github.com/datastax/go-cassandra-native-protocol/primitive"
)

func init() { props["C11"] = genC11 }

func hdrFor(v primitive.ProtocolVersion, op primitive.OpCode, n int) *frame.Header {
	flags := primitive.HeaderFlag(0)
	if v.IsBeta() {
		flags = flags.Add(primitive.HeaderFlagUseBeta)
	}
	return &frame.Header{Version: v, OpCode: op, Flags: flags, BodyLength: int32(n)}
}

func childV(q codecs.PartialBatchQuery) hv.V {
	switch x := q.QueryOrId.(type) {
	case string:
		return hv.L(hv.I(0), hv.S(x), hv.B(q.Values))
	case []byte:
		return hv.L(hv.I(1), hv.B(x), hv.B(q.Values))
	}
	return hv.L(hv.I(9))
}

// partialCodec runs the proxy's partial decoder and encoder on one body, exactly the way
// client.Receive does (DecodeBody over a FrameBodyReader), guarding against panics and hangs.
func partialCodec(v primitive.ProtocolVersion, op primitive.OpCode, body []byte, prefix []byte) hv.V {
	type res struct{ v hv.V }
	ch := make(chan res, 1)
	go func() {
		defer func() {
			if r := recover(); r != nil {
				ch <- res{hv.L(hv.I(2))}
			}
		}()
		hdr := hdrFor(v, op, len(body)+len(prefix))
		if len(prefix) > 0 {
			// frame-level shape: a custom payload precedes the message inside the same body reader
			hdr.Flags = hdr.Flags.Add(primitive.HeaderFlagCustomPayload)
		}
		b, err := codecs.CustomRawCodec.DecodeBody(hdr, codecs.NewFrameBodyReader(append(append([]byte{}, prefix...), body...)))
		if err != nil {
			ch <- res{hv.L(hv.I(0))}
			return
		}
		var fields hv.V
		switch m := b.Message.(type) {
		case *codecs.PartialQuery:
			fields = hv.L(hv.S(m.Query), hv.I(int64(m.Consistency)), hv.B(m.Parameters))
		case *codecs.PartialExecute:
			fields = hv.L(hv.B(m.QueryId), hv.B(m.ResultMetadataId), hv.I(int64(m.Consistency)), hv.B(m.Parameters))
		case *codecs.PartialBatch:
			var cs []hv.V
			for _, q := range m.Queries {
				cs = append(cs, childV(q))
			}
			fields = hv.L(hv.I(int64(m.Type)), hv.L(cs...), hv.I(int64(m.Consistency)), hv.B(m.Parameters))
		default:
			ch <- res{hv.L(hv.I(3))}
			return
		}
		var buf bytes.Buffer
		var mc message.Codec
		for _, c := range codecs.CustomMessageCodecs {
			if c.GetOpCode() == op {
				mc = c
			}
		}
		if err := mc.Encode(b.Message, &buf, v); err != nil {
			ch <- res{hv.L(hv.I(4))}
			return
		}
		n, err := mc.EncodedLength(b.Message, v)
		if err != nil {
			ch <- res{hv.L(hv.I(4))}
			return
		}
		ch <- res{hv.L(hv.I(1), fields, hv.B(buf.Bytes()), hv.I(int64(n)))}
	}()
	select {
	case r := <-ch:
		return r.v
	case <-time.After(20 * time.Second):
		return hv.L(hv.I(2))
	}
}

func genC11(ctx *Ctx) {
	r := ctx.Rng
	maxVal := ctx.Scale(24, 300)
	emit := func(v primitive.ProtocolVersion, op primitive.OpCode, body []byte, valid bool, ref hv.V, kind string) {
		var prefix []byte
		if v >= primitive.ProtocolVersion4 && r.Intn(3) == 0 {
			// [bytes map] with one entry
			k, val := gen.Text(r, 12), r.Bytes(r.Intn(20))
			prefix = append(prefix, 0, 1, byte(len(k)>>8), byte(len(k)))
			prefix = append(prefix, k...)
			prefix = append(prefix, 0, 0, 0, byte(len(val)))
			prefix = append(prefix, val...)
			kind += "+payload"
		}
		in := hv.L(hv.I(int64(op)), hv.I(int64(v)), hv.B(body), hv.Bool(valid), ref, hv.B(prefix))
		ctx.Emit(in, partialCodec(v, op, body, prefix), kind)
		ctx.Count(fmt.Sprintf("%s:v%d:op%d", kind, v, op))
	}
	mutate := func(v primitive.ProtocolVersion, op primitive.OpCode, body []byte) {
		// prefixes
		for k := 0; k < 4; k++ {
			cut := r.Intn(len(body) + 1)
			if k == 0 && len(body) > 0 {
				cut = len(body) - 1
			}
			emit(v, op, body[:cut], false, hv.L(), "prefix")
		}
		// single-field mutations among the leading bytes, with tame length values
		for k := 0; k < 3 && len(body) > 0; k++ {
			m := append([]byte{}, body...)
			i := r.Intn(min(len(m), 48))
			switch r.Intn(3) {
			case 0:
				m[i] ^= byte(1 << uint(r.Intn(3)))
			case 1:
				m[i] = 0xff
			default:
				m[i] = 0
			}
			if len(m) >= 2 && m[0] >= 0x01 && m[0] < 0x80 && (op == primitive.OpCodeQuery) {
				m[0] = 0 // keep declared [long string] lengths below 16 MiB
			}
			emit(v, op, m, false, hv.L(), "mutation")
		}
	}
	nmsg := ctx.Scale(700, 40000)
	for i := 0; i < nmsg; i++ {
		v := gen.Versions[i%len(gen.Versions)]
		switch i % 3 {
		case 0:
			q := gen.Query(r, v, gen.Text(r, ctx.Scale(60, 2000)), maxVal)
			body, err := gen.Body(v, q)
			if err != nil {
				continue
			}
			n := 4 + len(q.Query) + 2
			ref := hv.L(hv.S(q.Query), hv.I(int64(q.Options.Consistency)), hv.B(body[n:]))
			emit(v, primitive.OpCodeQuery, body, true, ref, "reference-encoded")
			mutate(v, primitive.OpCodeQuery, body)
		case 1:
			e := gen.Execute(r, v, r.Bytes(1+r.Intn(32)), maxVal)
			body, err := gen.Body(v, e)
			if err != nil {
				continue
			}
			n := 2 + len(e.QueryId)
			rm := []byte{}
			if v.SupportsResultMetadataId() {
				n += 2 + len(e.ResultMetadataId)
				rm = e.ResultMetadataId
			}
			n += 2
			ref := hv.L(hv.B(e.QueryId), hv.B(rm), hv.I(int64(e.Options.Consistency)), hv.B(body[n:]))
			emit(v, primitive.OpCodeExecute, body, true, ref, "reference-encoded")
			mutate(v, primitive.OpCodeExecute, body)
		default:
			b := gen.Batch(r, v, gen.Children(r, v, 5, maxVal))
			body, err := gen.Body(v, b)
			if err != nil {
				continue
			}
			n := 3
			var cs []hv.V
			for _, c := range b.Children {
				vals := gen.PositionalValuesBytes(v, c.Values)
				if c.Query != "" {
					cs = append(cs, hv.L(hv.I(0), hv.S(c.Query), hv.B(vals)))
					n += 1 + 4 + len(c.Query) + len(vals)
				} else {
					cs = append(cs, hv.L(hv.I(1), hv.B(c.Id), hv.B(vals)))
					n += 1 + 2 + len(c.Id) + len(vals)
				}
			}
			n += 2
			ref := hv.L(hv.I(int64(b.Type)), hv.L(cs...), hv.I(int64(b.Consistency)), hv.B(body[n:]))
			emit(v, primitive.OpCodeBatch, body, true, ref, "reference-encoded")
			mutate(v, primitive.OpCodeBatch, body)
		}
	}
	// arbitrary bytes (first byte biased so that declared lengths stay small or negative)
	for i := 0; i < ctx.Scale(1500, 100000); i++ {
		b := r.Bytes(r.Intn(40))
		if len(b) > 1 {
			switch r.Intn(4) {
			case 0:
				b[0], b[1] = 0, 0
			case 1:
				b[0] = 0xff
			case 2:
				b[0] = byte(r.Intn(3))
				b[1] = 0
			default:
				b[0] = 0
				b[1] &= 0x0f
			}
		}
		op := []primitive.OpCode{primitive.OpCodeQuery, primitive.OpCodeExecute, primitive.OpCodeBatch}[i%3]
		emit(gen.Versions[r.Intn(5)], op, b, false, hv.L(), "random-bytes")
	}
	// hand-picked boundary bodies
	for _, v := range gen.Versions {
		for _, b := range [][]byte{{}, {0}, {0, 0}, {0, 0, 0, 0}, {0, 0, 0, 0, 0}, {0, 0, 0, 0, 0, 1}, {0xff, 0xff, 0xff, 0xff, 0, 1},
			{0x80, 0, 0, 0, 0, 1}, {0, 0, 0, 1}, {0, 1, 0x41, 0, 1}, {0, 0, 0, 1, 0x41, 0, 1}, {0, 1, 0x41, 0, 0, 0, 1}, {3, 0, 0, 0, 1}, {0, 0, 1, 2},
			{0, 0, 1, 0, 0, 0, 0, 0, 0, 0, 0, 1}, {1, 0, 1, 1, 0, 1, 7, 0, 1, 0xff, 0xff, 0xff, 0xfe, 0, 4}, {0, 0xff, 0xff}} {
			for _, op := range []primitive.OpCode{primitive.OpCodeQuery, primitive.OpCodeExecute, primitive.OpCodeBatch} {
				emit(v, op, b, false, hv.L(), "boundary")
			}
		}
	}
	// declared string lengths in the last few values below 2^31 (offset + length no longer fits 32 bits): a QUERY's long
	// string, and the query string of a BATCH child.  The unchanged decoder allocates the declared length before it notices
	// the short input, so only a few of them.
	for _, l := range []uint32{0x7fffffff, 0x7ffffffc} {
		lb := []byte{byte(l >> 24), byte(l >> 16), byte(l >> 8), byte(l)}
		emit(primitive.ProtocolVersion4, primitive.OpCodeQuery, append(append([]byte{}, lb...), 'S', 'E', 'L', 'E', 'C', 'T'), false, hv.L(), "length-near-2^31")
		emit(primitive.ProtocolVersionDse2, primitive.OpCodeBatch, append(append([]byte{0, 0, 1, 0}, lb...), 'I', 'N', 'S', 0, 0, 0, 1), false, hv.L(), "length-near-2^31")
	}
	_ = message.Query{}
}
