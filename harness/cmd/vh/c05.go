package main

// C05 / C04: direct calls of the default retry policy, and scripted requests through the
// real proxy against the fake backend.  The observable of a scripted request is the ordered
// list of hosts that received it (backend log) and the single reply the client got.

import (
	"context"
	"fmt"
	"strings"
	"time"

	"verifharness/fb"
	"verifharness/hv"
	"verifharness/px"

	"github.com/datastax/cql-proxy/proxy"
	"github.com/datastax/cql-proxy/proxycore"
	"github.com/datastax/go-cassandra-native-protocol/frame"
	"github.com/datastax/go-cassandra-native-protocol/message"
	"github.com/datastax/go-cassandra-native-protocol/primitive"
)

func init() {
	props["C05"] = func(c *Ctx) { genRetry(c, false) }
	props["C04"] = func(c *Ctx) { genRetry(c, true) }
}

// ---- outcome descriptions shared by script, model input and fake backend ----
type scOutcome struct {
	flags       byte // header flags of an error answer (tracing id / warnings / custom payload before the error code)
	kind        int  // 0 result, 1 error, 3 lost
	code        int
	received    int32
	blockFor    int32
	dataPresent bool
	writeType   string
	label       string
}

func (o scOutcome) val() hv.V {
	switch o.kind {
	case 0:
		return hv.L(hv.I(0))
	case 1:
		return hv.L(hv.I(1), hv.I(int64(o.code)), hv.I(int64(o.received)), hv.I(int64(o.blockFor)), hv.Bool(o.dataPresent), hv.S(o.writeType))
	default:
		return hv.L(hv.I(3))
	}
}

func (o scOutcome) backend() fb.Outcome {
	switch o.kind {
	case 0:
		return fb.Outcome{Kind: fb.OkRows}
	case 3:
		return fb.Outcome{Kind: fb.DropConn}
	}
	var m message.Message
	txt := "fb:" + o.label
	switch primitive.ErrorCode(o.code) {
	case primitive.ErrorCodeUnavailable:
		m = &message.Unavailable{ErrorMessage: txt, Consistency: primitive.ConsistencyLevelQuorum, Required: 2, Alive: 1}
	case primitive.ErrorCodeReadTimeout:
		m = &message.ReadTimeout{ErrorMessage: txt, Consistency: primitive.ConsistencyLevelQuorum, Received: o.received, BlockFor: o.blockFor, DataPresent: o.dataPresent}
	case primitive.ErrorCodeWriteTimeout:
		m = &message.WriteTimeout{ErrorMessage: txt, Consistency: primitive.ConsistencyLevelQuorum, Received: o.received, BlockFor: o.blockFor, WriteType: primitive.WriteType(o.writeType)}
	case primitive.ErrorCodeIsBootstrapping:
		m = &message.IsBootstrapping{ErrorMessage: txt}
	case primitive.ErrorCodeServerError:
		m = &message.ServerError{ErrorMessage: txt}
	case primitive.ErrorCodeOverloaded:
		m = &message.Overloaded{ErrorMessage: txt}
	case primitive.ErrorCodeTruncateError:
		m = &message.TruncateError{ErrorMessage: txt}
	case primitive.ErrorCodeReadFailure:
		m = &message.ReadFailure{ErrorMessage: txt, Consistency: primitive.ConsistencyLevelQuorum, Received: o.received, BlockFor: o.blockFor, NumFailures: 1, DataPresent: o.dataPresent}
	case primitive.ErrorCodeWriteFailure:
		m = &message.WriteFailure{ErrorMessage: txt, Consistency: primitive.ConsistencyLevelQuorum, Received: o.received, BlockFor: o.blockFor, NumFailures: 1, WriteType: primitive.WriteType(o.writeType)}
	case primitive.ErrorCodeInvalid:
		m = &message.Invalid{ErrorMessage: txt}
	case primitive.ErrorCodeSyntaxError:
		m = &message.SyntaxError{ErrorMessage: txt}
	case primitive.ErrorCodeUnauthorized:
		m = &message.Unauthorized{ErrorMessage: txt}
	case primitive.ErrorCodeConfigError:
		m = &message.ConfigError{ErrorMessage: txt}
	case primitive.ErrorCodeFunctionFailure:
		m = &message.FunctionFailure{ErrorMessage: txt, Keyspace: "ks", Function: "f", Arguments: []string{"int"}}
	case primitive.ErrorCodeAlreadyExists:
		m = &message.AlreadyExists{ErrorMessage: txt, Keyspace: "ks", Table: "t"}
	default:
		m = &message.ServerError{ErrorMessage: txt}
	}
	return fb.Outcome{Kind: fb.ErrMsg, Msg: m, MsgFlags: o.flags}
}

var writeTypes = []string{"SIMPLE", "BATCH", "UNLOGGED_BATCH", "COUNTER", "BATCH_LOG", "CAS", "VIEW", "CDC"}

// outcomeClasses is the alphabet the exhaustive sequences are built from.
func outcomeClasses() []scOutcome {
	return []scOutcome{
		{kind: 0, label: "result"},
		{kind: 3, label: "lost"},
		{kind: 1, code: 0x1000, label: "unavailable"},
		{kind: 1, code: 0x1002, label: "bootstrapping"},
		{kind: 1, code: 0x1200, received: 2, blockFor: 2, dataPresent: false, label: "readtimeout-retryable"},
		{kind: 1, code: 0x1200, received: 1, blockFor: 2, dataPresent: false, label: "readtimeout-short"},
		{kind: 1, code: 0x1200, received: 2, blockFor: 2, dataPresent: true, label: "readtimeout-data"},
		{kind: 1, code: 0x1100, received: 0, blockFor: 1, writeType: "BATCH_LOG", label: "writetimeout-batchlog"},
		{kind: 1, code: 0x1100, received: 0, blockFor: 1, writeType: "SIMPLE", label: "writetimeout-simple"},
		{kind: 1, code: 0x0000, label: "server"},
		{kind: 1, code: 0x1001, label: "overloaded"},
		{kind: 1, code: 0x1003, label: "truncate"},
		{kind: 1, code: 0x1300, received: 1, blockFor: 2, label: "readfailure"},
		{kind: 1, code: 0x1500, received: 1, blockFor: 2, writeType: "SIMPLE", label: "writefailure"},
		{kind: 1, code: 0x2200, label: "invalid"},
		{kind: 1, code: 0x2000, label: "syntax"},
		{kind: 1, code: 0x2100, label: "unauthorized"},
		{kind: 1, code: 0x2400, label: "alreadyexists"},
	}
}

func randOutcome(r *hv.Rng) scOutcome {
	cl := outcomeClasses()
	o := cl[r.Intn(len(cl))]
	if o.kind == 1 && r.Intn(3) == 0 {
		o.flags = hv.Pick(r, []byte{0x02, 0x08, 0x04, 0x0a, 0x0e})
	}
	if o.kind == 1 {
		switch o.code {
		case 0x1200, 0x1300:
			o.received, o.blockFor, o.dataPresent = int32(r.Intn(4)), int32(r.Intn(4)), r.Bool()
		case 0x1100, 0x1500:
			o.received, o.blockFor, o.writeType = int32(r.Intn(3)), int32(r.Intn(3)), hv.Pick(r, writeTypes)
		}
	}
	return o
}

// ---- direct policy calls ----
func policyCases(ctx *Ctx) {
	pol := proxy.NewDefaultRetryPolicy()
	retries := []int{0, 1, 2, 3, 7, 100}
	emit := func(method int, code int, rec, blk int32, dp bool, wt string, rc int, d proxy.RetryDecision) {
		in := hv.L(hv.I(0), hv.I(int64(method)), hv.I(int64(code)), hv.I(int64(rec)), hv.I(int64(blk)), hv.Bool(dp), hv.S(wt), hv.I(int64(rc)))
		ctx.Emit(in, hv.I(int64(d)), "policy")
		ctx.Count(fmt.Sprintf("policy:method%d", method))
	}
	for _, rc := range retries {
		for rec := int32(-1); rec <= 3; rec++ {
			for blk := int32(-1); blk <= 3; blk++ {
				for _, dp := range []bool{false, true} {
					emit(0, 0x1200, rec, blk, dp, "", rc, pol.OnReadTimeout(&message.ReadTimeout{Received: rec, BlockFor: blk, DataPresent: dp}, rc))
				}
			}
		}
		for _, wt := range append(writeTypes, "", "batch_log", "BATCH_LOG ") {
			emit(1, 0x1100, 0, 1, false, wt, rc, pol.OnWriteTimeout(&message.WriteTimeout{WriteType: primitive.WriteType(wt), Received: 0, BlockFor: 1}, rc))
		}
		emit(2, 0x1000, 0, 0, false, "", rc, pol.OnUnavailable(&message.Unavailable{Required: 2, Alive: 1}, rc))
		for _, m := range []message.Error{&message.ServerError{}, &message.Overloaded{}, &message.TruncateError{}, &message.ReadFailure{}, &message.WriteFailure{}} {
			emit(3, int(m.GetErrorCode()), 0, 0, false, "", rc, pol.OnErrorResponse(m, rc))
		}
	}
}

// ---- scripted requests ----
type retryEnv struct {
	ctx    *Ctx
	be     *fb.Backend
	env    *px.Env
	cl     *px.Client
	n      int
	ring   []int // host numbers in load-balancer order
	cursor int   // plans created since the ring was calibrated
	down   map[int]bool
	seq    int
	base   map[int]int // ready connections per host when everything is up
	stream int16
	ver    primitive.ProtocolVersion
	ids    map[string][]byte
	noHeal bool
	sat    map[int]bool // hosts whose connection has no free stream id (sends fail)
}

func hostNum(be *fb.Backend, ip string) int {
	var n int
	fmt.Sscanf(strings.TrimPrefix(ip, be.Prefix), "%d", &n)
	return n
}

func newRetryEnv(ctx *Ctx, n int) (*retryEnv, error) { return newRetryEnvOpt(ctx, n, nil) }

func newRetryEnvOpt(ctx *Ctx, n int, opt func(*proxy.Config)) (*retryEnv, error) {
	prefix, port := px.Alloc()
	be := fb.New(prefix, port)
	var topo []int
	for i := 1; i <= n; i++ {
		if err := be.StartHost(i); err != nil {
			return nil, err
		}
		topo = append(topo, i)
	}
	be.SetTopology(topo...)
	cfg := px.DefaultConfig(be)
	cfg.ReconnectPolicy = proxycore.NewReconnectPolicyWithDelays(time.Millisecond, 5*time.Millisecond)
	cfg.IdempotentGraph = graphIdem
	if opt != nil {
		opt(&cfg)
	}
	env, err := px.StartProxy(be, cfg)
	if err != nil {
		be.Shutdown()
		return nil, err
	}
	cl, err := px.Dial(env.Addr)
	if err != nil {
		return nil, err
	}
	e := &retryEnv{ctx: ctx, be: be, env: env, cl: cl, n: n, down: map[int]bool{}, base: map[int]int{}, ver: primitive.ProtocolVersion4, ids: map[string][]byte{}}
	if err := cl.Startup(e.ver, ""); err != nil {
		return nil, err
	}
	// calibrate the ring: n probes land on n consecutive hosts
	for i := 0; i < n; i++ {
		tok := e.token()
		hosts, _, _ := e.request(tok, 0, "SELECT v FROM ks.t WHERE k = 'tok:"+tok+"'", nil)
		if len(hosts) != 1 {
			return nil, fmt.Errorf("calibration probe reached %v", hosts)
		}
		e.ring = append(e.ring, hosts[0])
	}
	e.cursor = 0 // the next plan starts at ring[0] again (n plans later)
	return e, nil
}

func (e *retryEnv) close() {
	e.cl.Close()
	e.env.Close()
	e.be.Shutdown()
}

func (e *retryEnv) token() string {
	e.seq++
	return fmt.Sprintf("t%dx%d", e.ctx.Seed%1000, e.seq)
}

func (e *retryEnv) plan() []int {
	out := make([]int, 0, e.n)
	for i := 0; i < e.n; i++ {
		out = append(out, e.ring[(e.cursor+i)%e.n])
	}
	return out
}

// request sends one data request (kind 0 QUERY, 1 EXECUTE, 2 BATCH) and returns the hosts that
// received it, the reply classification and the number of frames seen for its stream.
func (e *retryEnv) request(tok string, kind int, text string, payload map[string][]byte) (hosts []int, reply hv.V, frames int) {
	e.stream = (e.stream + 1) % 100
	st := e.stream
	var msg message.Message
	switch kind {
	case 0:
		msg = &message.Query{Query: text, Options: &message.QueryOptions{Consistency: primitive.ConsistencyLevelOne}}
	case 1:
		id := e.ids[text]
		msg = &message.Execute{QueryId: id, Options: &message.QueryOptions{Consistency: primitive.ConsistencyLevelOne,
			PositionalValues: []*primitive.Value{primitive.NewValue([]byte("tok:" + tok))}}}
	default:
		var ch []*message.BatchChild
		for _, q := range strings.Split(text, "\n") {
			if id, ok := e.ids[q]; ok {
				ch = append(ch, &message.BatchChild{Id: id, Values: []*primitive.Value{primitive.NewValue([]byte("tok:" + tok))}})
			} else {
				ch = append(ch, &message.BatchChild{Query: q, Values: []*primitive.Value{primitive.NewValue([]byte("tok:" + tok))}})
			}
		}
		msg = &message.Batch{Type: primitive.BatchTypeLogged, Children: ch, Consistency: primitive.ConsistencyLevelOne}
	}
	raw := e.cl.Encode(e.ver, st, msg, func(f *frame.Frame) {
		if payload != nil {
			f.SetCustomPayload(payload)
		}
	})
	_ = e.cl.SendRaw(raw)
	e.cursor++
	// the reply, then a sentinel barrier to catch duplicates
	var got []*px.Frame
	f, _ := e.cl.Next(10 * time.Second)
	if f != nil {
		got = append(got, f)
	}
	more, _ := e.cl.Barrier(e.ver, 120, 5*time.Second)
	got = append(got, more...)
	reply = hv.L(hv.I(9))
	for _, g := range got {
		if g.Stream == st {
			frames++
		}
	}
	for _, r := range e.be.Snapshot() {
		if r.Token == tok && (r.Kind == "query" || r.Kind == "execute" || r.Kind == "batch") {
			hosts = append(hosts, hostNum(e.be, r.Host))
		}
	}
	last := 0
	if len(hosts) > 0 {
		last = hosts[len(hosts)-1]
	}
	if frames == 1 {
		for _, g := range got {
			if g.Stream != st {
				continue
			}
			if g.Opcode == byte(primitive.OpCodeResult) {
				reply = hv.L(hv.I(0), hv.I(int64(last)))
			} else if g.Opcode == byte(primitive.OpCodeError) {
				// code and message are read by hand: the reference decoder rejects some valid
				// error bodies (e.g. WRITE_FAILURE with write type CAS)
				if code, msg, ok := errCodeAndMessage(stripEnvelope(g.Flags, g.Body)); ok {
					switch {
					case strings.HasPrefix(msg, "Proxy exhausted query plan"):
						reply = hv.L(hv.I(2))
					case strings.HasPrefix(msg, "Proxy is unable to retry non-idempotent"):
						reply = hv.L(hv.I(3))
					default:
						reply = hv.L(hv.I(1), hv.I(int64(last)), hv.I(int64(code)))
					}
				}
			}
		}
	} else if frames > 1 {
		reply = hv.L(hv.I(8), hv.I(int64(frames)))
	}
	return hosts, reply, frames
}

// healHost probes until host h serves a request again (its pool slot is refilled).  Probes are
// ordinary requests, so they advance the plan counter like any other.
func (e *retryEnv) healHost(h int) bool {
	for i := 0; i < 3000; i++ {
		plan := e.plan()
		first := 0
		for _, x := range plan {
			if !e.down[x] {
				first = x
				break
			}
		}
		if first != h {
			// a probe that cannot tell us anything still has to be sent to move the rotation on
			tok := e.token()
			e.request(tok, 0, "SELECT v FROM ks.t WHERE k = 'tok:"+tok+"'", nil)
			continue
		}
		tok := e.token()
		hosts, _, _ := e.request(tok, 0, "SELECT v FROM ks.t WHERE k = 'tok:"+tok+"'", nil)
		if len(hosts) == 1 && hosts[0] == h {
			return true
		}
		time.Sleep(time.Millisecond)
	}
	return false
}

func (e *retryEnv) setDown(set map[int]bool) {
	var started []int
	for i := 1; i <= e.n; i++ {
		if set[i] && !e.down[i] {
			e.be.StopHost(i, false)
		} else if !set[i] && e.down[i] {
			_ = e.be.StartHost(i)
			started = append(started, i)
		}
		e.down[i] = set[i]
	}
	time.Sleep(80 * time.Millisecond) // pools notice closed connections
	for _, h := range started {
		if !e.healHost(h) {
			panic(fmt.Sprintf("host %d did not come back", h))
		}
	}
}

type stmtKind struct {
	kind  int
	text  func(tok string) string
	idem  bool
	label string
	graph bool
}

func (e *retryEnv) stmtKinds(idemGraph bool) []stmtKind {
	// prepared through the proxy (so that it records the statement's class), then known to every host
	prep := func(q string) string {
		if _, ok := e.ids[q]; !ok {
			e.prepare(q)
		}
		return q
	}
	// known to the backend only: the proxy never saw the PREPARE
	foreign := func(q string) string {
		if _, ok := e.ids[q]; !ok {
			e.ids[q] = e.be.PrepareEverywhere(q)
		}
		return q
	}
	pIdem := prep("INSERT INTO ks.t (k, v) VALUES (?, 1)")
	pNon := prep("INSERT INTO ks.t (k, v) VALUES (?, now())")
	pSel := prep("SELECT v FROM ks.t WHERE k = ?")
	pForeign := foreign("INSERT INTO ks.t (k, v) VALUES (?, 2)")
	// statements whose class is known by construction (independent of the proxy's parser)
	kinds := []stmtKind{
		{0, func(t string) string { return "SELECT v FROM ks.t WHERE k = 'tok:" + t + "'" }, true, "query-select", false},
		{0, func(t string) string { return "INSERT INTO ks.t (k, v) VALUES ('tok:" + t + "', 1)" }, true, "query-insert-plain", false},
		{0, func(t string) string { return "insert into ks.t (k, v) values ('tok:" + t + "', NOW())" }, false, "query-insert-now", false},
		{0, func(t string) string { return "UPDATE ks.t SET c = c + 1 WHERE k = 'tok:" + t + "'" }, false, "query-counter", false},
		{0, func(t string) string { return "UPDATE ks.t SET v = 1 WHERE k = 'tok:" + t + "' IF EXISTS" }, false, "query-lwt", false},
		{0, func(t string) string { return "DELETE l[0] FROM ks.t WHERE k = 'tok:" + t + "'" }, false, "query-delete-index", false},
		{0, func(t string) string { return "FROBNICATE ks.t 'tok:" + t + "'" }, false, "query-unparseable", false},
		{0, func(t string) string {
			return "BEGIN BATCH INSERT INTO ks.t (k, v) VALUES ('tok:" + t + "', 1) UPDATE ks.t SET v = 2 WHERE k = 'a' APPLY BATCH"
		}, true, "query-batch-plain", false},
		{0, func(t string) string {
			return "BEGIN COUNTER BATCH UPDATE ks.t SET c = c + 1 WHERE k = 'tok:" + t + "' APPLY BATCH"
		}, false, "query-batch-counter", false},
		{0, func(t string) string { return "g.V().has('name', 'tok:" + t + "')" }, idemGraph, "graph", true},
		{1, func(t string) string { return pIdem }, true, "execute-plain", false},
		{1, func(t string) string { return pSel }, true, "execute-select", false},
		{1, func(t string) string { return pNon }, false, "execute-now", false},
		{1, func(t string) string { return pForeign }, false, "execute-id-unknown-to-proxy", false},
		{2, func(t string) string { return pIdem + "\nINSERT INTO ks.t (k, v) VALUES (?, 3)" }, true, "batch-plain", false},
		{2, func(t string) string { return pIdem + "\n" + pNon }, false, "batch-with-now-child", false},
		{2, func(t string) string { return "INSERT INTO ks.t (k, v) VALUES (?, 3)\n" + pForeign }, false, "batch-id-unknown-to-proxy", false},
		{2, func(t string) string { return "UPDATE ks.t SET c = c + 1 WHERE k = ?" }, false, "batch-counter-text", false},
		{1, func(t string) string { return pIdem }, idemGraph, "graph-execute-plain", true},
	}
	// every order of up to three batch children drawn from five child types
	type child struct {
		text string
		idem bool
		tag  string
	}
	cts := []child{{"INSERT INTO ks.t (k, v) VALUES (?, 3)", true, "T"}, {"INSERT INTO ks.t (k, v) VALUES (?, uuid())", false, "t"},
		{pIdem, true, "P"}, {pNon, false, "p"}, {pForeign, false, "f"}}
	var rec func(prefix []child)
	rec = func(prefix []child) {
		if len(prefix) > 0 {
			var lines []string
			idem, tag := true, "batch:"
			for _, c := range prefix {
				lines = append(lines, c.text)
				idem = idem && c.idem
				tag += c.tag
			}
			txt := strings.Join(lines, "\n")
			kinds = append(kinds, stmtKind{2, func(t string) string { return txt }, idem, tag, false})
		}
		if len(prefix) < 3 {
			for _, c := range cts {
				rec(append(append([]child{}, prefix...), c))
			}
		}
	}
	rec(nil)
	return kinds
}

// prepare sends PREPARE through the proxy (one query plan) and spreads the id to every host.
func (e *retryEnv) prepare(q string) {
	e.stream = (e.stream + 1) % 100
	_ = e.cl.Send(e.ver, e.stream, &message.Prepare{Query: q})
	e.cursor++
	f, _ := e.cl.Next(10 * time.Second)
	if f == nil || f.Opcode != byte(primitive.OpCodeResult) {
		panic("prepare through proxy failed")
	}
	e.ids[q] = e.be.PrepareEverywhere(q)
}

func (e *retryEnv) scenario(k stmtKind, script []scOutcome, note string) {
	tok := e.token()
	script = append(script, scOutcome{kind: 0, label: "result"})
	var outs []fb.Outcome
	var sv []hv.V
	for _, o := range script {
		outs = append(outs, o.backend())
		sv = append(sv, o.val())
	}
	e.be.SetScript(tok, outs...)
	plan := e.plan()
	var pv, dv []hv.V
	for _, h := range plan {
		pv = append(pv, hv.I(int64(h)))
	}
	for i := 1; i <= e.n; i++ {
		if e.down[i] || e.sat[i] {
			dv = append(dv, hv.I(int64(i)))
		}
	}
	var payload map[string][]byte
	if k.graph {
		payload = map[string][]byte{"graph-source": []byte("g")}
	}
	hosts, reply, _ := e.request(tok, k.kind, k.text(tok), payload)
	var hvs []hv.V
	for _, h := range hosts {
		hvs = append(hvs, hv.I(int64(h)))
	}
	in := hv.L(hv.I(1), hv.Bool(k.idem), hv.L(pv...), hv.L(dv...), hv.L(sv...), hv.S(k.label))
	e.ctx.Emit(in, hv.L(hv.L(hvs...), reply), note+":"+k.label)
	e.ctx.Count("scripted:" + k.label)
	for _, o := range script[:len(script)-1] {
		e.ctx.Count("outcome:" + o.label)
	}
	for i, o := range script {
		if o.kind == 3 && i < len(hosts) && !e.noHeal {
			if !e.healHost(hosts[i]) {
				panic(fmt.Sprintf("host %d did not heal after a dropped connection", hosts[i]))
			}
		}
	}
}

func genRetry(ctx *Ctx, c04 bool) {
	r := ctx.Rng
	if !c04 {
		policyCases(ctx)
	}
	n := 3
	// the exhaustive part below is also recorded at the proxy's own atomic steps and judged by the trace monitor
	proxycore.VerifTraceStart()
	e, err := newRetryEnv(ctx, n)
	if err != nil {
		panic(err)
	}
	kinds := e.stmtKinds(false)
	classes := outcomeClasses()
	pick := func() stmtKind {
		if c04 {
			return kinds[r.Intn(len(kinds))]
		}
		if r.Intn(3) == 0 {
			return kinds[r.Intn(len(kinds))]
		}
		return kinds[r.Intn(2)]
	}
	// exhaustive over outcome sequences of length <= 2 for an idempotent and a non-idempotent statement
	for _, k := range []stmtKind{kinds[0], kinds[2]} {
		for _, a := range classes {
			e.scenario(k, []scOutcome{a}, "exhaustive1")
			for _, b := range classes {
				if a.kind == 0 {
					continue
				}
				e.scenario(k, []scOutcome{a, b}, "exhaustive2")
			}
		}
	}
	time.Sleep(50 * time.Millisecond)
	emitTrace(ctx, true, "traced-run: every outcome sequence of length <= 2 for an idempotent and a non-idempotent statement")
	if ctx.Thorough {
		for _, k := range []stmtKind{kinds[1], kinds[3]} {
			for _, a := range classes {
				for _, b := range classes {
					for _, c := range classes {
						if a.kind == 0 || b.kind == 0 {
							continue
						}
						e.scenario(k, []scOutcome{a, b, c}, "exhaustive3")
					}
				}
			}
		}
	}
	// random scripts under different sets of unreachable hosts
	downs := []map[int]bool{{}, {2: true}, {3: true, 2: true}, {1: true}, {1: true, 2: true, 3: true}, {}}
	for _, d := range downs {
		e.setDown(d)
		for i := 0; i < ctx.Scale(60, 1500); i++ {
			var script []scOutcome
			for j := r.Intn(5); j > 0; j-- {
				script = append(script, randOutcome(r))
			}
			e.scenario(pick(), script, fmt.Sprintf("random-down%d", len(d)))
		}
	}
	// every statement class against the outcomes that matter for C04
	for _, k := range kinds {
		for _, a := range classes {
			e.scenario(k, []scOutcome{a}, "class")
		}
	}
	e.close()
	twoConnsPhase(ctx, n, kinds)
	saturationPhase(ctx, n)
	idleClosePhase(ctx, n)
	sendFailedPhase(ctx)
	removalPhase(ctx, n)
	if c04 {
		frontPhase(ctx)
	}
	// graph requests with the idempotent-graph option are exercised in the thorough tier by a second proxy
	if ctx.Thorough {
		e2, err := newRetryEnvGraph(ctx, n)
		if err == nil {
			k2 := e2.stmtKinds(true)
			for _, a := range classes {
				e2.scenario(k2[len(k2)-1], []scOutcome{a}, "graph-idempotent")
			}
			e2.close()
		}
	}
}

func newRetryEnvGraph(ctx *Ctx, n int) (*retryEnv, error) {
	graphIdem = true
	defer func() { graphIdem = false }()
	return newRetryEnv(ctx, n)
}

var graphIdem bool

func errCodeAndMessage(b []byte) (int32, string, bool) {
	if len(b) < 6 {
		return 0, "", false
	}
	code := int32(uint32(b[0])<<24 | uint32(b[1])<<16 | uint32(b[2])<<8 | uint32(b[3]))
	n := int(b[4])<<8 | int(b[5])
	if len(b) < 6+n {
		return code, "", false
	}
	return code, string(b[6 : 6+n]), true
}

// advanceTo sends probes until the next plan starts at host h.
func (e *retryEnv) advanceTo(h int) {
	for e.plan()[0] != h {
		tok := e.token()
		e.request(tok, 0, "SELECT v FROM ks.t WHERE k = 'tok:"+tok+"'", nil)
	}
}

// twoConnsPhase: two connections per host; the first one of a host is dropped and, while its
// slot is still empty, the host must keep serving requests through the other connection.
func twoConnsPhase(ctx *Ctx, n int, _ []stmtKind) {
	e, err := newRetryEnvOpt(ctx, n, func(c *proxy.Config) {
		c.NumConns = 2
		c.ReconnectPolicy = proxycore.NewReconnectPolicyWithDelays(400*time.Millisecond, 500*time.Millisecond)
	})
	if err != nil {
		panic(err)
	}
	defer e.close()
	e.noHeal = true
	kinds := e.stmtKinds(false)
	for h := 1; h <= n; h++ {
		e.advanceTo(h)
		start := time.Now()
		e.scenario(kinds[0], []scOutcome{{kind: 3, label: "lost"}}, "two-conns-drop-first")
		time.Sleep(30 * time.Millisecond) // the pool clears the dead slot
		for i := 0; i < 2*n && time.Since(start) < 300*time.Millisecond; i++ {
			e.scenario(kinds[i%2], nil, "two-conns-one-slot-empty")
		}
		time.Sleep(700 * time.Millisecond)
	}
	// the same with an IDLE connection lost (no request on it): first the one opened first, then -- once the pool has healed
	// -- the other original one, so that each slot of the pool has been the empty one
	for h := 1; h <= n; h++ {
		for pass := 0; pass < 2; pass++ {
			e.advanceTo(h)
			if !e.be.DropOldestConn(h) {
				continue
			}
			start := time.Now()
			time.Sleep(30 * time.Millisecond)
			for i := 0; i < 2*n && time.Since(start) < 300*time.Millisecond; i++ {
				e.scenario(kinds[i%2], nil, "two-conns-idle-one-lost")
			}
			time.Sleep(700 * time.Millisecond)
		}
	}
}

// saturationPhase: one host keeps 2048 requests pending on its only connection, so sends to
// it fail with "streams exhausted"; requests must skip it like any other unusable host.
func saturationPhase(ctx *Ctx, n int) {
	e, err := newRetryEnv(ctx, n)
	if err != nil {
		panic(err)
	}
	defer e.close()
	kinds := e.stmtKinds(false)
	h := 2
	e.be.SetHostDefault(h, &fb.Outcome{Kind: fb.Silence})
	pendingAtH := func() int {
		k := 0
		for _, r := range e.be.Snapshot() {
			if hostNum(e.be, r.Host) == h && strings.HasPrefix(r.Token, "sat") {
				k++
			}
		}
		return k
	}
	sent, stream := 0, int16(1000)
	for round := 0; round < 200 && pendingAtH() < 2048; round++ {
		for i := 0; i < 256; i++ {
			stream++
			tok := fmt.Sprintf("sat%d", sent)
			_ = e.cl.Send(e.ver, stream, &message.Query{Query: "SELECT v FROM ks.t WHERE k = 'tok:" + tok + "'", Options: &message.QueryOptions{}})
			sent++
			e.cursor++
		}
		time.Sleep(30 * time.Millisecond)
	}
	if pendingAtH() < 2048 {
		panic(fmt.Sprintf("could not saturate host: %d pending", pendingAtH()))
	}
	// drain the answers of the fillers that went elsewhere
	answered := 0
	for answered < sent-2048 {
		f, _ := e.cl.Next(5 * time.Second)
		if f == nil {
			panic(fmt.Sprintf("saturation: only %d of %d filler replies", answered, sent-2048))
		}
		answered++
	}
	e.sat = map[int]bool{h: true}
	classes := outcomeClasses()
	for i := 0; i < 4*n; i++ {
		e.scenario(kinds[i%4], []scOutcome{classes[(i*5)%len(classes)]}, "stream-ids-exhausted")
	}
	e.sat = nil
	e.be.SetHostDefault(h, nil)
	e.be.DropConns(h)
	for answered < sent {
		f, _ := e.cl.Next(5 * time.Second)
		if f == nil {
			break
		}
		answered++
	}
	in := hv.L(hv.I(2), hv.I(int64(sent)))
	ctx.Emit(in, hv.L(hv.I(int64(answered))), "saturation-fillers-all-answered")
}

// idleClosePhase: a host stops answering; the proxy itself closes the connection after the
// idle timeout.  For the request pending there this is a lost connection like any other.
func idleClosePhase(ctx *Ctx, n int) {
	e, err := newRetryEnvOpt(ctx, n, func(c *proxy.Config) {
		c.HeartBeatInterval = 40 * time.Millisecond
		c.IdleTimeout = 200 * time.Millisecond
		c.ConnectTimeout = 100 * time.Millisecond
	})
	if err != nil {
		panic(err)
	}
	defer e.close()
	e.noHeal = true
	kinds := e.stmtKinds(false)
	for i, k := range []stmtKind{kinds[2], kinds[0], kinds[3]} {
		h := 2 + i%2
		e.advanceTo(h)
		e.be.Mute(h, true)
		e.scenario(k, []scOutcome{{kind: 3, label: "lost-by-idle-timeout"}}, "proxy-closes-idle-connection")
		e.be.Mute(h, false)
		e.be.DropConns(h)
		time.Sleep(50 * time.Millisecond)
		if !e.healHost(h) {
			panic("host did not heal after idle close")
		}
	}
}

// ---------- a send that fails must leave nothing behind ----------
// blockReq is a proxycore.Request whose OnResult can hold the connection's reader goroutine.
type blockReq struct {
	frm     interface{}
	entered chan struct{}
	release chan struct{}
	closed  chan error
	block   bool
}

func (w *blockReq) Frame() interface{}     { return w.frm }
func (w *blockReq) IsPrepareRequest() bool { return false }
func (w *blockReq) Execute(next bool)      {}
func (w *blockReq) OnClose(err error)      { w.closed <- err }
func (w *blockReq) OnResult(_ *frame.RawFrame) {
	if w.block {
		close(w.entered)
		<-w.release
	}
}

// sendFailedPhase drives one backend connection of proxycore through its public API: the
// connection is closed while its reader goroutine is still busy delivering an earlier response
// (the window between the socket failing and ClientConn.Closing running), requests are sent in
// that window, and when the reader finally runs Closing we count the requests whose Send
// returned an error and that are nonetheless notified through OnClose.  request.executeInternal
// has moved such a request on to the next host when Send failed, so a notification makes an
// idempotent request run on a further host although no attempt failed -- or answers "no more
// hosts" while an attempt is in flight -- and tells a non-idempotent one that its connection
// was lost while it is executing elsewhere.
func sendFailedPhase(ctx *Ctx) {
	prefix, port := px.Alloc()
	be := fb.New(prefix, port)
	if err := be.StartHost(1); err != nil {
		panic(err)
	}
	be.SetTopology(1)
	defer be.Shutdown()
	for round := 0; round < ctx.Scale(6, 60); round++ {
		c, cancel := context.WithTimeout(context.Background(), 10*time.Second)
		cl, err := proxycore.ConnectClient(c, proxycore.NewEndpoint(fmt.Sprintf("%s:%d", be.IP(1), be.Port)), proxycore.ClientConnConfig{})
		if err != nil {
			panic(err)
		}
		if _, err := cl.Handshake(c, primitive.ProtocolVersion4, nil); err != nil {
			panic(err)
		}
		q := func(tok string) interface{} {
			return frame.NewFrame(primitive.ProtocolVersion4, 0, &message.Query{Query: "SELECT v FROM ks.t WHERE k = 'tok:" + tok + "'", Options: &message.QueryOptions{}})
		}
		r0 := &blockReq{frm: q(fmt.Sprintf("sf%dr0", round)), entered: make(chan struct{}), release: make(chan struct{}), closed: make(chan error, 1), block: true}
		sends := 20 + ctx.Rng.Intn(40)
		notified, failed := 0, 0
		note := "send-in-the-window-between-close-and-Closing"
		if err := cl.Send(r0); err != nil {
			note = "setup-failed"
		} else {
			select {
			case <-r0.entered: // the reader goroutine is inside OnResult
			case <-time.After(5 * time.Second):
				note = "setup-failed"
			}
		}
		if note != "setup-failed" {
			_ = cl.Close()
			var failedReqs, okReqs []*blockReq
			for i := 0; i < sends; i++ {
				r := &blockReq{frm: q(fmt.Sprintf("sf%dr%d", round, i+1)), closed: make(chan error, 1)}
				if err := cl.Send(r); err != nil {
					failedReqs = append(failedReqs, r)
				} else {
					okReqs = append(okReqs, r)
				}
			}
			failed = len(failedReqs)
			close(r0.release)
			deadline := time.After(3 * time.Second)
			for _, r := range okReqs { // Closing notifies every request still registered; wait until it has
				select {
				case <-r.closed:
				case <-deadline:
				}
			}
			time.Sleep(100 * time.Millisecond)
			for _, r := range failedReqs {
				select {
				case <-r.closed:
					notified++
				default:
				}
			}
			ctx.Count(fmt.Sprintf("send-failed:%d-of-%d", failed/10*10, sends/10*10))
		}
		cancel()
		ctx.Emit(hv.L(hv.I(3), hv.I(int64(sends))), hv.L(hv.I(int64(notified))), fmt.Sprintf("%s failed=%d", note, failed))
	}
}

// stripEnvelope removes what precedes the message in a response body: tracing id (flag 0x02), warnings (0x08,
// a string list), custom payload (0x04, a bytes map) -- in the order the codec library writes them: tracing id, payload, warnings.
func stripEnvelope(flags byte, b []byte) []byte {
	if flags&0x02 != 0 {
		if len(b) < 16 {
			return nil
		}
		b = b[16:]
	}
	if flags&0x04 != 0 {
		if len(b) < 2 {
			return nil
		}
		n := int(b[0])<<8 | int(b[1])
		b = b[2:]
		for i := 0; i < n; i++ {
			if len(b) < 2 {
				return nil
			}
			l := int(b[0])<<8 | int(b[1])
			if len(b) < 2+l+4 {
				return nil
			}
			b = b[2+l:]
			vl := int(int32(uint32(b[0])<<24 | uint32(b[1])<<16 | uint32(b[2])<<8 | uint32(b[3])))
			b = b[4:]
			if vl > 0 {
				if len(b) < vl {
					return nil
				}
				b = b[vl:]
			}
		}
	}
	if flags&0x08 != 0 {
		if len(b) < 2 {
			return nil
		}
		n := int(b[0])<<8 | int(b[1])
		b = b[2:]
		for i := 0; i < n; i++ {
			if len(b) < 2 {
				return nil
			}
			l := int(b[0])<<8 | int(b[1])
			if len(b) < 2+l {
				return nil
			}
			b = b[2+l:]
		}
	}
	return b
}

// removalPhase: the host a request is waiting on leaves the cluster (the peers table no longer lists it and the control
// connection is re-established, which merges the tables at once): its pool is closed, the request is notified and must
// go on with the hosts of ITS plan in their order -- the plan was taken before the removal and must not be disturbed by it.
func removalPhase(ctx *Ctx, n int) {
	for round := 0; round < ctx.Scale(3, 20); round++ {
		e, err := newRetryEnv(ctx, n)
		if err != nil {
			panic(err)
		}
		e.noHeal = true
		kinds := e.stmtKinds(false)
		k := kinds[0]
		for i := 0; i < round%n; i++ { // start from different ring positions
			tok := e.token()
			e.request(tok, 0, "SELECT v FROM ks.t WHERE k = 'tok:"+tok+"'", nil)
		}
		plan := e.plan()
		first := plan[0]
		tok := e.token()
		boot := scOutcome{kind: 1, code: int(primitive.ErrorCodeIsBootstrapping), label: "bootstrapping"}
		e.be.SetScript(tok, fb.Outcome{Kind: fb.Silence}, boot.backend(), fb.Outcome{Kind: fb.OkRows})
		go func() {
			time.Sleep(200 * time.Millisecond)
			var rest []int
			for h := 1; h <= n; h++ {
				if h != first {
					rest = append(rest, h)
				}
			}
			e.be.SetTopology(rest...)
			e.be.SetFailSystemOn(first, true) // the control connection must come back on another host
			e.be.DropRegistered()
		}()
		hosts, reply, _ := e.request(tok, k.kind, k.text(tok), nil)
		var pv, hvs []hv.V
		for _, h := range plan {
			pv = append(pv, hv.I(int64(h)))
		}
		for _, h := range hosts {
			hvs = append(hvs, hv.I(int64(h)))
		}
		lost := scOutcome{kind: 3, label: "host-removed-from-the-cluster"}
		in := hv.L(hv.I(1), hv.Bool(k.idem), hv.L(pv...), hv.L(), hv.L(lost.val(), boot.val(), scOutcome{kind: 0, label: "result"}.val()), hv.S(k.label))
		ctx.Emit(in, hv.L(hv.L(hvs...), reply), "host-removed-while-the-request-waits-on-it:"+k.label)
		ctx.Count("scripted:host-removed-mid-request")
		e.close()
	}
}
