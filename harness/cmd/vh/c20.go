package main

import (
	"fmt"
	"os"
	"os/exec"
	"path/filepath"
	"sort"
	"strings"
	"time"

	"verifharness/fb"
	"verifharness/hv"
	"verifharness/px"

	"github.com/datastax/cql-proxy/proxy"
	"github.com/datastax/go-cassandra-native-protocol/message"
	"github.com/datastax/go-cassandra-native-protocol/primitive"
)

func init() { props["C20"] = genC20 }

var c20Versions = []string{"3", "v3", "4", "v4", "5", "v5", "65", "DSEv1", "66", "DSEv2"}
var c20CLs = []string{"ANY", "ONE", "TWO", "THREE", "QUORUM", "ALL", "LOCAL_QUORUM", "EACH_QUORUM", "SERIAL", "LOCAL_SERIAL", "LOCAL_ONE"}

func caseVariants(r *hv.Rng, s string, n int) []string {
	out := []string{s, strings.ToLower(s), strings.ToUpper(s)}
	for i := 0; i < n; i++ {
		b := []byte(s)
		for j := range b {
			if r.Bool() {
				b[j] = strings.ToUpper(string(b[j]))[0]
			} else {
				b[j] = strings.ToLower(string(b[j]))[0]
			}
		}
		out = append(out, string(b))
	}
	return out
}

func nearMisses(r *hv.Rng, s string) []string {
	out := []string{s + " ", " " + s, s + "x", "", "v", "V", s + s}
	if len(s) > 1 {
		out = append(out, s[:len(s)-1], s[1:])
		b := []byte(s)
		i := r.Intn(len(b))
		b[i] ^= 1
		out = append(out, string(b))
	}
	return out
}

type c20cfg struct {
	backend          bool
	heartbeat, idle  time.Duration
	numconns         int
	version, maxvers string
	cls              []string
	override         string
	rpc              bool
	tokens           bool
	peers            [][3]bool // hasRPC, isSelf, hasTokens
	channel          string    // flag | env | yaml
}

func (c c20cfg) input() hv.V {
	cls := []hv.V{}
	for _, s := range c.cls {
		cls = append(cls, hv.S(s))
	}
	peers := []hv.V{}
	for _, p := range c.peers {
		peers = append(peers, hv.L(hv.Bool(p[0]), hv.Bool(p[1]), hv.Bool(p[2])))
	}
	return hv.L(hv.I(2), hv.Bool(c.backend), hv.I(int64(c.heartbeat)), hv.I(int64(c.idle)), hv.I(int64(c.numconns)),
		hv.S(c.version), hv.S(c.maxvers), hv.L(cls...), hv.S(c.override), hv.Bool(c.rpc), hv.Bool(c.tokens), hv.L(peers...))
}

// runC20 starts proxy.Run with the configuration delivered through the chosen channel and
// reports (0) when start-up was refused, else the effective values observed from outside.
func runC20(ctx *Ctx, be *fb.Backend, idx int, c c20cfg) (hv.V, string) {
	bind := be.Prefix + "201:" + px.Itoa(21000+idx%20000)
	selfIP := be.Prefix + "210"
	var args []string
	env := map[string]string{}
	yaml := ""
	add := func(flag, envName, yamlKey, val string) {
		switch c.channel {
		case "flag":
			args = append(args, "--"+flag, val)
		case "env":
			env[envName] = val
		default:
			yaml += fmt.Sprintf("%s: %q\n", yamlKey, val)
		}
	}
	args = append(args, "--bind", bind)
	if c.backend {
		args = append(args, "--contact-points", be.IP(1), "--port", px.Itoa(be.Port))
	}
	add("heartbeat-interval", "HEARTBEAT_INTERVAL", "heartbeat-interval", c.heartbeat.String())
	add("idle-timeout", "IDLE_TIMEOUT", "idle-timeout", c.idle.String())
	switch c.channel {
	case "flag":
		args = append(args, "--num-conns", px.Itoa(c.numconns))
	case "env":
		env["NUM_CONNS"] = px.Itoa(c.numconns)
	default:
		yaml += fmt.Sprintf("num-conns: %d\n", c.numconns)
	}
	add("protocol-version", "PROTOCOL_VERSION", "protocol-version", c.version)
	add("max-protocol-version", "MAX_PROTOCOL_VERSION", "max-protocol-version", c.maxvers)
	if len(c.cls) > 0 {
		switch c.channel {
		case "flag":
			args = append(args, "--unsupported-write-consistencies", strings.Join(c.cls, ","))
		case "env":
			env["UNSUPPORTED_WRITE_CONSISTENCIES"] = strings.Join(c.cls, ",")
		default:
			yaml += "unsupported-write-consistencies:\n"
			for _, s := range c.cls {
				yaml += fmt.Sprintf("  - %q\n", s)
			}
		}
	}
	switch c.channel {
	case "yaml":
		yaml += fmt.Sprintf("unsupported-write-consistency-override: %q\n", c.override)
	default: // the override has no environment variable (env:"")
		args = append(args, "--unsupported-write-consistency-override", c.override)
	}
	if c.rpc {
		add("rpc-address", "RPC_ADDRESS", "rpc-address", selfIP)
	}
	if c.tokens {
		switch c.channel {
		case "flag":
			args = append(args, "--tokens", "0")
		case "env":
			env["TOKENS"] = "0"
		default:
			yaml += "tokens: [\"0\"]\n"
		}
	}
	if len(c.peers) > 0 { // peers exist only in YAML
		yaml += "peers:\n"
		for i, p := range c.peers {
			yaml += "  - data-center: dcx\n"
			if p[0] {
				ip := be.Prefix + px.Itoa(211+i)
				if p[1] {
					ip = selfIP
				}
				yaml += fmt.Sprintf("    rpc-address: %s\n", ip)
			}
			if p[2] {
				yaml += "    tokens: [\"1\"]\n"
			}
		}
	}
	if yaml != "" {
		fn := filepath.Join(ctx.WorkDir, fmt.Sprintf("cfg%d.yaml", idx))
		_ = os.WriteFile(fn, []byte(yaml), 0o644)
		args = append(args, "--config", fn)
		defer os.Remove(fn)
	}
	be.ResetLog()
	// the real binary as a subprocess: exit status, crashes and os.Exit are observed as they are
	self, _ := os.Executable()
	cmd := exec.Command(filepath.Join(filepath.Dir(self), "cql-proxy"), args...)
	cmd.Env = []string{"PATH=" + os.Getenv("PATH"), "HOME=" + os.Getenv("HOME")}
	for k, v := range env {
		cmd.Env = append(cmd.Env, k+"="+v)
	}
	if err := cmd.Start(); err != nil {
		panic(err)
	}
	cancel := func() { _ = cmd.Process.Signal(os.Interrupt) }
	rcCh := make(chan int, 1)
	go func() {
		err := cmd.Wait()
		if err == nil {
			rcCh <- 0
		} else if ee, ok := err.(*exec.ExitError); ok && ee.ExitCode() > 0 {
			rcCh <- ee.ExitCode()
		} else {
			rcCh <- 99 // killed by a signal
		}
	}()
	note := c.channel + " " + strings.Join(args, " ")
	// wait until it listens or exits
	var cl *px.Client
	deadline := time.Now().Add(10 * time.Second)
	for cl == nil {
		select {
		case rc := <-rcCh:
			if rc == 0 {
				return hv.L(hv.I(9)), note + " (exit 0 without serving)"
			}
			return hv.L(hv.I(0)), note
		default:
		}
		if time.Now().After(deadline) {
			_ = cmd.Process.Kill()
			return hv.L(hv.I(8)), note + " (neither listening nor exited)"
		}
		var err error
		cl, err = px.Dial(bind)
		if err != nil {
			cl = nil
			time.Sleep(3 * time.Millisecond)
		}
	}
	defer func() {
		cl.Close()
		cancel()
		select {
		case <-rcCh:
		case <-time.After(2 * time.Second):
			_ = cmd.Process.Kill()
			<-rcCh
		}
	}()
	// effective max version: which versions does the gate accept
	maxAccepted := 0
	for _, v := range []primitive.ProtocolVersion{3, 4, 5, 65, 66} {
		_ = cl.Send(v, 1, &message.Options{})
		f, err := cl.Next(5 * time.Second)
		if err != nil || f == nil {
			return hv.L(hv.I(7)), note + " (no reply to OPTIONS)"
		}
		if f.Opcode == byte(primitive.OpCodeSupported) && int(v) > maxAccepted {
			maxAccepted = int(v)
		}
	}
	// effective backend version and connection count: STARTUP frames seen by the backend
	time.Sleep(20 * time.Millisecond)
	startups := 0
	version := 0
	for _, r := range be.Snapshot() {
		if r.Kind == "startup" {
			startups++
			version = int(r.Version)
		}
	}
	// effective consistency override: send one write per level, see what arrives
	effVersion := primitive.ProtocolVersion(version)
	if err := cl.Startup(effVersion, ""); err != nil {
		return hv.L(hv.I(6)), note + " (startup failed: " + err.Error() + ")"
	}
	changed := map[int]int{}
	for lvl := 0; lvl <= 10; lvl++ {
		tok := fmt.Sprintf("c20i%dl%d", idx, lvl)
		q := &message.Query{Query: "INSERT INTO ks.t (k) VALUES ('tok:" + tok + "')",
			Options: &message.QueryOptions{Consistency: primitive.ConsistencyLevel(lvl)}}
		_ = cl.Send(effVersion, 2, q)
		if f, err := cl.Next(5 * time.Second); err != nil || f == nil {
			return hv.L(hv.I(5)), note + " (no reply to INSERT)"
		}
	}
	for _, r := range be.Snapshot() {
		if r.Kind == "query" && strings.HasPrefix(r.Token, fmt.Sprintf("c20i%dl", idx)) {
			var lvl int
			fmt.Sscanf(r.Token[strings.LastIndex(r.Token, "l")+1:], "%d", &lvl)
			// consistency follows the long string in the (uncompressed) body
			body := r.Raw[9:]
			n := int(body[0])<<24 | int(body[1])<<16 | int(body[2])<<8 | int(body[3])
			got := int(body[4+n])<<8 | int(body[5+n])
			if got != lvl {
				changed[lvl] = got
			}
		}
	}
	lvls := []int{}
	ov := 0
	for l, g := range changed {
		lvls = append(lvls, l)
		ov = g
	}
	sort.Ints(lvls)
	cls := []hv.V{}
	for _, l := range lvls {
		cls = append(cls, hv.I(int64(l)))
	}
	return hv.L(hv.I(1), hv.I(int64(version)), hv.I(int64(maxAccepted)), hv.I(int64(startups-1)), hv.L(cls...), hv.I(int64(ov))), note
}

func genC20(ctx *Ctx) {
	r := ctx.Rng
	// --- direct calls of the two name parsers -------------------------------------------
	tryV := func(s string) {
		v, ok := proxy.VerifParseProtocolVersion(s)
		if !ok {
			v = 0
		}
		ctx.Emit(hv.L(hv.I(0), hv.S(s)), hv.L(hv.Bool(ok), hv.I(int64(v))), "parseProtocolVersion")
	}
	tryC := func(s string) {
		v, ok := proxy.VerifParseConsistency(s)
		if !ok {
			v = 0
		}
		ctx.Emit(hv.L(hv.I(1), hv.S(s)), hv.L(hv.Bool(ok), hv.I(int64(v))), "UnmarshalText")
	}
	for _, n := range c20Versions {
		for _, s := range caseVariants(r, n, ctx.Scale(6, 40)) {
			tryV(s)
			ctx.Count("version:documented-spelling")
		}
		for _, s := range nearMisses(r, n) {
			tryV(s)
			ctx.Count("version:near-miss")
		}
	}
	for _, n := range c20CLs {
		for _, s := range caseVariants(r, n, ctx.Scale(12, 200)) {
			tryC(s)
			ctx.Count("consistency:documented-spelling")
		}
		for _, s := range nearMisses(r, n) {
			tryC(s)
			ctx.Count("consistency:near-miss")
		}
	}
	for i := 0; i < ctx.Scale(300, 20000); i++ {
		n := r.Intn(8)
		b := make([]byte, n)
		for j := range b {
			b[j] = byte(32 + r.Intn(95))
		}
		tryV(string(b))
		tryC(string(b))
		ctx.Count("random-ascii")
	}
	for i := 0; i < 200; i++ { // all short numerals
		tryV(px.Itoa(i))
		ctx.Count("version:numeral")
	}

	// --- proxy.Run through flags / environment / YAML ------------------------------------
	prefix, port := px.Alloc()
	be := fb.New(prefix, port)
	if err := be.StartHost(1); err != nil {
		panic(err)
	}
	be.SetTopology(1)
	defer be.Shutdown()

	base := c20cfg{backend: true, heartbeat: 30 * time.Second, idle: 60 * time.Second, numconns: 1,
		version: "v4", maxvers: "v4", override: "LOCAL_QUORUM", channel: "flag"}
	idx := 0
	run := func(c c20cfg, kind string) {
		idx++
		out, note := runC20(ctx, be, idx, c)
		ctx.Emit(c.input(), out, note)
		ctx.Count("run:" + kind + ":" + c.channel)
	}
	channels := []string{"flag", "env", "yaml"}
	// every documented version spelling, through every channel, as version = max version
	for _, n := range c20Versions {
		for ci, ch := range channels {
			c := base
			c.channel = ch
			vs := caseVariants(r, n, 1)
			c.version, c.maxvers = vs[(ci+1)%len(vs)], vs[ci%len(vs)]
			run(c, "version-name")
		}
	}
	// all pairs (version, max version)
	for _, v := range []string{"v3", "v4", "v5", "DSEv1", "DSEv2"} {
		for _, m := range []string{"v3", "v4", "v5", "DSEv1", "DSEv2"} {
			c := base
			c.version, c.maxvers = v, m
			c.channel = hv.Pick(r, channels)
			run(c, "version-pair")
		}
	}
	// every consistency name as override and as list member
	for i, n := range c20CLs {
		for ci, ch := range channels {
			c := base
			c.channel = ch
			vs := caseVariants(r, n, 1)
			c.override = vs[ci%len(vs)]
			c.cls = []string{c20CLs[(i+1)%len(c20CLs)], c20CLs[(i+3)%len(c20CLs)]}
			run(c, "override-name")
			c = base
			c.channel = ch
			c.cls = []string{vs[(ci+1)%len(vs)]}
			c.override = c20CLs[(i+5)%len(c20CLs)]
			run(c, "list-name")
		}
	}
	// unknown names
	for _, ch := range channels {
		for _, bad := range []string{"v6", "2", "dsev3", "vv4", ""} {
			c := base
			c.channel = ch
			c.version = bad
			if bad == "" && ch != "yaml" {
				continue // empty flag value falls back to kong's default
			}
			run(c, "unknown-version")
			c = base
			c.channel = ch
			c.maxvers = bad
			run(c, "unknown-maxversion")
		}
		for _, bad := range []string{"QUORUMS", "local", "11"} {
			c := base
			c.channel = ch
			c.cls = []string{"ONE", bad}
			run(c, "unknown-consistency")
			c = base
			c.channel = ch
			c.override = bad
			run(c, "unknown-override")
		}
	}
	// numeric boundaries
	for _, ch := range channels {
		for _, hb := range []time.Duration{59*time.Second + 999*time.Millisecond, 60 * time.Second, 60*time.Second + time.Millisecond, 0, 2 * time.Minute} {
			c := base
			c.channel = ch
			c.heartbeat = hb
			run(c, "heartbeat-boundary")
		}
		for _, n := range []int{-1, 0, 1, 2, 3} {
			c := base
			c.channel = ch
			c.numconns = n
			run(c, "numconns-boundary")
		}
		c := base
		c.channel = ch
		c.backend = false
		run(c, "no-backend")
	}
	// peers / tokens / rpc-address (YAML only for peers)
	for _, rpc := range []bool{false, true} {
		for _, tokens := range []bool{false, true} {
			for _, peers := range [][][3]bool{nil, {{true, false, false}}, {{true, false, true}}, {{false, false, true}},
				{{true, true, false}, {true, false, true}}, {{true, true, false}, {true, false, false}}, {{true, false, true}, {false, false, false}}} {
				c := base
				c.channel = "yaml"
				c.rpc, c.tokens, c.peers = rpc, tokens, peers
				run(c, "peers")
			}
		}
	}
	// buildNodes called directly: every peer list of length <= 3 over the 8 peer shapes
	shapes := [][3]bool{}
	for m := 0; m < 8; m++ {
		shapes = append(shapes, [3]bool{m&1 != 0, m&2 != 0, m&4 != 0})
	}
	var lists [][][3]bool
	lists = append(lists, nil)
	for _, a := range shapes {
		lists = append(lists, [][3]bool{a})
		for _, b := range shapes {
			lists = append(lists, [][3]bool{a, b})
			for _, c := range shapes {
				lists = append(lists, [][3]bool{a, b, c})
			}
		}
	}
	for _, rpc := range []bool{false, true} {
		for _, tokens := range []bool{false, true} {
			for _, peers := range lists {
				cfg := proxy.Config{DC: "dc1"}
				if rpc {
					cfg.RPCAddr = "10.0.0.1"
				}
				if tokens {
					cfg.Tokens = []string{"0"}
				}
				var pv []hv.V
				for i, p := range peers {
					pc := proxy.PeerConfig{DC: "dcx"}
					if p[0] {
						pc.RPCAddr = fmt.Sprintf("10.0.0.%d", 2+i)
						if p[1] {
							pc.RPCAddr = "10.0.0.1"
						}
					}
					if p[2] {
						pc.Tokens = []string{"1"}
					}
					cfg.Peers = append(cfg.Peers, pc)
					pv = append(pv, hv.L(hv.Bool(p[0]), hv.Bool(p[1] && rpc), hv.Bool(p[2])))
				}
				err := proxy.VerifBuildNodes(cfg)
				ctx.Emit(hv.L(hv.I(3), hv.Bool(rpc), hv.Bool(tokens), hv.L(pv...)), hv.L(hv.Bool(err == nil)), "buildNodes")
				ctx.Count("buildNodes:direct")
			}
		}
	}
	// random combinations around the boundaries (thorough: more)
	for i := 0; i < ctx.Scale(20, 300); i++ {
		c := base
		c.channel = hv.Pick(r, channels)
		c.version = hv.Pick(r, append(c20Versions, "v6", "1"))
		c.maxvers = hv.Pick(r, c20Versions)
		c.numconns = r.Intn(4)
		c.heartbeat = time.Duration(58+r.Intn(4)) * time.Second
		c.override = hv.Pick(r, append(c20CLs, "nope"))
		for j := r.Intn(3); j > 0; j-- {
			c.cls = append(c.cls, hv.Pick(r, append(c20CLs, "bogus")))
		}
		run(c, "random")
	}
}
