package main

// C19: a secure-connect bundle is built around a fresh CA; TLS servers that present each kind
// of certificate chain play the metadata service and the database nodes.  The proxy's own code
// (astra.LoadBundleZip, the resolver's Resolve and NewEndpoint, proxycore.ConnectClient and
// Handshake) connects; the servers report whether the TLS handshake completed, the SNI name,
// the client certificate and any bytes received.
//
// One case = one connection attempt: input (host now (roots) (presented chain)) with abstract
// certificates (key signer is-ca not-before not-after (names)); output (accepted sni-ok
// client-certificate-ok bytes-received-although-rejected).

import (
	"archive/zip"
	"bytes"
	"context"
	"crypto/ecdsa"
	"crypto/elliptic"
	"crypto/rand"
	"crypto/tls"
	"crypto/x509"
	"crypto/x509/pkix"
	"encoding/json"
	"encoding/pem"
	"fmt"
	"io"
	"log"
	"math/big"
	"net"
	"net/http"
	"sync"
	"time"

	"verifharness/hv"

	"github.com/datastax/cql-proxy/astra"
	"github.com/datastax/cql-proxy/proxycore"
	"github.com/datastax/go-cassandra-native-protocol/datatype"
	"github.com/datastax/go-cassandra-native-protocol/message"
	"github.com/datastax/go-cassandra-native-protocol/primitive"
)

func init() { props["C19"] = genC19 }

type c19Cert struct {
	id     int64 // abstract key identity
	signer int64
	isCA   bool
	cert   *x509.Certificate
	der    []byte
	key    *ecdsa.PrivateKey
	names  []int64
}

var c19NameIDs = map[string]int64{"localhost": 1, "other.example": 2, "127.0.0.1": 4}

var c19Serial int64 = 1000
var c19KeyID int64

func c19NameID(n string) int64 {
	if id, ok := c19NameIDs[n]; ok {
		return id
	}
	id := int64(100 + len(c19NameIDs))
	c19NameIDs[n] = id
	return id
}

// c19Make issues a certificate; parent nil = self-signed
func c19Make(cn string, parent *c19Cert, isCA bool, notBefore, notAfter time.Time, dns []string, ips []net.IP) *c19Cert {
	key, err := ecdsa.GenerateKey(elliptic.P256(), rand.Reader)
	if err != nil {
		panic(err)
	}
	c19Serial++
	c19KeyID++
	tmpl := &x509.Certificate{
		SerialNumber: big.NewInt(c19Serial), Subject: pkix.Name{CommonName: cn, Organization: []string{fmt.Sprintf("key%d", c19KeyID)}},
		NotBefore: notBefore, NotAfter: notAfter, DNSNames: dns, IPAddresses: ips,
		KeyUsage:    x509.KeyUsageDigitalSignature,
		ExtKeyUsage: []x509.ExtKeyUsage{x509.ExtKeyUsageServerAuth, x509.ExtKeyUsageClientAuth}, BasicConstraintsValid: true, IsCA: isCA,
	}
	if isCA {
		tmpl.KeyUsage |= x509.KeyUsageCertSign
	}
	c := &c19Cert{id: c19KeyID, isCA: isCA, key: key}
	signerCert, signerKey := tmpl, key
	c.signer = c.id
	if parent != nil {
		signerCert, signerKey = parent.cert, parent.key
		c.signer = parent.id
	}
	der, err := x509.CreateCertificate(rand.Reader, tmpl, signerCert, &key.PublicKey, signerKey)
	if err != nil {
		panic(err)
	}
	c.der = der
	c.cert, _ = x509.ParseCertificate(der)
	for _, d := range dns {
		c.names = append(c.names, c19NameID(d))
	}
	for _, ip := range ips {
		c.names = append(c.names, c19NameID(ip.String()))
	}
	return c
}

func (c *c19Cert) val() hv.V {
	var ns []hv.V
	for _, n := range c.names {
		ns = append(ns, hv.I(n))
	}
	return hv.L(hv.I(c.id), hv.I(c.signer), hv.Bool(c.isCA), hv.I(c.cert.NotBefore.Unix()), hv.I(c.cert.NotAfter.Unix()), hv.L(ns...))
}

func pemOf(typ string, der []byte) []byte {
	return pem.EncodeToMemory(&pem.Block{Type: typ, Bytes: der})
}

func keyPEM(k *ecdsa.PrivateKey) []byte {
	b, err := x509.MarshalECPrivateKey(k)
	if err != nil {
		panic(err)
	}
	return pemOf("EC PRIVATE KEY", b)
}

// what a harness TLS server saw of one connection
type c19Seen struct {
	handshook  bool
	sni        string
	clientCert []byte
	bytes      int
}

type c19Server struct {
	ln    net.Listener
	mu    sync.Mutex
	chain []*c19Cert
	seen  []c19Seen
}

func (s *c19Server) setChain(chain []*c19Cert) {
	s.mu.Lock()
	s.chain = chain
	s.seen = nil
	s.mu.Unlock()
}

func (s *c19Server) take() []c19Seen {
	s.mu.Lock()
	defer s.mu.Unlock()
	out := s.seen
	s.seen = nil
	return out
}

func (s *c19Server) tlsConfig(sni *string) *tls.Config {
	return &tls.Config{
		ClientAuth: tls.RequestClientCert,
		GetCertificate: func(h *tls.ClientHelloInfo) (*tls.Certificate, error) {
			*sni = h.ServerName
			s.mu.Lock()
			chain := s.chain
			s.mu.Unlock()
			c := &tls.Certificate{PrivateKey: chain[0].key}
			for _, x := range chain {
				c.Certificate = append(c.Certificate, x.der)
			}
			return c, nil
		},
	}
}

// node server: raw TLS, records what arrives after the handshake
func newC19Node(addr string) *c19Server {
	ln, err := net.Listen("tcp", addr)
	if err != nil {
		panic(err)
	}
	s := &c19Server{ln: ln}
	go func() {
		for {
			c, err := ln.Accept()
			if err != nil {
				return
			}
			go func(c net.Conn) {
				defer c.Close()
				var seen c19Seen
				tc := tls.Server(c, s.tlsConfig(&seen.sni))
				_ = tc.SetDeadline(time.Now().Add(3 * time.Second))
				if err := tc.Handshake(); err == nil {
					seen.handshook = true
					if pc := tc.ConnectionState().PeerCertificates; len(pc) > 0 {
						seen.clientCert = pc[0].Raw
					}
					buf := make([]byte, 4096)
					_ = tc.SetDeadline(time.Now().Add(400 * time.Millisecond))
					n, _ := tc.Read(buf)
					seen.bytes = n
				}
				s.mu.Lock()
				s.seen = append(s.seen, seen)
				s.mu.Unlock()
			}(c)
		}
	}()
	return s
}

// metadata server: https; body = the metadata document, or a redirect
type c19Meta struct {
	*c19Server
	srv      *http.Server
	requests int
	redirect string
	doc      []byte
}

func newC19Meta(addr string, doc []byte) *c19Meta {
	ln, err := net.Listen("tcp", addr)
	if err != nil {
		panic(err)
	}
	m := &c19Meta{c19Server: &c19Server{ln: ln}, doc: doc}
	var sni string
	cfg := m.tlsConfig(&sni)
	cfg.VerifyConnection = func(cs tls.ConnectionState) error {
		seen := c19Seen{handshook: true, sni: cs.ServerName}
		if len(cs.PeerCertificates) > 0 {
			seen.clientCert = cs.PeerCertificates[0].Raw
		}
		m.mu.Lock()
		m.seen = append(m.seen, seen)
		m.mu.Unlock()
		return nil
	}
	m.srv = &http.Server{Handler: http.HandlerFunc(func(w http.ResponseWriter, r *http.Request) {
		m.mu.Lock()
		m.requests++
		red := m.redirect
		m.mu.Unlock()
		if red != "" {
			http.Redirect(w, r, red, http.StatusFound)
			return
		}
		w.Header().Set("Content-Type", "application/json")
		_, _ = w.Write(m.doc)
	}), ErrorLog: log.New(io.Discard, "", 0)}
	go func() { _ = m.srv.Serve(tls.NewListener(ln, cfg)) }()
	return m
}

func (m *c19Meta) takeRequests() int {
	m.mu.Lock()
	defer m.mu.Unlock()
	n := m.requests
	m.requests = 0
	return n
}

func freePort() int {
	l, err := net.Listen("tcp", "127.0.0.1:0")
	if err != nil {
		panic(err)
	}
	defer l.Close()
	return l.Addr().(*net.TCPAddr).Port
}

type c19Variant struct {
	name  string
	chain []*c19Cert
}

func genC19(ctx *Ctx) {
	c19Run(ctx, "localhost", true)
	// a bundle whose host is an IP literal: the name to verify is that address
	c19Run(ctx, "127.0.0.1", false)
}

func c19Run(ctx *Ctx, host string, timed bool) {
	r := ctx.Rng
	now := time.Now()
	day := 24 * time.Hour
	ca := c19Make("bundle CA", nil, true, now.Add(-day), now.Add(365*day), nil, nil)
	otherCA := c19Make("another CA", nil, true, now.Add(-day), now.Add(365*day), nil, nil)
	inter := c19Make("bundle intermediate", ca, true, now.Add(-day), now.Add(300*day), nil, nil)
	notCA := c19Make("not a CA", ca, false, now.Add(-day), now.Add(300*day), []string{"issuer.example"}, nil)
	client := c19Make("bundle client", ca, false, now.Add(-day), now.Add(365*day), nil, nil)
	hostID1, hostID2 := "a2e24181-d732-402a-ab06-894a8b2f6094", "0fd5d5c3-6c0b-4b2e-9b1c-7d1d8b0f5a11"
	lo := []string{host}
	var hostIPs []net.IP
	if ip := net.ParseIP(host); ip != nil {
		lo, hostIPs = nil, []net.IP{ip}
	}
	good := c19Make(host, ca, false, now.Add(-day), now.Add(30*day), lo, hostIPs)
	variants := func() []c19Variant {
		t := time.Now()
		selfSignedCA := c19Make(host, nil, true, t.Add(-day), t.Add(30*day), lo, hostIPs)
		viaInter := c19Make(host, inter, false, t.Add(-day), t.Add(30*day), lo, hostIPs)
		return []c19Variant{
			{"valid leaf", []*c19Cert{good}},
			{"valid leaf, bundle CA presented too", []*c19Cert{good, ca}},
			{"leaf under another CA", []*c19Cert{c19Make(host, otherCA, false, t.Add(-day), t.Add(30*day), lo, hostIPs)}},
			{"leaf under another CA, that CA presented", []*c19Cert{c19Make(host, otherCA, false, t.Add(-day), t.Add(30*day), lo, hostIPs), otherCA}},
			{"self-signed leaf", []*c19Cert{c19Make(host, nil, false, t.Add(-day), t.Add(30*day), lo, hostIPs)}},
			{"self-signed CA certificate as leaf", []*c19Cert{selfSignedCA}},
			{"wrong DNS name", []*c19Cert{c19Make("other.example", ca, false, t.Add(-day), t.Add(30*day), []string{"other.example"}, nil)}},
			{"name of the node (SNI) but not of the bundle host", []*c19Cert{c19Make(hostID1, ca, false, t.Add(-day), t.Add(30*day), []string{hostID1, hostID2}, nil)}},
			{"name only in the common name", []*c19Cert{c19Make(host, ca, false, t.Add(-day), t.Add(30*day), nil, nil)}},
			{"IP name only", []*c19Cert{c19Make(host, ca, false, t.Add(-day), t.Add(30*day), nil, []net.IP{net.ParseIP("127.0.0.1")})}},
			{"another IP address only", []*c19Cert{c19Make(host, ca, false, t.Add(-day), t.Add(30*day), nil, []net.IP{net.ParseIP("127.0.0.2")})}},
			{"expired", []*c19Cert{c19Make(host, ca, false, t.Add(-30*day), t.Add(-time.Hour), lo, hostIPs)}},
			{"expired a minute ago", []*c19Cert{c19Make(host, ca, false, t.Add(-30*day), t.Add(-time.Minute), lo, hostIPs)}},
			{"not yet valid", []*c19Cert{c19Make(host, ca, false, t.Add(time.Hour), t.Add(30*day), lo, hostIPs)}},
			{"leaf via intermediate, intermediate presented", []*c19Cert{viaInter, inter}},
			{"leaf via intermediate, intermediate and CA presented", []*c19Cert{viaInter, inter, ca}},
			{"leaf via intermediate, intermediate missing", []*c19Cert{viaInter}},
			{"leaf via intermediate, wrong intermediate presented", []*c19Cert{viaInter, otherCA}},
			{"leaf issued by a certificate that is not a CA", []*c19Cert{c19Make(host, notCA, false, t.Add(-day), t.Add(30*day), lo, hostIPs), notCA}},
			{"untrusted CA-flagged certificate first, genuine leaf second", []*c19Cert{selfSignedCA, good}},
			{"untrusted leaf first, genuine leaf second", []*c19Cert{c19Make(host, nil, false, t.Add(-day), t.Add(30*day), lo, hostIPs), good}},
			{"wrong-name leaf first, genuine leaf second", []*c19Cert{c19Make("other.example", ca, false, t.Add(-day), t.Add(30*day), []string{"other.example"}, nil), good}},
			{"genuine leaf first, unrelated certificates after it", []*c19Cert{good, otherCA, selfSignedCA}},
			{"expired intermediate", []*c19Cert{c19Make(host, c19ExpiredInter(ca, t), false, t.Add(-day), t.Add(30*day), lo, hostIPs), c19LastInter}},
		}
	}

	metaPort, nodePort, redirPort := freePort(), freePort(), freePort()
	sniAddr := fmt.Sprintf("127.0.0.1:%d", nodePort)
	doc, _ := json.Marshal(map[string]interface{}{"version": 1, "region": "us-east1",
		"contact_info": map[string]interface{}{"type": "sni_proxy", "local_dc": "us-east1", "sni_proxy_address": sniAddr, "contact_points": []string{hostID1, hostID2}}})
	meta := newC19Meta(fmt.Sprintf("127.0.0.1:%d", metaPort), doc)
	defer meta.srv.Close()
	node := newC19Node(sniAddr)
	defer node.ln.Close()
	redir := newC19Meta(fmt.Sprintf("127.0.0.1:%d", redirPort), doc)
	defer redir.srv.Close()

	// the bundle
	var zb bytes.Buffer
	zw := zip.NewWriter(&zb)
	cfgJSON, _ := json.Marshal(map[string]interface{}{"host": host, "port": metaPort})
	for name, content := range map[string][]byte{"config.json": cfgJSON, "ca.crt": pemOf("CERTIFICATE", ca.der), "cert": pemOf("CERTIFICATE", client.der), "key": keyPEM(client.key)} {
		w, _ := zw.Create(name)
		_, _ = w.Write(content)
	}
	_ = zw.Close()
	zr, err := zip.NewReader(bytes.NewReader(zb.Bytes()), int64(zb.Len()))
	if err != nil {
		panic(err)
	}
	bundle, err := astra.LoadBundleZip(zr)
	if err != nil {
		panic(err)
	}
	roots := hv.L(ca.val())
	chainV := func(ch []*c19Cert) hv.V {
		var vs []hv.V
		for _, c := range ch {
			vs = append(vs, c.val())
		}
		return hv.L(vs...)
	}
	emit := func(kind string, v c19Variant, at time.Time, accepted, sniOK, certOK, leaked bool) {
		if !accepted {
			sniOK, certOK = false, false
		}
		ctx.Emit(hv.L(hv.I(c19NameID(host)), hv.I(at.Unix()), roots, chainV(v.chain)), hv.L(hv.Bool(accepted), hv.Bool(sniOK), hv.Bool(certOK), hv.Bool(leaked)), kind+": "+v.name)
		ctx.Count(kind + ":bundle-host-" + host)
	}

	// ---- (A) the metadata service presents each chain ----
	resolve := func() ([]proxycore.Endpoint, proxycore.EndpointResolver, error) {
		res := astra.NewResolver(bundle, 4*time.Second)
		eps, err := res.Resolve(context.Background())
		return eps, res, err
	}
	for _, v := range variants() {
		meta.setChain(v.chain)
		meta.takeRequests()
		at := time.Now()
		_, _, err := resolve()
		seen := meta.take()
		sniOK, certOK := false, false
		for _, s := range seen {
			sniOK = sniOK || s.sni == host || (hostIPs != nil && s.sni == "") // TLS clients send no server name for an IP literal
			certOK = certOK || bytes.Equal(s.clientCert, client.der)
		}
		reqs := meta.takeRequests()
		emit("metadata-service", v, at, err == nil, sniOK, certOK, err != nil && reqs > 0)
	}
	// a trusted metadata service that redirects to a host whose certificate is good for that host's own name only
	ipOnly := c19Make("redirect target", ca, false, now.Add(-day), now.Add(30*day), nil, []net.IP{net.ParseIP("127.0.0.1")})
	meta.setChain([]*c19Cert{good})
	redir.setChain([]*c19Cert{ipOnly})
	meta.mu.Lock()
	meta.redirect = fmt.Sprintf("https://127.0.0.1:%d/metadata", redirPort)
	meta.mu.Unlock()
	at := time.Now()
	_, _, err = resolve()
	reqs := redir.takeRequests()
	emit("metadata-service-redirect", c19Variant{"redirect to another host name with a certificate for that name only", []*c19Cert{ipOnly}}, at, err == nil, true, true, err != nil && reqs > 0)
	meta.mu.Lock()
	meta.redirect = ""
	meta.mu.Unlock()
	meta.take()
	redir.take()

	// ---- (B) the database nodes present each chain; endpoints from Resolve and from NewEndpoint ----
	meta.setChain([]*c19Cert{good})
	eps, res, err := resolve()
	if err != nil || len(eps) != 2 {
		panic(fmt.Sprintf("C19: resolve with the good chain failed: %v", err))
	}
	rs := proxycore.NewResultSet(&message.RowsResult{
		Metadata: &message.RowsMetadata{ColumnCount: 2, Columns: []*message.ColumnMetadata{
			{Keyspace: "system", Table: "peers", Name: "host_id", Index: 0, Type: datatype.Uuid},
			{Keyspace: "system", Table: "peers", Name: "data_center", Index: 1, Type: datatype.Varchar}}},
		Data: message.RowSet{message.Row{uuidBytes(hostID2), []byte("us-east1")}},
	}, primitive.ProtocolVersion4)
	rowEp, err := res.NewEndpoint(rs.Row(0))
	if err != nil {
		panic(err)
	}
	type target struct {
		ep   proxycore.Endpoint
		name string
		kind string
	}
	targets := []target{{eps[0], hostID1, "node:contact-point"}, {rowEp, hostID2, "node:host-id"}}
	connect := func(tg target, v c19Variant) {
		node.setChain(v.chain)
		at := time.Now()
		cctx, cancel := context.WithTimeout(context.Background(), 3*time.Second)
		cl, err := proxycore.ConnectClient(cctx, tg.ep, proxycore.ClientConnConfig{})
		accepted := err == nil
		if accepted {
			hctx, hcancel := context.WithTimeout(context.Background(), 300*time.Millisecond)
			_, _ = cl.Handshake(hctx, primitive.ProtocolVersion4, nil) // STARTUP goes out; the harness server never answers
			hcancel()
			_ = cl.Close()
		}
		cancel()
		time.Sleep(450 * time.Millisecond)
		seen := node.take()
		sniOK, certOK, leaked := false, false, false
		for _, s := range seen {
			sniOK = sniOK || s.sni == tg.name
			certOK = certOK || bytes.Equal(s.clientCert, client.der)
			leaked = leaked || s.bytes > 0
		}
		emit(tg.kind, v, at, accepted, sniOK, certOK, !accepted && leaked)
	}
	for _, v := range variants() {
		if ctx.Thorough {
			for _, tg := range targets {
				connect(tg, v)
			}
		} else {
			connect(targets[r.Intn(2)], v)
		}
	}
	if !timed {
		return
	}
	// ---- (C) the same endpoint object, used again after its server's certificate has expired ----
	soon := time.Now().Add(3 * time.Second)
	short := c19Variant{"leaf expiring three seconds after the endpoint was created", []*c19Cert{c19Make(host, ca, false, now.Add(-day), soon, lo, hostIPs)}}
	connect(targets[0], short)
	connect(targets[1], short)
	time.Sleep(time.Until(soon.Add(1500 * time.Millisecond)))
	connect(targets[0], short)
	connect(targets[1], short)
	// and endpoints created while the certificate was not yet valid, used once it is
	startsSoon := time.Now().Add(2 * time.Second)
	later := c19Variant{"leaf that becomes valid two seconds after the endpoint was created", []*c19Cert{c19Make(host, ca, false, startsSoon, now.Add(30*day), lo, hostIPs)}}
	connect(targets[0], later)
	time.Sleep(time.Until(startsSoon.Add(1500 * time.Millisecond)))
	connect(targets[0], later)
}

var c19LastInter *c19Cert

func c19ExpiredInter(ca *c19Cert, t time.Time) *c19Cert {
	c19LastInter = c19Make("expired intermediate", ca, true, t.Add(-60*24*time.Hour), t.Add(-time.Hour), nil, nil)
	return c19LastInter
}

func uuidBytes(s string) []byte {
	u, err := primitive.ParseUuid(s)
	if err != nil {
		panic(err)
	}
	return u[:]
}
