package main

import (
	"fmt"
	"time"

	"github.com/datastax/go-cassandra-native-protocol/message"
	"github.com/datastax/go-cassandra-native-protocol/primitive"

	"verifharness/fb"
	"verifharness/px"
)

// otherIDRun: three hosts, of which two prepare every statement under an id of their own.  A client prepares a statement
// (while all hosts still behave), the hosts forget it, and the client EXECUTEs it again and again: on the two odd hosts
// the proxy's re-PREPARE succeeds -- under another id than the one the host reported as unprepared -- so executing there
// again can never work and the request has to move on until it reaches the third host.  Every EXECUTE must be answered
// once, on its stream, with the rows of that very EXECUTE (C01, C02; found as the endless re-PREPARE loop repaired by
// 49b678c; wave 9 put two different slips into that repair).
func otherIDRun(ctx *Ctx, tag *int) []echoResult {
	e := newEchoEnv(3, nil)
	defer e.close()
	*tag++
	cl, err := px.Dial(e.env.Addr)
	if err != nil {
		panic(err)
	}
	defer cl.Close()
	_ = cl.Startup(primitive.ProtocolVersion4, "")
	q := "SELECT v FROM ks.t WHERE k = ?"
	_ = cl.Send(primitive.ProtocolVersion4, 1, &message.Prepare{Query: q})
	if f, _ := cl.Next(5 * time.Second); f == nil || f.Opcode != byte(primitive.OpCodeResult) {
		panic("otherid: prepare failed")
	}
	id := md5Of(q)
	e.be.SetHostPrepare(2, &fb.Outcome{Kind: fb.OtherID})
	e.be.SetHostPrepare(3, &fb.Outcome{Kind: fb.OtherID})
	var res []echoResult
	silent := 0
	n := ctx.Scale(24, 200)
	for i := 0; i < n && silent < 2; i++ {
		for h := 1; h <= 3; h++ {
			e.be.Forget(h)
		}
		tok := fmt.Sprintf("q%dx0x%d", *tag, i+1)
		st := int16(1 + i%500)
		_ = cl.Send(primitive.ProtocolVersion4, st, &message.Execute{QueryId: id, ResultMetadataId: id, Options: &message.QueryOptions{
			Consistency: primitive.ConsistencyLevelOne, PositionalValues: []*primitive.Value{primitive.NewValue([]byte("tok:" + tok))}}})
		f, _ := cl.Next(3 * time.Second)
		switch {
		case f == nil:
			silent++
			res = append(res, echoResult{0, int(st), tok, 2, "no-reply"})
		case f.Stream != st:
			res = append(res, echoResult{0, int(st), tok, 2, "unexpected-stream"})
		default:
			v, got := classifyEcho(f, tok)
			if v == 1 && f.Opcode != byte(primitive.OpCodeResult) {
				v, got = 2, "error-instead-of-rows:"+got
			}
			res = append(res, echoResult{0, int(st), tok, v, got})
		}
	}
	return res
}

// c01OtherID: the tally C01 judges -- every EXECUTE answered exactly once
func c01OtherID(ctx *Ctx, tag *int) {
	var t c01Tally
	for _, x := range otherIDRun(ctx, tag) {
		t.requests++
		switch x.got {
		case "no-reply":
			t.zero++
			if len(t.detail) < 5 {
				t.detail = append(t.detail, fmt.Sprintf("EXECUTE on stream %d: no reply", x.stream))
			}
		case "unexpected-stream":
			t.wrongStream++
		default:
			t.one++
		}
	}
	emitTally(ctx, t, "hosts-that-prepare-under-another-id")
}

// c02OtherID: the answers C02 judges -- the frame on stream s is the answer to the EXECUTE sent on s
func c02OtherID(ctx *Ctx, tag *int) {
	emitEcho(ctx, otherIDRun(ctx, tag), "hosts-that-prepare-under-another-id", true)
}
