package main

import (
	"fmt"
	"sync"

	"verifharness/hv"

	"github.com/datastax/cql-proxy/proxycore"
)

func init() { props["C15"] = genC15 }

type c15op struct {
	kind  int
	hosts []int
	a, b  int
	v     uint64
}

func c15host(i int) *proxycore.Host {
	return &proxycore.Host{Endpoint: proxycore.NewEndpoint(fmt.Sprintf("10.0.0.%d:9042", i)), DC: "dc"}
}

var c15keys = map[string]int{}

func init() {
	for i := 0; i < 64; i++ {
		c15keys[fmt.Sprintf("10.0.0.%d:9042", i)] = i
	}
}

func c15input(ops []c15op) hv.V {
	var l []hv.V
	for _, o := range ops {
		switch o.kind {
		case 0:
			e := []hv.V{hv.I(0)}
			for _, h := range o.hosts {
				e = append(e, hv.I(int64(h)))
			}
			l = append(l, hv.L(e...))
		case 1, 2:
			l = append(l, hv.L(hv.I(int64(o.kind)), hv.I(int64(o.a))))
		case 3:
			l = append(l, hv.L(hv.I(3)))
		case 4:
			l = append(l, hv.L(hv.I(4), hv.I(int64(o.a)), hv.I(int64(o.b))))
		case 5:
			l = append(l, hv.L(hv.I(5), hv.U(o.v)))
		case 6:
			l = append(l, hv.L(hv.I(6), hv.I(int64(o.a))))
		case 7:
			l = append(l, hv.L(hv.I(7), hv.I(int64(o.a*o.b+1)))) // +1: the enumerating plan inside c15balance
		}
	}
	return hv.L(l...)
}

func c15exec(ops []c15op) (out hv.V) {
	defer func() {
		if r := recover(); r != nil {
			out = hv.L(hv.S(fmt.Sprintf("panic: %v", r)))
		}
	}()
	lb := proxycore.NewRoundRobinLoadBalancer()
	var plans []proxycore.QueryPlan
	var outs []hv.V
	for _, o := range ops {
		switch o.kind {
		case 0:
			hs := []*proxycore.Host{}
			for _, h := range o.hosts {
				hs = append(hs, c15host(h))
			}
			lb.OnEvent(&proxycore.BootstrapEvent{Hosts: hs})
		case 1:
			lb.OnEvent(&proxycore.AddEvent{Host: c15host(o.a)})
		case 2:
			lb.OnEvent(&proxycore.RemoveEvent{Host: c15host(o.a)})
		case 3:
			plans = append(plans, lb.NewQueryPlan())
		case 4:
			var ys []hv.V
			for i := 0; i < o.b; i++ {
				h := plans[o.a].Next()
				if h == nil {
					ys = append(ys, hv.I(-1))
				} else {
					ys = append(ys, hv.I(int64(c15keys[h.Key()])))
				}
			}
			outs = append(outs, hv.L(ys...))
		case 5:
			proxycore.VerifSetLBIndex(lb, o.v)
		case 6:
			outs = append(outs, hv.L(hv.Bool(c15concurrent(lb, o.a))))
		case 7:
			outs = append(outs, hv.L(hv.Bool(c15balance(lb, o.a, o.b))))
		}
	}
	return hv.L(outs...)
}

// concurrent plan creation/consumption while membership events are applied: every plan must
// be duplicate-free and must not crash.
func c15concurrent(lb proxycore.LoadBalancer, rounds int) (ok bool) {
	ok = true
	var mu sync.Mutex
	fail := func() { mu.Lock(); ok = false; mu.Unlock() }
	var wg sync.WaitGroup
	stop := make(chan struct{})
	for w := 0; w < 4; w++ {
		wg.Add(1)
		go func() {
			defer wg.Done()
			defer func() {
				if r := recover(); r != nil {
					fail()
				}
			}()
			for {
				select {
				case <-stop:
					return
				default:
				}
				qp := lb.NewQueryPlan()
				seen := map[string]bool{}
				for h := qp.Next(); h != nil; h = qp.Next() {
					if seen[h.Key()] {
						fail()
					}
					seen[h.Key()] = true
				}
			}
		}()
	}
	for i := 0; i < rounds; i++ {
		switch i % 4 {
		case 0: // one host joins and leaves (the last element of the list)
			lb.OnEvent(&proxycore.AddEvent{Host: c15host(40 + i%8)})
			lb.OnEvent(&proxycore.RemoveEvent{Host: c15host(40 + i%8)})
		case 1: // several hosts join, then leave back to back, the earlier-listed ones first (elements shift)
			for k := 0; k < 3; k++ {
				lb.OnEvent(&proxycore.AddEvent{Host: c15host(50 + k)})
			}
			for k := 0; k < 3; k++ {
				lb.OnEvent(&proxycore.RemoveEvent{Host: c15host(50 + k)})
			}
		case 2: // the list is replaced by a longer and then by the original one
			lb.OnEvent(&proxycore.BootstrapEvent{Hosts: []*proxycore.Host{c15host(1), c15host(2), c15host(3), c15host(60), c15host(61), c15host(62)}})
			lb.OnEvent(&proxycore.BootstrapEvent{Hosts: []*proxycore.Host{c15host(1), c15host(2), c15host(3)}})
		default: // a host from the middle of the list leaves and comes back
			lb.OnEvent(&proxycore.RemoveEvent{Host: c15host(2)})
			lb.OnEvent(&proxycore.AddEvent{Host: c15host(2)})
			lb.OnEvent(&proxycore.RemoveEvent{Host: c15host(1)})
			lb.OnEvent(&proxycore.AddEvent{Host: c15host(1)})
		}
	}
	close(stop)
	wg.Wait()
	return ok
}

// g goroutines create p plans each on stable membership; with an atomic counter the offsets
// handed out are exactly a contiguous range, so first-choice counts differ by at most one
// whatever the interleaving.
func c15balance(lb proxycore.LoadBalancer, g, p int) bool {
	var mu sync.Mutex
	counts := map[string]int{}
	var wg sync.WaitGroup
	for w := 0; w < g; w++ {
		wg.Add(1)
		go func() {
			defer wg.Done()
			local := map[string]int{}
			for i := 0; i < p; i++ {
				if h := lb.NewQueryPlan().Next(); h != nil {
					local[h.Key()]++
				}
			}
			mu.Lock()
			for k, v := range local {
				counts[k] += v
			}
			mu.Unlock()
		}()
	}
	wg.Wait()
	lo, hi := 1<<62, 0
	qp := lb.NewQueryPlan() // enumerate members (advances the counter by one; accounted for by the caller)
	for h := qp.Next(); h != nil; h = qp.Next() {
		c := counts[h.Key()]
		if c < lo {
			lo = c
		}
		if c > hi {
			hi = c
		}
	}
	return hi-lo <= 1
}

// well-formed random history with plans created, held and consumed at every point
func c15random(r *hv.Rng, nhosts, length int, jump bool) []c15op {
	var ops []c15op
	members := map[int]bool{}
	nplans := 0
	remaining := map[int]int{}
	boot := []int{}
	for h := 1; h <= nhosts; h++ {
		if r.Intn(3) > 0 {
			boot = append(boot, h)
			members[h] = true
		}
	}
	r0 := r.Intn(len(boot) + 1)
	boot = append(boot[r0:], boot[:r0]...)
	ops = append(ops, c15op{kind: 0, hosts: boot})
	for i := 0; i < length; i++ {
		switch r.Intn(10) {
		case 0, 1:
			h := 1 + r.Intn(nhosts)
			if !members[h] {
				ops = append(ops, c15op{kind: 1, a: h})
				members[h] = true
			}
		case 2, 3:
			h := 1 + r.Intn(nhosts)
			ops = append(ops, c15op{kind: 2, a: h})
			delete(members, h)
		case 4, 5, 6:
			ops = append(ops, c15op{kind: 3})
			remaining[nplans] = len(members) + 2
			nplans++
			if r.Bool() { // consume at once, completely
				ops = append(ops, c15op{kind: 4, a: nplans - 1, b: len(members) + 1})
			}
		case 7, 8:
			if nplans > 0 {
				p := r.Intn(nplans)
				ops = append(ops, c15op{kind: 4, a: p, b: 1 + r.Intn(3)})
			}
		case 9:
			if jump {
				var v uint64
				switch r.Intn(4) {
				case 0:
					v = 1<<32 - 1 - uint64(r.Intn(4))
				case 1:
					v = 1<<32 + uint64(r.Intn(4))
				case 2:
					v = 1<<63 + uint64(r.Intn(1000))
				default:
					v = ^uint64(0) - 1000 - uint64(r.Intn(1000)) // stays below the 2^64 wrap
				}
				ops = append(ops, c15op{kind: 5, v: v})
			}
		}
	}
	// drain every plan to exhaustion
	for p := 0; p < nplans; p++ {
		ops = append(ops, c15op{kind: 4, a: p, b: nhosts + 2})
	}
	return ops
}

func genC15(ctx *Ctx) {
	r := ctx.Rng
	emit := func(ops []c15op, kind string) {
		ctx.Emit(c15input(ops), c15exec(ops), kind)
		ctx.Count(kind)
	}
	// corpus: the 32-bit wrap point (F1) on 3 and 5 hosts
	for _, n := range []int{3, 5, 1, 2} {
		hs := []int{}
		for h := 1; h <= n; h++ {
			hs = append(hs, h)
		}
		for _, v := range []uint64{1<<32 - 1, 1<<32 - 2, 1 << 32, 1<<32 + 1, 0, 7} {
			emit([]c15op{{kind: 0, hosts: hs}, {kind: 5, v: v}, {kind: 3}, {kind: 4, a: 0, b: n + 1},
				{kind: 3}, {kind: 3}, {kind: 4, a: 1, b: n + 1}, {kind: 4, a: 2, b: n + 1}}, "counter-boundary")
		}
	}
	// exhaustive: every well-formed event history of length <= L over H hosts starting from
	// every bootstrap subset; after every event one plan is created, consumed fully, and the
	// previous plan (held across the event) is drained.
	H, Lmax := 3, ctx.Scale(3, 4)
	if ctx.Thorough {
		H = 4
	}
	var rec func(members []int, ops []c15op, nplans int, depth int)
	rec = func(members []int, ops []c15op, nplans int, depth int) {
		if depth > 0 {
			emit(ops, "exhaustive-history")
		}
		if depth == Lmax {
			return
		}
		inm := map[int]bool{}
		for _, m := range members {
			inm[m] = true
		}
		for h := 1; h <= H; h++ {
			var ev c15op
			var nm []int
			if inm[h] {
				ev = c15op{kind: 2, a: h}
				for _, m := range members {
					if m != h {
						nm = append(nm, m)
					}
				}
			} else {
				ev = c15op{kind: 1, a: h}
				nm = append(append([]int{}, members...), h)
			}
			nops := append(append([]c15op{}, ops...), ev, c15op{kind: 3}, c15op{kind: 4, a: nplans, b: 1})
			if nplans > 0 {
				nops = append(nops, c15op{kind: 4, a: nplans - 1, b: H + 1})
			}
			rec(nm, nops, nplans+1, depth+1)
		}
	}
	for mask := 0; mask < 1<<H; mask++ {
		var boot []int
		for h := 1; h <= H; h++ {
			if mask&(1<<(h-1)) != 0 {
				boot = append(boot, h)
			}
		}
		rec(boot, []c15op{{kind: 0, hosts: boot}, {kind: 3}, {kind: 4, a: 0, b: 1}}, 1, 0)
	}
	// random long histories, with and without counter jumps
	for i := 0; i < ctx.Scale(400, 20000); i++ {
		emit(c15random(r, 1+r.Intn(5), 10+r.Intn(60), i%2 == 0), "random-history")
	}
	// rotation runs: many back-to-back plans on stable membership
	for i := 0; i < ctx.Scale(20, 200); i++ {
		n := 1 + r.Intn(5)
		hs := []int{}
		for h := 1; h <= n; h++ {
			hs = append(hs, h)
		}
		ops := []c15op{{kind: 0, hosts: hs}, {kind: 5, v: r.Next() >> uint(r.Intn(40)) & (1<<63 - 1)}}
		for p := 0; p < 30; p++ {
			ops = append(ops, c15op{kind: 3}, c15op{kind: 4, a: p, b: n + 1})
		}
		emit(ops, "rotation-run")
	}
	// concurrent plan creation: first-choice balance
	for i := 0; i < ctx.Scale(6, 200); i++ {
		n := 2 + r.Intn(4)
		hs := []int{}
		for h := 1; h <= n; h++ {
			hs = append(hs, h)
		}
		emit([]c15op{{kind: 0, hosts: hs}, {kind: 7, a: 8, b: ctx.Scale(5000, 50000)}, {kind: 3}, {kind: 4, a: 0, b: n + 1}}, "concurrent-balance")
	}
	// concurrent use
	for i := 0; i < ctx.Scale(3, 120); i++ {
		emit([]c15op{{kind: 0, hosts: []int{1, 2, 3}}, {kind: 6, a: ctx.Scale(2000, 50000)}}, "concurrent")
	}
}
