package main

// C18: the scenario families of C01, C02, C07, C08, C14 and C16, run with many clients at once
// in a binary built with the race detector (vh-race; the check builds it).  Every report of
// the detector becomes one case, keyed by the pair of conflicting access sites inside the
// repository (function names, so that the key survives line shifts); every family also emits
// a summary case.  The static side of C18 (lock discipline extracted from the source and the
// lockset theorem) is in coq/theories/Model/Locksets.v.

import (
	"fmt"
	"os"
	"path/filepath"
	"regexp"
	"sort"
	"strings"
	"sync"
	"time"

	"verifharness/fb"
	"verifharness/hv"
	"verifharness/px"

	"github.com/datastax/cql-proxy/codecs"
	"github.com/datastax/cql-proxy/proxy"
	"github.com/datastax/cql-proxy/proxycore"
	"github.com/datastax/go-cassandra-native-protocol/message"
	"github.com/datastax/go-cassandra-native-protocol/primitive"
)

func init() { props["C18"] = genC18 }

func raceLogPath() string {
	for _, kv := range strings.Fields(os.Getenv("GORACE")) {
		if strings.HasPrefix(kv, "log_path=") {
			return strings.TrimPrefix(kv, "log_path=")
		}
	}
	return ""
}

// ---- family A: sessions, USE, PREPARE/EXECUTE by many clients at once (C07, C08) ----
func c18Sessions(ctx *Ctx, r *hv.Rng) int {
	prefix, port := px.Alloc()
	be := fb.New(prefix, port)
	for h := 1; h <= 3; h++ {
		if err := be.StartHost(h); err != nil {
			panic(err)
		}
	}
	be.SetTopology(1, 2, 3)
	defer be.Shutdown()
	cfg := px.DefaultConfig(be)
	cfg.MaxVersion = primitive.ProtocolVersionDse2
	cfg.ReconnectPolicy = proxycore.NewReconnectPolicyWithDelays(time.Millisecond, 5*time.Millisecond)
	env, err := px.StartProxy(be, cfg)
	if err != nil {
		panic(err)
	}
	defer env.Close()
	ops := 0
	var mu sync.Mutex
	var wg sync.WaitGroup
	stop := make(chan struct{})
	// disturbances: hosts forget statements and drop connections, schema and topology events
	wg.Add(1)
	dseed := r.Next()
	go func() {
		defer wg.Done()
		rr := hv.NewRng(dseed)
		for i := 0; ; i++ {
			select {
			case <-stop:
				return
			case <-time.After(15 * time.Millisecond):
			}
			switch rr.Intn(5) {
			case 0:
				be.Forget(1 + rr.Intn(3))
			case 1:
				be.DropConns(1 + rr.Intn(3))
			case 2:
				be.Event(&message.SchemaChangeEvent{ChangeType: primitive.SchemaChangeTypeCreated, Target: primitive.SchemaChangeTargetKeyspace, Keyspace: fmt.Sprintf("c18ks%d", i)})
			case 3:
				be.Event(&message.TopologyChangeEvent{ChangeType: primitive.TopologyChangeTypeNewNode, Address: &primitive.Inet{Addr: []byte{10, 1, 1, byte(i)}, Port: 9042}})
			default:
				be.DropRegistered()
			}
		}
	}()
	nc := ctx.Scale(16, 64)
	seeds := make([]uint64, nc)
	for i := range seeds {
		seeds[i] = r.Next()
	}
	var cw sync.WaitGroup
	for i := 0; i < nc; i++ {
		cw.Add(1)
		go func(i int) {
			defer cw.Done()
			rr := hv.NewRng(seeds[i])
			cl, err := px.Dial(env.Addr)
			if err != nil {
				return
			}
			defer cl.Close()
			ver := hv.Pick(rr, []primitive.ProtocolVersion{3, 4, 4, 5, 65, 66})
			comp := hv.Pick(rr, []string{"", "", "lz4", "snappy"})
			if ver == 5 {
				comp = ""
			}
			if i%4 == 3 {
				// OPTIONS, STARTUP (with compression) and REGISTER written at once, answers read afterwards
				st := message.NewStartup()
				if comp == "" {
					comp = "lz4"
				}
				if ver == 5 {
					ver = 4
				}
				st.SetCompression(primitive.Compression(comp))
				var all []byte
				all = append(all, cl.Encode(ver, 11, &message.Options{}, nil)...)
				all = append(all, cl.Encode(ver, 12, &message.Options{}, nil)...)
				all = append(all, cl.Encode(ver, 13, st, nil)...)
				_ = cl.SendRaw(all)
				for k := 0; k < 3; k++ {
					if f, _ := cl.Next(3 * time.Second); f == nil {
						return
					}
				}
				cl.Codec = codecs.DefaultRawCodecsWithCompression[comp]
			} else if cl.Startup(ver, comp) != nil {
				return
			}
			send := func(st int16, m message.Message) bool {
				_ = cl.Send(ver, st, m)
				for {
					f, err := cl.Next(3 * time.Second)
					if err != nil || f == nil {
						return false
					}
					if f.Stream == st {
						return true
					}
				}
			}
			_ = cl.Send(ver, 1, &message.Register{EventTypes: []primitive.EventType{primitive.EventTypeSchemaChange}})
			n := 0
			q := "SELECT v FROM t WHERE k = ?"
			for k := 0; k < ctx.Scale(25, 120); k++ {
				switch rr.Intn(6) {
				case 0:
					// every client its own keyspaces: sessions are created at the same time
					send(2, &message.Query{Query: fmt.Sprintf("USE ks_%d_%d", i, rr.Intn(3)), Options: &message.QueryOptions{}})
				case 1:
					send(3, &message.Prepare{Query: q})
				case 2, 3:
					send(4, &message.Execute{QueryId: md5Of(q), ResultMetadataId: md5Of(q), Options: &message.QueryOptions{PositionalValues: []*primitive.Value{primitive.NewValue([]byte("tok:c18"))}}})
				case 4:
					send(5, &message.Query{Query: "SELECT * FROM system.peers", Options: &message.QueryOptions{}})
				default:
					send(6, &message.Query{Query: fmt.Sprintf("SELECT v FROM t WHERE k = 'tok:c18x%dx%d'", i, k), Options: &message.QueryOptions{}})
				}
				n++
			}
			mu.Lock()
			ops += n
			mu.Unlock()
		}(i)
	}
	cw.Wait()
	close(stop)
	wg.Wait()
	return ops
}

// ---- family B: many streams in flight, scripted outcomes, connection drops (C01, C02) ----
func c18Streams(ctx *Ctx, r *hv.Rng) int {
	e := newEchoEnv(3, func(c *proxy.Config) {
		c.ReconnectPolicy = proxycore.NewReconnectPolicyWithDelays(time.Millisecond, 5*time.Millisecond)
	})
	defer e.close()
	total := 0
	for i := 0; i < ctx.Scale(3, 60); i++ {
		hold := make(chan struct{})
		if i%2 == 1 {
			e.be.Default = fb.Outcome{Kind: fb.OkRows, Hold: hold}
		}
		t := c01Round(e, 9000+i, 6, 60, r, c01Script, func() {
			time.Sleep(40 * time.Millisecond)
			if i%2 == 1 {
				e.be.DropConns(1 + r.Intn(3))
			}
			close(hold)
		})
		e.be.Default = fb.Outcome{Kind: fb.OkRows}
		total += t.requests
		time.Sleep(30 * time.Millisecond)
	}
	return total
}

// ---- family C: registering and leaving while events stream (C14) ----
func c18Events(ctx *Ctx, r *hv.Rng) int {
	be, env := c14Env(3)
	defer be.Shutdown()
	defer env.Close()
	evs := &c14Events{emitted: map[int]message.Message{}, tag: fmt.Sprintf("r%d", ctx.Seed%1000)}
	next := 0
	sub, _ := subCtx(ctx, 77) // the per-client cases belong to C14; here only the schedule matters
	sub.Rng = r
	c14Concurrent(sub, be, env, evs, &next)
	return sub.N
}

// ---- family D: topology changes, stops and restarts under traffic (C16) ----
func c18Topology(ctx *Ctx, r *hv.Rng) int {
	all := []int{1, 2, 3, 4}
	e := newC16Env(fmt.Sprintf("r%d", ctx.Seed%1000), all, []int{1, 2, 3}, nil)
	defer e.close()
	stop := make(chan struct{})
	var wg sync.WaitGroup
	n := 0
	for c := 0; c < 6; c++ {
		wg.Add(1)
		go func(c int) {
			defer wg.Done()
			cl, err := px.Dial(e.env.Addr)
			if err != nil {
				return
			}
			defer cl.Close()
			if cl.Startup(primitive.ProtocolVersion4, "") != nil {
				return
			}
			for i := 0; ; i++ {
				select {
				case <-stop:
					return
				default:
				}
				_ = cl.Send(primitive.ProtocolVersion4, int16(1+i%100), &message.Query{Query: fmt.Sprintf("SELECT v FROM ks.t WHERE k = 'tok:topo%dx%d'", c, i), Options: &message.QueryOptions{}})
				if f, _ := cl.Next(3 * time.Second); f == nil {
					return
				}
			}
		}(c)
	}
	for k := 0; k < ctx.Scale(8, 120); k++ {
		switch r.Intn(3) {
		case 0:
			var t []int
			for _, h := range all {
				if r.Intn(3) != 0 {
					t = append(t, h)
				}
			}
			if len(t) == 0 {
				t = []int{1}
			}
			e.be.SetTopology(t...)
			e.be.DropRegistered()
		case 1:
			h := 1 + r.Intn(4)
			e.be.StopHost(h, false)
			time.Sleep(20 * time.Millisecond)
			_ = e.be.StartHost(h)
		default:
			e.be.DropConns(1 + r.Intn(4))
		}
		time.Sleep(40 * time.Millisecond)
		n++
	}
	close(stop)
	wg.Wait()
	return n
}

var raceFrameRe = regexp.MustCompile(`^\s+(\S+)\(\)$`)

// parseRaceReports: one entry per report: the two access descriptions (kind + innermost
// function of the repository on that stack)
func parseRaceReports(text string) [][2]string {
	var out [][2]string
	for _, rep := range strings.Split(text, "==================") {
		if !strings.Contains(rep, "DATA RACE") {
			continue
		}
		var accesses []string
		for _, block := range strings.Split(strings.TrimSpace(rep), "\n\n") {
			lines := strings.Split(block, "\n")
			head := ""
			for _, l := range lines {
				if strings.Contains(l, " at 0x") && strings.Contains(l, "by ") {
					head = strings.ToLower(strings.TrimSpace(strings.SplitN(strings.TrimPrefix(strings.TrimSpace(l), "Previous "), " at ", 2)[0]))
					break
				}
			}
			if head == "" {
				continue
			}
			site := "(outside the repository)"
			for i, l := range lines {
				if strings.Contains(l, "/repo/") && i > 0 {
					if m := raceFrameRe.FindStringSubmatch(lines[i-1]); m != nil {
						site = strings.TrimPrefix(m[1], "github.com/datastax/cql-proxy/")
						break
					}
				}
			}
			accesses = append(accesses, head+" in "+site)
			if len(accesses) == 2 {
				break
			}
		}
		if len(accesses) == 2 {
			sort.Strings(accesses)
			out = append(out, [2]string{accesses[0], accesses[1]})
		}
	}
	return out
}

// c18Balancer: query plans created and walked by several goroutines while membership events (joins, back-to-back
// removals of hosts from the middle of the list, replaced lists) are applied -- the host list is published through an
// atomic value and read without a lock, so its safety rests on published slices never being written again.
func c18Balancer(ctx *Ctx, r *hv.Rng) int {
	lb := proxycore.NewRoundRobinLoadBalancer()
	lb.OnEvent(&proxycore.BootstrapEvent{Hosts: []*proxycore.Host{c15host(1), c15host(2), c15host(3)}})
	n := ctx.Scale(4000, 60000)
	c15concurrent(lb, n)
	return n
}

// ---- family F: one statement, prepared once, re-prepared by the proxy on connections of every protocol version at the
// same time.  Sessions are per protocol version, the prepared cache is one per process: the cached PREPARE frame is shared
// by backend reader goroutines of all of them. ----
func c18CrossVersion(ctx *Ctx, r *hv.Rng) int {
	prefix, port := px.Alloc()
	be := fb.New(prefix, port)
	for h := 1; h <= 2; h++ {
		if err := be.StartHost(h); err != nil {
			panic(err)
		}
	}
	be.SetTopology(1, 2)
	defer be.Shutdown()
	cfg := px.DefaultConfig(be)
	cfg.MaxVersion = primitive.ProtocolVersionDse2
	cfg.NumConns = 2
	env, err := px.StartProxy(be, cfg)
	if err != nil {
		panic(err)
	}
	defer env.Close()
	q := "SELECT v FROM t WHERE j = ?"
	vers := []primitive.ProtocolVersion{4, 3, 5, 65, 66, 3, 4}
	var cls []*px.Client
	for _, v := range vers {
		cl, err := px.Dial(env.Addr)
		if err != nil {
			panic(err)
		}
		defer cl.Close()
		if cl.Startup(v, "") != nil {
			panic("c18: startup")
		}
		cls = append(cls, cl)
	}
	// prepared once, by the first client (v4)
	_ = cls[0].Send(vers[0], 1, &message.Prepare{Query: q})
	if f, _ := cls[0].Next(3 * time.Second); f == nil {
		panic("c18: prepare")
	}
	ops := 0
	for round := 0; round < ctx.Scale(12, 300); round++ {
		be.Forget(1)
		be.Forget(2)
		var wg sync.WaitGroup
		for i, cl := range cls {
			wg.Add(1)
			go func(i int, cl *px.Client) {
				defer wg.Done()
				const burst = 6
				for st := int16(1); st <= burst; st++ {
					_ = cl.Send(vers[i], st, &message.Execute{QueryId: md5Of(q), ResultMetadataId: md5Of(q), Options: &message.QueryOptions{PositionalValues: []*primitive.Value{primitive.NewValue([]byte("tok:c18f"))}}})
				}
				for k := 0; k < burst; k++ {
					if f, _ := cl.Next(3 * time.Second); f == nil {
						return
					}
				}
			}(i, cl)
		}
		wg.Wait()
		ops += len(cls) * 6
	}
	return ops
}

// ---- family G: writes whose consistency is overridden (re-encoded by the client connection's reader, written by backend
// connections' writers, written again on a retry), pipelined by several clients ----
func c18Override(ctx *Ctx, r *hv.Rng) int {
	prefix, port := px.Alloc()
	be := fb.New(prefix, port)
	for h := 1; h <= 2; h++ {
		if err := be.StartHost(h); err != nil {
			panic(err)
		}
	}
	be.SetTopology(1, 2)
	defer be.Shutdown()
	cfg := px.DefaultConfig(be)
	proxy.VerifSetWriteConsistencyOverride(&cfg, []primitive.ConsistencyLevel{primitive.ConsistencyLevelLocalQuorum, primitive.ConsistencyLevelEachQuorum}, primitive.ConsistencyLevelQuorum)
	env, err := px.StartProxy(be, cfg)
	if err != nil {
		panic(err)
	}
	defer env.Close()
	var wg sync.WaitGroup
	nc := 6
	per := ctx.Scale(150, 1500)
	for i := 0; i < nc; i++ {
		wg.Add(1)
		go func(i int) {
			defer wg.Done()
			cl, err := px.Dial(env.Addr)
			if err != nil {
				return
			}
			defer cl.Close()
			if cl.Startup(primitive.ProtocolVersion4, "") != nil {
				return
			}
			for k := 0; k < per; k += 30 {
				for j := 0; j < 30; j++ {
					tok := fmt.Sprintf("c18o%dx%d", i, k+j)
					if (k+j)%7 == 0 {
						// answered with an error the policy retries on the next host: the re-encoded frame is written again
						be.SetScript(tok, fb.Outcome{Kind: fb.ErrMsg, Msg: &message.Overloaded{ErrorMessage: "scripted"}}, fb.Outcome{Kind: fb.OkRows})
					}
					_ = cl.Send(primitive.ProtocolVersion4, int16(1+j), &message.Query{Query: "INSERT INTO ks.t (k, v) VALUES ('tok:" + tok + "', 1)",
						Options: &message.QueryOptions{Consistency: primitive.ConsistencyLevelLocalQuorum}})
				}
				for j := 0; j < 30; j++ {
					if f, _ := cl.Next(3 * time.Second); f == nil {
						return
					}
				}
			}
		}(i)
	}
	wg.Wait()
	return nc * per
}

func genC18(ctx *Ctx) {
	if !raceEnabled {
		panic("C18 must be run with the race-detector build of the harness (vh-race)")
	}
	logPath := raceLogPath()
	if logPath == "" {
		panic("C18: GORACE must carry log_path=<file prefix>")
	}
	r := ctx.Rng
	families := []struct {
		name string
		run  func(*Ctx, *hv.Rng) int
	}{{"sessions-use-prepare-execute", c18Sessions}, {"streams-retries-drops", c18Streams}, {"events-register-leave", c18Events}, {"topology-stops-restarts", c18Topology}, {"load-balancer-plans-against-membership-events", c18Balancer},
		{"one-statement-re-prepared-on-connections-of-every-protocol-version-at-once", c18CrossVersion},
		{"pipelined-writes-with-an-overridden-consistency", c18Override}}
	seenBefore := map[string]bool{}
	readReports := func() [][2]string {
		var text strings.Builder
		files, _ := filepath.Glob(fmt.Sprintf("%s.%d", logPath, os.Getpid()))
		for _, f := range files {
			b, _ := os.ReadFile(f)
			text.Write(b)
		}
		return parseRaceReports(text.String())
	}
	for _, fam := range families {
		ops := fam.run(ctx, hv.NewRng(r.Next()))
		time.Sleep(100 * time.Millisecond)
		counts := map[[2]string]int{}
		for _, p := range readReports() {
			counts[p]++
		}
		fresh := 0
		var keys [][2]string
		for p := range counts {
			keys = append(keys, p)
		}
		sort.Slice(keys, func(i, j int) bool { return keys[i][0]+keys[i][1] < keys[j][0]+keys[j][1] })
		for _, p := range keys {
			k := p[0] + " | " + p[1]
			if seenBefore[k] {
				continue
			}
			seenBefore[k] = true
			if strings.Contains(k, "(outside the repository)") && !strings.Contains(k, "proxy") {
				// both stacks entirely inside the harness or a library used by it: a harness bug, fail loudly
				panic("C18: the harness itself races: " + k)
			}
			fresh++
			ctx.Emit(hv.L(hv.S(p[0]), hv.S(p[1])), hv.L(hv.I(1)), fmt.Sprintf("race family=%s reports=%d", fam.name, counts[p]))
			ctx.Count("race")
		}
		ctx.Emit(hv.L(hv.S("family"), hv.S(fam.name)), hv.L(hv.I(0)), fmt.Sprintf("family %s: %d operations, %d new racing pairs", fam.name, ops, fresh))
		ctx.Count("family:" + fam.name)
	}
}
