package main

// C02: (kind 0) the backend stream allocator driven directly with tiny id spaces;
// (kind 1) concurrent clients with equal stream ids, reordered/delayed backend answers and
// stream reuse through the real proxy, every frame checked against the token of the request
// it answers; (kind 2) scenarios around stream exhaustion and late internal answers where only
// "no foreign answer" is predicted.

import (
	"context"
	"fmt"
	"os"
	"regexp"
	"sort"
	"sync"
	"time"

	"verifharness/fb"
	"verifharness/hv"
	"verifharness/px"

	"github.com/datastax/cql-proxy/codecs"
	"github.com/datastax/cql-proxy/proxy"
	"github.com/datastax/cql-proxy/proxycore"
	"github.com/datastax/go-cassandra-native-protocol/frame"
	"github.com/datastax/go-cassandra-native-protocol/message"
	"github.com/datastax/go-cassandra-native-protocol/primitive"
)

func init() { props["C02"] = genC02 }

type dummyReq struct{ client, stream, token int64 }

func (d *dummyReq) Frame() interface{}       { return nil }
func (d *dummyReq) IsPrepareRequest() bool   { return false }
func (d *dummyReq) Execute(bool)             {}
func (d *dummyReq) OnClose(error)            {}
func (d *dummyReq) OnResult(*frame.RawFrame) {}

func allocatorCases(ctx *Ctx) {
	r := ctx.Rng
	for i := 0; i < ctx.Scale(400, 20000); i++ {
		max := 1 + r.Intn(8)
		p := proxycore.VerifNewPending(int16(max))
		var ops, outs []hv.V
		n := 1 + r.Intn(40)
		for j := 0; j < n; j++ {
			if r.Intn(5) < 3 {
				d := &dummyReq{int64(r.Intn(4)), int64(r.Intn(100)), int64(i*100 + j)}
				ops = append(ops, hv.L(hv.I(0), hv.I(d.client), hv.I(d.stream), hv.I(d.token)))
				outs = append(outs, hv.I(int64(p.Store(d))))
			} else {
				id := r.Intn(max + 2)
				ops = append(ops, hv.L(hv.I(1), hv.I(int64(id))))
				if q := p.LoadAndDelete(int16(id)); q != nil {
					d := q.(*dummyReq)
					outs = append(outs, hv.L(hv.I(d.client), hv.I(d.stream), hv.I(d.token)))
				} else {
					outs = append(outs, hv.L())
				}
			}
		}
		ctx.Emit(hv.L(hv.I(0), hv.I(int64(max)), hv.L(ops...)), hv.L(outs...), "allocator")
		ctx.Count(fmt.Sprintf("allocator:max%d", max))
	}
}

var tokenRe = regexp.MustCompile(`q\d+x\d+x\d+`)

type echoEnv struct {
	be  *fb.Backend
	env *px.Env
}

func newEchoEnv(hosts int, opt func(*proxy.Config)) *echoEnv {
	prefix, port := px.Alloc()
	be := fb.New(prefix, port)
	var topo []int
	for i := 1; i <= hosts; i++ {
		if err := be.StartHost(i); err != nil {
			panic(err)
		}
		topo = append(topo, i)
	}
	be.SetTopology(topo...)
	cfg := px.DefaultConfig(be)
	if opt != nil {
		opt(&cfg)
	}
	env, err := px.StartProxy(be, cfg)
	if err != nil {
		panic(err)
	}
	return &echoEnv{be: be, env: env}
}

func (e *echoEnv) close() { e.env.Close(); e.be.Shutdown() }

type echoResult struct {
	client, stream int
	sent           string
	verdict        int // 1 own answer, 0 proxy's own error, 2 foreign or missing
	got            string
}

// classifyEcho decides whose answer a frame is.
func classifyEcho(f *px.Frame, want string) (int, string) {
	if f == nil {
		return 2, "nothing"
	}
	if f.Opcode == byte(primitive.OpCodeError) {
		_, msg, _ := errCodeAndMessage(f.Body)
		if m := tokenRe.FindString(msg); m != "" {
			if m == want {
				return 1, m
			}
			return 2, m
		}
		return 0, "proxy-error:" + msg
	}
	if m := tokenRe.Find(f.Body); m != nil {
		if string(m) == want {
			return 1, want
		}
		return 2, string(m)
	}
	return 2, fmt.Sprintf("opcode%d", f.Opcode)
}

// echoRound: every client sends [streams] requests (same stream ids on all clients) and reads
// exactly one frame per stream; repeated [rounds] times so that streams are reused at once.
func echoRound(e *echoEnv, tag int, clients, streams, rounds int, r *hv.Rng, errEvery int) []echoResult {
	var mu sync.Mutex
	var all []echoResult
	var wg sync.WaitGroup
	seeds := make([]uint64, clients)
	for i := range seeds {
		seeds[i] = r.Next()
	}
	for c := 0; c < clients; c++ {
		wg.Add(1)
		go func(c int) {
			defer wg.Done()
			rr := hv.NewRng(seeds[c])
			cl, err := px.Dial(e.env.Addr)
			if err != nil {
				panic(err)
			}
			defer cl.Close()
			if err := cl.Startup(primitive.ProtocolVersion4, ""); err != nil {
				panic(err)
			}
			for round := 0; round < rounds; round++ {
				want := map[int16]string{}
				for s := 1; s <= streams; s++ {
					tok := fmt.Sprintf("q%dx%dx%d", tag, c, round*streams+s)
					want[int16(s)] = tok
					out := fb.Outcome{Kind: fb.OkRows, Delay: time.Duration(rr.Intn(3000)) * time.Microsecond}
					if errEvery > 0 && rr.Intn(errEvery) == 0 {
						out = fb.Outcome{Kind: fb.ErrMsg, Msg: &message.IsBootstrapping{ErrorMessage: "fb:boot tok:" + tok}, Delay: out.Delay}
					}
					e.be.SetScript(tok, out)
					_ = cl.Send(primitive.ProtocolVersion4, int16(s), &message.Query{Query: "SELECT v FROM ks.t WHERE k = 'tok:" + tok + "'",
						Options: &message.QueryOptions{Consistency: primitive.ConsistencyLevelOne}})
				}
				for k := 0; k < streams; k++ {
					f, _ := cl.Next(10 * time.Second)
					if f == nil {
						break
					}
					w, ok := want[f.Stream]
					if !ok {
						mu.Lock()
						all = append(all, echoResult{c, int(f.Stream), "", 2, "unexpected-stream"})
						mu.Unlock()
						continue
					}
					delete(want, f.Stream)
					v, got := classifyEcho(f, w)
					mu.Lock()
					all = append(all, echoResult{c, round*1000 + int(f.Stream), w, v, got})
					mu.Unlock()
				}
				for s, w := range want {
					mu.Lock()
					all = append(all, echoResult{c, round*1000 + int(s), w, 2, "no-reply"})
					mu.Unlock()
				}
			}
		}(c)
	}
	wg.Wait()
	sort.Slice(all, func(i, j int) bool {
		if all[i].client != all[j].client {
			return all[i].client < all[j].client
		}
		return all[i].stream < all[j].stream
	})
	return all
}

func tokNum(t string) int64 {
	var a, b, c int64
	fmt.Sscanf(t, "q%dx%dx%d", &a, &b, &c)
	return a*1000000000 + b*1000000 + c
}

func emitEcho(ctx *Ctx, res []echoResult, note string, exact bool) {
	var in, out []hv.V
	foreign := 0
	for _, x := range res {
		in = append(in, hv.L(hv.I(int64(x.client)), hv.I(int64(x.stream)), hv.I(tokNum(x.sent))))
		switch x.verdict {
		case 1:
			out = append(out, hv.L(hv.I(int64(x.client)), hv.I(int64(x.stream)), hv.I(tokNum(x.sent))))
		case 0:
			out = append(out, hv.L(hv.I(int64(x.client)), hv.I(int64(x.stream)), hv.I(0)))
		default:
			out = append(out, hv.L(hv.I(int64(x.client)), hv.I(int64(x.stream)), hv.I(-1), hv.S(x.got)))
			foreign++
		}
	}
	if exact {
		ctx.Emit(hv.L(hv.I(1), hv.L(in...)), hv.L(out...), note)
	} else {
		// only "no foreign or missing answer" is predicted
		ctx.Emit(hv.L(hv.I(1), hv.L(hv.I(0))), hv.L(hv.I(int64(foreign))), note)
	}
	ctx.Count(note)
}

func genC02(ctx *Ctx) {
	r := ctx.Rng
	allocatorCases(ctx)
	// (a) concurrent clients, equal stream ids, delayed/reordered answers, immediate stream reuse
	// the first rounds of (a) and (b) are also recorded at the proxy's own atomic steps and judged by the trace monitor
	// (stream exclusivity, pops matching pushes, one reply per request, to its own client and stream)
	proxycore.VerifTraceStart()
	e := newEchoEnv(2, nil)
	tag := 0
	for i := 0; i < ctx.Scale(6, 240); i++ {
		tag++
		clients, streams, rounds := 1+r.Intn(6), 1+r.Intn(64), 2+r.Intn(4)
		emitEcho(ctx, echoRound(e, tag, clients, streams, rounds, r, 0), fmt.Sprintf("echo:%dclients", clients), true)
		if i == 2 {
			tag++
			emitEcho(ctx, echoRound(e, tag, 3, 16, 3, r, 4), "echo-with-exhausted-plans", false)
			time.Sleep(50 * time.Millisecond)
			emitTrace(ctx, true, "traced-run: concurrent clients with equal stream ids, reordered answers, exhausted plans")
		}
	}
	// (b) some requests fail on every host (retry exhausts the plan): the error frames are the
	// proxy's own, and nothing may spill over to the next request on the reused stream
	for i := 0; i < ctx.Scale(4, 160); i++ {
		tag++
		res := echoRound(e, tag, 1+r.Intn(4), 1+r.Intn(32), 3, r, 4)
		emitEcho(ctx, res, "echo-with-exhausted-plans", false)
	}
	e.close()
	// (c) more in-flight requests than one backend connection has stream ids
	e = newEchoEnv(1, nil)
	tag++
	hold := make(chan struct{})
	e.be.Default = fb.Outcome{Kind: fb.OkRows, Hold: hold}
	done := make(chan []echoResult)
	go func() { done <- echoRoundBig(e, tag, 3, 900) }()
	time.Sleep(600 * time.Millisecond)
	close(hold)
	emitEcho(ctx, <-done, "more-requests-than-stream-ids", false)
	e.be.Default = fb.Outcome{Kind: fb.OkRows}
	e.close()
	// (d) an internal request (heartbeat) times out and its answer arrives late, after the
	// whole id space has been cycled and while client requests are in flight
	lateInternalAnswer(ctx, &tag)
	pipelinedPrepares(ctx, &tag)
	// (e) concurrent re-preparation of one statement on several connections
	concurrentReprepare(ctx, r, &tag)
	// (f) the same, with the schedule forced: connection A's writer is stalled while B re-prepares
	forcedReprepareSchedule(ctx, &tag)
	forcedSharedRequestSchedule(ctx, &tag)
	// (g) hosts on which the re-preparation succeeds under another id
	c02OtherID(ctx, &tag)
}

type waitReq struct {
	frm      interface{}
	executed chan bool
	closed   chan error
	result   chan *frame.RawFrame
}

func newWaitReq(frm interface{}) *waitReq {
	return &waitReq{frm: frm, executed: make(chan bool, 4), closed: make(chan error, 4), result: make(chan *frame.RawFrame, 4)}
}
func (w *waitReq) Frame() interface{}         { return w.frm }
func (w *waitReq) IsPrepareRequest() bool     { return false }
func (w *waitReq) Execute(next bool)          { w.executed <- next }
func (w *waitReq) OnClose(err error)          { w.closed <- err }
func (w *waitReq) OnResult(r *frame.RawFrame) { w.result <- r }

// forcedReprepareSchedule drives two backend connections of proxycore directly: B has handed
// out more stream ids than A; A's writer is stalled; the cached PREPARE frame is sent on A, a
// query is queued behind it on A, then the same cached frame is sent on B and completes; then
// A's writer is released.  The query on A must get its own rows.
func forcedReprepareSchedule(ctx *Ctx, tag *int) {
	prefix, port := px.Alloc()
	be := fb.New(prefix, port)
	if err := be.StartHost(1); err != nil {
		panic(err)
	}
	be.SetTopology(1)
	defer be.Shutdown()
	for warm := 1; warm <= ctx.Scale(4, 40); warm++ {
		*tag++
		c, cancel := context.WithTimeout(context.Background(), 10*time.Second)
		connect := func() *proxycore.ClientConn {
			cl, err := proxycore.ConnectClient(c, proxycore.NewEndpoint(fmt.Sprintf("%s:%d", be.IP(1), be.Port)), proxycore.ClientConnConfig{})
			if err != nil {
				panic(err)
			}
			if _, err := cl.Handshake(c, primitive.ProtocolVersion4, nil); err != nil {
				panic(err)
			}
			return cl
		}
		connA, connB := connect(), connect()
		cached, _ := codecs.DefaultRawCodec.ConvertToRawFrame(frame.NewFrame(primitive.ProtocolVersion4, 0, &message.Prepare{Query: "SELECT v FROM ks.t WHERE j = ?"}))
		for i := 0; i < warm; i++ { // B is [warm] allocations ahead of A
			_, _ = connB.Query(c, primitive.ProtocolVersion4, &message.Query{Query: "SELECT v FROM ks.t WHERE k = 'warm'", Options: &message.QueryOptions{}})
		}
		release := proxycore.VerifStallWriter(connA)
		origA, origB := newWaitReq(nil), newWaitReq(nil)
		_ = proxycore.VerifReprepare(connA, cached, origA)
		tok := fmt.Sprintf("q%dx0x1", *tag)
		q := newWaitReq(frame.NewFrame(primitive.ProtocolVersion4, 0, &message.Query{Query: "SELECT v FROM ks.t WHERE k = 'tok:" + tok + "'", Options: &message.QueryOptions{}}))
		_ = connA.Send(q)
		_ = proxycore.VerifReprepare(connB, cached, origB)
		select {
		case <-origB.executed:
		case <-origB.closed:
		case <-time.After(3 * time.Second):
		}
		release()
		res := echoResult{0, 1, tok, 2, "no-reply"}
		select {
		case raw := <-q.result:
			res.verdict, res.got = classifyEcho(&px.Frame{Opcode: byte(raw.Header.OpCode), Body: raw.Body}, tok)
		case <-q.closed:
			res.verdict, res.got = 0, "connection-closed"
		case <-time.After(3 * time.Second):
		}
		select {
		case <-origA.executed:
		case <-origA.closed:
		case <-time.After(time.Second):
		}
		all := []echoResult{res}
		if cached.Header.StreamId != 0 {
			all = append(all, echoResult{2, 2, tok, 2, fmt.Sprintf("the-cached-prepare-frame-was-written-to:stream-id-%d", cached.Header.StreamId)})
		}
		_ = connA.Close()
		_ = connB.Close()
		cancel()
		emitEcho(ctx, all, "forced-schedule:shared-prepare-frame", false)
	}
}

// forcedSharedRequestSchedule: one request object is queued on two backend connections (what happens when a request
// still waiting in a slow connection's write queue is retried on another host); B has handed out more stream ids than
// A, both writers are stalled while a few hundred such requests are queued on both, then both are released at once so
// that the two writer goroutines encode the same requests at the same time.  Every answer, on either connection,
// must be the one for the request it is delivered to.
func forcedSharedRequestSchedule(ctx *Ctx, tag *int) {
	prefix, port := px.Alloc()
	be := fb.New(prefix, port)
	if err := be.StartHost(1); err != nil {
		panic(err)
	}
	be.SetTopology(1)
	defer be.Shutdown()
	for round := 0; round < ctx.Scale(6, 200); round++ {
		*tag++
		c, cancel := context.WithTimeout(context.Background(), 20*time.Second)
		connect := func() *proxycore.ClientConn {
			cl, err := proxycore.ConnectClient(c, proxycore.NewEndpoint(fmt.Sprintf("%s:%d", be.IP(1), be.Port)), proxycore.ClientConnConfig{})
			if err != nil {
				panic(err)
			}
			if _, err := cl.Handshake(c, primitive.ProtocolVersion4, nil); err != nil {
				panic(err)
			}
			return cl
		}
		connA, connB := connect(), connect()
		for i := 0; i < 7+round; i++ { // B is some allocations ahead of A
			_, _ = connB.Query(c, primitive.ProtocolVersion4, &message.Query{Query: "SELECT v FROM ks.t WHERE k = 'warm'", Options: &message.QueryOptions{}})
		}
		relA, relB := proxycore.VerifStallWriter(connA), proxycore.VerifStallWriter(connB)
		const n = 300
		reqs := make([]*waitReq, n)
		toks := make([]string, n)
		for i := range reqs {
			toks[i] = fmt.Sprintf("q%dx7x%d", *tag, i+1)
			// a RAW frame, as every client request inside the proxy is (a *frame.Frame is only ever used by the proxy's own
			// requests, one connection each, and its header is written in place)
			rawReq, err := codecs.DefaultRawCodec.ConvertToRawFrame(frame.NewFrame(primitive.ProtocolVersion4, 0, &message.Query{Query: "SELECT v FROM ks.t WHERE k = 'tok:" + toks[i] + "'", Options: &message.QueryOptions{}}))
			if err != nil {
				panic(err)
			}
			reqs[i] = newWaitReq(rawReq)
			_ = connA.Send(reqs[i])
			_ = connB.Send(reqs[i])
		}
		var wg sync.WaitGroup
		wg.Add(2)
		go func() { defer wg.Done(); relA() }()
		go func() { defer wg.Done(); relB() }()
		wg.Wait()
		var res []echoResult
		for i, q := range reqs {
			for k := 0; k < 2; k++ { // one answer per connection
				x := echoResult{k, i + 1, toks[i], 2, "no-reply"}
				select {
				case raw := <-q.result:
					x.verdict, x.got = classifyEcho(&px.Frame{Opcode: byte(raw.Header.OpCode), Body: raw.Body}, toks[i])
				case <-q.closed:
					x.verdict, x.got = 0, "connection-closed"
				case <-time.After(5 * time.Second):
				}
				res = append(res, x)
			}
		}
		// a frame that is shared between connections must not have been written to (each sender works on its own copy of the
		// header): whether or not the two writers happened to interleave badly this time
		for i, q := range reqs {
			if rf, ok := q.frm.(*frame.RawFrame); ok && rf.Header.StreamId != 0 {
				res = append(res, echoResult{2, i + 1, toks[i], 2, fmt.Sprintf("the-shared-request-frame-was-written-to:stream-id-%d", rf.Header.StreamId)})
				break
			}
		}
		_ = connA.Close()
		_ = connB.Close()
		cancel()
		emitEcho(ctx, res, "forced-schedule:one-request-written-by-two-connections", false)
	}
}

// echoRoundBig: [clients] clients each with [streams] requests in flight at once, one round.
func echoRoundBig(e *echoEnv, tag, clients, streams int) []echoResult {
	r := hv.NewRng(uint64(tag))
	return echoRound(e, tag, clients, streams, 1, r, 0)
}

// pipelinedPrepares: several PREPAREs of one statement the proxy already knows, in flight at once on one client connection
// (drivers re-prepare everything at start-up), each on its own stream; then the same streams are used for queries.  Every
// stream gets exactly one answer, a PREPARED result first and its own query's rows afterwards.
func pipelinedPrepares(ctx *Ctx, tag *int) {
	e := newEchoEnv(2, nil)
	defer e.close()
	cl, err := px.Dial(e.env.Addr)
	if err != nil {
		panic(err)
	}
	defer cl.Close()
	if cl.Startup(primitive.ProtocolVersion4, "") != nil {
		panic("startup")
	}
	q := "SELECT v FROM ks.t WHERE k = ? AND j = 0"
	_ = cl.Send(primitive.ProtocolVersion4, 1, &message.Prepare{Query: q})
	if f, _ := cl.Next(5 * time.Second); f == nil {
		panic("prepare")
	}
	for round := 0; round < ctx.Scale(4, 60); round++ {
		*tag++
		k := 2 + round%7
		var all []byte
		for i := 0; i < k; i++ {
			all = append(all, cl.Encode(primitive.ProtocolVersion4, int16(10+i), &message.Prepare{Query: q}, nil)...)
		}
		_ = cl.SendRaw(all)
		perStream := map[int16]int{}
		prepared := map[int16]bool{}
		for i := 0; i < k; i++ {
			f, _ := cl.Next(3 * time.Second)
			if f == nil {
				break
			}
			perStream[f.Stream]++
			prepared[f.Stream] = f.Opcode == byte(primitive.OpCodeResult)
		}
		var res []echoResult
		for i := 0; i < k; i++ {
			st := int16(10 + i)
			x := echoResult{0, int(st), fmt.Sprintf("q%dx9x%d", *tag, i+1), 2, fmt.Sprintf("%d-answers-to-the-PREPARE-on-this-stream", perStream[st])}
			if perStream[st] == 1 && prepared[st] {
				x.verdict, x.got = 1, x.sent
			}
			res = append(res, x)
		}
		// the streams are used again at once
		toks := map[int16]string{}
		all = all[:0]
		for i := 0; i < k; i++ {
			tok := fmt.Sprintf("q%dx8x%d", *tag, i+1)
			toks[int16(10+i)] = tok
			all = append(all, cl.Encode(primitive.ProtocolVersion4, int16(10+i), &message.Query{Query: "SELECT v FROM ks.t WHERE k = 'tok:" + tok + "'", Options: &message.QueryOptions{}}, nil)...)
		}
		_ = cl.SendRaw(all)
		seen := map[int16]bool{}
		for i := 0; i < k; i++ {
			f, _ := cl.Next(3 * time.Second)
			if f == nil {
				break
			}
			x := echoResult{0, int(f.Stream), toks[f.Stream], 2, "nothing"}
			x.verdict, x.got = classifyEcho(f, toks[f.Stream])
			seen[f.Stream] = true
			res = append(res, x)
		}
		for st, tok := range toks {
			if !seen[st] {
				res = append(res, echoResult{0, int(st), tok, 2, "nothing"})
			}
		}
		emitEcho(ctx, res, "pipelined-prepares-then-the-same-streams", false)
	}
}

func lateInternalAnswer(ctx *Ctx, tag *int) {
	e := newEchoEnv(1, func(c *proxy.Config) {
		c.HeartBeatInterval = 40 * time.Millisecond
		c.ConnectTimeout = 80 * time.Millisecond
		c.IdleTimeout = 30 * time.Second
	})
	defer e.close()
	e.be.HoldOptions = true
	time.Sleep(400 * time.Millisecond) // a few heartbeats time out
	cl, err := px.Dial(e.env.Addr)
	if err != nil {
		panic(err)
	}
	defer cl.Close()
	_ = cl.Startup(primitive.ProtocolVersion4, "")
	*tag++
	// park more requests than there are stream ids, so that every id a timed-out heartbeat may
	// have given back is in use by a client request when the late answers arrive
	park := make(chan struct{})
	want := map[int16]string{}
	const parked = 2100
	for s := 1; s <= parked; s++ {
		tok := fmt.Sprintf("q%dx0x%d", *tag, s)
		want[int16(s)] = tok
		e.be.SetScript(tok, fb.Outcome{Kind: fb.OkRows, Hold: park})
		_ = cl.Send(primitive.ProtocolVersion4, int16(s), &message.Query{Query: "SELECT v FROM ks.t WHERE k = 'tok:" + tok + "'", Options: &message.QueryOptions{}})
	}
	time.Sleep(300 * time.Millisecond)
	time.Sleep(100 * time.Millisecond)
	e.be.ReleaseOptions()
	time.Sleep(100 * time.Millisecond)
	close(park)
	var res []echoResult
	for k := 0; k < parked; k++ {
		f, _ := cl.Next(5 * time.Second)
		if f == nil {
			break
		}
		w := want[f.Stream]
		delete(want, f.Stream)
		v, got := classifyEcho(f, w)
		res = append(res, echoResult{0, int(f.Stream), w, v, got})
	}
	for s, w := range want {
		res = append(res, echoResult{0, int(s), w, 2, "no-reply"})
	}
	sort.Slice(res, func(i, j int) bool { return res[i].stream < res[j].stream })
	if os.Getenv("VH_DEBUG") != "" {
		cnt := map[string]int{}
		for _, x := range res {
			k := fmt.Sprintf("verdict%d", x.verdict)
			if x.verdict != 1 {
				k += ":" + x.got
			}
			cnt[k]++
		}
		opt := 0
		for _, r := range e.be.Snapshot() {
			if r.Kind == "options" {
				opt++
			}
		}
		fmt.Fprintln(os.Stderr, "DEBUG late-answer:", cnt, "options seen by backend:", opt)
	}
	emitEcho(ctx, res, "late-answer-to-timed-out-internal-request", false)
}

func concurrentReprepare(ctx *Ctx, r *hv.Rng, tag *int) {
	e := newEchoEnv(3, func(c *proxy.Config) { c.NumConns = 2 })
	defer e.close()
	prep, err := px.Dial(e.env.Addr)
	if err != nil {
		panic(err)
	}
	_ = prep.Startup(primitive.ProtocolVersion4, "")
	q := "SELECT v FROM ks.t WHERE k = ?"
	_ = prep.Send(primitive.ProtocolVersion4, 1, &message.Prepare{Query: q})
	f, _ := prep.Next(5 * time.Second)
	if f == nil {
		panic("prepare failed")
	}
	prep.Close()
	id := md5Of(q)
	for round := 0; round < ctx.Scale(6, 200); round++ {
		*tag++
		for h := 1; h <= 3; h++ {
			e.be.Forget(h)
		}
		var mu sync.Mutex
		var all []echoResult
		var wg sync.WaitGroup
		for c := 0; c < 4; c++ {
			wg.Add(1)
			go func(c int) {
				defer wg.Done()
				cl, err := px.Dial(e.env.Addr)
				if err != nil {
					panic(err)
				}
				defer cl.Close()
				_ = cl.Startup(primitive.ProtocolVersion4, "")
				want := map[int16]string{}
				for s := 1; s <= 40; s++ {
					tok := fmt.Sprintf("q%dx%dx%d", *tag, c, s)
					want[int16(s)] = tok
					if s%2 == 0 {
						_ = cl.Send(primitive.ProtocolVersion4, int16(s), &message.Execute{QueryId: id, Options: &message.QueryOptions{
							PositionalValues: []*primitive.Value{primitive.NewValue([]byte("tok:" + tok))}}})
					} else {
						_ = cl.Send(primitive.ProtocolVersion4, int16(s), &message.Query{Query: "SELECT v FROM ks.t WHERE k = 'tok:" + tok + "'", Options: &message.QueryOptions{}})
					}
				}
				for k := 0; k < 40; k++ {
					f, _ := cl.Next(5 * time.Second)
					if f == nil {
						break
					}
					w := want[f.Stream]
					delete(want, f.Stream)
					v, got := classifyEcho(f, w)
					mu.Lock()
					all = append(all, echoResult{c, int(f.Stream), w, v, got})
					mu.Unlock()
				}
				for s, w := range want {
					mu.Lock()
					all = append(all, echoResult{c, int(s), w, 2, "no-reply"})
					mu.Unlock()
				}
			}(c)
		}
		wg.Wait()
		emitEcho(ctx, all, "concurrent-reprepare", false)
	}
}
