package main

// C07: histories of USE statements and data requests by several clients with different
// protocol versions and compressions through the real proxy; the fake backend reports, for
// each request, the keyspace of the connection it arrived on, the connection's protocol
// version and its compression.  Backend connections are dropped in between so that
// re-established connections are exercised too.

import (
	"fmt"
	"strings"
	"sync"
	"time"

	"verifharness/fb"
	"verifharness/hv"
	"verifharness/px"

	"github.com/datastax/cql-proxy/proxy"
	"github.com/datastax/cql-proxy/proxycore"
	"github.com/datastax/go-cassandra-native-protocol/message"
	"github.com/datastax/go-cassandra-native-protocol/primitive"
)

func init() { props["C07"] = genC07 }

var c07Keyspaces = []string{"ks1", "KS1", "Ks1", "\"ks1\"", "\"Ks1\"", "\"KS1\"", "other", "\"with \"\"q\"\"\"", "system_auth", "x_y_z",
	// names that end like a compression algorithm or start like a version: whatever the session table is keyed by must keep
	// (version, keyspace, compression) apart
	"ks1lz4", "ks1snappy", "lz4", "snappy", "ks1lz4", "ks1snappy"}

func genC07(ctx *Ctx) {
	hsPhase(ctx)
	r := ctx.Rng
	prefix, port := px.Alloc()
	be := fb.New(prefix, port)
	for i := 1; i <= 2; i++ {
		if err := be.StartHost(i); err != nil {
			panic(err)
		}
	}
	be.SetTopology(1, 2)
	defer be.Shutdown()
	be.BadKeyspaces["missing"] = &message.Invalid{ErrorMessage: "Keyspace 'missing' does not exist"}
	be.BadKeyspaces["\"Missing\""] = &message.Invalid{ErrorMessage: "Keyspace 'Missing' does not exist"}
	// USEs that fail without a CQL error: the backend answers later than the proxy's connect timeout, or with a RESULT
	// that is not set_keyspace
	be.SlowKeyspaces["slowks"] = 900 * time.Millisecond
	be.OddKeyspaces["oddks"] = true
	seq := 0
	for round := 0; round < ctx.Scale(24, 300); round++ {
		cfg := px.DefaultConfig(be)
		cfg.MaxVersion = primitive.ProtocolVersionDse2
		cfg.ReconnectPolicy = proxycore.NewReconnectPolicyWithDelays(time.Millisecond, 5*time.Millisecond)
		cfg.ConnectTimeout = 400 * time.Millisecond
		var env *px.Env
		var err error
		if env, err = px.StartProxy(be, cfg); err != nil {
			panic(err)
		}
		nc := 1 + r.Intn(4)
		// round 2 is scripted: four clients of one protocol version whose (keyspace, compression) pairs read the same when
		// written one after the other -- ks1 with lz4 / ks1lz4 without, no keyspace with snappy / keyspace "snappy" without
		collide := round == 2
		if collide {
			nc = 4
		}
		type cst struct {
			cl   *px.Client
			ver  primitive.ProtocolVersion
			comp string
		}
		var cs []cst
		var compV []hv.V
		for i := 0; i < nc; i++ {
			ver := hv.Pick(r, []primitive.ProtocolVersion{3, 4, 4, 5, 65, 66})
			compSent := hv.Pick(r, []string{"", "", "lz4", "snappy", "LZ4"})
			if ver == 5 && strings.EqualFold(compSent, "snappy") {
				compSent = "lz4"
			}
			if collide {
				ver, compSent = 4, []string{"lz4", "", "snappy", ""}[i]
			}
			cl, err := px.Dial(env.Addr)
			if err != nil {
				panic(err)
			}
			st := message.NewStartup()
			if compSent != "" {
				st.Options["COMPRESSION"] = compSent
			}
			_ = cl.Send(ver, 0, st)
			if f, _ := cl.Next(5 * time.Second); f == nil || f.Opcode != byte(primitive.OpCodeReady) {
				panic("startup failed")
			}
			cs = append(cs, cst{cl, ver, compSent})
			compV = append(compV, hv.S(compSent))
		}
		var ops, obs []hv.V
		request := func(i int) {
			c := cs[i]
			seq++
			tok := fmt.Sprintf("s%dx%d", ctx.Seed%1000, seq)
			_ = c.cl.Send(c.ver, 3, &message.Query{Query: "SELECT v FROM t WHERE k = 'tok:" + tok + "'", Options: &message.QueryOptions{}})
			f, _ := c.cl.Next(10 * time.Second)
			ops = append(ops, hv.L(hv.I(1), hv.I(int64(i)), hv.I(int64(c.ver))))
			var rec *fb.Rec
			for _, x := range be.Snapshot() {
				if x.Token == tok {
					xx := x
					rec = &xx
				}
			}
			if f == nil || rec == nil {
				obs = append(obs, hv.L(hv.I(9)))
			} else {
				obs = append(obs, hv.L(hv.I(2), hv.S(rec.Keyspace), hv.I(int64(versionSeen(rec))), hv.S(rec.Compression)))
			}
		}
		// Sessions created at the same instant: in every other round all clients send their first request together
		// (no session exists yet for any of their version/compression pairs) while the backend answers STARTUP slowly;
		// each request must still travel on connections of its own client's version and compression.
		if round%2 == 1 && nc > 1 {
			be.SetStartupDelay(120 * time.Millisecond)
			var wg sync.WaitGroup
			toks := make([]string, nc)
			frames := make([]*px.Frame, nc)
			for i := range cs {
				seq++
				toks[i] = fmt.Sprintf("s%dx%d", ctx.Seed%1000, seq)
				wg.Add(1)
				go func(i int) {
					defer wg.Done()
					_ = cs[i].cl.Send(cs[i].ver, 3, &message.Query{Query: "SELECT v FROM t WHERE k = 'tok:" + toks[i] + "'", Options: &message.QueryOptions{}})
					frames[i], _ = cs[i].cl.Next(10 * time.Second)
				}(i)
			}
			wg.Wait()
			be.SetStartupDelay(0)
			for i := range cs {
				ops = append(ops, hv.L(hv.I(1), hv.I(int64(i)), hv.I(int64(cs[i].ver))))
				var rec *fb.Rec
				for _, x := range be.Snapshot() {
					if x.Token == toks[i] {
						xx := x
						rec = &xx
					}
				}
				if frames[i] == nil || rec == nil {
					obs = append(obs, hv.L(hv.I(9)))
				} else {
					obs = append(obs, hv.L(hv.I(2), hv.S(rec.Keyspace), hv.I(int64(versionSeen(rec))), hv.S(rec.Compression)))
				}
			}
			be.ResetLog()
			ctx.Count("concurrent-first-requests")
		}
		// ... and in the other rounds all clients switch to one new keyspace together (the backend answers that USE
		// slowly), then each sends a request
		if round%2 == 0 && nc > 1 {
			ks := fmt.Sprintf("cc%d_%d", ctx.Seed%1000, round)
			be.SetSlowKeyspace(ks, 100*time.Millisecond)
			var wg sync.WaitGroup
			oks := make([]bool, nc)
			for i := range cs {
				wg.Add(1)
				go func(i int) {
					defer wg.Done()
					_ = cs[i].cl.Send(cs[i].ver, 2, &message.Query{Query: "USE " + ks, Options: &message.QueryOptions{}})
					f, _ := cs[i].cl.Next(10 * time.Second)
					oks[i] = f != nil && f.Opcode == byte(primitive.OpCodeResult)
				}(i)
			}
			wg.Wait()
			for i := range cs {
				ops = append(ops, hv.L(hv.I(0), hv.I(int64(i)), hv.S(ks), hv.Bool(true)))
				if oks[i] {
					obs = append(obs, hv.L(hv.I(0), hv.S(ks)))
				} else {
					obs = append(obs, hv.L(hv.I(1)))
				}
			}
			be.ResetLog()
			for i := range cs {
				request(i)
			}
			be.ResetLog()
			ctx.Count("concurrent-use-of-one-new-keyspace")
		}
		nops := 4 + r.Intn(16)
		type scripted struct {
			client int
			use    string // "" = a request
		}
		script := []scripted{{0, "ks1"}, {1, "ks1lz4"}, {3, "snappy"}, {0, ""}, {1, ""}, {2, ""}, {3, ""}, {1, ""}, {0, ""}, {3, ""}, {2, ""}}
		if collide {
			nops = len(script)
			ctx.Count("scripted:keyspace-and-compression-that-read-alike")
		}
		forced := -1 // after a USE that failed, the same client's next request shows which keyspace is in force
		for k := 0; k < nops; k++ {
			i := r.Intn(nc)
			choice := r.Intn(8)
			if forced >= 0 {
				i, choice, forced = forced, 7, -1
			}
			if collide {
				i, choice = script[k].client, 7
				if script[k].use != "" {
					choice = 0
				}
			}
			c := cs[i]
			switch choice {
			case 0, 1, 2:
				ks := hv.Pick(r, c07Keyspaces)
				ok := true
				if collide {
					ks = script[k].use
				} else if r.Intn(3) == 0 {
					ks, ok = hv.Pick(r, []string{"missing", "\"Missing\"", "slowks", "oddks"}), false
					ctx.Count("failing-use:" + ks)
					forced = i
					if k == nops-1 {
						nops++
					}
				}
				_ = c.cl.Send(c.ver, 2, &message.Query{Query: hv.Pick(r, []string{"USE ", "use ", "Use  "}) + ks, Options: &message.QueryOptions{}})
				f, _ := c.cl.Next(10 * time.Second)
				ops = append(ops, hv.L(hv.I(0), hv.I(int64(i)), hv.S(ks), hv.Bool(ok)))
				switch {
				case f == nil:
					obs = append(obs, hv.L(hv.I(9)))
				case f.Opcode == byte(primitive.OpCodeResult):
					// RESULT set_keyspace: kind int (3) then [string]
					name := ""
					if len(f.Body) >= 6 {
						n := int(f.Body[4])<<8 | int(f.Body[5])
						if len(f.Body) >= 6+n {
							name = string(f.Body[6 : 6+n])
						}
					}
					obs = append(obs, hv.L(hv.I(0), hv.S(name)))
				default:
					obs = append(obs, hv.L(hv.I(1)))
				}
			case 3:
				// a backend host loses its connections; they must come back in the right keyspace
				be.DropConns(1 + r.Intn(2))
				time.Sleep(60 * time.Millisecond)
				k--
			default:
				seq++
				tok := fmt.Sprintf("s%dx%d", ctx.Seed%1000, seq)
				var msg message.Message = &message.Query{Query: "SELECT v FROM t WHERE k = 'tok:" + tok + "'", Options: &message.QueryOptions{}}
				if r.Intn(3) == 0 {
					msg = &message.Query{Query: "INSERT INTO t (k, v) VALUES ('tok:" + tok + "', 1)", Options: &message.QueryOptions{}}
				}
				_ = c.cl.Send(c.ver, 3, msg)
				f, _ := c.cl.Next(10 * time.Second)
				ops = append(ops, hv.L(hv.I(1), hv.I(int64(i)), hv.I(int64(c.ver))))
				var rec *fb.Rec
				for _, x := range be.Snapshot() {
					if x.Token == tok {
						xx := x
						rec = &xx
					}
				}
				if f == nil || rec == nil {
					obs = append(obs, hv.L(hv.I(9)))
				} else {
					obs = append(obs, hv.L(hv.I(2), hv.S(rec.Keyspace), hv.I(int64(versionSeen(rec))), hv.S(rec.Compression)))
				}
				be.ResetLog()
			}
		}
		ctx.Emit(hv.L(hv.L(compV...), hv.L(ops...)), hv.L(obs...), fmt.Sprintf("history:%dclients", nc))
		ctx.Count(fmt.Sprintf("history:%dclients", nc))
		for _, c := range cs {
			c.cl.Close()
		}
		env.Close()
	}
	_ = proxy.Config{}
}

// versionSeen: the request must carry the client's version AND travel on a connection that
// was started with it; a disagreement is reported as 1000 + connection version.
func versionSeen(rec *fb.Rec) int {
	if rec.ConnVersion != rec.Version {
		return 1000 + int(rec.ConnVersion)
	}
	return int(rec.Version)
}
