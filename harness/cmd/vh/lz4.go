package main

// The proxy's own LZ4 block decoder (codecs/lz4.go, hook VerifUncompressLz4Block) against Model/Lz4.v: blocks written by
// the reference compressor for many content shapes, decoded into destinations of exactly the right size, larger and
// smaller; the same blocks mutated, truncated and extended; hand-made hostile blocks; random bytes.

import (
	"bytes"

	"verifharness/hv"

	"github.com/datastax/cql-proxy/codecs"
	pierrec "github.com/pierrec/lz4/v4"
)

func lz4Phase(ctx *Ctx) {
	r := ctx.Rng
	emit := func(src []byte, capacity int, note string) {
		out, err, panicked := codecs.VerifUncompressLz4Block(src, capacity)
		var o hv.V
		switch {
		case panicked:
			o = hv.L(hv.I(2))
		case err != nil:
			o = hv.L(hv.I(1))
		default:
			o = hv.L(hv.I(0), hv.B(out))
		}
		ctx.Emit(hv.L(hv.I(10), hv.I(int64(capacity)), hv.B(src)), o, "lz4:"+note)
		ctx.Count("lz4:" + note)
	}
	for i := 0; i < ctx.Scale(150, 4000); i++ {
		// content: runs, repeats of earlier pieces, random stretches (long literal runs before a match among them)
		var b []byte
		for len(b) < 1+r.Intn(ctx.Scale(700, 6000)) {
			l := 1 + r.Intn(300)
			switch r.Intn(5) {
			case 0:
				b = append(b, r.Bytes(l)...)
			case 1:
				b = append(b, bytes.Repeat([]byte{byte(r.Intn(256))}, l)...)
			case 2:
				if len(b) > 0 {
					o := r.Intn(len(b))
					for k := 0; k < l; k++ {
						b = append(b, b[o+k%(len(b)-o)])
					}
				}
			case 3:
				b = append(b, r.Bytes(2100+r.Intn(600))...)
			default:
				for k := 0; k < l; k++ {
					b = append(b, byte(r.Intn(3)))
				}
			}
		}
		c := make([]byte, pierrec.CompressBlockBound(len(b)))
		w, err := pierrec.CompressBlock(b, c, nil)
		if err != nil || w == 0 {
			continue
		}
		c = c[:w]
		emit(c, len(b), "valid-exact")
		switch r.Intn(6) {
		case 0:
			emit(c, len(b)+1+r.Intn(20), "valid-larger-destination")
		case 1:
			emit(c, len(b)-1-r.Intn(min(len(b), 6)), "valid-destination-too-small")
		case 2:
			emit(c[:r.Intn(len(c))], len(b), "truncated")
		case 3:
			m := append([]byte{}, c...)
			m[r.Intn(len(m))] ^= byte(1 + r.Intn(255))
			emit(m, len(b), "one-byte-changed")
		case 4:
			emit(append(append([]byte{}, c...), r.Bytes(1+r.Intn(5))...), len(b)+r.Intn(8), "bytes-appended")
		}
	}
	for over := 0; over <= 6; over++ {
		emit([]byte{0x40 | byte(over), 'a', 'b', 'c', 'd', 4, 0}, 6, "match-overruns-the-destination")
		emit([]byte{0x40 | byte(over), 'a', 'b', 'c', 'd', 4, 0}, 8+over, "match-fits-exactly")
	}
	for _, h := range [][]byte{{}, {0}, {0x10}, {0x40, 'a', 'b', 'c', 'd', 0, 0}, {0x40, 'a', 'b', 'c', 'd', 9, 0}, {0xf0, 255, 255, 255}, {0x0f, 1, 0, 255, 255, 255},
		{0x40, 'a', 'b'}, {0x40, 'a', 'b', 'c', 'd', 4}, {0x1f, 'x', 1, 0, 255, 255, 255, 7}, {0x10, 'x', 1, 0}, {0x1f, 'x', 1, 0, 0}} {
		for _, capacity := range []int{0, 1, 4, 8, 64, 1000} {
			emit(h, capacity, "hand-made")
		}
	}
	for i := 0; i < ctx.Scale(300, 20000); i++ {
		emit(r.Bytes(r.Intn(24)), r.Intn(64), "random-bytes")
	}
}
