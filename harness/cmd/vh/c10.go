package main

// C10: the real proxy is started in-process for generated configurations (rpc-address, data
// center, tokens, peers; DSE or not) and asked generated SELECTs on system.local / system.peers
// and the legacy schema tables; metadata and rows are decoded with the reference codec.

import (
	"crypto/md5"
	"fmt"
	"net"
	"sort"
	"strings"
	"time"

	"verifharness/fb"
	"verifharness/hv"
	"verifharness/px"

	"github.com/datastax/cql-proxy/proxy"
	"github.com/datastax/go-cassandra-native-protocol/datatype"
	"github.com/datastax/go-cassandra-native-protocol/message"
	"github.com/datastax/go-cassandra-native-protocol/primitive"
)

func init() { props["C10"] = genC10 }

type c10Node struct {
	addr   string // as written in the configuration
	dc     string
	tokens []string
}

func typeName(dt datatype.DataType) string {
	switch t := dt.(type) {
	case *datatype.Set:
		return "set<" + typeName(t.ElementType) + ">"
	case *datatype.List:
		return "list<" + typeName(t.ElementType) + ">"
	case *datatype.Map:
		return "map<" + typeName(t.KeyType) + "," + typeName(t.ValueType) + ">"
	}
	return strings.ToLower(fmt.Sprint(dt))
}

// nodeVal: (ip16 zone dc tokens md5-of-host-id-name)
func nodeVal(n c10Node, local bool) hv.V {
	if n.addr == "" {
		return hv.L(hv.B(nil), hv.S(""), hv.S(n.dc), hv.L(), hv.B(nil))
	}
	a, err := net.ResolveIPAddr("ip", n.addr)
	if err != nil {
		panic(err)
	}
	name := a.IP.String() // the host id is derived from the address without its zone
	d := md5.Sum([]byte(name))
	var toks []hv.V
	for _, t := range n.tokens {
		toks = append(toks, hv.S(t))
	}
	return hv.L(hv.B(a.IP), hv.S(a.Zone), hv.S(n.dc), hv.L(toks...), hv.B(d[:]))
}

var c10Addrs = []string{"10.0.0.1", "10.0.0.2", "10.0.0.10", "10.0.1.1", "192.168.1.5", "9.255.255.255", "127.0.0.1", "2001:db8::1", "2001:DB8::2", "::ffff:10.0.0.3",
	"fe80::1", "fe80::2%lo", "::1", "0:0:0:0:0:0:0:2", "172.16.0.1", "1.2.3.4", "250.1.1.1", "2001:db8:0:0:0:0:0:3"}

var c10Columns = []string{"key", "rpc_address", "data_center", "rack", "tokens", "release_version", "partitioner", "cluster_name", "cql_version", "schema_version",
	"native_protocol_version", "host_id", "peer", "dse_version", "bogus", "KEY", "\"key\"", "Rack"}

func c10Query(r *hv.Rng, table string) string {
	sel := func() string {
		switch r.Intn(10) {
		case 1:
			return "count(*)"
		case 2:
			return "COUNT(" + hv.Pick(r, []string{"key", "peer", "1x", "Rack"}) + ")"
		case 3:
			return "now()"
		case 4:
			return hv.Pick(r, c10Columns) + " AS " + hv.Pick(r, []string{"x", "Alias1", "\"Q\"", "key"})
		}
		return hv.Pick(r, c10Columns[:14])
	}
	var sels []string
	if r.Intn(6) == 0 {
		sels = []string{"*"} // CQL allows '*' only on its own
	} else {
		for i := 1 + r.Intn(4); i > 0; i-- {
			sels = append(sels, sel())
		}
	}
	q := "SELECT " + strings.Join(sels, hv.Pick(r, []string{", ", ",", " , "})) + " FROM " + table
	if r.Intn(4) == 0 {
		q += " WHERE key = 'local'"
	}
	return q
}

// c10Views: every member of a shared peer list runs a proxy (peer list = the whole list, own
// data center = the one its entry names); all must present the same set of nodes.
func c10Views(ctx *Ctx, be *fb.Backend) {
	r := ctx.Rng
	for round := 0; round < ctx.Scale(8, 100); round++ {
		k := 2 + r.Intn(5)
		perm := r.Intn(len(c10Addrs))
		var shared []c10Node
		for i := 0; i < k; i++ {
			shared = append(shared, c10Node{addr: c10Addrs[(perm+i*3)%len(c10Addrs)], dc: hv.Pick(r, []string{"dc1", "dc2", "eu"})})
		}
		views := map[string]bool{}
		for _, self := range shared {
			cfg := px.DefaultConfig(be)
			cfg.RPCAddr, cfg.DC = self.addr, self.dc
			for _, p := range shared {
				cfg.Peers = append(cfg.Peers, proxy.PeerConfig{RPCAddr: p.addr, DC: p.dc})
			}
			env, err := px.StartProxy(be, cfg)
			if err != nil {
				views["refused:"+err.Error()] = true
				continue
			}
			cl, _ := px.Dial(env.Addr)
			_ = cl.Startup(primitive.ProtocolVersion4, "")
			var tuples []string
			for qi, q := range []string{"SELECT rpc_address, data_center, tokens, host_id FROM system.local", "SELECT peer, data_center, tokens, host_id FROM system.peers"} {
				_ = cl.Send(primitive.ProtocolVersion4, int16(qi+1), &message.Query{Query: q, Options: &message.QueryOptions{}})
				f, _ := cl.Next(5 * time.Second)
				if f == nil {
					continue
				}
				if fr, err := cl.Decode(f); err == nil {
					if rr, ok := fr.Body.Message.(*message.RowsResult); ok {
						for _, row := range rr.Data {
							tuples = append(tuples, fmt.Sprintf("%x", [][]byte(row)))
						}
					}
				}
			}
			sort.Strings(tuples)
			views[strings.Join(tuples, "|")] = true
			cl.Close()
			env.Close()
		}
		var nv []hv.V
		for _, n := range shared {
			nv = append(nv, nodeVal(n, false))
		}
		ctx.Emit(hv.L(hv.I(10), hv.L(nv...)), hv.L(hv.Bool(len(views) == 1)), fmt.Sprintf("views:%d", k))
		ctx.Count("shared-peer-list-views")
	}
}

func genC10(ctx *Ctx) {
	r := ctx.Rng
	prefix, port := px.Alloc()
	be := fb.New(prefix, port)
	if err := be.StartHost(1); err != nil {
		panic(err)
	}
	be.SetTopology(1)
	defer be.Shutdown()
	c10Views(ctx, be)
	nCfg := ctx.Scale(70, 1500)
	for ci := 0; ci < nCfg; ci++ {
		// ---- a configuration ----
		be.DSEVersion = ""
		if ci%3 == 1 {
			be.DSEVersion = "6.8.1"
		}
		be.DC = hv.Pick(r, []string{"dc1", "datacenter-b"})
		perm := r.Intn(len(c10Addrs))
		np := r.Intn(7)
		if ci%10 == 0 {
			np = 0
		}
		withTokens := r.Intn(4) == 0
		var all []c10Node
		for i := 0; i <= np; i++ {
			n := c10Node{addr: c10Addrs[(perm+i*5)%len(c10Addrs)]}
			if r.Intn(3) == 0 {
				n.dc = hv.Pick(r, []string{"dc1", "dc2", "eu-west"})
			}
			if withTokens {
				for k := 1 + r.Intn(3); k > 0; k-- {
					n.tokens = append(n.tokens, fmt.Sprintf("%d", int64(r.Next())))
				}
			}
			all = append(all, n)
		}
		selfIdx := r.Intn(len(all))
		self := all[selfIdx]
		var peers []c10Node
		includeSelf := r.Bool()
		for i, n := range all {
			if i != selfIdx || includeSelf {
				peers = append(peers, n)
			}
		}
		hasRPC := true
		switch ci % 17 {
		case 3: // peers but no rpc-address: refused
			hasRPC = false
		case 5: // a peer without tokens although this proxy has some
			if withTokens && len(peers) > 0 {
				peers[len(peers)-1].tokens = nil
			}
		case 7: // no rpc-address and no peers: the local address is the one the client connected to
			hasRPC, peers = false, nil
		}
		cfg := px.DefaultConfig(be)
		cfg.DC = self.dc
		cfg.Tokens = self.tokens
		if hasRPC {
			cfg.RPCAddr = self.addr
		}
		for _, p := range peers {
			cfg.Peers = append(cfg.Peers, proxy.PeerConfig{RPCAddr: p.addr, DC: p.dc, Tokens: p.tokens})
		}
		localForModel := self
		env, err := px.StartProxy(be, cfg)
		var cl *px.Client
		if err == nil {
			cl, err = px.Dial(env.Addr)
			if err == nil {
				err = cl.Startup(primitive.ProtocolVersion4, "")
			}
			if !hasRPC {
				// the proxy reports the address the client connected to
				host, _, _ := net.SplitHostPort(env.Addr)
				localForModel.addr = host
			}
		}
		var pv []hv.V
		for _, p := range peers {
			pv = append(pv, nodeVal(p, false))
		}
		info := hv.L(hv.S(be.DC), hv.S("4.0.0"), hv.S("org.apache.cassandra.dht.Murmur3Partitioner"), hv.S("3.4.5"), hv.S(be.DSEVersion))
		mkIn := func(q string) hv.V {
			return hv.L(hv.Bool(hasRPC), nodeVal(localForModel, true), hv.L(pv...), info, hv.I(4), hv.S(q))
		}
		if err != nil || cl == nil {
			ctx.Emit(mkIn("SELECT * FROM system.local"), hv.L(hv.I(0)), "config-refused")
			ctx.Count("config-refused")
			if env != nil {
				env.Close()
			}
			continue
		}
		queries := []string{"SELECT * FROM system.local", "SELECT * FROM system.peers", "SELECT count(*) FROM system.peers", "SELECT count(*) FROM system.local",
			"SELECT host_id, rpc_address, data_center, tokens FROM system.local", "SELECT peer, host_id, data_center, tokens FROM system.peers",
			"SELECT * FROM system.LOCAL", "select key from SYSTEM.\"peers\"", "SELECT * FROM system.peers_v2", "SELECT * FROM system.schema_keyspaces",
			"SELECT keyspace_name FROM system.schema_columnfamilies", "SELECT JSON * FROM system.local", "SELECT DISTINCT key FROM system.local"}
		for k := 0; k < ctx.Scale(12, 40); k++ {
			queries = append(queries, c10Query(r, hv.Pick(r, []string{"system.local", "system.peers", "system.peers", "system.Peers", "system.schema_columns"})))
		}
		for qi, q := range queries {
			_ = cl.Send(primitive.ProtocolVersion4, int16(qi+1), &message.Query{Query: q, Options: &message.QueryOptions{Consistency: primitive.ConsistencyLevelOne}})
			f, _ := cl.Next(5 * time.Second)
			out := hv.V(hv.L(hv.I(9)))
			if f != nil {
				if fr, derr := cl.Decode(f); derr == nil {
					switch m := fr.Body.Message.(type) {
					case *message.RowsResult:
						var cols, rows []hv.V
						nowCols := map[int]bool{}
						for i, c := range m.Metadata.Columns {
							cols = append(cols, hv.L(hv.S(c.Name), hv.S(typeName(c.Type))))
							if c.Name == "system.now()" {
								nowCols[i] = true
							}
						}
						for _, row := range m.Data {
							var cells []hv.V
							for i, cell := range row {
								switch {
								case nowCols[i] && len(cell) == 16 && cell[6]>>4 == 1:
									cells = append(cells, hv.L()) // a time-based UUID: not compared
								case cell == nil:
									cells = append(cells, hv.I(-1))
								default:
									cells = append(cells, hv.B(cell))
								}
							}
							rows = append(rows, hv.L(cells...))
						}
						out = hv.L(hv.I(1), hv.L(cols...), hv.L(rows...))
					case *message.Invalid:
						out = hv.L(hv.I(2))
					case message.Error:
						out = hv.L(hv.I(4), hv.I(int64(m.GetErrorCode())))
					default:
						out = hv.L(hv.I(5))
					}
				}
			}
			ctx.Emit(mkIn(q), out, fmt.Sprintf("peers%d", len(peers)))
			ctx.Count(fmt.Sprintf("peers%d:dse%v:tokens%v", len(peers), be.DSEVersion != "", withTokens))
		}
		cl.Close()
		env.Close()
	}
}
