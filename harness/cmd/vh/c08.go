package main

// C08: prepared statements through the real proxy against hosts that never saw the statement,
// forgot it, were restarted, joined after start-up, or refuse the re-PREPARE.  Clients differ
// in protocol version and compression (so do the backend sessions the proxy opens for them).
// For every EXECUTE / BATCH the backend log gives the ordered list of (host, execute | prepare)
// events and the client gets one reply.

import (
	"bufio"
	"bytes"
	"encoding/hex"
	"fmt"
	"os"
	"strings"
	"time"

	"verifharness/fb"
	"verifharness/hv"
	"verifharness/px"

	"github.com/datastax/cql-proxy/proxy"
	"github.com/datastax/cql-proxy/proxycore"
	"github.com/datastax/go-cassandra-native-protocol/frame"
	"github.com/datastax/go-cassandra-native-protocol/message"
	"github.com/datastax/go-cassandra-native-protocol/primitive"
)

func init() { props["C08"] = genC08 }

type c08Client struct {
	cl   *px.Client
	ver  primitive.ProtocolVersion
	comp string
}

type c08Env struct {
	ctx               *Ctx
	be                *fb.Backend
	env               *px.Env
	cs                []c08Client
	n                 int
	ring              []int
	cursor            int
	seq               int
	stream            int16
	cached            map[string]bool   // statement text -> the proxy saw its PREPARE succeed
	ids               map[string][]byte // statement text -> id
	prepBad           map[int]bool      // hosts refusing PREPARE
	payloadNext       bool              // the next frame sent carries a custom payload
	tracedPrepareNext bool              // the next PREPARE asks for tracing
	detail            string
}

func (e *c08Env) close() {
	for _, c := range e.cs {
		c.cl.Close()
	}
	e.env.Close()
	e.be.Shutdown()
}

func (e *c08Env) token() string {
	e.seq++
	return fmt.Sprintf("p%dx%d", e.ctx.Seed%1000, e.seq)
}

func (e *c08Env) addClient(ver primitive.ProtocolVersion, comp string) int {
	cl, err := px.Dial(e.env.Addr)
	if err != nil {
		panic(err)
	}
	if err := cl.Startup(ver, comp); err != nil {
		panic(err)
	}
	e.cs = append(e.cs, c08Client{cl, ver, comp})
	return len(e.cs) - 1
}

func (e *c08Env) send(ci int, msg message.Message) (int16, *px.Frame) {
	return e.sendFlags(ci, msg, false)
}

func (e *c08Env) sendFlags(ci int, msg message.Message, tracing bool) (int16, *px.Frame) {
	c := e.cs[ci]
	e.stream = e.stream%200 + 1
	st := e.stream
	raw := c.cl.Encode(c.ver, st, msg, func(f *frame.Frame) {
		if c.comp != "" {
			f.SetCompress(true)
		}
		if e.payloadNext {
			f.SetCustomPayload(map[string][]byte{"origin": []byte("c08")})
		}
	})
	e.payloadNext = false
	if tracing {
		// set in the encoded header: the reference encoder counts a tracing id into the
		// length of a request that asks for tracing
		raw[1] |= byte(primitive.HeaderFlagTracing)
	}
	_ = c.cl.SendRaw(raw)
	for {
		f, _ := c.cl.Next(10 * time.Second)
		if f == nil {
			return st, nil
		}
		if f.Stream == st {
			return st, f
		}
	}
}

// probe sends a plain query and returns the host that served it (it advances the rotation)
func (e *c08Env) probe() int {
	tok := e.token()
	_, f := e.send(0, &message.Query{Query: "SELECT v FROM ks.t WHERE k = 'tok:" + tok + "'", Options: &message.QueryOptions{}})
	e.cursor++
	if f == nil {
		return 0
	}
	h := 0
	for _, r := range e.be.Snapshot() {
		if r.Token == tok && r.Kind == "query" {
			h = hostNum(e.be, r.Host)
		}
	}
	return h
}

func (e *c08Env) calibrate() {
	e.ring = nil
	for i := 0; i < e.n; i++ {
		h := e.probe()
		if h == 0 {
			panic("C08: calibration probe unanswered")
		}
		e.ring = append(e.ring, h)
	}
	seen := map[int]bool{}
	for _, h := range e.ring {
		if seen[h] {
			panic(fmt.Sprintf("C08: calibration saw host twice: %v", e.ring))
		}
		seen[h] = true
	}
	e.cursor = 0
}

func (e *c08Env) plan() []int {
	out := make([]int, 0, e.n)
	for i := 0; i < e.n; i++ {
		out = append(out, e.ring[(e.cursor+i)%e.n])
	}
	return out
}

func newC08Env(ctx *Ctx, hosts []int, topo []int, opt func(*proxy.Config)) *c08Env {
	prefix, port := px.Alloc()
	be := fb.New(prefix, port)
	for _, i := range hosts {
		if err := be.StartHost(i); err != nil {
			panic(err)
		}
	}
	be.SetTopology(topo...)
	be.StrictVersion = true
	cfg := px.DefaultConfig(be)
	cfg.MaxVersion = primitive.ProtocolVersionDse2
	cfg.ReconnectPolicy = proxycore.NewReconnectPolicyWithDelays(time.Millisecond, 5*time.Millisecond)
	if opt != nil {
		opt(&cfg)
	}
	env, err := px.StartProxy(be, cfg)
	if err != nil {
		panic(err)
	}
	return &c08Env{ctx: ctx, be: be, env: env, n: len(topo), cached: map[string]bool{}, ids: map[string][]byte{}, prepBad: map[int]bool{}}
}

// prepare sends PREPARE through the proxy; true if a PREPARED result came back
func (e *c08Env) prepare(ci int, q string) bool {
	// now and then with a custom payload (legal from version 4 on): the frame the proxy caches, and re-sends to a host
	// that does not know the statement, announces it in its header
	if e.cs[ci].ver >= 4 && e.ctx.Rng.Intn(3) == 0 {
		e.payloadNext = true
		e.ctx.Count("prepare-with-custom-payload")
	}
	// one in four asks for tracing: the cached frame, and so every re-PREPARE made from it, then does too
	tracing := e.tracedPrepareNext || e.ctx.Rng.Intn(4) == 0
	e.tracedPrepareNext = false
	if tracing {
		e.ctx.Count("prepare-with-tracing")
	}
	_, f := e.sendFlags(ci, &message.Prepare{Query: q}, tracing)
	e.cursor++
	if f == nil || f.Opcode != byte(primitive.OpCodeResult) {
		return false
	}
	if frm, err := e.cs[ci].cl.Decode(f); err == nil {
		if res, ok := frm.Body.Message.(*message.PreparedResult); ok && !bytes.Equal(res.PreparedQueryId, md5Of(q)) {
			// a host that prepares under an id of its own: nothing the harness follows up
			return false
		}
	}
	e.cached[q] = true
	e.ids[q] = md5Of(q)
	return true
}

// observe: events of a token at the backend, and the reply classification
func (e *c08Env) observe(ci int, tok string, idh string, f *px.Frame) (hv.V, hv.V) {
	var evs []hv.V
	last := 0
	for _, r := range e.be.Snapshot() {
		h := hostNum(e.be, r.Host)
		switch {
		case r.Token == tok && (r.Kind == "execute" || r.Kind == "execute-unprepared" || r.Kind == "batch" || r.Kind == "batch-unprepared"):
			evs = append(evs, hv.L(hv.I(0), hv.I(int64(h))))
			last = h
		case r.Kind == "prepare" && r.PreparedID == idh:
			evs = append(evs, hv.L(hv.I(1), hv.I(int64(h)), hv.Bool(!e.prepBad[h])))
		case (strings.HasPrefix(r.Kind, "undecodable") || r.Kind == "version-mismatch") && r.Opcode == byte(primitive.OpCodePrepare):
			// the re-PREPARE reached the host in a form the host cannot accept
			evs = append(evs, hv.L(hv.I(1), hv.I(int64(h)), hv.Bool(false)))
			e.detail = fmt.Sprintf(" [host %d got a v%d PREPARE flags=%#x on a v%d/%s connection: %s]", h, r.Version, r.Flags, r.ConnVersion, r.Compression, r.Kind)
		}
	}
	reply := hv.L(hv.I(9))
	if f != nil {
		frm, err := e.cs[ci].cl.Decode(f)
		switch {
		case err != nil:
			reply = hv.L(hv.I(8))
		case f.Opcode == byte(primitive.OpCodeResult):
			reply = hv.L(hv.I(0), hv.I(int64(last)))
		default:
			switch m := frm.Body.Message.(type) {
			case *message.Unprepared:
				reply = hv.L(hv.I(1), hv.I(int64(last)))
			case message.Error:
				if strings.HasPrefix(m.GetErrorMessage(), "Proxy exhausted query plan") {
					reply = hv.L(hv.I(2))
				} else {
					reply = hv.L(hv.I(3), hv.I(int64(m.GetErrorCode())))
				}
			default:
				reply = hv.L(hv.I(8))
			}
		}
	}
	return hv.L(evs...), reply
}

func intsV(xs []int) hv.V {
	var vs []hv.V
	for _, x := range xs {
		vs = append(vs, hv.I(int64(x)))
	}
	return hv.L(vs...)
}

// execute runs one EXECUTE (batch=false) or BATCH with one prepared child, emits the case
func (e *c08Env) execute(ci int, q string, batch bool, note string) {
	tok := e.token()
	id := e.ids[q]
	idh := hex.EncodeToString(id)
	var known, okHosts, all []int
	for _, h := range e.ring {
		all = append(all, h)
		if e.be.Knows(h, idh) {
			known = append(known, h)
		}
		if !e.prepBad[h] {
			okHosts = append(okHosts, h)
		}
	}
	plan := e.plan()
	e.be.ResetLog()
	var msg message.Message
	val := []*primitive.Value{primitive.NewValue([]byte("tok:" + tok))}
	if batch {
		msg = &message.Batch{Type: primitive.BatchTypeUnlogged, Consistency: primitive.ConsistencyLevelOne,
			Children: []*message.BatchChild{{Id: id, Values: val}}}
	} else {
		msg = &message.Execute{QueryId: id, ResultMetadataId: id, Options: &message.QueryOptions{Consistency: primitive.ConsistencyLevelOne, PositionalValues: val}}
	}
	tracing, warning := e.ctx.Rng.Intn(4) == 0, e.ctx.Rng.Intn(6) == 0
	e.be.SetUnpreparedWarn(warning)
	_, f := e.sendFlags(ci, msg, tracing)
	e.cursor++
	e.detail = ""
	if tracing {
		note += "+tracing"
	}
	if warning {
		note += "+warning"
	}
	evs, reply := e.observe(ci, tok, idh, f)
	c := e.cs[ci]
	if os.Getenv("C08DEBUG") != "" {
		fmt.Fprintf(os.Stderr, "exec plan=%v evs=%s reply=%s client=%d v%d/%s %s\n", plan, hv.Str(evs), hv.Str(reply), ci, c.ver, c.comp, note)
	}
	in := hv.L(hv.Bool(e.cached[q]), intsV(all), intsV(okHosts), intsV(known), intsV(plan))
	e.ctx.Emit(in, hv.L(evs, reply), fmt.Sprintf("%s client=v%d/%s batch=%v%s", note, c.ver, c.comp, batch, e.detail))
	e.ctx.Count(note)
	if f == nil {
		// an unanswered request leaves the rotation unknown; start over
		e.calibrate()
	}
}

var c08Stmts = []string{
	"SELECT v FROM ks.t WHERE k = ?",
	"INSERT INTO ks.t (k, v) VALUES (?, 1)",
	"INSERT INTO ks.t (k, v) VALUES (?, now())",
	"UPDATE ks.t SET v = 2 WHERE k = ?",
	"DELETE FROM ks.t WHERE k = ?",
}

// c08Saturated: the statement is cached, the host has forgotten it, and the only backend connection has (almost) no
// free stream id, so that the proxy's own re-PREPARE often cannot be sent.  The client must not be handed the
// UNPREPARED error: a re-preparation that fails makes the request move on (here: to "no more hosts").
func c08Saturated(ctx *Ctx) {
	tag := 7000
	t, unprepared := unpreparedSaturated(ctx, &tag, 1)
	ctx.Emit(hv.L(hv.I(9), hv.I(int64(t.requests))), hv.L(hv.I(int64(unprepared)), hv.I(int64(t.zero))), "re-PREPARE-cannot-be-sent:saturated-connection")
	ctx.Count("saturated-connection")
}

// slowCache: the proxy's prepared cache (a public configuration interface) with a Store that takes a while, as a cache
// shared between processes would.  A client must not be able to use a statement id before the proxy can recover it.
type slowCache struct {
	inner proxycore.PreparedCache
	delay time.Duration
}

func (c *slowCache) Store(id string, e *proxycore.PreparedEntry) {
	time.Sleep(c.delay)
	c.inner.Store(id, e)
}
func (c *slowCache) Load(id string) (*proxycore.PreparedEntry, bool) { return c.inner.Load(id) }

// c08SlowCache: PREPARE on one host, then EXECUTEs at once, which the round robin sends to hosts that never saw the
// statement.
func c08SlowCache(ctx *Ctx) {
	inner, err := proxy.NewDefaultPreparedCache(1000)
	if err != nil {
		panic(err)
	}
	hs := []int{1, 2, 3}
	e := newC08Env(ctx, hs, hs, func(c *proxy.Config) { c.PreparedCache = &slowCache{inner: inner, delay: 120 * time.Millisecond} })
	defer e.close()
	e.addClient(4, "")
	e.addClient(4, "")
	e.calibrate()
	for _, q := range c08Stmts[:ctx.Scale(2, 5)] {
		if !e.prepare(1, q) {
			continue
		}
		for k := 0; k < 3; k++ {
			e.execute(1, q, k == 2, "execute:right-after-prepare-with-a-slow-cache")
		}
	}
}

// c08Keyspace: a client that has USEd a keyspace prepares statements whose table name is unqualified; the backend refuses
// such a PREPARE on a connection without a keyspace.  The proxy's own re-PREPAREs must travel on connections of the client's
// keyspace too.
func c08Keyspace(ctx *Ctx) {
	hs := []int{1, 2, 3}
	e := newC08Env(ctx, hs, hs, nil)
	defer e.close()
	e.be.StrictKeyspace = true
	e.addClient(4, "")
	ci := e.addClient(4, "")
	_ = e.cs[ci].cl.Send(4, 1, &message.Query{Query: "USE ks1", Options: &message.QueryOptions{}})
	if f, _ := e.cs[ci].cl.Next(5 * time.Second); f == nil || f.Opcode != byte(primitive.OpCodeResult) {
		panic("c08: USE ks1 failed")
	}
	e.calibrate()
	for _, q := range []string{"SELECT v FROM t WHERE k = ?", "INSERT INTO t (k, v) VALUES (?, 1)"} {
		if !e.prepare(ci, q) {
			continue
		}
		for k := 0; k < 3; k++ {
			e.execute(ci, q, false, "execute:unqualified-table-in-the-client's-keyspace")
		}
		for _, h := range hs {
			e.be.Forget(h)
		}
		for k := 0; k < 3; k++ {
			e.execute(ci, q, k == 2, "execute:unqualified-table-after-every-host-forgot")
		}
	}
}

// c08PayloadAcrossVersions: the statement is prepared WITH a custom payload by a client of one version and executed by
// clients of the others after every host has forgotten it: the proxy re-prepares it from the cached frame on connections
// of each of those versions, of which version 3 cannot carry a payload.
func c08PayloadAcrossVersions(ctx *Ctx) {
	hs := []int{1, 2, 3}
	e := newC08Env(ctx, hs, hs, nil)
	defer e.close()
	e.addClient(4, "")
	preparers := []int{e.addClient(4, ""), e.addClient(5, "lz4"), e.addClient(66, "")}
	executors := []int{e.addClient(3, ""), e.addClient(4, "snappy"), e.addClient(5, ""), e.addClient(3, "lz4")}
	e.calibrate()
	for i, ci := range preparers {
		q := c08Stmts[i]
		e.payloadNext = true
		e.tracedPrepareNext = i == 1
		if !e.prepare(ci, q) {
			continue
		}
		for _, xi := range executors {
			for _, h := range hs {
				e.be.Forget(h)
			}
			e.execute(xi, q, xi == executors[1], "execute:prepared-with-a-custom-payload-by-a-client-of-another-version")
		}
	}
}

func genC08(ctx *Ctx) {
	r := ctx.Rng
	c08Saturated(ctx)
	c08Keyspace(ctx)
	c08SlowCache(ctx)
	c08PayloadAcrossVersions(ctx)
	late := make(chan func(), 1)
	go func() { late <- c08LateHost(ctx) }()

	combos := []struct {
		ver  primitive.ProtocolVersion
		comp string
	}{{4, ""}, {4, "lz4"}, {3, ""}, {5, ""}, {4, "snappy"}, {66, ""}, {5, "lz4"}}
	for round := 0; round < ctx.Scale(6, 160); round++ {
		n := 2 + r.Intn(3)
		var hs []int
		for i := 1; i <= n; i++ {
			hs = append(hs, i)
		}
		traced := round < 2 // the first rounds are recorded step by step and validated by the monitor (Model/Monitor.v)
		if traced {
			proxycore.VerifTraceStart()
		}
		e := newC08Env(ctx, hs, hs, nil)
		e.addClient(4, "") // client 0: probes
		nc := 1 + r.Intn(3)
		if round == 0 {
			// same version and compression everywhere: the plain path
			for i := 0; i < nc; i++ {
				e.addClient(4, "")
			}
		} else {
			// at least two clients that differ in version or compression
			first := r.Intn(len(combos))
			for i := 0; i <= nc; i++ {
				c := combos[(first+i*(1+r.Intn(3)))%len(combos)]
				e.addClient(c.ver, c.comp)
			}
		}
		e.calibrate()
		foreign := "SELECT w FROM ks.t WHERE k = ?"
		e.ids[foreign] = e.be.PrepareEverywhere(foreign)
		for k := 0; k < ctx.Scale(30, 60); k++ {
			ci := 1 + r.Intn(len(e.cs)-1)
			switch x := r.Intn(12); {
			case x < 2:
				q := hv.Pick(r, c08Stmts)
				if !e.prepare(ci, q) {
					// a refused PREPARE is not cached; nothing to check here
					if f := e.probe(); f == 0 {
						e.calibrate()
					}
				}
			case x == 2:
				e.be.Forget(1 + r.Intn(n))
			case x == 3:
				h := 1 + r.Intn(n)
				e.be.StopHost(h, true)
				time.Sleep(30 * time.Millisecond)
				_ = e.be.StartHost(h)
				c08Heal(e, h)
			case x == 4:
				h := 1 + r.Intn(n)
				if e.prepBad[h] {
					e.be.SetHostPrepare(h, nil)
					delete(e.prepBad, h)
				} else {
					if r.Intn(3) == 0 {
						// the host prepares, under another id than the one it reports as unprepared: re-preparation
						// has failed there as well, the request moves on (Model/Reprepare.v)
						e.be.SetHostPrepare(h, &fb.Outcome{Kind: fb.OtherID})
						ctx.Count("host-prepares-under-another-id")
					} else {
						e.be.SetHostPrepare(h, &fb.Outcome{Kind: fb.ErrMsg, Msg: hv.Pick(r, []message.Message{
							&message.ServerError{ErrorMessage: "fb: cannot prepare"}, &message.Overloaded{ErrorMessage: "fb: busy"},
							&message.Invalid{ErrorMessage: "fb: unconfigured table t"}})})
					}
					e.prepBad[h] = true
				}
			case x == 5:
				e.execute(ci, foreign, false, "execute:not-in-proxy-cache")
				if r.Intn(2) == 0 {
					e.be.Forget(1 + r.Intn(n))
				}
			default:
				var have []string
				for _, q := range c08Stmts {
					if e.cached[q] {
						have = append(have, q)
					}
				}
				if len(have) == 0 {
					k--
					e.prepare(ci, hv.Pick(r, c08Stmts))
					continue
				}
				batch := r.Intn(5) == 0
				note := "execute:cached"
				if batch {
					note = "batch:cached"
				}
				e.execute(ci, hv.Pick(r, have), batch, note)
			}
		}
		if traced {
			emitTrace(ctx, false, "traced-run: prepared statements, forgetting and restarting hosts")
		}
		e.close()
	}
	(<-late)()
}

// c08Heal waits until host h serves requests again after a restart.
func c08Heal(e *c08Env, h int) {
	deadline := time.Now().Add(10 * time.Second)
	for time.Now().Before(deadline) {
		if e.be.ReadyConns(h) > 0 {
			// every session needs its pool back: probe until h serves a request of client 0 ...
			for i := 0; i < 4*e.n; i++ {
				if e.plan()[0] == h {
					if e.probe() == h {
						// ... and give the other sessions the same time again
						time.Sleep(60 * time.Millisecond)
						return
					}
					time.Sleep(5 * time.Millisecond)
				} else {
					e.probe()
				}
			}
		}
		time.Sleep(5 * time.Millisecond)
	}
	var tr []int
	for i := 0; i < 6; i++ {
		tr = append(tr, e.probe())
	}
	panic(fmt.Sprintf("C08: host %d did not come back: ready=%d ring=%v cursor=%d probes=%v", h, e.be.ReadyConns(h), e.ring, e.cursor, tr))
}

// c08LateHost: a host joins the cluster after the proxy (and a client session) started.  The
// topology refresh window is ten seconds, so this runs beside the other scenarios and hands
// back a function that emits its cases.
func c08LateHost(ctx *Ctx) func() {
	var buf bytes.Buffer
	sub := &Ctx{Prop: ctx.Prop, Seed: ctx.Seed, Rng: hv.NewRng(ctx.Seed ^ 0x5bd1e995), Tier: ctx.Tier, Thorough: ctx.Thorough,
		w: bufio.NewWriter(&buf), Stats: map[string]int{}}
	e := newC08Env(sub, []int{1, 2, 3}, []int{1, 2}, nil)
	e.addClient(4, "")
	e.addClient(4, "")
	e.calibrate()
	q := c08Stmts[0]
	if !e.prepare(1, q) {
		panic("C08: prepare failed")
	}
	e.be.SetTopology(1, 2, 3)
	e.be.Event(&message.TopologyChangeEvent{ChangeType: primitive.TopologyChangeTypeNewNode, Address: &primitive.Inet{Addr: []byte{127, 0, 0, 1}, Port: int32(e.be.Port)}})
	// wait for the refresh, then until host 3 serves requests
	e.n = 3
	deadline := time.Now().Add(25 * time.Second)
	joined := false
	for time.Now().Before(deadline) && !joined {
		time.Sleep(500 * time.Millisecond)
		for i := 0; i < 4; i++ {
			if e.probe() == 3 {
				joined = true
			}
		}
	}
	if !joined {
		panic("C08: the new host never served a request")
	}
	time.Sleep(200 * time.Millisecond)
	e.calibrate()
	for i := 0; i < 9; i++ {
		e.execute(1, q, i%4 == 3, "execute:host-joined-after-start")
		if i%3 == 2 {
			e.be.Forget(3)
		}
	}
	e.close()
	return func() {
		sub.w.Flush()
		ctx.w.Write(buf.Bytes())
		ctx.N += sub.N
		for k, v := range sub.Stats {
			ctx.Stats[k] += v
		}
	}
}
