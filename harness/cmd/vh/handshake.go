package main

// The proxy's handshake on a BACKEND connection (proxycore.ClientConn.Handshake) driven through the package's public API
// against the fake backend: requested version x versions the backend accepts x authentication mode x credentials x
// registering for events.  Judged by Model/Handshake.v (outcome, negotiated version, the STARTUPs and tokens the backend saw).

import (
	"context"
	"errors"
	"fmt"
	"time"

	"verifharness/fb"
	"verifharness/hv"
	"verifharness/px"

	"github.com/datastax/cql-proxy/proxycore"
	"github.com/datastax/go-cassandra-native-protocol/frame"
	"github.com/datastax/go-cassandra-native-protocol/primitive"
)

func hsPhase(ctx *Ctx) {
	r := ctx.Rng
	prefix, port := px.Alloc()
	be := fb.New(prefix, port)
	if err := be.StartHost(1); err != nil {
		panic(err)
	}
	be.SetTopology(1)
	defer be.Shutdown()
	versions := []byte{3, 4, 5, 65, 66}
	for i := 0; i < ctx.Scale(120, 3000); i++ {
		req := versions[r.Intn(len(versions))]
		var acc []byte
		accept := map[byte]bool{}
		for _, v := range versions {
			if r.Intn(2) == 0 {
				acc = append(acc, v)
				accept[v] = true
			}
		}
		mode := r.Intn(4)
		bu, bp := "user"+fmt.Sprint(r.Intn(3)), "pw"+fmt.Sprint(r.Intn(3))
		user, pass := "", ""
		switch r.Intn(4) {
		case 0: // no credentials configured
		case 1:
			user, pass = bu, "wrong"
		default:
			user, pass = bu, bp
		}
		events := r.Bool()
		be.Lock()
		be.AcceptVersions, be.AuthMode, be.AuthUser, be.AuthPass = accept, mode, bu, bp
		be.Unlock()
		be.ResetLog()
		c, cancel := context.WithTimeout(context.Background(), 5*time.Second)
		cfg := proxycore.ClientConnConfig{}
		if events {
			cfg.Handler = proxycore.EventHandlerFunc(func(*frame.Frame) {})
		}
		cl, err := proxycore.ConnectClient(c, proxycore.NewEndpoint(fmt.Sprintf("%s:%d", be.IP(1), be.Port)), cfg)
		if err != nil {
			panic(err)
		}
		var auth proxycore.Authenticator
		if user != "" {
			auth = proxycore.NewPasswordAuth(user, pass)
		}
		got, herr := cl.Handshake(c, primitive.ProtocolVersion(req), auth)
		code := int64(0)
		var cqlErr *proxycore.CqlError
		var unexp *proxycore.UnexpectedResponse
		switch {
		case herr == nil:
		case errors.Is(herr, proxycore.AuthExpected):
			code = 1
		case errors.As(herr, &cqlErr):
			code = 2
		case errors.As(herr, &unexp):
			code = 3
		default:
			code = 4
			if len(herr.Error()) >= 9 && herr.Error()[:9] == "incorrect" {
				code = 5
			}
		}
		var asked, toks []hv.V
		registered := false
		for _, x := range be.Snapshot() {
			switch x.Kind {
			case "startup":
				asked = append(asked, hv.I(int64(x.Version)))
			case "auth":
				toks = append(toks, hv.B([]byte(x.Token)))
			case "register":
				registered = true
			}
		}
		_ = cl.Close()
		cancel()
		var accV []hv.V
		for _, v := range acc {
			accV = append(accV, hv.I(int64(v)))
		}
		note := fmt.Sprintf("handshake:req%d:mode%d:outcome%d", req, mode, code)
		ctx.Count(fmt.Sprintf("handshake:outcome%d", code))
		ctx.Count(fmt.Sprintf("handshake:mode%d", mode))
		if registered != (events && code == 0) {
			note += ":REGISTER-mismatch"
			code += 100 // REGISTER must be sent exactly when the handshake succeeded on a connection with an event handler
		}
		ctx.Emit(hv.L(hv.I(9), hv.I(int64(req)), hv.L(accV...), hv.I(int64(mode)), hv.B([]byte(user)), hv.B([]byte(pass)), hv.Bool(events), hv.B([]byte(bu)), hv.B([]byte(bp))),
			hv.L(hv.I(code), hv.I(int64(got)), hv.L(asked...), hv.L(toks...)), note)
	}
	be.Lock()
	be.AcceptVersions, be.AuthMode = nil, 0
	be.Unlock()
}
