package main

// C16: (0) the reconnect policy's public API over many base/max configurations; (1) histories
// of peers tables, host stops and restarts through the real proxy -- which hosts receive
// requests afterwards (merges driven by control-connection reconnects, and by topology events
// with the ten-second refresh window); (2) control-connection failover with several hosts down
// at once; (3) the outage clock sampled around outages, and the readiness endpoint of the real
// command; (4) connections whose host stops answering heartbeats.

import (
	"bufio"
	"bytes"
	"context"
	"fmt"
	"net/http"
	"os"
	"sort"
	"sync"
	"time"

	"go.uber.org/zap"

	"verifharness/fb"
	"verifharness/hv"
	"verifharness/px"

	"github.com/datastax/cql-proxy/proxy"
	"github.com/datastax/cql-proxy/proxycore"
	"github.com/datastax/go-cassandra-native-protocol/message"
	"github.com/datastax/go-cassandra-native-protocol/primitive"
)

func init() { props["C16"] = genC16 }

func subCtx(ctx *Ctx, salt uint64) (*Ctx, func()) {
	var buf bytes.Buffer
	sub := &Ctx{Prop: ctx.Prop, Seed: ctx.Seed, Rng: hv.NewRng(ctx.Seed ^ salt), Tier: ctx.Tier, Thorough: ctx.Thorough,
		w: bufio.NewWriter(&buf), Stats: map[string]int{}}
	return sub, func() {
		sub.w.Flush()
		ctx.w.Write(buf.Bytes())
		ctx.N += sub.N
		for k, v := range sub.Stats {
			ctx.Stats[k] += v
		}
	}
}

// ---- (0) backoff calculator ----
func c16Policy(ctx *Ctx) {
	r := ctx.Rng
	type cfg struct{ base, max time.Duration }
	cfgs := []cfg{
		{time.Millisecond, 5 * time.Millisecond}, {200 * time.Millisecond, time.Second}, {time.Second, 2 * time.Minute},
		{2 * time.Second, 10 * time.Minute}, {time.Millisecond, 24 * time.Hour}, {200 * time.Millisecond, time.Hour},
		{1, time.Second}, {1, 1}, {2, 3}, {5 * time.Second, 5 * time.Second}, {3 * time.Hour, 48 * time.Hour},
		{time.Duration(1) << 44, time.Duration(1) << 46}, {time.Duration(1) << 45, time.Duration(1) << 46},
		{time.Duration(1) << 50, time.Duration(1) << 62}, {time.Duration(1) << 61, time.Duration(1)<<62 + 12345},
		{time.Duration(1)<<62 - 1, time.Duration(9223372036854775807)}, {10 * time.Hour, 1000 * time.Hour},
		{500 * time.Millisecond, 600 * time.Millisecond}, {time.Second, time.Second + 50*time.Millisecond},
	}
	for i := 0; i < ctx.Scale(40, 2000); i++ {
		b := time.Duration(1 + r.Next()%(1<<uint(1+r.Intn(61))))
		m := b + time.Duration(r.Next()%(1<<uint(1+r.Intn(61))))
		if m < b {
			m = b
		}
		cfgs = append(cfgs, cfg{b, m})
	}
	for _, c := range cfgs {
		p := proxycore.NewReconnectPolicyWithDelays(c.base, c.max)
		run := func(p proxycore.ReconnectPolicy, n int, note string) {
			var ds, zeros []hv.V
			for i := 0; i < n; i++ {
				ds = append(ds, hv.I(int64(p.NextDelay())))
				zeros = append(zeros, hv.I(0))
			}
			ctx.Emit(hv.L(hv.I(0), hv.I(int64(c.base)), hv.I(int64(c.max)), hv.L(ds...)), hv.L(zeros...), note)
			ctx.Count(note)
		}
		run(p, 70, "policy:from-start")
		p.Reset()
		run(p, 5, "policy:after-reset")
		run(p.Clone(), 3, "policy:clone")
	}
}

// ---- shared environment ----
type c16Env struct {
	be    *fb.Backend
	env   *px.Env
	cl    *px.Client
	hosts []int // started hosts
	seq   int
	tag   string
	ver   primitive.ProtocolVersion // of the probes (0: v4)
}

func newC16Env(tag string, started []int, topo []int, opt func(*proxy.Config)) *c16Env {
	prefix, port := px.Alloc()
	be := fb.New(prefix, port)
	for _, h := range started {
		if err := be.StartHost(h); err != nil {
			panic(err)
		}
	}
	be.SetTopology(topo...)
	cfg := px.DefaultConfig(be)
	cfg.ReconnectPolicy = proxycore.NewReconnectPolicyWithDelays(time.Millisecond, 5*time.Millisecond)
	cfg.ConnectTimeout = 2 * time.Second
	if opt != nil {
		opt(&cfg)
	}
	// setting up is not what is judged: a start that times out on a loaded machine (some families use a connect
	// time-out of 300 ms on purpose) is tried again
	env, err := px.StartProxy(be, cfg)
	for attempt := 0; err != nil && attempt < 5; attempt++ {
		time.Sleep(300 * time.Millisecond)
		env, err = px.StartProxy(be, cfg)
	}
	if err != nil {
		panic(err)
	}
	e := &c16Env{be: be, env: env, hosts: started, tag: tag}
	e.dial()
	return e
}

func (e *c16Env) dial() {
	cl, err := px.Dial(e.env.Addr)
	if err != nil {
		panic(err)
	}
	if err := cl.Startup(primitive.ProtocolVersion4, ""); err != nil {
		panic(err)
	}
	e.cl = cl
}

func (e *c16Env) close() {
	e.cl.Close()
	e.env.Close()
	e.be.Shutdown()
}

// routing: the set of hosts that received one of [n] probes
func (e *c16Env) routing(n int) []int {
	seen := map[int]bool{}
	for i := 0; i < n; i++ {
		e.seq++
		tok := fmt.Sprintf("%sq%d", e.tag, e.seq)
		ver := e.ver
		if ver == 0 {
			ver = primitive.ProtocolVersion4
		}
		_ = e.cl.Send(ver, int16(1+e.seq%100), &message.Query{Query: "SELECT v FROM ks.t WHERE k = 'tok:" + tok + "'", Options: &message.QueryOptions{}})
		f, _ := e.cl.Next(5 * time.Second)
		if f == nil {
			continue
		}
		for _, rec := range e.be.Snapshot() {
			if rec.Token == tok && rec.Kind == "query" {
				seen[hostNum(e.be, rec.Host)] = true
			}
		}
		e.be.ResetLog()
	}
	var out []int
	for h := range seen {
		out = append(out, h)
	}
	sort.Ints(out)
	return out
}

func sameInts(a, b []int) bool {
	if len(a) != len(b) {
		return false
	}
	for i := range a {
		if a[i] != b[i] {
			return false
		}
	}
	return true
}

// settle: probe until the routing equals [want] (or the time is up) and return the last observation
func (e *c16Env) settle(want []int, limit time.Duration) []int {
	deadline := time.Now().Add(limit)
	var got []int
	for {
		got = e.routing(3*len(e.hosts) + 2)
		if sameInts(got, want) {
			// stable? look once more
			time.Sleep(30 * time.Millisecond)
			return e.routing(3*len(e.hosts) + 2)
		}
		if time.Now().After(deadline) {
			return got
		}
		time.Sleep(20 * time.Millisecond)
	}
}

func (e *c16Env) controlHost() int {
	for h, n := range e.be.Registered() {
		if n > 0 {
			return h
		}
	}
	return 0
}

func (e *c16Env) waitControl(limit time.Duration) bool {
	deadline := time.Now().Add(limit)
	for time.Now().Before(deadline) {
		if e.be.ControlReady() > 0 {
			return true
		}
		time.Sleep(2 * time.Millisecond)
	}
	return false
}

func inter(a []int, up map[int]bool) []int {
	var out []int
	for _, h := range a {
		if up[h] {
			out = append(out, h)
		}
	}
	sort.Ints(out)
	return out
}

// ---- (1) peers-table histories, merges driven by control-connection reconnects ----
func c16Tables(ctx *Ctx) {
	r := ctx.Rng
	for round := 0; round < ctx.Scale(3, 120); round++ {
		n := 3 + r.Intn(2)
		var all []int
		for h := 1; h <= n; h++ {
			all = append(all, h)
		}
		table := []int{1}
		for h := 2; h <= n; h++ {
			if r.Intn(2) == 0 {
				table = append(table, h)
			}
		}
		e := newC16Env(fmt.Sprintf("t%dr%d", ctx.Seed%1000, round), all, table, nil)
		up := map[int]bool{}
		for _, h := range all {
			up[h] = true
		}
		initial := append([]int{}, table...)
		var steps, outs []hv.V
		for k := 0; k < ctx.Scale(6, 12); k++ {
			switch r.Intn(4) {
			case 0:
				// a host stops or comes back (never the last one standing)
				h := 1 + r.Intn(n)
				if up[h] {
					cnt := 0
					for _, x := range table {
						if up[x] && x != h {
							cnt++
						}
					}
					if cnt == 0 {
						continue
					}
					e.be.StopHost(h, false)
					up[h] = false
				} else {
					_ = e.be.StartHost(h)
					up[h] = true
				}
			default:
				// a new peers table (possibly replacing nodes: same size, different members),
				// picked up when the control connection is re-established
				var t []int
				for _, h := range all {
					if r.Intn(2) == 0 {
						t = append(t, h)
					}
				}
				anyUp := false
				for _, h := range t {
					anyUp = anyUp || up[h]
				}
				if !anyUp {
					continue
				}
				table = t
				e.be.SetTopology(table...)
				e.be.DropRegistered()
			}
			time.Sleep(10 * time.Millisecond)
			if !e.waitControl(8 * time.Second) {
				// reported through the routing observation below (the merge never happened)
				ctx.Count("tables:control-connection-did-not-come-back")
			}
			// the host the control connection is on always lists itself
			eff := append([]int{}, table...)
			if c := e.controlHost(); c != 0 {
				found := false
				for _, h := range eff {
					found = found || h == c
				}
				if !found {
					eff = append(eff, c)
				}
			}
			sort.Ints(eff)
			table = eff
			e.be.SetTopology(table...)
			var upl []int
			for _, h := range all {
				if up[h] {
					upl = append(upl, h)
				}
			}
			got := e.settle(inter(eff, up), 4*time.Second)
			steps = append(steps, hv.L(intsV(eff), intsV(upl)))
			outs = append(outs, intsV(got))
		}
		ctx.Emit(hv.L(hv.I(1), intsV(initial), hv.L(steps...)), hv.L(outs...), fmt.Sprintf("tables:reconnect-driven %d hosts", n))
		ctx.Count("tables:reconnect-driven")
		e.close()
	}
}

// ---- (1b) the same, driven by topology events and the refresh window (ten seconds) ----
func c16EventDriven(ctx *Ctx, variant int) {
	all := []int{1, 2, 3, 4}
	initial := []int{1, 2}
	e := newC16Env(fmt.Sprintf("e%dv%d", ctx.Seed%1000, variant), all, initial, nil)
	defer e.close()
	up := map[int]bool{1: true, 2: true, 3: true, 4: true}
	upl := all
	var steps, outs []hv.V
	var chain [][]int
	dropControlAfterFirst := false
	switch variant {
	case 0:
		chain = [][]int{{1, 2, 3}, {1, 3}} // a node joins; later one leaves
	case 2:
		// a node joins, the control connection is lost inside the refresh window (its host is bounced), the proxy fails
		// over; a later topology change must still be followed
		chain = [][]int{{1, 2, 3}, {1, 2, 3, 4}}
		dropControlAfterFirst = true
	default:
		chain = [][]int{{1, 3, 4}} // a node is replaced and another joins inside one window
	}
	for _, t := range chain {
		e.be.SetTopology(t...)
		e.be.Event(&message.TopologyChangeEvent{ChangeType: primitive.TopologyChangeTypeNewNode, Address: &primitive.Inet{Addr: []byte{127, 0, 0, 9}, Port: int32(e.be.Port)}})
		if dropControlAfterFirst && len(steps) == 0 {
			time.Sleep(300 * time.Millisecond)
			e.be.DropRegistered()
			e.waitControl(5 * time.Second)
		}
		got := e.settle(inter(t, up), 14*time.Second)
		steps = append(steps, hv.L(intsV(t), intsV(upl)))
		outs = append(outs, intsV(got))
	}
	ctx.Emit(hv.L(hv.I(1), intsV(initial), hv.L(steps...)), hv.L(outs...), fmt.Sprintf("tables:event-driven variant %d", variant))
	ctx.Count("tables:event-driven")
}

// ---- (1c) a session that is being created while a host leaves; the host comes back later.  Every session keeps its
// own table of pools, filled by a goroutine per host when the session is born and by add/remove events afterwards. ----
func c16SessionBornDuringRemoval(ctx *Ctx) {
	for round := 0; round < ctx.Scale(1, 16); round++ {
		all := []int{1, 2, 3}
		e := newC16Env(fmt.Sprintf("b%dr%d", ctx.Seed%1000, round), all, all, nil)
		if !e.waitControl(5 * time.Second) {
			ctx.Count("born-during-removal:no-control-connection")
		}
		// the leaver is neither the host the control connection is on nor the one it fails over to next (a host always
		// lists itself)
		c := e.controlHost()
		if c == 0 {
			c = 1
		}
		leaver := 6 - c - (c%3 + 1)
		stay := []int{1, 2, 3}
		stay = append(stay[:leaver-1], stay[leaver:]...)
		// connections to the leaver take 700 ms to start up from now on: a session born now is still connecting its pool
		// for that host when the removal is announced
		e.be.SetSlowStartupHost(leaver, 700*time.Millisecond)
		cl, err := px.Dial(e.env.Addr)
		if err != nil {
			panic(err)
		}
		if err := cl.Startup(primitive.ProtocolVersion3, ""); err != nil {
			panic(err)
		}
		// the first request of a client with another protocol version creates a session
		_ = cl.Send(primitive.ProtocolVersion3, 1, &message.Query{Query: "SELECT v FROM ks.t WHERE k = 'tok:" + e.tag + "first'", Options: &message.QueryOptions{}})
		time.Sleep(120 * time.Millisecond)
		t0 := time.Now()
		e.be.SetTopology(stay...)
		e.be.DropRegistered() // the control connection reconnects and merges the new table
		e.waitControl(5 * time.Second)
		if os.Getenv("VH_DEBUG") != "" {
			fmt.Fprintf(os.Stderr, "DEBUG born: control back after %v\n", time.Since(t0))
		}
		if f, _ := cl.Next(5 * time.Second); f == nil {
			ctx.Count("born-during-removal:first-request-unanswered")
		}
		if os.Getenv("VH_DEBUG") != "" {
			fmt.Fprintf(os.Stderr, "DEBUG born: first reply after %v\n", time.Since(t0))
		}
		if e.controlHost() == leaver {
			ctx.Count("born-during-removal:control-connection-moved-to-the-leaver(skipped)")
			cl.Close()
			e.close()
			continue
		}
		if os.Getenv("VH_DEBUG") != "" {
			for _, x := range e.be.Snapshot() {
				fmt.Fprintf(os.Stderr, "DEBUG born: %s %s conn=%d v=%d\n", x.Kind, x.Host, x.ConnID, x.Version)
			}
			fmt.Fprintf(os.Stderr, "DEBUG born: leaver=%d control=%d\n", leaver, e.controlHost())
		}
		e.be.ResetLog()
		old := e.cl
		e.cl, e.ver = cl, primitive.ProtocolVersion3
		var steps, outs []hv.V
		got := e.settle(stay, 4*time.Second)
		steps = append(steps, hv.L(intsV(stay), intsV(all)))
		outs = append(outs, intsV(got))
		// the host comes back (and starts up quickly again)
		e.be.SetSlowStartupHost(leaver, 0)
		e.be.SetTopology(all...)
		e.be.DropRegistered()
		e.waitControl(5 * time.Second)
		got = e.settle(all, 4*time.Second)
		if os.Getenv("VH_DEBUG") != "" {
			fmt.Fprintf(os.Stderr, "DEBUG born: after return: routing %v control=%d\n", got, e.controlHost())
		}
		steps = append(steps, hv.L(intsV(all), intsV(all)))
		outs = append(outs, intsV(got))
		ctx.Emit(hv.L(hv.I(1), intsV(all), hv.L(steps...)), hv.L(outs...), "tables:session-born-while-a-host-leaves-and-the-host-returns")
		ctx.Count("tables:session-born-during-removal")
		old.Close()
		e.close()
	}
}

// ---- (1d) the pool table of a session against Model/Pool.v: a session is born while its bootstrap goroutines are slow
// (per-host STARTUP delays for the session's protocol version only, so the control connection is never slowed down) and
// the peers table changes twice meanwhile.  Observed: the table itself (hook VerifSessionPools) and the routing. ----
func c16PoolTable(ctx *Ctx) {
	r := ctx.Rng
	all := []int{1, 2, 3, 4}
	for round := 0; round < ctx.Scale(2, 40); round++ {
		t0 := []int{1}
		for h := 2; h <= 4; h++ {
			if r.Intn(3) != 0 {
				t0 = append(t0, h)
			}
		}
		e := newC16Env(fmt.Sprintf("p%dr%d", ctx.Seed%1000, round), all, t0, nil)
		e.waitControl(5 * time.Second)
		withControl := func(t []int) []int {
			eff := append([]int{}, t...)
			if c := e.controlHost(); c != 0 {
				found := false
				for _, h := range eff {
					found = found || h == c
				}
				if !found {
					eff = append(eff, c)
				}
			}
			sort.Ints(eff)
			return eff
		}
		eff := withControl(t0)
		e.be.SetTopology(eff...)
		// delays of the session's own connections, per host
		delay := map[int]int{}
		e.be.SlowStartupVersion = 3
		for _, h := range all {
			delay[h] = []int{0, 500, 1000}[r.Intn(3)]
			e.be.SetSlowStartupHost(h, time.Duration(delay[h])*time.Millisecond)
		}
		type tev struct {
			at   int // ms after birth
			kind int64
			h    int
		}
		var timeline []tev
		for _, h := range eff {
			timeline = append(timeline, tev{delay[h] + 1, 1, h}) // its bootstrap goroutine stores
		}
		boot := append([]int{}, eff...)
		cl, err := px.Dial(e.env.Addr)
		if err != nil {
			panic(err)
		}
		if err := cl.Startup(primitive.ProtocolVersion3, ""); err != nil {
			panic(err)
		}
		born := time.Now()
		_ = cl.Send(primitive.ProtocolVersion3, 1, &message.Query{Query: "SELECT v FROM ks.t WHERE k = 'tok:" + e.tag + "first'", Options: &message.QueryOptions{}})
		for _, at := range []int{250, 750} {
			time.Sleep(time.Until(born.Add(time.Duration(at) * time.Millisecond)))
			var t []int
			for _, h := range all {
				if r.Intn(2) == 0 {
					t = append(t, h)
				}
			}
			e.be.SetTopology(t...)
			e.be.DropRegistered()
			e.waitControl(5 * time.Second)
			next := withControl(t)
			e.be.SetTopology(next...)
			in := func(l []int, h int) bool {
				for _, x := range l {
					if x == h {
						return true
					}
				}
				return false
			}
			for _, h := range next {
				if !in(eff, h) {
					timeline = append(timeline, tev{at, 2, h})
				}
			}
			for _, h := range eff {
				if !in(next, h) {
					timeline = append(timeline, tev{at, 3, h})
				}
			}
			eff = next
		}
		time.Sleep(time.Until(born.Add(1400 * time.Millisecond)))
		if f, _ := cl.Next(5 * time.Second); f == nil {
			ctx.Count("pool-table:first-request-unanswered")
		}
		for _, h := range all {
			e.be.SetSlowStartupHost(h, 0)
		}
		time.Sleep(150 * time.Millisecond)
		pools := proxy.VerifSessionPools(e.env.Proxy, primitive.ProtocolVersion3, "", "")
		sort.SliceStable(timeline, func(i, j int) bool { return timeline[i].at < timeline[j].at })
		bootV := []hv.V{hv.I(0)}
		for _, h := range boot {
			bootV = append(bootV, hv.I(int64(h)))
		}
		evs := []hv.V{hv.L(bootV...)}
		for _, t := range timeline {
			evs = append(evs, hv.L(hv.I(t.kind), hv.I(int64(t.h))))
		}
		var bits []hv.V
		for _, h := range all {
			alive, present := pools[fmt.Sprintf("%s:%d", e.be.IP(h), e.be.Port)]
			b := int64(0)
			if present && alive {
				b = 1
			}
			bits = append(bits, hv.I(b))
		}
		ctx.Emit(hv.L(hv.I(7), hv.L(evs...), intsV(all)), hv.L(bits...), fmt.Sprintf("pool-table: %d events", len(evs)))
		ctx.Count("pool-table:history")
		if pools == nil {
			ctx.Count("pool-table:no-session")
		}
		// and the routing of that session
		old := e.cl
		e.cl, e.ver = cl, primitive.ProtocolVersion3
		got := e.settle(eff, 4*time.Second)
		ctx.Emit(hv.L(hv.I(1), intsV(boot), hv.L(hv.L(intsV(eff), intsV(all)))), hv.L(intsV(got)), "tables:session-born-while-the-table-changes-twice")
		old.Close()
		e.close()
	}
}

// ---- (1e) leastBusyConn on constructed slots ----
func c16LeastBusy(ctx *Ctx) {
	r := ctx.Rng
	for i := 0; i < ctx.Scale(150, 5000); i++ {
		n := r.Intn(7)
		sl := make([]int32, n)
		var vs []hv.V
		for j := range sl {
			switch r.Intn(5) {
			case 0:
				sl[j] = -1
			case 1:
				sl[j] = int32(r.Intn(3))
			default:
				sl[j] = int32(r.Intn(2048))
			}
			if r.Intn(40) == 0 {
				sl[j] = 2147483646
			}
			vs = append(vs, hv.I(int64(sl[j])))
		}
		ctx.Emit(hv.L(hv.I(6), hv.L(vs...)), hv.L(hv.I(int64(proxycore.VerifLeastBusy(sl)))), "least-busy")
		ctx.Count(fmt.Sprintf("least-busy:%d-slots", n))
	}
}

// ---- (4c) heartbeat schedules against Model/Heartbeat.v: ClientConn.Heartbeats driven through the public API; every
// heartbeat is answered as scripted (SUPPORTED in time, SUPPORTED too late, an error frame, nothing).  The times are on a
// coarse grid so that every decision of the loop has at least 75 ms of margin; a run whose heartbeats did not arrive on
// that grid (a loaded machine) is not judged. ----
func c16HeartbeatSchedule(ctx *Ctx) {
	const interval, idle, ctimeout, step = 300, 1275, 450, 150 // ms
	type beat struct{ kind, delay int }
	var wg sync.WaitGroup
	var mu sync.Mutex
	r := ctx.Rng
	for cs := 0; cs < ctx.Scale(10, 240); cs++ {
		healthy := cs%5 == 4
		var script []beat
		for i := 0; i < 3+r.Intn(6); i++ {
			switch k := r.Intn(8); {
			case healthy || k < 4:
				script = append(script, beat{0, step * r.Intn(2)})
			case k == 4:
				script = append(script, beat{0, ctimeout + step}) // SUPPORTED, but after the request has timed out
			case k < 7:
				script = append(script, beat{1, step * r.Intn(2)})
			default:
				script = append(script, beat{2, 0})
			}
		}
		full := append([]beat{}, script...)
		if !healthy {
			for i := 0; i < idle/interval+3; i++ {
				full = append(full, beat{2, 0})
			}
		}
		wg.Add(1)
		go func(cs int, script, full []beat, healthy bool) {
			defer wg.Done()
			prefix, port := px.Alloc()
			be := fb.New(prefix, port)
			if err := be.StartHost(1); err != nil {
				panic(err)
			}
			be.SetTopology(1)
			defer be.Shutdown()
			c, cancel := context.WithTimeout(context.Background(), 60*time.Second)
			defer cancel()
			cl, err := proxycore.ConnectClient(c, proxycore.NewEndpoint(fmt.Sprintf("%s:%d", be.IP(1), be.Port)), proxycore.ClientConnConfig{})
			if err != nil {
				panic(err)
			}
			if _, err := cl.Handshake(c, primitive.ProtocolVersion4, nil); err != nil {
				panic(err)
			}
			var outs []fb.Outcome
			for _, b := range full {
				switch b.kind {
				case 0:
					outs = append(outs, fb.Outcome{Kind: fb.ErrMsg, Msg: &message.Supported{Options: map[string][]string{"CQL_VERSION": {"3.4.5"}}}, Delay: time.Duration(b.delay) * time.Millisecond})
				case 1:
					outs = append(outs, fb.Outcome{Kind: fb.ErrMsg, Msg: &message.ServerError{ErrorMessage: "scripted"}, Delay: time.Duration(b.delay) * time.Millisecond})
				default:
					outs = append(outs, fb.Outcome{Kind: fb.Silence})
				}
			}
			be.QueueOptionsReplies(outs...)
			var amu sync.Mutex
			var arrivals []time.Time
			be.OnFrame = func(x *fb.Rec) {
				if x.Kind == "options" {
					amu.Lock()
					arrivals = append(arrivals, time.Now())
					amu.Unlock()
				}
			}
			t0 := time.Now()
			go cl.Heartbeats(ctimeout*time.Millisecond, primitive.ProtocolVersion4, interval*time.Millisecond, idle*time.Millisecond, zap.NewNop())
			closed, at := false, int64(0)
			limit := time.Duration(len(full)*(interval+ctimeout)+idle+3000) * time.Millisecond
			if healthy {
				// watch until the last scripted heartbeat has been answered
				limit = 0
				for _, b := range script {
					limit += time.Duration(interval+b.delay) * time.Millisecond
				}
				limit += 60 * time.Millisecond
			}
			select {
			case <-cl.IsClosed():
				closed, at = true, int64(time.Since(t0)/time.Millisecond)
			case <-time.After(limit):
			}
			_ = cl.Close()
			// were the heartbeats on the grid?
			amu.Lock()
			disturbed := false
			expect := t0.Add(interval * time.Millisecond)
			for i, a := range arrivals {
				if i >= len(full) {
					break
				}
				if d := a.Sub(expect); d > 35*time.Millisecond || d < -35*time.Millisecond {
					disturbed = true
				}
				took := ctimeout
				if full[i].kind != 2 && full[i].delay < ctimeout {
					took = full[i].delay
				}
				expect = a.Add(time.Duration(took+interval) * time.Millisecond)
			}
			amu.Unlock()
			mu.Lock()
			defer mu.Unlock()
			if disturbed {
				ctx.Count("heartbeat-schedule:timing-disturbed(not judged)")
				return
			}
			var bv []hv.V
			for _, b := range script {
				bv = append(bv, hv.L(hv.I(int64(b.kind)), hv.I(int64(b.delay))))
			}
			if !healthy {
				for i := len(script); i < len(full); i++ {
					bv = append(bv, hv.L(hv.I(2), hv.I(0)))
				}
			}
			note := "heartbeat-schedule:ends-silent"
			if healthy {
				note = "heartbeat-schedule:healthy"
			}
			ctx.Count(note)
			ctx.Emit(hv.L(hv.I(8), hv.I(interval), hv.I(idle), hv.I(ctimeout), hv.L(bv...), hv.I(45), hv.Bool(closed), hv.I(at)), hv.L(hv.I(0)), note)
		}(cs, script, full, healthy)
		if cs%12 == 11 {
			wg.Wait()
		}
	}
	wg.Wait()
}

// ---- (2) failover with several hosts down at once, (3) outage samples ----
func c16Failover(ctx *Ctx) {
	r := ctx.Rng
	for round := 0; round < ctx.Scale(4, 120); round++ {
		n := 3 + r.Intn(2)
		var all []int
		for h := 1; h <= n; h++ {
			all = append(all, h)
		}
		e := newC16Env(fmt.Sprintf("f%dr%d", ctx.Seed%1000, round), all, all, nil)
		start := time.Now()
		ms := func() int64 { return int64(time.Since(start) / time.Millisecond) }
		var evs, samples []hv.V
		sample := func() {
			d := e.env.Proxy.OutageDuration()
			evs = append(evs, hv.L(hv.I(2), hv.I(ms())))
			if d == 0 {
				samples = append(samples, hv.I(0))
			} else {
				samples = append(samples, hv.I(1))
			}
		}
		for k := 0; k < ctx.Scale(3, 6); k++ {
			c := e.controlHost()
			if c == 0 {
				break // already reported by the failover case that got no control connection
			}
			sample()
			// the control host goes down together with a random set of others (often its successor)
			down := map[int]bool{c: true}
			if r.Intn(3) != 0 {
				down[c%n+1] = true
			}
			for _, h := range all {
				if r.Intn(4) == 0 {
					down[h] = true
				}
			}
			if len(down) == n {
				for _, h := range all {
					if h != c {
						delete(down, h)
						break
					}
				}
			}
			var wg sync.WaitGroup
			for h := range down {
				wg.Add(1)
				go func(h int) { defer wg.Done(); e.be.StopHost(h, false) }(h)
			}
			wg.Wait()
			evs = append(evs, hv.L(hv.I(0), hv.I(ms())))
			var upl []int
			for _, h := range all {
				if !down[h] {
					upl = append(upl, h)
				}
			}
			got := 0
			if e.waitControl(6 * time.Second) {
				got = e.controlHost()
				evs = append(evs, hv.L(hv.I(1)))
			}
			time.Sleep(5 * time.Millisecond)
			sample()
			ctx.Emit(hv.L(hv.I(2), intsV(all), intsV(upl), hv.I(int64(c-1))), hv.L(hv.I(int64(got))), fmt.Sprintf("failover: control on %d, down %v", c, keysOf(down)))
			ctx.Count("failover")
			for h := range down {
				_ = e.be.StartHost(h)
			}
			if got == 0 {
				e.waitControl(6 * time.Second)
			}
			e.settle(all, 4*time.Second)
		}
		// a complete outage: every host down, then back
		for _, h := range all {
			e.be.StopHost(h, false)
		}
		evs = append(evs, hv.L(hv.I(0), hv.I(ms())))
		time.Sleep(60 * time.Millisecond)
		sample()
		time.Sleep(40 * time.Millisecond)
		sample()
		for _, h := range all {
			_ = e.be.StartHost(h)
		}
		if e.waitControl(6 * time.Second) {
			evs = append(evs, hv.L(hv.I(1)))
		}
		time.Sleep(10 * time.Millisecond)
		sample()
		ctx.Emit(hv.L(hv.I(3), hv.L(evs...)), hv.L(samples...), "outage:samples")
		ctx.Count("outage:samples")
		e.close()
	}
}

func keysOf(m map[int]bool) []int {
	var out []int
	for k := range m {
		out = append(out, k)
	}
	sort.Ints(out)
	return out
}

// ---- (3b) the readiness endpoint of the real command ----
func c16Readiness(ctx *Ctx) {
	prefix, port := px.Alloc()
	be := fb.New(prefix, port)
	for h := 1; h <= 2; h++ {
		if err := be.StartHost(h); err != nil {
			panic(err)
		}
	}
	be.SetTopology(1, 2)
	defer be.Shutdown()
	cctx, cancel := context.WithCancel(context.Background())
	defer cancel()
	httpAddr := fmt.Sprintf("%s201:%d", prefix, port+1)
	go proxy.Run(cctx, []string{"--contact-points", be.IP(1), "--port", fmt.Sprint(port), "--bind", fmt.Sprintf("%s201:%d", prefix, port+2),
		"--health-check", "--http-bind", httpAddr, "--readiness-timeout", "400ms"})
	get := func() int {
		resp, err := (&http.Client{Timeout: 2 * time.Second}).Get("http://" + httpAddr + "/readiness")
		if err != nil {
			return -1
		}
		resp.Body.Close()
		return resp.StatusCode
	}
	start := time.Now()
	ms := func() int64 { return int64(time.Since(start) / time.Millisecond) }
	deadline := time.Now().Add(10 * time.Second)
	for get() != 200 && time.Now().Before(deadline) {
		time.Sleep(20 * time.Millisecond)
	}
	var evs, samples []hv.V
	sample := func() {
		evs = append(evs, hv.L(hv.I(5), hv.I(ms())))
		switch get() {
		case 200:
			samples = append(samples, hv.I(0))
		case 503:
			samples = append(samples, hv.I(1))
		default:
			samples = append(samples, hv.I(9))
		}
	}
	sample()
	be.StopHost(1, false)
	be.StopHost(2, false)
	evs = append(evs, hv.L(hv.I(0), hv.I(ms())))
	time.Sleep(100 * time.Millisecond)
	sample() // outage shorter than the readiness timeout: still ready
	time.Sleep(500 * time.Millisecond)
	sample() // longer: not ready
	_ = be.StartHost(1)
	_ = be.StartHost(2)
	deadline = time.Now().Add(15 * time.Second)
	for be.ControlReady() == 0 && time.Now().Before(deadline) {
		time.Sleep(20 * time.Millisecond)
	}
	evs = append(evs, hv.L(hv.I(1)))
	time.Sleep(30 * time.Millisecond)
	sample()
	ctx.Emit(hv.L(hv.I(4), hv.I(400), hv.L(evs...)), hv.L(samples...), "readiness:http")
	ctx.Count("readiness:http")
}

// ---- (4) a host that stops answering heartbeats ----
func c16Heartbeat(ctx *Ctx) {
	all := []int{1, 2, 3}
	idle := 400 * time.Millisecond
	e := newC16Env(fmt.Sprintf("h%d", ctx.Seed%1000), all, all, func(c *proxy.Config) {
		c.HeartBeatInterval = 50 * time.Millisecond
		c.IdleTimeout = idle
		c.ConnectTimeout = 300 * time.Millisecond
	})
	defer e.close()
	for _, h := range []int{2, 3} {
		before := e.be.ReadyConns(h)
		e.be.Mute(h, true)
		t0 := time.Now()
		if h == 3 {
			// ... with requests in flight on the silent host's connection (a connection that has work outstanding is not
			// thereby alive): another client sends a few requests, one of which the round robin hands to the silent host
			if busy, err := px.Dial(e.env.Addr); err == nil {
				defer busy.Close()
				if busy.Startup(primitive.ProtocolVersion4, "") == nil {
					for k := 0; k < 4; k++ {
						_ = busy.Send(primitive.ProtocolVersion4, int16(10+k), &message.Query{Query: fmt.Sprintf("SELECT v FROM ks.t WHERE k = 'tok:%sbusy%d'", e.tag, k), Options: &message.QueryOptions{}})
					}
					ctx.Count("heartbeat:requests-in-flight-on-the-silent-host")
				}
			}
		}
		closed := false
		for time.Since(t0) < idle+2*time.Second {
			if e.be.ReadyConns(h) == 0 {
				closed = true
				break
			}
			time.Sleep(5 * time.Millisecond)
		}
		took := time.Since(t0)
		// requests keep being served by the others meanwhile
		served := e.routing(6)
		e.be.Mute(h, false)
		healed := sameInts(e.settle(all, 5*time.Second), all)
		ctx.Emit(hv.L(hv.I(5), hv.I(int64(idle/time.Millisecond)), hv.I(int64(before))),
			hv.L(hv.Bool(closed && took >= idle-100*time.Millisecond), hv.Bool(len(served) > 0), hv.Bool(healed)),
			fmt.Sprintf("heartbeat: host %d muted, connections closed after %v, served by %v meanwhile", h, took.Round(time.Millisecond), served))
		ctx.Count("heartbeat")
	}
}

// ---- (4b) the same for connections that replaced lost ones, and for the pool of a host that joined later ----
func c16HeartbeatReplaced(ctx *Ctx) {
	all := []int{1, 2, 3, 4}
	idle := 400 * time.Millisecond
	e := newC16Env(fmt.Sprintf("r%d", ctx.Seed%1000), all, []int{1, 2, 3}, func(c *proxy.Config) {
		c.HeartBeatInterval = 50 * time.Millisecond
		c.IdleTimeout = idle
		c.ConnectTimeout = 300 * time.Millisecond
	})
	defer e.close()
	waitConns := func(h int, limit time.Duration) bool {
		deadline := time.Now().Add(limit)
		for time.Now().Before(deadline) {
			if e.be.ReadyConns(h) > 0 {
				return true
			}
			time.Sleep(5 * time.Millisecond)
		}
		return false
	}
	muteAndWatch := func(h int, how string, hostsNow []int) {
		before := e.be.ReadyConns(h)
		e.be.Mute(h, true)
		t0 := time.Now()
		closed := false
		for time.Since(t0) < idle+2*time.Second {
			if e.be.ReadyConns(h) == 0 {
				closed = true
				break
			}
			time.Sleep(5 * time.Millisecond)
		}
		took := time.Since(t0)
		served := e.routing(6)
		e.be.Mute(h, false)
		healed := sameInts(e.settle(hostsNow, 5*time.Second), hostsNow)
		ctx.Emit(hv.L(hv.I(5), hv.I(int64(idle/time.Millisecond)), hv.I(int64(before))),
			hv.L(hv.Bool(closed && took >= idle-100*time.Millisecond), hv.Bool(len(served) > 0), hv.Bool(healed)),
			fmt.Sprintf("heartbeat: host %d (%s) muted, connections closed after %v, served by %v meanwhile", h, how, took.Round(time.Millisecond), served))
		ctx.Count("heartbeat:" + how)
	}
	// a connection that replaced a lost one
	e.be.DropConns(2)
	time.Sleep(100 * time.Millisecond)
	if waitConns(2, 5*time.Second) {
		e.settle([]int{1, 2, 3}, 3*time.Second)
		muteAndWatch(2, "replacement-connection", []int{1, 2, 3})
	}
	// the pool of a host that joined after start-up (merge driven by a control-connection reconnect)
	e.be.SetTopology(1, 2, 3, 4)
	e.be.DropRegistered()
	e.waitControl(5 * time.Second)
	if sameInts(e.settle(all, 8*time.Second), all) {
		muteAndWatch(4, "host-added-after-start-up", all)
	} else {
		ctx.Emit(hv.L(hv.I(5), hv.I(int64(idle/time.Millisecond)), hv.I(0)), hv.L(hv.Bool(false), hv.Bool(false), hv.Bool(false)), "heartbeat: the host added after start-up never received requests")
	}
}

func genC16(ctx *Ctx) {
	var fins []func()
	var wg sync.WaitGroup
	par := func(salt uint64, f func(*Ctx)) {
		sub, fin := subCtx(ctx, salt)
		fins = append(fins, fin)
		wg.Add(1)
		go func() { defer wg.Done(); f(sub) }()
	}
	par(1, func(c *Ctx) { c16EventDriven(c, 0) })
	par(2, func(c *Ctx) { c16EventDriven(c, 1) })
	par(5, func(c *Ctx) { c16EventDriven(c, 2) })
	par(6, c16HeartbeatReplaced)
	par(7, c16SessionBornDuringRemoval)
	par(8, c16PoolTable)
	par(9, c16HeartbeatSchedule)
	c16LeastBusy(ctx)
	par(3, c16Readiness)
	par(4, c16Heartbeat)
	c16Policy(ctx)
	c16Tables(ctx)
	c16Failover(ctx)
	wg.Wait()
	for _, f := range fins {
		f()
	}
}
