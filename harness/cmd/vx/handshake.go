package main

// The downgrade chain of proxycore ClientConn.handshake: the switch on `version` inside the branch for "Invalid or
// unsupported protocol version" errors.  Emitted as a table (version -> next version, or stop) plus what the default
// clause does; Proofs/HandshakeGen.v proves the hand-written `downgrade` of Model/Handshake.v equal to it for every byte.

import (
	"fmt"
	"go/ast"
	"go/token"
	"strings"
)

func downgradeChain(l *loaded, sb *strings.Builder) {
	fd, p := l.funcDecl("proxycore", "ClientConn", "handshake")
	if fd == nil || fd.Body == nil {
		decline("handshake_downgrade", "proxycore ClientConn.handshake not found")
		return
	}
	var sw *ast.SwitchStmt
	ast.Inspect(fd.Body, func(n ast.Node) bool {
		if s, ok := n.(*ast.SwitchStmt); ok {
			if id, ok := s.Tag.(*ast.Ident); ok && id.Name == "version" {
				sw = s
			}
		}
		return true
	})
	if sw == nil {
		decline("handshake_downgrade", "no `switch version` in handshake")
		return
	}
	type row struct {
		from int64
		to   string
	}
	var rows []row
	def := ""
	// the effect of a clause body: "Some n" (version = n; continue), "dec" (version--; continue), "None" (falls out of the switch)
	effect := func(body []ast.Stmt) (string, bool) {
		if len(body) == 0 {
			return "None", true
		}
		if len(body) != 2 {
			return "", false
		}
		br, ok := body[1].(*ast.BranchStmt)
		if !ok || br.Tok != token.CONTINUE {
			return "", false
		}
		switch s := body[0].(type) {
		case *ast.AssignStmt:
			if len(s.Lhs) == 1 && len(s.Rhs) == 1 && s.Tok == token.ASSIGN {
				if id, ok := s.Lhs[0].(*ast.Ident); ok && id.Name == "version" {
					if v, ok := constInt(p, s.Rhs[0]); ok {
						return fmt.Sprintf("Some %d%%N", v), true
					}
				}
			}
		case *ast.IncDecStmt:
			if id, ok := s.X.(*ast.Ident); ok && id.Name == "version" && s.Tok == token.DEC {
				return "dec", true
			}
		}
		return "", false
	}
	clauses := sw.Body.List
	for i, c := range clauses {
		cc := c.(*ast.CaseClause)
		body := cc.Body
		e, ok := effect(body)
		if !ok {
			decline("handshake_downgrade", "a clause of `switch version` is not `version = K; continue`, `version--; continue` or empty")
			return
		}
		_ = i
		if cc.List == nil {
			def = e
			continue
		}
		for _, x := range cc.List {
			v, ok := constInt(p, x)
			if !ok {
				decline("handshake_downgrade", "a case of `switch version` is not a constant")
				return
			}
			rows = append(rows, row{v, e})
		}
	}
	if def != "dec" {
		decline("handshake_downgrade", "the default clause of `switch version` is not `version--; continue`")
		return
	}
	sb.WriteString("(* proxycore ClientConn.handshake, `switch version` under \"Invalid or unsupported protocol version\": version -> the version tried next\n   (None: the error is returned); the default clause decrements the version byte *)\n")
	sb.WriteString("Definition handshake_downgrade_table : list (N * option N) :=\n  [")
	for i, r := range rows {
		if i > 0 {
			sb.WriteString("; ")
		}
		to := r.to
		if to == "dec" {
			to = fmt.Sprintf("Some %d%%N", (r.from+255)%256)
		}
		fmt.Fprintf(sb, "(%d%%N, %s)", r.from, to)
	}
	sb.WriteString("].\n\n")
}
