package main

// Translation of the four defaultRetryPolicy methods (proxy/retrypolicy.go) to Gallina.
// Subset: a body made of `x := msg.GetErrorCode()` assignments followed by
// `if cond { return A } else { return B }` (or `if cond { return A }; return B`), where cond is
// built from && || ! == != < <= > >=, integer/string constants, the parameter retryCount and
// selectors on the message parameter.  Anything else declines the method.

import (
	"fmt"
	"go/ast"
	"go/token"
	"go/types"
	"strings"

	"golang.org/x/tools/go/packages"
)

type polTr struct {
	p      *packages.Package
	msg    string            // name of the message parameter ("" if blank)
	locals map[string]string // local variable -> Coq expression
	err    string
}

var msgFields = map[string]string{
	"Received": "e_received m", "BlockFor": "e_blockFor m", "DataPresent": "e_dataPresent m",
	"WriteType": "e_writeType m", "Alive": "e_alive m", "Required": "e_required m",
	"NumFailures": "e_numFailures m", "Consistency": "e_consistency m",
}

func (t *polTr) fail(f string, a ...interface{}) string {
	if t.err == "" {
		t.err = fmt.Sprintf(f, a...)
	}
	return "false"
}

func (t *polTr) isString(e ast.Expr) bool {
	if tv, ok := t.p.TypesInfo.Types[e]; ok && tv.Type != nil {
		if b, ok := tv.Type.Underlying().(*types.Basic); ok {
			return b.Info()&types.IsString != 0
		}
	}
	return false
}

// value translates an integer- or string-valued expression.
func (t *polTr) value(e ast.Expr) string {
	if s, ok := constStr(t.p, e); ok {
		return "(" + bytesLit(s) + "%N : list N)"
	}
	if v, ok := constInt(t.p, e); ok {
		return fmt.Sprintf("(%d)%%Z", v)
	}
	switch x := e.(type) {
	case *ast.ParenExpr:
		return t.value(x.X)
	case *ast.Ident:
		if x.Name == "retryCount" {
			return "retryCount"
		}
		if c, ok := t.locals[x.Name]; ok {
			return c
		}
	case *ast.SelectorExpr:
		if id, ok := x.X.(*ast.Ident); ok && id.Name == t.msg && t.msg != "" {
			if c, ok := msgFields[x.Sel.Name]; ok {
				return "(" + c + ")"
			}
		}
	case *ast.CallExpr:
		if sel, ok := x.Fun.(*ast.SelectorExpr); ok && len(x.Args) == 0 {
			if id, ok := sel.X.(*ast.Ident); ok && id.Name == t.msg && sel.Sel.Name == "GetErrorCode" {
				return "(e_code m)"
			}
		}
	}
	return t.fail("unsupported value expression at %s", t.p.Fset.Position(e.Pos()))
}

func (t *polTr) cond(e ast.Expr) string {
	switch x := e.(type) {
	case *ast.ParenExpr:
		return t.cond(x.X)
	case *ast.UnaryExpr:
		if x.Op == token.NOT {
			return "(negb " + t.cond(x.X) + ")"
		}
	case *ast.BinaryExpr:
		switch x.Op {
		case token.LAND:
			return "(" + t.cond(x.X) + " && " + t.cond(x.Y) + ")"
		case token.LOR:
			return "(" + t.cond(x.X) + " || " + t.cond(x.Y) + ")"
		case token.EQL, token.NEQ:
			var c string
			if t.isString(x.X) {
				c = "(list_eqb N.eqb " + t.value(x.X) + " " + t.value(x.Y) + ")"
			} else {
				c = "(Z.eqb " + t.value(x.X) + " " + t.value(x.Y) + ")"
			}
			if x.Op == token.NEQ {
				c = "(negb " + c + ")"
			}
			return c
		case token.LSS:
			return "(Z.ltb " + t.value(x.X) + " " + t.value(x.Y) + ")"
		case token.LEQ:
			return "(Z.leb " + t.value(x.X) + " " + t.value(x.Y) + ")"
		case token.GTR:
			return "(Z.ltb " + t.value(x.Y) + " " + t.value(x.X) + ")"
		case token.GEQ:
			return "(Z.leb " + t.value(x.Y) + " " + t.value(x.X) + ")"
		}
	case *ast.Ident:
		if x.Name == "true" || x.Name == "false" {
			return x.Name
		}
	case *ast.SelectorExpr:
		if id, ok := x.X.(*ast.Ident); ok && id.Name == t.msg && t.msg != "" {
			if c, ok := msgFields[x.Sel.Name]; ok {
				return "(" + c + ")"
			}
		}
	}
	return t.fail("unsupported condition at %s", t.p.Fset.Position(e.Pos()))
}

func (t *polTr) ret(s ast.Stmt) (string, bool) {
	if b, ok := s.(*ast.BlockStmt); ok {
		if len(b.List) != 1 {
			return "", false
		}
		s = b.List[0]
	}
	r, ok := s.(*ast.ReturnStmt)
	if !ok || len(r.Results) != 1 {
		return "", false
	}
	v, ok := constInt(t.p, r.Results[0])
	if !ok {
		return "", false
	}
	return fmt.Sprintf("%d%%N", v), true
}

// stmts translates a statement list that must end by returning on every path.
func (t *polTr) stmts(list []ast.Stmt) string {
	if len(list) == 0 {
		return t.fail("missing return")
	}
	switch s := list[0].(type) {
	case *ast.AssignStmt:
		if s.Tok == token.DEFINE && len(s.Lhs) == 1 && len(s.Rhs) == 1 {
			if id, ok := s.Lhs[0].(*ast.Ident); ok {
				t.locals[id.Name] = t.value(s.Rhs[0])
				return t.stmts(list[1:])
			}
		}
	case *ast.ReturnStmt:
		if r, ok := t.ret(s); ok {
			return r
		}
	case *ast.IfStmt:
		if s.Init == nil {
			c := t.cond(s.Cond)
			th := t.stmts(s.Body.List)
			var el string
			if s.Else != nil {
				if eb, ok := s.Else.(*ast.BlockStmt); ok {
					el = t.stmts(eb.List)
				} else if ei, ok := s.Else.(*ast.IfStmt); ok {
					el = t.stmts([]ast.Stmt{ei})
				}
			} else {
				el = t.stmts(list[1:])
			}
			return "(if " + c + " then " + th + " else " + el + ")"
		}
	}
	return t.fail("unsupported statement at %s", t.p.Fset.Position(list[0].Pos()))
}

func policyFuncs(l *loaded, sb *strings.Builder) {
	sb.WriteString("(* proxy/retrypolicy.go: fields of an error response a policy method may look at *)\n")
	sb.WriteString("Record err_info := { e_code : Z; e_received : Z; e_blockFor : Z; e_dataPresent : bool; e_writeType : list N;\n")
	sb.WriteString("  e_alive : Z; e_required : Z; e_numFailures : Z; e_consistency : Z }.\n\n")
	p := l.pkgs["proxy"]
	for _, c := range []string{"RetrySame", "RetryNext", "ReturnError"} {
		if v, ok := namedConst(l, "proxy", c); ok {
			fmt.Fprintf(sb, "Definition dec_%s : N := %d%%N.\n\n", c, v)
		} else {
			decline("dec_"+c, "not a constant")
		}
	}
	sb.WriteString("\n")
	for _, m := range []struct{ goName, coqName string }{
		{"OnReadTimeout", "on_read_timeout"}, {"OnWriteTimeout", "on_write_timeout"},
		{"OnUnavailable", "on_unavailable"}, {"OnErrorResponse", "on_error_response"}} {
		fd, _ := l.funcDecl("proxy", "defaultRetryPolicy", m.goName)
		if fd == nil || fd.Body == nil || fd.Type.Params == nil || len(fd.Type.Params.List) != 2 {
			decline(m.coqName, "method not found or unexpected signature")
			continue
		}
		t := &polTr{p: p, locals: map[string]string{}}
		if n := fd.Type.Params.List[0].Names; len(n) == 1 && n[0].Name != "_" {
			t.msg = n[0].Name
		}
		if n := fd.Type.Params.List[1].Names; len(n) != 1 || n[0].Name != "retryCount" {
			decline(m.coqName, "second parameter is not named retryCount")
			continue
		}
		body := t.stmts(fd.Body.List)
		if t.err != "" {
			decline(m.coqName, t.err)
			continue
		}
		fmt.Fprintf(sb, "Definition %s (m : err_info) (retryCount : Z) : N :=\n  %s.\n\n", m.coqName, body)
	}
	// error codes the hand-written handle_error dispatches on
	for _, c := range []string{"ErrorCodeServerError", "ErrorCodeProtocolError", "ErrorCodeAuthenticationError", "ErrorCodeUnavailable", "ErrorCodeOverloaded",
		"ErrorCodeIsBootstrapping", "ErrorCodeTruncateError", "ErrorCodeWriteTimeout", "ErrorCodeReadTimeout", "ErrorCodeReadFailure",
		"ErrorCodeFunctionFailure", "ErrorCodeWriteFailure", "ErrorCodeSyntaxError", "ErrorCodeUnauthorized", "ErrorCodeInvalid",
		"ErrorCodeConfigError", "ErrorCodeAlreadyExists", "ErrorCodeUnprepared"} {
		if o := p.Types.Imports(); o != nil {
			for _, imp := range o {
				if imp.Name() == "primitive" {
					if obj, ok := imp.Scope().Lookup(c).(*types.Const); ok {
						if v, ok := constInt64(obj); ok {
							fmt.Fprintf(sb, "Definition %s : Z := (%d)%%Z.\n\n", c, v)
						}
					}
				}
			}
		}
	}
	sb.WriteString("\n")
}

// ---- column tables of parser/metadata.go ----
func typeExpr(e ast.Expr) (string, bool) {
	switch x := e.(type) {
	case *ast.SelectorExpr:
		if id, ok := x.X.(*ast.Ident); ok && id.Name == "datatype" {
			return "(CT " + "(" + bytesLit(strings.ToLower(x.Sel.Name)) + "%N : list N))", true
		}
	case *ast.CallExpr:
		if sel, ok := x.Fun.(*ast.SelectorExpr); ok {
			if id, ok := sel.X.(*ast.Ident); ok && id.Name == "datatype" {
				var args []string
				for _, a := range x.Args {
					s, ok := typeExpr(a)
					if !ok {
						return "", false
					}
					args = append(args, s)
				}
				switch {
				case sel.Sel.Name == "NewSet" && len(args) == 1:
					return "(CSet " + args[0] + ")", true
				case sel.Sel.Name == "NewList" && len(args) == 1:
					return "(CList " + args[0] + ")", true
				case sel.Sel.Name == "NewMap" && len(args) == 2:
					return "(CMap " + args[0] + " " + args[1] + ")", true
				}
			}
		}
	}
	return "", false
}

func columnTables(l *loaded, sb *strings.Builder) {
	sb.WriteString("Inductive coltype := CT (name : list N) | CSet (e : coltype) | CList (e : coltype) | CMap (k v : coltype).\n\n")
	p := l.pkgs["parser"]
	tables := map[string]string{}
	for _, f := range p.Syntax {
		for _, d := range f.Decls {
			gd, ok := d.(*ast.GenDecl)
			if !ok || gd.Tok != token.VAR {
				continue
			}
			for _, sp := range gd.Specs {
				vs := sp.(*ast.ValueSpec)
				for i, name := range vs.Names {
					if i >= len(vs.Values) {
						continue
					}
					cl, ok := vs.Values[i].(*ast.CompositeLit)
					if !ok {
						continue
					}
					if at, ok := cl.Type.(*ast.ArrayType); ok {
						if se, ok := at.Elt.(*ast.StarExpr); !ok || fmt.Sprint(se.X) != "&{message ColumnMetadata}" {
							continue
						}
						var rows []string
						good := true
						for _, el := range cl.Elts {
							c, ok := el.(*ast.CompositeLit)
							if !ok {
								good = false
								break
							}
							var cname, ctype string
							for _, kv := range c.Elts {
								k := kv.(*ast.KeyValueExpr)
								switch fmt.Sprint(k.Key) {
								case "Name":
									if s, ok := constStr(p, k.Value); ok {
										cname = s
									}
								case "Type":
									if s, ok := typeExpr(k.Value); ok {
										ctype = s
									}
								}
							}
							if cname == "" || ctype == "" {
								good = false
								break
							}
							rows = append(rows, "(("+bytesLit(cname)+"%N : list N), "+ctype+")")
						}
						coq := "cols_" + name.Name
						if !good {
							decline(coq, "column list is not a literal of {Name, Type} entries")
							continue
						}
						tables[name.Name] = coq
						fmt.Fprintf(sb, "Definition %s : list (list N * coltype) :=\n  [%s].\n\n", coq, strings.Join(rows, ";\n   "))
					} else if _, ok := cl.Type.(*ast.MapType); ok && name.Name == "SystemColumnsByName" {
						var rows []string
						for _, el := range cl.Elts {
							kv := el.(*ast.KeyValueExpr)
							k, ok1 := constStr(p, kv.Key)
							v, ok2 := kv.Value.(*ast.Ident)
							if !ok1 || !ok2 || tables[v.Name] == "" {
								decline("system_columns_by_name", "unexpected map entry")
								rows = nil
								break
							}
							rows = append(rows, "(("+bytesLit(k)+"%N : list N), "+tables[v.Name]+")")
						}
						if rows != nil {
							fmt.Fprintf(sb, "Definition system_columns_by_name : list (list N * list (list N * coltype)) :=\n  [%s].\n\n", strings.Join(rows, ";\n   "))
						}
					}
				}
			}
		}
	}
	for _, need := range []string{"SystemLocalColumns", "DseSystemLocalColumns", "SystemPeersColumns", "DseSystemPeersColumns"} {
		if tables[need] == "" {
			decline("cols_"+need, "not found")
		}
	}
}
