// vx: translator from /repo's Go source (go/ast + go/types) to Gallina tables.
//
//	vx tables <out.v>   constant tables and if-chains/switches used by the models
//
// A construct outside the recognised subset makes vx print "DECLINED <table>: reason" and
// leave that table out; the caller (./check) then falls back to the committed baseline copy
// of that table and records "tie: correspondence-only" in the evidence.
package main

import (
	"fmt"
	"go/ast"
	"go/constant"
	"go/token"
	"go/types"
	"os"
	"sort"
	"strconv"
	"strings"

	"golang.org/x/tools/go/packages"
)

var declined []string

func decline(table, why string) {
	declined = append(declined, table+": "+why)
}

func bytesLit(s string) string {
	var sb strings.Builder
	sb.WriteString("[")
	for i := 0; i < len(s); i++ {
		if i > 0 {
			sb.WriteString("; ")
		}
		sb.WriteString(strconv.Itoa(int(s[i])))
	}
	sb.WriteString("]")
	return sb.String()
}

type loaded struct {
	pkgs map[string]*packages.Package
}

func load(repo string) *loaded {
	cfg := &packages.Config{
		Mode: packages.NeedTypes | packages.NeedSyntax | packages.NeedTypesInfo | packages.NeedName |
			packages.NeedFiles | packages.NeedImports | packages.NeedDeps,
		Dir:        repo,
		BuildFlags: []string{"-tags=verif"},
	}
	pkgs, err := packages.Load(cfg,
		"github.com/datastax/cql-proxy/proxy",
		"github.com/datastax/cql-proxy/parser",
		"github.com/datastax/cql-proxy/proxycore",
		"github.com/datastax/cql-proxy/codecs")
	if err != nil {
		fmt.Fprintln(os.Stderr, "vx: load:", err)
		os.Exit(2)
	}
	l := &loaded{pkgs: map[string]*packages.Package{}}
	for _, p := range pkgs {
		if len(p.Errors) > 0 {
			fmt.Fprintln(os.Stderr, "vx: package errors:", p.Errors)
			os.Exit(2)
		}
		l.pkgs[p.Name] = p
	}
	return l
}

func (l *loaded) funcDecl(pkg, recv, name string) (*ast.FuncDecl, *packages.Package) {
	p := l.pkgs[pkg]
	if p == nil {
		return nil, nil
	}
	for _, f := range p.Syntax {
		for _, d := range f.Decls {
			fd, ok := d.(*ast.FuncDecl)
			if !ok || fd.Name.Name != name {
				continue
			}
			r := ""
			if fd.Recv != nil && len(fd.Recv.List) == 1 {
				t := fd.Recv.List[0].Type
				if st, ok := t.(*ast.StarExpr); ok {
					t = st.X
				}
				if id, ok := t.(*ast.Ident); ok {
					r = id.Name
				}
			}
			if r == recv {
				return fd, p
			}
		}
	}
	return nil, p
}

func constInt(p *packages.Package, e ast.Expr) (int64, bool) {
	tv, ok := p.TypesInfo.Types[e]
	if !ok || tv.Value == nil {
		return 0, false
	}
	v, exact := constant.Int64Val(constant.ToInt(tv.Value))
	return v, exact
}

func constStr(p *packages.Package, e ast.Expr) (string, bool) {
	tv, ok := p.TypesInfo.Types[e]
	if !ok || tv.Value == nil || tv.Value.Kind() != constant.String {
		return "", false
	}
	return constant.StringVal(tv.Value), true
}

type entry struct {
	name string
	val  int64
}

// collect the string literals compared with == in a chain of || (lowered == "3" || lowered == "v3")
func orStrings(p *packages.Package, e ast.Expr, varName string) ([]string, bool) {
	switch b := e.(type) {
	case *ast.ParenExpr:
		return orStrings(p, b.X, varName)
	case *ast.BinaryExpr:
		if b.Op == token.LOR {
			l, ok1 := orStrings(p, b.X, varName)
			r, ok2 := orStrings(p, b.Y, varName)
			return append(l, r...), ok1 && ok2
		}
		if b.Op == token.EQL {
			if id, ok := b.X.(*ast.Ident); ok && id.Name == varName {
				if s, ok := constStr(p, b.Y); ok {
					return []string{s}, true
				}
			}
		}
	}
	return nil, false
}

// parseProtocolVersion: lowered := strings.ToLower(s); if-chain assigning `version = <const>`;
// final else sets ok = false.
func versionTable(l *loaded) ([]entry, bool) {
	fd, p := l.funcDecl("proxy", "", "parseProtocolVersion")
	if fd == nil {
		decline("version_table", "function parseProtocolVersion not found")
		return nil, false
	}
	var chain *ast.IfStmt
	lowerSeen := false
	for _, st := range fd.Body.List {
		switch s := st.(type) {
		case *ast.AssignStmt:
			if len(s.Lhs) == 1 && len(s.Rhs) == 1 {
				if id, ok := s.Lhs[0].(*ast.Ident); ok && id.Name == "lowered" {
					if call, ok := s.Rhs[0].(*ast.CallExpr); ok {
						if sel, ok := call.Fun.(*ast.SelectorExpr); ok && sel.Sel.Name == "ToLower" {
							lowerSeen = true
						}
					}
				}
			}
		case *ast.IfStmt:
			chain = s
		}
	}
	if chain == nil || !lowerSeen {
		decline("version_table", "expected `lowered := strings.ToLower(s)` followed by an if-chain")
		return nil, false
	}
	var out []entry
	for cur := chain; cur != nil; {
		names, ok := orStrings(p, cur.Cond, "lowered")
		if !ok {
			decline("version_table", "condition outside subset at "+p.Fset.Position(cur.Cond.Pos()).String())
			return nil, false
		}
		if len(cur.Body.List) != 1 {
			decline("version_table", "branch body is not a single assignment")
			return nil, false
		}
		as, ok := cur.Body.List[0].(*ast.AssignStmt)
		if !ok || len(as.Lhs) != 1 || len(as.Rhs) != 1 {
			decline("version_table", "branch body is not a single assignment")
			return nil, false
		}
		if id, ok := as.Lhs[0].(*ast.Ident); !ok || id.Name != "version" {
			decline("version_table", "branch does not assign `version`")
			return nil, false
		}
		v, ok := constInt(p, as.Rhs[0])
		if !ok {
			decline("version_table", "assigned value is not a constant")
			return nil, false
		}
		for _, n := range names {
			out = append(out, entry{n, v})
		}
		switch e := cur.Else.(type) {
		case *ast.IfStmt:
			cur = e
		case *ast.BlockStmt:
			// must be `ok = false`
			good := false
			if len(e.List) == 1 {
				if as, isAs := e.List[0].(*ast.AssignStmt); isAs && len(as.Lhs) == 1 {
					if id, isId := as.Lhs[0].(*ast.Ident); isId && id.Name == "ok" {
						if rid, isRid := as.Rhs[0].(*ast.Ident); isRid && rid.Name == "false" {
							good = true
						}
					}
				}
			}
			if !good {
				decline("version_table", "final else is not `ok = false`")
				return nil, false
			}
			cur = nil
		default:
			decline("version_table", "if-chain without final else")
			return nil, false
		}
	}
	return out, true
}

// clWrapper.UnmarshalText: switch strings.ToLower(string(text)) { case "x": c.ConsistencyLevel = K ... default: return error }
func consistencyTable(l *loaded) ([]entry, bool) {
	fd, p := l.funcDecl("proxy", "clWrapper", "UnmarshalText")
	if fd == nil {
		decline("consistency_table", "method clWrapper.UnmarshalText not found")
		return nil, false
	}
	var sw *ast.SwitchStmt
	for _, st := range fd.Body.List {
		if s, ok := st.(*ast.SwitchStmt); ok {
			sw = s
		}
	}
	if sw == nil {
		decline("consistency_table", "no switch statement")
		return nil, false
	}
	call, ok := sw.Tag.(*ast.CallExpr)
	if !ok {
		decline("consistency_table", "switch tag is not strings.ToLower(...)")
		return nil, false
	}
	if sel, ok := call.Fun.(*ast.SelectorExpr); !ok || sel.Sel.Name != "ToLower" {
		decline("consistency_table", "switch tag is not strings.ToLower(...)")
		return nil, false
	}
	var out []entry
	hasDefault := false
	for _, c := range sw.Body.List {
		cc := c.(*ast.CaseClause)
		if cc.List == nil {
			if len(cc.Body) == 1 {
				if _, ok := cc.Body[0].(*ast.ReturnStmt); ok {
					hasDefault = true
					continue
				}
			}
			decline("consistency_table", "default clause is not a single return")
			return nil, false
		}
		if len(cc.Body) != 1 {
			decline("consistency_table", "case body is not a single assignment")
			return nil, false
		}
		as, ok := cc.Body[0].(*ast.AssignStmt)
		if !ok || len(as.Rhs) != 1 {
			decline("consistency_table", "case body is not a single assignment")
			return nil, false
		}
		v, ok := constInt(p, as.Rhs[0])
		if !ok {
			decline("consistency_table", "assigned value is not a constant")
			return nil, false
		}
		for _, e := range cc.List {
			s, ok := constStr(p, e)
			if !ok {
				decline("consistency_table", "case label is not a string constant")
				return nil, false
			}
			out = append(out, entry{s, v})
		}
	}
	if !hasDefault {
		decline("consistency_table", "no error default")
		return nil, false
	}
	return out, true
}

// package-level `var name = []string{...}`
func stringSliceVar(l *loaded, pkg, name string) ([]string, bool) {
	p := l.pkgs[pkg]
	for _, f := range p.Syntax {
		for _, d := range f.Decls {
			gd, ok := d.(*ast.GenDecl)
			if !ok || gd.Tok != token.VAR {
				continue
			}
			for _, sp := range gd.Specs {
				vs := sp.(*ast.ValueSpec)
				for i, n := range vs.Names {
					if n.Name != name || i >= len(vs.Values) {
						continue
					}
					cl, ok := vs.Values[i].(*ast.CompositeLit)
					if !ok {
						return nil, false
					}
					var out []string
					for _, e := range cl.Elts {
						s, ok := constStr(p, e)
						if !ok {
							return nil, false
						}
						out = append(out, s)
					}
					return out, true
				}
			}
		}
	}
	return nil, false
}

func namedConst(l *loaded, pkg, name string) (int64, bool) {
	p := l.pkgs[pkg]
	obj := p.Types.Scope().Lookup(name)
	c, ok := obj.(*types.Const)
	if !ok {
		return 0, false
	}
	v, exact := constant.Int64Val(constant.ToInt(c.Val()))
	return v, exact
}

// identifierQuoteGuard recognises
//
//	l := len(id)
//	if l > K && id[0] == '"' { return Identifier{id: id[1 : l-1], ignoreCase: false} } else { return Identifier{id: id, ignoreCase: true} }
//
// and returns K.
func identifierQuoteGuard(l *loaded) (int64, bool) {
	fd, p := l.funcDecl("parser", "", "IdentifierFromString")
	if fd == nil || fd.Body == nil || len(fd.Body.List) != 2 {
		return 0, false
	}
	as, ok := fd.Body.List[0].(*ast.AssignStmt)
	if !ok || len(as.Lhs) != 1 || len(as.Rhs) != 1 {
		return 0, false
	}
	lv, ok := as.Lhs[0].(*ast.Ident)
	call, ok2 := as.Rhs[0].(*ast.CallExpr)
	if !ok || !ok2 {
		return 0, false
	}
	if fn, ok := call.Fun.(*ast.Ident); !ok || fn.Name != "len" || len(call.Args) != 1 {
		return 0, false
	}
	idName, ok := call.Args[0].(*ast.Ident)
	if !ok {
		return 0, false
	}
	ifs, ok := fd.Body.List[1].(*ast.IfStmt)
	if !ok || ifs.Init != nil || ifs.Else == nil {
		return 0, false
	}
	and, ok := ifs.Cond.(*ast.BinaryExpr)
	if !ok || and.Op != token.LAND {
		return 0, false
	}
	gt, ok := and.X.(*ast.BinaryExpr)
	if !ok || gt.Op != token.GTR {
		return 0, false
	}
	if x, ok := gt.X.(*ast.Ident); !ok || x.Name != lv.Name {
		return 0, false
	}
	k, ok := constInt(p, gt.Y)
	if !ok {
		return 0, false
	}
	eq, ok := and.Y.(*ast.BinaryExpr)
	if !ok || eq.Op != token.EQL {
		return 0, false
	}
	ix, ok := eq.X.(*ast.IndexExpr)
	if !ok {
		return 0, false
	}
	if x, ok := ix.X.(*ast.Ident); !ok || x.Name != idName.Name {
		return 0, false
	}
	if i, ok := constInt(p, ix.Index); !ok || i != 0 {
		return 0, false
	}
	if q, ok := constInt(p, eq.Y); !ok || q != 34 {
		return 0, false
	}
	// the then-branch slices id[1 : l-1]
	found := false
	ast.Inspect(ifs.Body, func(n ast.Node) bool {
		if se, ok := n.(*ast.SliceExpr); ok {
			lo, ok1 := constInt(p, se.Low)
			hi, ok2 := se.High.(*ast.BinaryExpr)
			if ok1 && lo == 1 && ok2 && hi.Op == token.SUB {
				if hx, ok := hi.X.(*ast.Ident); ok && hx.Name == lv.Name {
					if one, ok := constInt(p, hi.Y); ok && one == 1 {
						found = true
					}
				}
			}
		}
		return true
	})
	return k, found
}

// token enum: all constants of type parser.token in declaration (value) order
func tokenEnum(l *loaded) ([]entry, bool) {
	p := l.pkgs["parser"]
	var out []entry
	for _, n := range p.Types.Scope().Names() {
		c, ok := p.Types.Scope().Lookup(n).(*types.Const)
		if !ok {
			continue
		}
		if named, ok := c.Type().(*types.Named); ok && named.Obj().Name() == "token" {
			v, _ := constant.Int64Val(c.Val())
			out = append(out, entry{n, v})
		}
	}
	sort.Slice(out, func(i, j int) bool {
		if out[i].val != out[j].val {
			return out[i].val < out[j].val
		}
		return out[i].name < out[j].name
	})
	return out, len(out) > 0
}

func emitEntries(sb *strings.Builder, name string, es []entry) {
	fmt.Fprintf(sb, "Definition %s : list (list N * N) :=\n  [", name)
	for i, e := range es {
		if i > 0 {
			sb.WriteString(";\n   ")
		}
		fmt.Fprintf(sb, "(%s, %d) (* %q *)", bytesLit(e.name), e.val, e.name)
	}
	sb.WriteString("]%N.\n\n")
}

func emitStrings(sb *strings.Builder, name string, ss []string) {
	fmt.Fprintf(sb, "Definition %s : list (list N) :=\n  [", name)
	for i, s := range ss {
		if i > 0 {
			sb.WriteString(";\n   ")
		}
		fmt.Fprintf(sb, "%s (* %q *)", bytesLit(s), s)
	}
	sb.WriteString("]%N.\n\n")
}

func main() {
	if len(os.Args) >= 3 && os.Args[1] == "locksets" {
		repo := "/repo"
		if len(os.Args) > 3 {
			repo = os.Args[3]
		}
		locksetsMain(os.Args[2], repo)
		return
	}
	if len(os.Args) < 3 || os.Args[1] != "tables" {
		fmt.Fprintln(os.Stderr, "usage: vx tables <out.v> [repo]")
		os.Exit(2)
	}
	repo := "/repo"
	if len(os.Args) > 3 {
		repo = os.Args[3]
	}
	l := load(repo)
	var sb strings.Builder
	sb.WriteString("(* GENERATED by harness/cmd/vx from /repo -- do not edit *)\n")
	sb.WriteString("From Coq Require Import List NArith ZArith Bool.\nFrom CqlProxy Require Import Lib.Val.\nImport ListNotations.\nLocal Open Scope bool_scope.\n\n")

	if es, ok := versionTable(l); ok {
		emitEntries(&sb, "version_table", es)
	}
	if es, ok := consistencyTable(l); ok {
		emitEntries(&sb, "consistency_table", es)
	}
	if ss, ok := stringSliceVar(l, "parser", "systemTables"); ok {
		emitStrings(&sb, "system_tables", ss)
	} else {
		decline("system_tables", "parser.systemTables is not a []string literal")
	}
	if ss, ok := stringSliceVar(l, "parser", "nonIdempotentFuncs"); ok {
		emitStrings(&sb, "non_idempotent_funcs", ss)
	} else {
		decline("non_idempotent_funcs", "parser.nonIdempotentFuncs is not a []string literal")
	}
	if ss, ok := stringSliceVar(l, "codecs", "CompressionNames"); ok {
		emitStrings(&sb, "compression_names", ss)
	} else {
		decline("compression_names", "codecs.CompressionNames is not a []string literal")
	}
	if v, ok := namedConst(l, "proxycore", "MaxStreams"); ok {
		fmt.Fprintf(&sb, "Definition max_streams : N := %d%%N.\n\n", v)
	} else {
		decline("max_streams", "proxycore.MaxStreams is not a constant")
	}
	if v, ok := namedConst(l, "parser", "maxNestingDepth"); ok && v > 0 && v < 100000 {
		fmt.Fprintf(&sb, "Definition max_nesting_depth : N := %d%%N.\n\n", v)
	} else {
		decline("max_nesting_depth", "parser.maxNestingDepth is not a small positive constant")
	}
	if g, ok := identifierQuoteGuard(l); ok {
		fmt.Fprintf(&sb, "(* parser.IdentifierFromString: the string is sliced as a quoted identifier when len(id) > identifier_quote_guard and id[0] is a double quote *)\nDefinition identifier_quote_guard : Z := %d%%Z.\n\n", g)
	} else {
		decline("identifier_quote_guard", "parser.IdentifierFromString is not `l := len(id); if l > K && id[0] == '\"' { return Identifier{id: id[1 : l-1], ...} } else {...}`")
	}
	if es, ok := tokenEnum(l); ok {
		emitEntries(&sb, "token_enum", es)
	} else {
		decline("token_enum", "no constants of type parser.token")
	}
	panicSites(l, &sb)
	downgradeChain(l, &sb)
	policyFuncs(l, &sb)
	columnTables(l, &sb)
	if err := os.WriteFile(os.Args[2], []byte(sb.String()), 0o644); err != nil {
		fmt.Fprintln(os.Stderr, err)
		os.Exit(2)
	}
	for _, d := range declined {
		fmt.Println("DECLINED " + d)
	}
}

// panicSites lists every call of the builtin panic in the non-test, non-harness files of the loaded packages as
// "package.Receiver.Function" (sorted, one entry per call): the places where the proxy terminates itself on purpose.
func panicSites(l *loaded, sb *strings.Builder) {
	var sites []string
	for _, name := range []string{"codecs", "parser", "proxy", "proxycore"} {
		p := l.pkgs[name]
		if p == nil {
			continue
		}
		for _, f := range p.Syntax {
			file := p.Fset.Position(f.Pos()).Filename
			base := file[strings.LastIndex(file, "/")+1:]
			if strings.HasSuffix(base, "_test.go") || strings.HasPrefix(base, "verif_") || base == "mockcluster.go" {
				continue
			}
			for _, d := range f.Decls {
				fd, ok := d.(*ast.FuncDecl)
				if !ok || fd.Body == nil {
					continue
				}
				recv := ""
				if fd.Recv != nil && len(fd.Recv.List) == 1 {
					t := fd.Recv.List[0].Type
					if st, ok := t.(*ast.StarExpr); ok {
						t = st.X
					}
					if id, ok := t.(*ast.Ident); ok {
						recv = id.Name + "."
					}
				}
				ast.Inspect(fd.Body, func(n ast.Node) bool {
					if ce, ok := n.(*ast.CallExpr); ok {
						if id, ok := ce.Fun.(*ast.Ident); ok && id.Name == "panic" {
							if _, isBuiltin := p.TypesInfo.Uses[id].(*types.Builtin); isBuiltin {
								sites = append(sites, name+"."+recv+fd.Name.Name)
							}
						}
					}
					return true
				})
			}
		}
	}
	sort.Strings(sites)
	sb.WriteString("(* every call of the builtin panic in the production files of codecs, parser, proxy, proxycore *)\nDefinition explicit_panic_sites : list (list N) :=\n  [")
	for i, s := range sites {
		if i > 0 {
			sb.WriteString(";\n   ")
		}
		fmt.Fprintf(sb, "%s (* %q *)", bytesLit(s), s)
	}
	sb.WriteString("]%N.\n\n")
}

func constInt64(c *types.Const) (int64, bool) {
	return constant.Int64Val(constant.ToInt(c.Val()))
}
