package main

// vx locksets <out.v> [repo]: a syntactic lock-discipline extraction.  For every access to one
// of the guarded fields below it records which of the receiver's locks the enclosing function
// holds at that point (Lock/RLock ... Unlock/RUnlock in statement order, `defer Unlock` keeps
// the lock to the end of the function; function literals start with nothing held).  The
// result is Gen/Locksets.v; Props/C18.v checks that every site holds its guard.

import (
	"fmt"
	"go/ast"
	"go/token"
	"go/types"
	"os"
	"sort"
	"strings"

	"golang.org/x/tools/go/packages"
)

type guardSpec struct{ pkg, strct, field, lock string }

var lockGuards = []guardSpec{
	{"proxy", "Proxy", "sessions", "sessionsMu"},
	{"proxy", "Proxy", "clients", "mu"},
	{"proxy", "Proxy", "listeners", "mu"},
	{"proxy", "Proxy", "isConnected", "mu"},
	{"proxy", "Proxy", "isClosing", "mu"},
	{"proxy", "request", "done", "mu"},
	{"proxy", "request", "retryCount", "mu"},
	{"proxy", "request", "host", "mu"},
	{"proxycore", "connPool", "conns", "connsMu"},
	{"proxycore", "ClientConn", "closing", "closingMu"},
	{"proxycore", "Cluster", "outageTime", "outageMu"},
	{"proxycore", "Cluster", "pendingEvents", "eventsMu"},
}

// functions that are only called with a lock of their receiver held (every call site is checked)
var lockAssumed = map[string]string{
	"proxy.request.executeInternal":   "mu",
	"proxy.request.handleErrorResult": "mu",
	"proxy.request.sendRaw":           "mu",
	"proxy.request.send":              "mu",
}

// functions whose accesses happen before the object is shared, or by the only goroutine that
// ever writes the slot (reasons are part of the trusted base, DESIGN.md)
var lockExempt = map[string]string{
	"proxy.NewProxy":                   "constructor",
	"proxy.Proxy.Connect":              "holds Proxy.mu; the session table is filled before any client is accepted",
	"proxycore.connectPool":            "constructor: each goroutine fills its own slot and is joined (WaitGroup) before the pool is returned",
	"proxycore.connectPoolNoFail":      "constructor",
	"proxycore.connPool.stayConnected": "", // only the first statement (see ownerRead)
	"proxycore.ConnectClient":          "constructor",
	"proxycore.ConnectCluster":         "constructor",
}

type lsSite struct {
	v     int
	write bool
	held  []string // "lockid:Ex"
	line  int
	where string
	note  string
}

type lsState struct {
	fset    *token.FileSet
	info    *types.Info
	pkg     string
	sites   []lsSite
	exempt  []lsSite
	badCall []string
	fn      string
}

func lockID(pkg, strct, lock string) int {
	var ids []string
	seen := map[string]bool{}
	for _, g := range lockGuards {
		k := g.pkg + "." + g.strct + "." + g.lock
		if !seen[k] {
			seen[k] = true
			ids = append(ids, k)
		}
	}
	for i, k := range ids {
		if k == pkg+"."+strct+"."+lock {
			return i
		}
	}
	return -1
}

func structOf(t types.Type) string {
	for {
		switch x := t.(type) {
		case *types.Pointer:
			t = x.Elem()
			continue
		case *types.Named:
			return x.Obj().Name()
		}
		return ""
	}
}

func (s *lsState) guardedVar(sel *ast.SelectorExpr) (int, *guardSpec) {
	tv, ok := s.info.Types[sel.X]
	if !ok {
		return -1, nil
	}
	st := structOf(tv.Type)
	for i := range lockGuards {
		g := &lockGuards[i]
		if g.pkg == s.pkg && g.strct == st && g.field == sel.Sel.Name {
			return i, g
		}
	}
	return -1, nil
}

// lock call: recv.lock.(Lock|RLock|Unlock|RUnlock)()
func (s *lsState) lockCall(e ast.Expr) (key string, op string, ok bool) {
	call, isCall := e.(*ast.CallExpr)
	if !isCall || len(call.Args) != 0 {
		return
	}
	m, isSel := call.Fun.(*ast.SelectorExpr)
	if !isSel {
		return
	}
	switch m.Sel.Name {
	case "Lock", "RLock", "Unlock", "RUnlock":
	default:
		return
	}
	l, isSel := m.X.(*ast.SelectorExpr)
	if !isSel {
		return
	}
	return types.ExprString(l.X) + "." + l.Sel.Name, m.Sel.Name, true
}

func baseSelector(e ast.Expr) *ast.SelectorExpr {
	for {
		switch x := e.(type) {
		case *ast.ParenExpr:
			e = x.X
		case *ast.IndexExpr:
			e = x.X
		case *ast.StarExpr:
			e = x.X
		case *ast.SelectorExpr:
			return x
		default:
			return nil
		}
	}
}

func (s *lsState) scan(n ast.Node, held map[string]string, exemptWhy string) {
	writes := map[*ast.SelectorExpr]bool{}
	ast.Inspect(n, func(x ast.Node) bool {
		switch st := x.(type) {
		case *ast.FuncLit:
			return false
		case *ast.AssignStmt:
			for _, l := range st.Lhs {
				if b := baseSelector(l); b != nil {
					writes[b] = true
				}
			}
		case *ast.IncDecStmt:
			if b := baseSelector(st.X); b != nil {
				writes[b] = true
			}
		case *ast.CallExpr:
			if id, ok := st.Fun.(*ast.Ident); ok && id.Name == "delete" && len(st.Args) == 2 {
				if b := baseSelector(st.Args[0]); b != nil {
					writes[b] = true
				}
			}
		}
		return true
	})
	ast.Inspect(n, func(x ast.Node) bool {
		switch e := x.(type) {
		case *ast.FuncLit:
			// runs later, on whatever goroutine: nothing is known to be held
			s.block(e.Body.List, map[string]string{}, exemptWhy)
			return false
		case *ast.CallExpr:
			// calls of functions that assume a lock
			if m, ok := e.Fun.(*ast.SelectorExpr); ok {
				if tv, ok := s.info.Types[m.X]; ok {
					callee := s.pkg + "." + structOf(tv.Type) + "." + m.Sel.Name
					if lock, ok := lockAssumed[callee]; ok {
						if held[types.ExprString(m.X)+"."+lock] != "Ex" {
							s.badCall = append(s.badCall, fmt.Sprintf("%s calls %s without %s held (line %d)", s.fn, callee, lock, s.fset.Position(e.Pos()).Line))
						}
					}
				}
			}
		case *ast.SelectorExpr:
			if v, g := s.guardedVar(e); g != nil {
				recv := types.ExprString(e.X)
				site := lsSite{v: v, write: writes[e], line: s.fset.Position(e.Pos()).Line, where: s.fn, note: exemptWhy}
				for k, mode := range held {
					if strings.HasPrefix(k, recv+".") {
						lock := strings.TrimPrefix(k, recv+".")
						if id := lockID(g.pkg, g.strct, lock); id >= 0 {
							site.held = append(site.held, fmt.Sprintf("%d:%s", id, mode))
						}
					}
				}
				sort.Strings(site.held)
				if exemptWhy != "" {
					s.exempt = append(s.exempt, site)
				} else {
					s.sites = append(s.sites, site)
				}
			}
		}
		return true
	})
}

func copyHeld(h map[string]string) map[string]string {
	c := map[string]string{}
	for k, v := range h {
		c[k] = v
	}
	return c
}

func (s *lsState) block(stmts []ast.Stmt, held map[string]string, exemptWhy string) {
	for _, st := range stmts {
		switch x := st.(type) {
		case *ast.ExprStmt:
			if key, op, ok := s.lockCall(x.X); ok {
				switch op {
				case "Lock":
					held[key] = "Ex"
				case "RLock":
					held[key] = "Sh"
				default:
					delete(held, key)
				}
				continue
			}
			s.scan(x, held, exemptWhy)
		case *ast.DeferStmt:
			if _, _, ok := s.lockCall(x.Call); ok {
				continue // released when the function returns
			}
			s.scan(x, held, exemptWhy)
		case *ast.BlockStmt:
			s.block(x.List, held, exemptWhy)
		case *ast.IfStmt:
			if x.Init != nil {
				s.block([]ast.Stmt{x.Init}, held, exemptWhy)
			}
			s.scan(x.Cond, held, exemptWhy)
			s.block(x.Body.List, copyHeld(held), exemptWhy)
			if x.Else != nil {
				s.block([]ast.Stmt{x.Else}, copyHeld(held), exemptWhy)
			}
		case *ast.ForStmt:
			if x.Init != nil {
				s.block([]ast.Stmt{x.Init}, held, exemptWhy)
			}
			if x.Cond != nil {
				s.scan(x.Cond, held, exemptWhy)
			}
			if x.Post != nil {
				s.block([]ast.Stmt{x.Post}, copyHeld(held), exemptWhy)
			}
			s.block(x.Body.List, copyHeld(held), exemptWhy)
		case *ast.RangeStmt:
			s.scan(x.X, held, exemptWhy)
			s.block(x.Body.List, copyHeld(held), exemptWhy)
		case *ast.SwitchStmt:
			if x.Init != nil {
				s.block([]ast.Stmt{x.Init}, held, exemptWhy)
			}
			if x.Tag != nil {
				s.scan(x.Tag, held, exemptWhy)
			}
			for _, c := range x.Body.List {
				cc := c.(*ast.CaseClause)
				for _, e := range cc.List {
					s.scan(e, held, exemptWhy)
				}
				s.block(cc.Body, copyHeld(held), exemptWhy)
			}
		case *ast.TypeSwitchStmt:
			if x.Init != nil {
				s.block([]ast.Stmt{x.Init}, held, exemptWhy)
			}
			s.scan(x.Assign, held, exemptWhy)
			for _, c := range x.Body.List {
				s.block(c.(*ast.CaseClause).Body, copyHeld(held), exemptWhy)
			}
		case *ast.SelectStmt:
			for _, c := range x.Body.List {
				cc := c.(*ast.CommClause)
				if cc.Comm != nil {
					s.block([]ast.Stmt{cc.Comm}, copyHeld(held), exemptWhy)
				}
				s.block(cc.Body, copyHeld(held), exemptWhy)
			}
		case *ast.LabeledStmt:
			s.block([]ast.Stmt{x.Stmt}, held, exemptWhy)
		case *ast.GoStmt:
			s.scan(x.Call, map[string]string{}, exemptWhy)
		default:
			s.scan(st, held, exemptWhy)
		}
	}
}

func locksetsMain(out, repo string) {
	cfg := &packages.Config{Mode: packages.NeedName | packages.NeedSyntax | packages.NeedTypes | packages.NeedTypesInfo | packages.NeedFiles, Dir: repo, Tests: false}
	pkgs, err := packages.Load(cfg, "./proxy", "./proxycore")
	if err != nil {
		fmt.Fprintln(os.Stderr, "vx: load:", err)
		os.Exit(2)
	}
	var all, exempt []lsSite
	var bad []string
	for _, p := range pkgs {
		if len(p.Errors) > 0 {
			fmt.Fprintln(os.Stderr, "vx: package errors:", p.Errors)
			os.Exit(2)
		}
		for _, f := range p.Syntax {
			fname := p.Fset.Position(f.Pos()).Filename
			if strings.HasSuffix(fname, "_test.go") || strings.Contains(fname, "verif_") || strings.HasSuffix(fname, "mockcluster.go") {
				continue
			}
			for _, d := range f.Decls {
				fd, ok := d.(*ast.FuncDecl)
				if !ok || fd.Body == nil {
					continue
				}
				name := p.Name + "." + fd.Name.Name
				recvName := ""
				if fd.Recv != nil && len(fd.Recv.List) == 1 {
					t := fd.Recv.List[0].Type
					if st, ok := t.(*ast.StarExpr); ok {
						t = st.X
					}
					if id, ok := t.(*ast.Ident); ok {
						name = p.Name + "." + id.Name + "." + fd.Name.Name
					}
					if len(fd.Recv.List[0].Names) == 1 {
						recvName = fd.Recv.List[0].Names[0].Name
					}
				}
				s := &lsState{fset: p.Fset, info: p.TypesInfo, pkg: p.Name, fn: name}
				held := map[string]string{}
				if lock, ok := lockAssumed[name]; ok && recvName != "" {
					held[recvName+"."+lock] = "Ex"
				}
				why, isExempt := lockExempt[name]
				body := fd.Body.List
				if name == "proxycore.connPool.stayConnected" && len(body) > 0 {
					// `conn := p.conns[idx]`: read by the goroutine that is the only writer of this slot
					s.block(body[:1], held, "read of its own slot by the only goroutine that writes it")
					body = body[1:]
					isExempt = false
				}
				if isExempt {
					s.block(body, held, why)
				} else {
					s.block(body, held, "")
				}
				all = append(all, s.sites...)
				exempt = append(exempt, s.exempt...)
				bad = append(bad, s.badCall...)
			}
		}
	}
	var sb strings.Builder
	sb.WriteString("(* GENERATED by harness/cmd/vx (locksets) from /repo -- do not edit *)\nFrom Coq Require Import List Arith Bool.\nFrom CqlProxy Require Import Model.Locksets.\nImport ListNotations.\n\n")
	sb.WriteString("(* variables: ")
	for i, g := range lockGuards {
		fmt.Fprintf(&sb, "%d = %s.%s.%s (guard %s, lock %d); ", i, g.pkg, g.strct, g.field, g.lock, lockID(g.pkg, g.strct, g.lock))
	}
	sb.WriteString("*)\nDefinition lock_guard (x : nat) : nat :=\n  match x with\n")
	for i, g := range lockGuards {
		fmt.Fprintf(&sb, "  | %d => %d\n", i, lockID(g.pkg, g.strct, g.lock))
	}
	sb.WriteString("  | _ => 999\n  end.\n\n")
	emit := func(name string, ss []lsSite) {
		fmt.Fprintf(&sb, "Definition %s : list site :=\n  [", name)
		for i, s := range ss {
			if i > 0 {
				sb.WriteString(";\n   ")
			}
			var hs []string
			for _, h := range s.held {
				p := strings.SplitN(h, ":", 2)
				hs = append(hs, fmt.Sprintf("(%s, %s)", p[0], p[1]))
			}
			w := "false"
			if s.write {
				w = "true"
			}
			fmt.Fprintf(&sb, "(* %s%s *) {| s_var := %d; s_write := %s; s_held := [%s]; s_where := %d |}", s.where, map[bool]string{true: ": " + s.note, false: ""}[s.note != ""], s.v, w, strings.Join(hs, "; "), s.line)
		}
		sb.WriteString("].\n\n")
	}
	emit("lock_sites", all)
	emit("lock_exempt_sites", exempt)
	fmt.Fprintf(&sb, "(* functions that assume a lock of their receiver: %d call sites without it *)\nDefinition lock_assumed_calls_bad : nat := %d.\n", len(bad), len(bad))
	for _, b := range bad {
		fmt.Fprintf(&sb, "(* %s *)\n", b)
	}
	if err := os.WriteFile(out, []byte(sb.String()), 0o644); err != nil {
		fmt.Fprintln(os.Stderr, err)
		os.Exit(2)
	}
	fmt.Printf("locksets: %d sites, %d exempt, %d bad calls\n", len(all), len(exempt), len(bad))
}
