// Package px starts the real proxy in-process against a fake backend and provides the
// raw-socket scripted client used by the end-to-end correspondence checks.
package px

import (
	"bytes"
	"context"
	"errors"
	"fmt"
	"io"
	"net"
	"os"
	"strconv"
	"sync"
	"time"

	"verifharness/fb"

	"github.com/datastax/cql-proxy/codecs"
	"github.com/datastax/cql-proxy/proxy"
	"github.com/datastax/cql-proxy/proxycore"
	"github.com/datastax/go-cassandra-native-protocol/frame"
	"github.com/datastax/go-cassandra-native-protocol/message"
	"github.com/datastax/go-cassandra-native-protocol/primitive"
)

var allocMu sync.Mutex
var allocN int

// Alloc returns a loopback prefix "127.a.b." private to this process (and to this call)
// and a port; all of 127/8 is loopback on Linux so no configuration is needed.
func Alloc() (string, int) {
	allocMu.Lock()
	defer allocMu.Unlock()
	allocN++
	pid := os.Getpid()
	a := 1 + (pid>>8)%250
	b := (pid*7 + allocN*13) % 250
	if a == 0 && b == 0 {
		b = 1
	}
	port := 20000 + (pid*31+allocN*97)%20000
	return fmt.Sprintf("127.%d.%d.", a, b), port
}

type Env struct {
	BE     *fb.Backend
	Proxy  *proxy.Proxy
	Addr   string
	Cancel context.CancelFunc
	ln     net.Listener
}

// DefaultConfig fills the fields every scenario needs.
func DefaultConfig(be *fb.Backend) proxy.Config {
	return proxy.Config{
		Version:           primitive.ProtocolVersion4,
		MaxVersion:        primitive.ProtocolVersion4,
		Resolver:          proxycore.NewResolverWithDefaultPort([]string{be.IP(1)}, be.Port),
		ReconnectPolicy:   proxycore.NewReconnectPolicyWithDelays(20*time.Millisecond, 200*time.Millisecond),
		NumConns:          1,
		HeartBeatInterval: 30 * time.Second,
		ConnectTimeout:    5 * time.Second,
		IdleTimeout:       60 * time.Second,
	}
}

func StartProxy(be *fb.Backend, cfg proxy.Config) (*Env, error) {
	ctx, cancel := context.WithCancel(context.Background())
	p := proxy.NewProxy(ctx, cfg)
	if err := p.Connect(); err != nil {
		cancel()
		return nil, err
	}
	ln, err := net.Listen("tcp", net.JoinHostPort(be.Prefix+"200", "0"))
	if err != nil {
		cancel()
		return nil, err
	}
	go func() { _ = p.Serve(ln) }()
	return &Env{BE: be, Proxy: p, Addr: ln.Addr().String(), Cancel: cancel, ln: ln}, nil
}

func (e *Env) Close() {
	_ = e.Proxy.Close()
	e.Cancel()
	_ = e.ln.Close()
}

// Frame is one frame as read from a socket.
type Frame struct {
	Version byte // without direction bit
	Resp    bool
	Flags   byte
	Stream  int16
	Opcode  byte
	Body    []byte
	Raw     []byte
}

type Client struct {
	C      net.Conn
	frames chan *Frame
	errc   chan error
	Codec  frame.RawCodec // reference codec (with compression once negotiated)
	Comp   string
}

func Dial(addr string) (*Client, error) {
	c, err := net.DialTimeout("tcp", addr, 5*time.Second)
	if err != nil {
		return nil, err
	}
	cl := &Client{C: c, frames: make(chan *Frame, 65536), errc: make(chan error, 1), Codec: codecs.DefaultRawCodec}
	go cl.reader()
	return cl, nil
}

func (c *Client) reader() {
	for {
		f, err := ReadFrame(c.C)
		if err != nil {
			c.errc <- err
			close(c.frames)
			return
		}
		c.frames <- f
	}
}

func ReadFrame(r io.Reader) (*Frame, error) {
	hdr := make([]byte, 9)
	if _, err := io.ReadFull(r, hdr); err != nil {
		return nil, err
	}
	n := int(hdr[5])<<24 | int(hdr[6])<<16 | int(hdr[7])<<8 | int(hdr[8])
	if n < 0 || n > 256<<20 {
		return nil, errors.New("bad length")
	}
	body := make([]byte, n)
	if _, err := io.ReadFull(r, body); err != nil {
		return nil, err
	}
	return &Frame{Version: hdr[0] & 0x7f, Resp: hdr[0]&0x80 != 0, Flags: hdr[1],
		Stream: int16(uint16(hdr[2])<<8 | uint16(hdr[3])), Opcode: hdr[4], Body: body,
		Raw: append(hdr, body...)}, nil
}

func (c *Client) Close() { _ = c.C.Close() }

func (c *Client) SendRaw(b []byte) error {
	_, err := c.C.Write(b)
	return err
}

// FrameBytes builds a request frame verbatim.
func FrameBytes(version, flags byte, stream int16, opcode byte, body []byte) []byte {
	out := make([]byte, 9+len(body))
	out[0] = version
	out[1] = flags
	out[2] = byte(uint16(stream) >> 8)
	out[3] = byte(uint16(stream))
	out[4] = opcode
	l := len(body)
	out[5], out[6], out[7], out[8] = byte(l>>24), byte(l>>16), byte(l>>8), byte(l)
	copy(out[9:], body)
	return out
}

// Encode a message with the reference codec (honouring negotiated compression when compress).
func (c *Client) Encode(version primitive.ProtocolVersion, stream int16, msg message.Message, mod func(*frame.Frame)) []byte {
	frm := frame.NewFrame(version, stream, msg)
	if mod != nil {
		mod(frm)
	}
	var buf bytes.Buffer
	if err := c.Codec.EncodeFrame(frm, &buf); err != nil {
		panic(fmt.Sprintf("px: encode %T: %v", msg, err))
	}
	return buf.Bytes()
}

func (c *Client) Send(version primitive.ProtocolVersion, stream int16, msg message.Message) error {
	return c.SendRaw(c.Encode(version, stream, msg, nil))
}

// Next returns the next frame, nil on timeout, error when the connection closed.
func (c *Client) Next(timeout time.Duration) (*Frame, error) {
	select {
	case f, ok := <-c.frames:
		if !ok {
			return nil, io.EOF
		}
		return f, nil
	case <-time.After(timeout):
		return nil, nil
	}
}

// Decode a response with the reference codec.
func (c *Client) Decode(f *Frame) (*frame.Frame, error) {
	return c.Codec.DecodeFrame(bytes.NewReader(f.Raw))
}

// Startup performs STARTUP (optionally with compression) and expects READY.
func (c *Client) Startup(version primitive.ProtocolVersion, compression string) error {
	st := message.NewStartup()
	if compression != "" {
		st.SetCompression(primitive.Compression(compression))
	}
	if err := c.Send(version, 0, st); err != nil {
		return err
	}
	f, err := c.Next(5 * time.Second)
	if err != nil || f == nil {
		return fmt.Errorf("startup: no reply (%v)", err)
	}
	if f.Opcode != byte(primitive.OpCodeReady) {
		return fmt.Errorf("startup: opcode %d", f.Opcode)
	}
	if compression != "" {
		c.Codec = codecs.DefaultRawCodecsWithCompression[compression]
		c.Comp = compression
	}
	return nil
}

// Barrier sends OPTIONS on the given stream and collects every frame received up to and
// including its SUPPORTED reply.  The proxy writes to a client through one FIFO queue, so
// every frame caused by earlier requests -- a duplicate reply included -- precedes it.
func (c *Client) Barrier(version primitive.ProtocolVersion, stream int16, timeout time.Duration) ([]*Frame, bool) {
	if err := c.Send(version, stream, &message.Options{}); err != nil {
		return nil, false
	}
	var got []*Frame
	deadline := time.Now().Add(timeout)
	for {
		f, err := c.Next(time.Until(deadline))
		if err != nil || f == nil {
			return got, false
		}
		if f.Stream == stream && f.Opcode == byte(primitive.OpCodeSupported) {
			return got, true
		}
		got = append(got, f)
	}
}

func Itoa(i int) string { return strconv.Itoa(i) }
