// Package gen generates native-protocol request messages over the full option space of the
// reference codec, deterministically from an hv.Rng.
package gen

import (
	"bytes"
	"fmt"

	"verifharness/hv"

	"github.com/datastax/cql-proxy/codecs"
	"github.com/datastax/go-cassandra-native-protocol/frame"
	"github.com/datastax/go-cassandra-native-protocol/message"
	"github.com/datastax/go-cassandra-native-protocol/primitive"
)

var Versions = []primitive.ProtocolVersion{3, 4, 5, 65, 66}

func Value(r *hv.Rng, v primitive.ProtocolVersion, maxLen int) *primitive.Value {
	switch r.Intn(8) {
	case 0:
		return primitive.NewNullValue()
	case 1:
		if v >= 4 {
			return primitive.NewUnsetValue()
		}
		return primitive.NewValue([]byte{})
	case 2:
		return primitive.NewValue([]byte{})
	default:
		return primitive.NewValue(r.Bytes(r.Intn(maxLen + 1)))
	}
}

func Values(r *hv.Rng, v primitive.ProtocolVersion, maxN, maxLen int) []*primitive.Value {
	n := r.Intn(maxN + 1)
	vs := make([]*primitive.Value, n)
	for i := range vs {
		vs[i] = Value(r, v, maxLen)
	}
	return vs
}

func CL(r *hv.Rng) primitive.ConsistencyLevel {
	return primitive.ConsistencyLevel(r.Intn(11))
}

func Text(r *hv.Rng, maxLen int) string {
	n := r.Intn(maxLen + 1)
	b := make([]byte, n)
	for i := range b {
		switch r.Intn(10) {
		case 0:
			b[i] = byte(r.Next())
		default:
			b[i] = byte(32 + r.Intn(95))
		}
	}
	return string(b)
}

// Options draws QueryOptions valid for version v.
func Options(r *hv.Rng, v primitive.ProtocolVersion, maxVal int) *message.QueryOptions {
	o := &message.QueryOptions{Consistency: CL(r)}
	switch r.Intn(4) {
	case 0:
		o.PositionalValues = Values(r, v, 6, maxVal)
	case 1:
		o.NamedValues = map[string]*primitive.Value{}
		for i := r.Intn(4); i > 0; i-- {
			o.NamedValues[fmt.Sprintf("n%d", i)] = Value(r, v, maxVal)
		}
	}
	o.SkipMetadata = r.Bool()
	if r.Bool() {
		o.PageSize = int32(1 + r.Intn(100000))
		if v.IsDse() {
			o.PageSizeInBytes = r.Bool()
		}
	}
	if r.Intn(3) == 0 {
		o.PagingState = r.Bytes(r.Intn(40))
	}
	if r.Intn(3) == 0 {
		s := primitive.ConsistencyLevel(8 + r.Intn(2))
		o.SerialConsistency = &s
	}
	if r.Intn(3) == 0 {
		t := int64(r.Next() >> 1)
		if r.Intn(4) == 0 {
			t = -t
		}
		o.DefaultTimestamp = &t
	}
	if (v == 5 || v == 66) && r.Intn(3) == 0 {
		o.Keyspace = "ks" + Text(r, 6)
	}
	if v == 5 && r.Intn(3) == 0 {
		n := int32(r.Next())
		o.NowInSeconds = &n
	}
	if v.IsDse() && r.Intn(3) == 0 {
		o.ContinuousPagingOptions = &message.ContinuousPagingOptions{MaxPages: int32(r.Intn(100)), PagesPerSecond: int32(r.Intn(100))}
		if v == 66 {
			o.ContinuousPagingOptions.NextPages = int32(r.Intn(10))
		}
	}
	return o
}

func Query(r *hv.Rng, v primitive.ProtocolVersion, text string, maxVal int) *message.Query {
	return &message.Query{Query: text, Options: Options(r, v, maxVal)}
}

func Execute(r *hv.Rng, v primitive.ProtocolVersion, id []byte, maxVal int) *message.Execute {
	e := &message.Execute{QueryId: id, Options: Options(r, v, maxVal)}
	if v.SupportsResultMetadataId() {
		e.ResultMetadataId = r.Bytes(1 + r.Intn(20))
	}
	return e
}

func Batch(r *hv.Rng, v primitive.ProtocolVersion, children []*message.BatchChild) *message.Batch {
	b := &message.Batch{Type: primitive.BatchType(r.Intn(3)), Children: children, Consistency: CL(r)}
	if r.Intn(3) == 0 {
		s := primitive.ConsistencyLevel(8 + r.Intn(2))
		b.SerialConsistency = &s
	}
	if r.Intn(3) == 0 {
		t := int64(r.Next() >> 1)
		b.DefaultTimestamp = &t
	}
	if (v == 5 || v == 66) && r.Intn(3) == 0 {
		b.Keyspace = "ks" + Text(r, 6)
	}
	if v == 5 && r.Intn(3) == 0 {
		n := int32(r.Next())
		b.NowInSeconds = &n
	}
	return b
}

func Children(r *hv.Rng, v primitive.ProtocolVersion, maxN, maxVal int) []*message.BatchChild {
	n := r.Intn(maxN + 1)
	cs := make([]*message.BatchChild, n)
	for i := range cs {
		if r.Bool() {
			cs[i] = &message.BatchChild{Query: "INSERT INTO t (a) VALUES (" + Text(r, 12) + "?)", Values: Values(r, v, 4, maxVal)}
		} else {
			cs[i] = &message.BatchChild{Id: r.Bytes(1 + r.Intn(20)), Values: Values(r, v, 4, maxVal)}
		}
	}
	return cs
}

// Body encodes a message body (no envelope) with the reference codec.
func Body(v primitive.ProtocolVersion, msg message.Message) ([]byte, error) {
	var buf bytes.Buffer
	flags := primitive.HeaderFlag(0)
	if v.IsBeta() {
		flags = flags.Add(primitive.HeaderFlagUseBeta)
	}
	err := codecs.DefaultRawCodec.EncodeBody(&frame.Header{Version: v, OpCode: msg.GetOpCode(), Flags: flags}, &frame.Body{Message: msg}, &buf)
	return buf.Bytes(), err
}

func PositionalValuesBytes(v primitive.ProtocolVersion, vs []*primitive.Value) []byte {
	var buf bytes.Buffer
	if err := primitive.WritePositionalValues(vs, &buf, v); err != nil {
		panic(err)
	}
	return buf.Bytes()
}
