// Package fb is the scriptable fake Cassandra backend used by every end-to-end
// correspondence check.  It speaks just enough of the native protocol for cql-proxy to
// connect (OPTIONS, STARTUP with optional compression, REGISTER, system.local/system.peers
// from a mutable topology, USE, PREPARE/EXECUTE with per-host prepared sets), records every
// frame it receives byte-for-byte, and answers data requests from a per-token script.
package fb

import (
	"bytes"
	"crypto/md5"
	"encoding/hex"
	"fmt"
	"io"
	"net"
	"regexp"
	"strconv"
	"strings"
	"sync"
	"sync/atomic"
	"time"

	"github.com/datastax/cql-proxy/codecs"
	"github.com/datastax/go-cassandra-native-protocol/datatype"
	"github.com/datastax/go-cassandra-native-protocol/frame"
	"github.com/datastax/go-cassandra-native-protocol/message"
	"github.com/datastax/go-cassandra-native-protocol/primitive"
)

// OutcomeKind enumerates what a host does with one attempt of a tokenised request.
type OutcomeKind int

const (
	OkRows              OutcomeKind = iota // RESULT rows echoing the token
	OkVoid                                 // RESULT void
	ErrMsg                                 // ERROR with Msg
	Silence                                // never answer
	DropConn                               // close this connection without answering
	DropHost                               // close every connection of this host without answering
	RawReply                               // write RawFlags/RawOpcode/RawBody verbatim (stream id patched)
	SilenceThenDropConn                    // alias kept distinct for the logs: no answer, then close
	OtherID                                // to a PREPARE: PREPARED under another id than the statement's usual one
)

type Outcome struct {
	Kind      OutcomeKind
	Msg       message.Message // for ErrMsg
	RawFlags  byte
	RawOpcode byte
	RawBody   []byte
	// for ErrMsg: header flags the answer carries besides its message: 0x02 a tracing id, 0x08 a warning list (v4+),
	// 0x04 a custom payload (v4+) -- the error code is then not at the start of the body
	MsgFlags byte
	Delay    time.Duration
	Hold     chan struct{} // if non-nil the reply is sent only after the channel is closed
	// RawReply refinements: a version byte other than the connection's (0: default), another
	// stream id than the request's, a declared length other than len(RawBody)
	RawVersion byte
	RawStream  *int16
	RawLen     *int32
	ThenClose  bool // close the connection after the raw reply
	// Pieces: the raw reply is written to the socket in pieces that end at these offsets (ascending, inside the frame),
	// with a short pause after each, so that the proxy's reader sees the frame arrive in several segments
	Pieces []int
}

// Rec is one frame received by the backend.
type Rec struct {
	Seq         int
	Host        string
	ConnID      int
	Keyspace    string
	Version     byte
	ConnVersion byte // protocol version the connection was started with
	Compression string
	Stream      int16
	Opcode      byte
	Flags       byte
	Raw         []byte // the complete frame as read from the socket
	Token       string
	Attempt     int // 1-based attempt number of this token (0 if no token)
	Kind        string
	PreparedID  string
}

type Host struct {
	IP       string
	be       *Backend
	ln       net.Listener
	mu       sync.Mutex
	conns    map[*Conn]struct{}
	Prepared map[string]bool
	up       bool
}

type Conn struct {
	ID          int
	host        *Host
	c           net.Conn
	wmu         sync.Mutex
	version     atomic.Int32 // protocol version of the last frame (read by delayed replies)
	compression string
	keyspace    string
	registered  bool
	started     bool
	startupVer  byte // protocol version of the STARTUP frame of this connection
	sysOK       int  // system-table queries answered on this connection
	codec       frame.RawCodec
	closed      bool
}

type Backend struct {
	mu                     sync.Mutex
	Port                   int
	Prefix                 string // "127.a.b." ; host n has IP Prefix+n
	Hosts                  map[string]*Host
	Topology               []string // IPs advertised in system.local / system.peers
	DC                     string
	DSEVersion             string
	MaxVersion             primitive.ProtocolVersion
	Script                 map[string][]Outcome
	Default                Outcome
	Attempts               map[string]int
	Log                    []Rec
	BadKeyspaces           map[string]message.Message
	SlowKeyspaces          map[string]time.Duration // USE of these is answered only after the delay (a backend slower than the proxy's connect timeout)
	OddKeyspaces           map[string]bool          // USE of these is answered with a RESULT that is not set_keyspace
	OptionsReplies         []Outcome                // raw replies handed out, one each, to the next OPTIONS (heartbeats) of started connections
	FailSystemOn           map[string]bool          // hosts (IP) whose system-table queries are answered with SERVER_ERROR (no control connection there)
	ScriptBeforeUnprepared bool                     // EXECUTEs of unknown ids whose token has a script get the scripted outcome, not UNPREPARED
	SlowStartupHosts       map[string]time.Duration // per host (IP): STARTUPs on that host are answered after this delay
	// authentication (0: none): 1 = PasswordAuthenticator, 2 = DseAuthenticator (PLAIN / PLAIN-START / token), 3 = an unknown
	// authenticator name; the token expected is "\x00" + AuthUser + "\x00" + AuthPass
	AuthMode           int
	AuthUser, AuthPass string
	HostAccept         map[string]map[byte]bool // per host (IP): like AcceptVersions, for that host only
	AcceptVersions     map[byte]bool            // if non-nil, STARTUPs of other versions get "Invalid or unsupported protocol version"
	// SysHostile: how the rows of system.local / system.peers are malformed (0: not at all).  1 local rpc_address null,
	// 2 local data_center null, 3 local rpc_address 0.0.0.0 (system.local has no peer column to fall back on), 4 local
	// rpc_address of three bytes, 5 system.local answered with zero rows, 6 system.local answered VOID, 7 local partitioner
	// null, 8 every peers row with a null rpc_address, 9 peers rows with a null data_center, 10 local row repeated twice, 11 system.peers answered VOID
	SysHostile         int
	StrictKeyspace     bool                 // a PREPARE whose table name is unqualified on a connection without a keyspace is INVALID, as Cassandra has it
	SysDelay           time.Duration        // answers to the system-table queries are written after this delay
	SlowStartupVersion byte                 // if non-zero only STARTUPs of this protocol version are slowed down per host
	StartupDelay       time.Duration        // every STARTUP is answered after this delay (widens the window in which a session is being created)
	PrepareErr         map[string][]Outcome // per prepared-id (hex) outcomes of PREPARE attempts
	prepAttempts       map[string]int
	nextConn           int
	seq                int
	PrepText           map[string]string   // prepared id hex -> query text
	OnFrame            func(r *Rec)        // optional observer (called with be.mu held)
	HostDefault        map[string]*Outcome // per-host outcome overriding scripts for data requests (nil = none)
	Muted              map[string]bool     // hosts that read frames but never answer anything
	HoldOptions        bool                // while set, OPTIONS (heartbeat) answers of started connections are withheld
	heldOptions        []func()            // the withheld answers, in arrival order
	HostPrepareErr     map[string]*Outcome // per-host outcome of every PREPARE reaching that host (nil = accept)
	FailSystem         int                 // the next FailSystem system-table queries are answered with SERVER_ERROR
	UnpreparedWarn     bool                // attach a warning to UNPREPARED answers (v4+)
	StrictVersion      bool                // answer PROTOCOL_ERROR to frames whose version differs from the connection's STARTUP
}

var tokRe = regexp.MustCompile(`tok:([A-Za-z0-9_]+)`)

// New creates a backend whose hosts live on prefix+"1", prefix+"2", ...
func New(prefix string, port int) *Backend {
	return &Backend{
		Port: port, Prefix: prefix, Hosts: map[string]*Host{}, DC: "dc1",
		MaxVersion: primitive.ProtocolVersionDse2, Script: map[string][]Outcome{},
		Attempts: map[string]int{}, BadKeyspaces: map[string]message.Message{}, SlowKeyspaces: map[string]time.Duration{}, OddKeyspaces: map[string]bool{},
		PrepareErr: map[string][]Outcome{}, prepAttempts: map[string]int{}, PrepText: map[string]string{},
		Default: Outcome{Kind: OkRows}, HostDefault: map[string]*Outcome{}, Muted: map[string]bool{},
		HostPrepareErr: map[string]*Outcome{},
	}
}

func (b *Backend) IP(n int) string { return b.Prefix + strconv.Itoa(n) }

// StartHost starts (or restarts) host n; it does not change the advertised topology.
func (b *Backend) StartHost(n int) error {
	ip := b.IP(n)
	b.mu.Lock()
	h := b.Hosts[ip]
	if h == nil {
		h = &Host{IP: ip, be: b, conns: map[*Conn]struct{}{}, Prepared: map[string]bool{}}
		b.Hosts[ip] = h
	}
	b.mu.Unlock()
	h.mu.Lock()
	defer h.mu.Unlock()
	if h.up {
		return nil
	}
	var ln net.Listener
	var err error
	for i := 0; i < 50; i++ {
		ln, err = net.Listen("tcp", net.JoinHostPort(ip, strconv.Itoa(b.Port)))
		if err == nil {
			break
		}
		time.Sleep(20 * time.Millisecond)
	}
	if err != nil {
		return err
	}
	h.ln = ln
	h.up = true
	go h.accept(ln)
	return nil
}

// StopHost closes the listener and every connection of host n (prepared set is forgotten
// when forget is true, as after a node restart).
func (b *Backend) StopHost(n int, forget bool) {
	b.mu.Lock()
	h := b.Hosts[b.IP(n)]
	b.mu.Unlock()
	if h == nil {
		return
	}
	h.mu.Lock()
	if h.up {
		_ = h.ln.Close()
		h.up = false
	}
	conns := make([]*Conn, 0, len(h.conns))
	for c := range h.conns {
		conns = append(conns, c)
	}
	if forget {
		h.Prepared = map[string]bool{}
	}
	h.mu.Unlock()
	for _, c := range conns {
		c.close()
	}
}

// DropConns closes every open connection of host n but keeps listening.
func (b *Backend) DropConns(n int) {
	b.mu.Lock()
	h := b.Hosts[b.IP(n)]
	b.mu.Unlock()
	if h == nil {
		return
	}
	h.dropAll()
}

// DropOldestConn closes the started connection of host n that was opened first (the others stay); false if there is none.
func (b *Backend) DropOldestConn(n int) bool {
	b.mu.Lock()
	h := b.Hosts[b.IP(n)]
	b.mu.Unlock()
	if h == nil {
		return false
	}
	h.mu.Lock()
	var oldest *Conn
	for c := range h.conns {
		if c.started && !c.registered && (oldest == nil || c.ID < oldest.ID) {
			oldest = c
		}
	}
	h.mu.Unlock()
	if oldest == nil {
		return false
	}
	oldest.close()
	return true
}

func (h *Host) dropAll() {
	h.mu.Lock()
	conns := make([]*Conn, 0, len(h.conns))
	for c := range h.conns {
		conns = append(conns, c)
	}
	h.mu.Unlock()
	for _, c := range conns {
		c.close()
	}
}

// ReadyConns counts the open connections of host n that completed STARTUP.
func (b *Backend) ReadyConns(n int) int {
	b.mu.Lock()
	h := b.Hosts[b.IP(n)]
	b.mu.Unlock()
	if h == nil {
		return 0
	}
	h.mu.Lock()
	defer h.mu.Unlock()
	k := 0
	for c := range h.conns {
		if c.started {
			k++
		}
	}
	return k
}

// PrepareEverywhere marks the statement as prepared on every host and returns its id.
func (b *Backend) PrepareEverywhere(query string) []byte {
	id := md5.Sum([]byte(query))
	idh := hex.EncodeToString(id[:])
	b.mu.Lock()
	b.PrepText[idh] = query
	hosts := make([]*Host, 0)
	for _, h := range b.Hosts {
		hosts = append(hosts, h)
	}
	b.mu.Unlock()
	for _, h := range hosts {
		h.mu.Lock()
		h.Prepared[idh] = true
		h.mu.Unlock()
	}
	return id[:]
}

// SetHostDefault makes every data request reaching host n get this outcome (nil clears it).
func (b *Backend) SetHostDefault(n int, o *Outcome) {
	b.mu.Lock()
	b.HostDefault[b.IP(n)] = o
	b.mu.Unlock()
}

// ReleaseOptions sends the withheld OPTIONS answers in the order the requests arrived.
// SetPrepareOutcomes scripts the answers to the next PREPAREs of the statement with that id (hex); none = accept.
func (b *Backend) SetPrepareOutcomes(idh string, outs ...Outcome) {
	b.mu.Lock()
	if len(outs) == 0 {
		delete(b.PrepareErr, idh)
	} else {
		b.PrepareErr[idh] = outs
	}
	b.prepAttempts[idh] = 0
	b.mu.Unlock()
}

// QueueOptionsReplies: the next heartbeats (OPTIONS on started connections) are answered with these raw replies.
func (b *Backend) QueueOptionsReplies(outs ...Outcome) {
	b.mu.Lock()
	b.OptionsReplies = append(b.OptionsReplies, outs...)
	b.mu.Unlock()
}

// OptionsRepliesLeft reports how many queued heartbeat replies have not been used yet.
func (b *Backend) OptionsRepliesLeft() int {
	b.mu.Lock()
	defer b.mu.Unlock()
	return len(b.OptionsReplies)
}

// SetFailSystemOn makes host n answer (or stop answering) system-table queries with an error.
func (b *Backend) SetFailSystemOn(n int, on bool) {
	b.mu.Lock()
	if b.FailSystemOn == nil {
		b.FailSystemOn = map[string]bool{}
	}
	b.FailSystemOn[b.IP(n)] = on
	b.mu.Unlock()
}

// SetScriptBeforeUnprepared: scripted outcomes win over the UNPREPARED answer for unknown ids.
func (b *Backend) SetScriptBeforeUnprepared(on bool) {
	b.mu.Lock()
	b.ScriptBeforeUnprepared = on
	b.mu.Unlock()
}

// SetStartupDelay makes every later STARTUP wait before it is answered.
func (b *Backend) SetStartupDelay(d time.Duration) {
	b.mu.Lock()
	b.StartupDelay = d
	b.mu.Unlock()
}

// Lock / Unlock: for setting several configuration fields at once.
func (b *Backend) Lock()   { b.mu.Lock() }
func (b *Backend) Unlock() { b.mu.Unlock() }

// a statement whose table name has no keyspace qualifier
var unqualifiedRe = regexp.MustCompile(`(?i)\b(FROM|INTO|UPDATE)\s+"?[A-Za-z_][A-Za-z_0-9]*"?(\s|\(|$)`)

// SetHostAccept: host n accepts STARTUPs of these protocol versions only from now on (nil: whatever the backend accepts).
func (b *Backend) SetHostAccept(n int, versions ...byte) {
	b.mu.Lock()
	if b.HostAccept == nil {
		b.HostAccept = map[string]map[byte]bool{}
	}
	if len(versions) == 0 {
		delete(b.HostAccept, b.IP(n))
	} else {
		m := map[byte]bool{}
		for _, v := range versions {
			m[v] = true
		}
		b.HostAccept[b.IP(n)] = m
	}
	b.mu.Unlock()
}

// SetSysDelay: answers to system-table queries are written after d from now on.
func (b *Backend) SetSysDelay(d time.Duration) {
	b.mu.Lock()
	b.SysDelay = d
	b.mu.Unlock()
}

func (b *Backend) sysDelay() time.Duration {
	b.mu.Lock()
	defer b.mu.Unlock()
	return b.SysDelay
}

// SetSysHostile sets how system-table rows are malformed from now on (0: not at all).
func (b *Backend) SetSysHostile(mode int) {
	b.mu.Lock()
	b.SysHostile = mode
	b.mu.Unlock()
}

// SetSlowStartupHost makes every later STARTUP on host n wait before it is answered (0: no longer).
func (b *Backend) SetSlowStartupHost(n int, d time.Duration) {
	b.mu.Lock()
	if b.SlowStartupHosts == nil {
		b.SlowStartupHosts = map[string]time.Duration{}
	}
	b.SlowStartupHosts[b.IP(n)] = d
	b.mu.Unlock()
}

// SetSlowKeyspace delays the answer to USE of that keyspace.
func (b *Backend) SetSlowKeyspace(ks string, d time.Duration) {
	b.mu.Lock()
	b.SlowKeyspaces[ks] = d
	b.mu.Unlock()
}

func (b *Backend) ReleaseOptions() {
	b.mu.Lock()
	b.HoldOptions = false
	held := b.heldOptions
	b.heldOptions = nil
	b.mu.Unlock()
	for _, f := range held {
		f()
		time.Sleep(2 * time.Millisecond)
	}
}

// Mute makes host n swallow every frame without answering (heartbeats included).
func (b *Backend) Mute(n int, on bool) {
	b.mu.Lock()
	b.Muted[b.IP(n)] = on
	b.mu.Unlock()
}

// SetHostPrepare makes every PREPARE reaching host n get this outcome (nil: accept again).
func (b *Backend) SetHostPrepare(n int, o *Outcome) {
	b.mu.Lock()
	b.HostPrepareErr[b.IP(n)] = o
	b.mu.Unlock()
}

func (b *Backend) SetUnpreparedWarn(on bool) {
	b.mu.Lock()
	b.UnpreparedWarn = on
	b.mu.Unlock()
}

// Knows reports whether host n has the statement id (hex) prepared.
func (b *Backend) Knows(n int, idh string) bool {
	b.mu.Lock()
	h := b.Hosts[b.IP(n)]
	b.mu.Unlock()
	if h == nil {
		return false
	}
	h.mu.Lock()
	defer h.mu.Unlock()
	return h.Prepared[idh]
}

func (b *Backend) Forget(n int) {
	b.mu.Lock()
	h := b.Hosts[b.IP(n)]
	b.mu.Unlock()
	if h != nil {
		h.mu.Lock()
		h.Prepared = map[string]bool{}
		h.mu.Unlock()
	}
}

func (b *Backend) Shutdown() {
	b.mu.Lock()
	hosts := make([]*Host, 0)
	for _, h := range b.Hosts {
		hosts = append(hosts, h)
	}
	b.mu.Unlock()
	for _, h := range hosts {
		h.mu.Lock()
		if h.up {
			_ = h.ln.Close()
			h.up = false
		}
		h.mu.Unlock()
		h.dropAll()
	}
}

func (b *Backend) SetTopology(ns ...int) {
	b.mu.Lock()
	b.Topology = nil
	for _, n := range ns {
		b.Topology = append(b.Topology, b.IP(n))
	}
	b.mu.Unlock()
}

// SetFailSystem makes the next n system-table queries fail.
func (b *Backend) SetFailSystem(n int) {
	b.mu.Lock()
	b.FailSystem = n
	b.mu.Unlock()
}

// ControlReady counts the connections that REGISTERed for events and then read both system tables.
func (b *Backend) ControlReady() int {
	n := 0
	b.mu.Lock()
	defer b.mu.Unlock()
	for _, h := range b.Hosts {
		h.mu.Lock()
		for c := range h.conns {
			if c.registered && c.sysOK >= 2 {
				n++
			}
		}
		h.mu.Unlock()
	}
	return n
}

// Registered counts the connections that REGISTERed for events, per host number.
func (b *Backend) Registered() map[int]int {
	out := map[int]int{}
	b.mu.Lock()
	defer b.mu.Unlock()
	for ip, h := range b.Hosts {
		h.mu.Lock()
		for c := range h.conns {
			if c.registered {
				var n int
				fmt.Sscanf(strings.TrimPrefix(ip, b.Prefix), "%d", &n)
				out[n]++
			}
		}
		h.mu.Unlock()
	}
	return out
}

// DropRegistered closes every connection that REGISTERed for events (the control connections).
func (b *Backend) DropRegistered() int {
	b.mu.Lock()
	var targets []*Conn
	for _, h := range b.Hosts {
		h.mu.Lock()
		for c := range h.conns {
			if c.registered {
				targets = append(targets, c)
			}
		}
		h.mu.Unlock()
	}
	b.mu.Unlock()
	for _, c := range targets {
		c.close()
	}
	return len(targets)
}

// EventRaw writes the given bytes on every registered connection.
func (b *Backend) EventRaw(raw []byte) int {
	b.mu.Lock()
	var targets []*Conn
	for _, h := range b.Hosts {
		h.mu.Lock()
		for c := range h.conns {
			if c.registered {
				targets = append(targets, c)
			}
		}
		h.mu.Unlock()
	}
	b.mu.Unlock()
	for _, c := range targets {
		c.writeRaw(raw)
	}
	return len(targets)
}

// Event sends an event frame on every registered connection.
func (b *Backend) Event(evt message.Message) int {
	b.mu.Lock()
	var targets []*Conn
	for _, h := range b.Hosts {
		h.mu.Lock()
		for c := range h.conns {
			if c.registered {
				targets = append(targets, c)
			}
		}
		h.mu.Unlock()
	}
	b.mu.Unlock()
	for _, c := range targets {
		c.sendMsg(-1, evt)
	}
	return len(targets)
}

func (b *Backend) SetScript(token string, outs ...Outcome) {
	b.mu.Lock()
	b.Script[token] = outs
	b.mu.Unlock()
}

func (b *Backend) Snapshot() []Rec {
	b.mu.Lock()
	defer b.mu.Unlock()
	out := make([]Rec, len(b.Log))
	copy(out, b.Log)
	return out
}

func (b *Backend) ResetLog() {
	b.mu.Lock()
	b.Log = nil
	b.mu.Unlock()
}

func (h *Host) accept(ln net.Listener) {
	for {
		c, err := ln.Accept()
		if err != nil {
			return
		}
		h.be.mu.Lock()
		h.be.nextConn++
		id := h.be.nextConn
		h.be.mu.Unlock()
		cn := &Conn{ID: id, host: h, c: c, codec: codecs.DefaultRawCodec}
		h.mu.Lock()
		if !h.up {
			h.mu.Unlock()
			_ = c.Close()
			continue
		}
		h.conns[cn] = struct{}{}
		h.mu.Unlock()
		go cn.serve()
	}
}

func (c *Conn) ver() primitive.ProtocolVersion     { return primitive.ProtocolVersion(c.version.Load()) }
func (c *Conn) setVer(v primitive.ProtocolVersion) { c.version.Store(int32(v)) }

func (c *Conn) close() {
	c.wmu.Lock()
	c.closed = true
	c.wmu.Unlock()
	_ = c.c.Close()
	c.host.mu.Lock()
	delete(c.host.conns, c)
	c.host.mu.Unlock()
}

func (c *Conn) writeRaw(b []byte) {
	c.wmu.Lock()
	defer c.wmu.Unlock()
	if c.closed {
		return
	}
	_, _ = c.c.Write(b)
}

// writePieces writes b in pieces ending at the given offsets; the write lock is held throughout so that no other frame
// is interleaved.
func (c *Conn) writePieces(b []byte, ends []int) {
	c.wmu.Lock()
	defer c.wmu.Unlock()
	if c.closed {
		return
	}
	if t, ok := c.c.(*net.TCPConn); ok {
		_ = t.SetNoDelay(true)
	}
	from := 0
	for _, e := range ends {
		if e <= from || e >= len(b) {
			continue
		}
		_, _ = c.c.Write(b[from:e])
		from = e
		time.Sleep(300 * time.Microsecond)
	}
	_, _ = c.c.Write(b[from:])
}

func (c *Conn) sendMsg(stream int16, msg message.Message) { c.sendMsgMod(stream, msg, nil) }

func (c *Conn) sendMsgMod(stream int16, msg message.Message, mod func(*frame.Frame)) {
	var buf bytes.Buffer
	frm := frame.NewFrame(c.ver(), stream, msg)
	if mod != nil {
		mod(frm)
	}
	if c.compression != "" && msg.GetOpCode() != primitive.OpCodeReady && msg.GetOpCode() != primitive.OpCodeSupported {
		frm.SetCompress(true)
	}
	if err := c.codec.EncodeFrame(frm, &buf); err != nil {
		// a reply this backend cannot express (e.g. a keyspace name the protocol cannot carry): answer as a server would
		buf.Reset()
		if err2 := c.codec.EncodeFrame(frame.NewFrame(c.ver(), stream, &message.Invalid{ErrorMessage: "fb: " + err.Error()}), &buf); err2 != nil {
			panic(fmt.Sprintf("fb: cannot encode %T: %v", msg, err))
		}
	}
	c.writeRaw(buf.Bytes())
}

// RawFrameBytes builds header+body for a verbatim reply.
func RawFrameBytes(version byte, flags byte, stream int16, opcode byte, body []byte) []byte {
	out := make([]byte, 9+len(body))
	out[0] = version | 0x80
	out[1] = flags
	out[2] = byte(uint16(stream) >> 8)
	out[3] = byte(uint16(stream))
	out[4] = opcode
	l := len(body)
	out[5], out[6], out[7], out[8] = byte(l>>24), byte(l>>16), byte(l>>8), byte(l)
	copy(out[9:], body)
	return out
}

func (c *Conn) serve() {
	defer c.close()
	for {
		hdr := make([]byte, 9)
		if _, err := io.ReadFull(c.c, hdr[:1]); err != nil {
			return
		}
		if hdr[0]&0x7f == 2 {
			// protocol v2: eight-byte header with a one-byte stream id; this backend never speaks it and says so, in v2 framing
			if _, err := io.ReadFull(c.c, hdr[1:8]); err != nil {
				return
			}
			n := int(hdr[4])<<24 | int(hdr[5])<<16 | int(hdr[6])<<8 | int(hdr[7])
			if n < 0 || n > 64<<20 {
				return
			}
			body := make([]byte, n)
			if _, err := io.ReadFull(c.c, body); err != nil {
				return
			}
			be := c.host.be
			be.mu.Lock()
			kind := "v2-frame"
			if hdr[3] == byte(primitive.OpCodeStartup) {
				kind = "startup"
			}
			c.logRec(Rec{Version: 2, Stream: int16(int8(hdr[2])), Opcode: hdr[3], Flags: hdr[1], Kind: kind, Raw: append(append([]byte{}, hdr[:8]...), body...)})
			be.mu.Unlock()
			var buf bytes.Buffer
			_ = codecs.DefaultRawCodec.EncodeFrame(frame.NewFrame(primitive.ProtocolVersion2, int16(int8(hdr[2])), &message.ProtocolError{ErrorMessage: "Invalid or unsupported protocol version (2)"}), &buf)
			c.writeRaw(buf.Bytes())
			continue
		}
		if _, err := io.ReadFull(c.c, hdr[1:]); err != nil {
			return
		}
		n := int(hdr[5])<<24 | int(hdr[6])<<16 | int(hdr[7])<<8 | int(hdr[8])
		if n < 0 || n > 64<<20 {
			return
		}
		body := make([]byte, n)
		if _, err := io.ReadFull(c.c, body); err != nil {
			return
		}
		raw := append(append([]byte{}, hdr...), body...)
		if !c.handle(hdr, body, raw) {
			return
		}
	}
}

func (c *Conn) logRec(r Rec) *Rec {
	b := c.host.be
	b.seq++
	r.Seq = b.seq
	r.Host = c.host.IP
	r.ConnID = c.ID
	r.Keyspace = c.keyspace
	r.Compression = c.compression
	r.ConnVersion = c.startupVer
	b.Log = append(b.Log, r)
	p := &b.Log[len(b.Log)-1]
	if b.OnFrame != nil {
		b.OnFrame(p)
	}
	return p
}

// decode the logical body (decompressed, envelope stripped) with the reference codec
func (c *Conn) decode(hdr, body []byte) (*frame.Frame, error) {
	return c.codec.DecodeFrame(bytes.NewReader(append(append([]byte{}, hdr...), body...)))
}

func (c *Conn) handle(hdr, body, raw []byte) bool {
	be := c.host.be
	be.mu.Lock()
	muted := be.Muted[c.host.IP]
	be.mu.Unlock()
	if muted {
		// still record data requests so that a trace shows where they went
		if op := primitive.OpCode(hdr[4]); op == primitive.OpCodeQuery || op == primitive.OpCodeExecute || op == primitive.OpCodeBatch {
			if m := tokRe.FindSubmatch(raw); m != nil {
				be.mu.Lock()
				be.Attempts[string(m[1])]++
				c.logRec(Rec{Version: hdr[0] & 0x7f, Opcode: hdr[4], Flags: hdr[1], Raw: raw, Token: string(m[1]), Kind: "query", Attempt: be.Attempts[string(m[1])]})
				be.mu.Unlock()
			}
		}
		return true
	}
	version := primitive.ProtocolVersion(hdr[0] & 0x7f)
	stream := int16(uint16(hdr[2])<<8 | uint16(hdr[3]))
	opcode := primitive.OpCode(hdr[4])
	rec := Rec{Version: byte(version), Stream: stream, Opcode: hdr[4], Flags: hdr[1], Raw: raw}

	if c.ver() == 0 {
		c.setVer(version)
	}
	if version > be.MaxVersion || !version.IsSupported() {
		be.mu.Lock()
		rec.Kind = "bad-version"
		c.logRec(rec)
		be.mu.Unlock()
		// answer in a version the peer can parse
		v := version
		if !v.IsSupported() {
			v = primitive.ProtocolVersion4
		}
		var buf bytes.Buffer
		_ = codecs.DefaultRawCodec.EncodeFrame(frame.NewFrame(v, stream, &message.ProtocolError{ErrorMessage: "Invalid or unsupported protocol version"}), &buf)
		c.writeRaw(buf.Bytes())
		c.setVer(0)
		return true
	}
	c.setVer(version)
	if be.StrictVersion && c.started && byte(version) != c.startupVer {
		be.mu.Lock()
		rec.Kind = "version-mismatch"
		c.logRec(rec)
		be.mu.Unlock()
		var buf bytes.Buffer
		_ = codecs.DefaultRawCodec.EncodeFrame(frame.NewFrame(primitive.ProtocolVersion(c.startupVer), stream, &message.ProtocolError{ErrorMessage: "Invalid message version. Got " + version.String() + " but previous messages on this connection had version " + primitive.ProtocolVersion(c.startupVer).String()}), &buf)
		c.writeRaw(buf.Bytes())
		c.setVer(primitive.ProtocolVersion(c.startupVer))
		return true
	}

	switch opcode {
	case primitive.OpCodeOptions:
		be.mu.Lock()
		rec.Kind = "options"
		c.logRec(rec)
		be.mu.Unlock()
		be.mu.Lock()
		if c.started && len(be.OptionsReplies) > 0 {
			out := be.OptionsReplies[0]
			be.OptionsReplies = be.OptionsReplies[1:]
			be.mu.Unlock()
			return c.apply(stream, out, "")
		}
		if be.HoldOptions && c.started {
			be.heldOptions = append(be.heldOptions, func() {
				c.sendMsg(stream, &message.Supported{Options: map[string][]string{"CQL_VERSION": {"3.4.5"}, "COMPRESSION": {"lz4", "snappy"}}})
			})
			be.mu.Unlock()
			return true
		}
		be.mu.Unlock()
		c.sendMsg(stream, &message.Supported{Options: map[string][]string{"CQL_VERSION": {"3.4.5"}, "COMPRESSION": {"lz4", "snappy"}}})
		return true
	case primitive.OpCodeStartup:
		frm, err := c.decode(hdr, body)
		if err != nil {
			return false
		}
		st := frm.Body.Message.(*message.Startup)
		be.mu.Lock()
		rec.Kind = "startup"
		if comp, ok := st.Options["COMPRESSION"]; ok {
			lc := strings.ToLower(comp)
			if codec, ok := codecs.DefaultRawCodecsWithCompression[lc]; ok {
				c.compression = lc
				c.codec = codec
			}
		}
		c.logRec(rec)
		sdelay := be.StartupDelay
		if d := be.SlowStartupHosts[c.host.IP]; d > sdelay && (be.SlowStartupVersion == 0 || be.SlowStartupVersion == byte(version)) {
			sdelay = d
		}
		be.mu.Unlock()
		if sdelay > 0 {
			time.Sleep(sdelay)
		}
		be.mu.Lock()
		accept, mode := be.AcceptVersions, be.AuthMode
		be.mu.Unlock()
		be.mu.Lock()
		if ha := be.HostAccept[c.host.IP]; ha != nil && accept == nil {
			accept = ha
		}
		be.mu.Unlock()
		if accept != nil && !accept[byte(version)] {
			c.sendMsg(stream, &message.ProtocolError{ErrorMessage: "Invalid or unsupported protocol version (" + version.String() + ")"})
			c.setVer(0)
			return true
		}
		if mode != 0 {
			c.host.mu.Lock()
			c.startupVer = byte(version)
			c.host.mu.Unlock()
			name := map[int]string{1: "org.apache.cassandra.auth.PasswordAuthenticator", 2: "com.datastax.bdp.cassandra.auth.DseAuthenticator", 3: "com.example.SomeAuthenticator"}[mode]
			c.sendMsg(stream, &message.Authenticate{Authenticator: name})
			return true
		}
		c.host.mu.Lock()
		c.started = true
		c.startupVer = byte(version)
		c.host.mu.Unlock()
		c.sendMsg(stream, &message.Ready{})
		return true
	case primitive.OpCodeAuthResponse:
		frm, err := c.decode(hdr, body)
		if err != nil {
			return false
		}
		tok := frm.Body.Message.(*message.AuthResponse).Token
		be.mu.Lock()
		rec.Kind = "auth"
		rec.Token = string(tok)
		c.logRec(rec)
		mode, want := be.AuthMode, "\x00"+be.AuthUser+"\x00"+be.AuthPass
		be.mu.Unlock()
		switch {
		case mode == 2 && string(tok) == "PLAIN":
			c.sendMsg(stream, &message.AuthChallenge{Token: []byte("PLAIN-START")})
		case string(tok) == want:
			c.host.mu.Lock()
			c.started = true
			c.host.mu.Unlock()
			c.sendMsg(stream, &message.AuthSuccess{})
		default:
			c.sendMsg(stream, &message.AuthenticationError{ErrorMessage: "bad credentials"})
		}
		return true
	case primitive.OpCodeRegister:
		be.mu.Lock()
		rec.Kind = "register"
		c.logRec(rec)
		c.host.mu.Lock()
		c.registered = true
		c.host.mu.Unlock()
		be.mu.Unlock()
		c.sendMsg(stream, &message.Ready{})
		return true
	}

	frm, err := c.decode(hdr, body)
	if err != nil {
		be.mu.Lock()
		rec.Kind = "undecodable:" + err.Error()
		c.logRec(rec)
		be.mu.Unlock()
		c.sendMsg(stream, &message.ProtocolError{ErrorMessage: "fb: cannot decode: " + err.Error()})
		return true
	}

	// logical body text used for token search
	var logical bytes.Buffer
	_ = codecs.DefaultRawCodec.EncodeBody(&frame.Header{Version: version, OpCode: opcode, Flags: frm.Header.Flags.Remove(primitive.HeaderFlagCompressed)}, frm.Body, &logical)
	token := ""
	if m := tokRe.FindSubmatch(logical.Bytes()); m != nil {
		token = string(m[1])
	}

	switch msg := frm.Body.Message.(type) {
	case *message.Query:
		q := strings.TrimSpace(msg.Query)
		uq := strings.ToUpper(q)
		if strings.HasPrefix(uq, "USE ") {
			ks := strings.TrimSpace(q[4:])
			be.mu.Lock()
			rec.Kind = "use"
			bad, isBad := be.BadKeyspaces[ks]
			if strings.Trim(ks, "\"") == "" || strings.ContainsAny(ks, "\x00;") {
				bad, isBad = &message.Invalid{ErrorMessage: "fb: invalid keyspace name"}, true
			}
			slow, odd := be.SlowKeyspaces[ks], be.OddKeyspaces[ks]
			if !isBad {
				c.keyspace = ks
			}
			c.logRec(rec)
			be.mu.Unlock()
			if slow > 0 {
				time.Sleep(slow)
			}
			if odd {
				c.sendMsg(stream, &message.VoidResult{})
				return true
			}
			if isBad {
				c.sendMsg(stream, bad)
			} else {
				c.sendMsg(stream, &message.SetKeyspaceResult{Keyspace: strings.Trim(ks, "\"")})
			}
			return true
		}
		if strings.Contains(uq, "FROM SYSTEM.LOCAL") || strings.Contains(uq, "FROM SYSTEM.PEERS") {
			be.mu.Lock()
			rec.Kind = "system"
			rec.Token = token
			c.logRec(rec)
			if be.FailSystemOn[c.host.IP] {
				be.mu.Unlock()
				c.sendMsg(stream, &message.ServerError{ErrorMessage: "fb: system tables unavailable on this host"})
				return true
			}
			if be.FailSystem > 0 {
				be.FailSystem--
				be.mu.Unlock()
				c.sendMsg(stream, &message.ServerError{ErrorMessage: "fb: system tables unavailable"})
				return true
			}
			res := be.systemRows(c, strings.Contains(uq, "FROM SYSTEM.LOCAL"))
			if (be.SysHostile == 6 && strings.Contains(uq, "FROM SYSTEM.LOCAL")) || (be.SysHostile == 11 && strings.Contains(uq, "FROM SYSTEM.PEERS")) {
				res = &message.VoidResult{}
			}
			be.mu.Unlock()
			c.host.mu.Lock()
			c.sysOK++
			c.host.mu.Unlock()
			if d := be.sysDelay(); d > 0 {
				time.Sleep(d)
			}
			c.sendMsg(stream, res)
			return true
		}
		rec.Kind = "query"
	case *message.Prepare:
		id := md5.Sum([]byte(msg.Query))
		idh := hex.EncodeToString(id[:])
		be.mu.Lock()
		rec.Kind = "prepare"
		rec.PreparedID = idh
		rec.Token = token
		be.prepAttempts[idh]++
		n := be.prepAttempts[idh]
		var out *Outcome
		if outs, ok := be.PrepareErr[idh]; ok && n <= len(outs) {
			o := outs[n-1]
			out = &o
		}
		if hp := be.HostPrepareErr[c.host.IP]; hp != nil {
			o := *hp
			out = &o
		}
		rec.Attempt = n
		c.logRec(rec)
		if out == nil && be.StrictKeyspace && c.keyspace == "" && msg.Keyspace == "" && unqualifiedRe.MatchString(msg.Query) {
			out = &Outcome{Kind: ErrMsg, Msg: &message.Invalid{ErrorMessage: "No keyspace has been specified. USE a keyspace, or explicitly specify keyspace.tablename"}}
		}
		if out != nil && out.Kind == OtherID {
			other := md5.Sum([]byte(msg.Query + "\x00other"))
			c.host.mu.Lock()
			c.host.Prepared[hex.EncodeToString(other[:])] = true
			c.host.mu.Unlock()
			be.mu.Unlock()
			c.sendMsg(stream, &message.PreparedResult{
				PreparedQueryId:   other[:],
				ResultMetadataId:  other[:],
				VariablesMetadata: &message.VariablesMetadata{},
				ResultMetadata:    &message.RowsMetadata{ColumnCount: 0},
			})
			return true
		}
		if out == nil || out.Kind == OkRows || out.Kind == OkVoid {
			c.host.mu.Lock()
			c.host.Prepared[idh] = true
			c.host.mu.Unlock()
			be.PrepText[idh] = msg.Query
		}
		be.mu.Unlock()
		if out != nil && out.Kind != OkRows && out.Kind != OkVoid {
			return c.apply(stream, *out, token)
		}
		c.sendMsg(stream, &message.PreparedResult{
			PreparedQueryId:   id[:],
			ResultMetadataId:  id[:],
			VariablesMetadata: &message.VariablesMetadata{},
			ResultMetadata:    &message.RowsMetadata{ColumnCount: 0},
		})
		return true
	case *message.Execute:
		idh := hex.EncodeToString(msg.QueryId)
		rec.PreparedID = idh
		c.host.mu.Lock()
		known := c.host.Prepared[idh]
		c.host.mu.Unlock()
		be.mu.Lock()
		if be.ScriptBeforeUnprepared && token != "" && len(be.Script[token]) > 0 {
			known = true // a scripted outcome for this token takes precedence over "unprepared" (a host failing before it looks the id up)
		}
		be.mu.Unlock()
		if !known {
			be.mu.Lock()
			rec.Kind = "execute-unprepared"
			rec.Token = token
			c.logRec(rec)
			be.mu.Unlock()
			c.sendMsgMod(stream, &message.Unprepared{ErrorMessage: "unprepared", Id: msg.QueryId}, be.unpreparedMod(hdr[1]))
			return true
		}
		rec.Kind = "execute"
	case *message.Batch:
		for _, ch := range msg.Children {
			if len(ch.Id) > 0 {
				idh := hex.EncodeToString(ch.Id)
				c.host.mu.Lock()
				known := c.host.Prepared[idh]
				c.host.mu.Unlock()
				if !known {
					be.mu.Lock()
					rec.Kind = "batch-unprepared"
					rec.Token = token
					rec.PreparedID = idh
					c.logRec(rec)
					be.mu.Unlock()
					c.sendMsgMod(stream, &message.Unprepared{ErrorMessage: "unprepared", Id: ch.Id}, be.unpreparedMod(hdr[1]))
					return true
				}
			}
		}
		rec.Kind = "batch"
	default:
		be.mu.Lock()
		rec.Kind = "other"
		c.logRec(rec)
		be.mu.Unlock()
		c.sendMsg(stream, &message.ProtocolError{ErrorMessage: "fb: unsupported"})
		return true
	}

	// scripted data request
	be.mu.Lock()
	rec.Token = token
	out := be.Default
	if token != "" {
		be.Attempts[token]++
		rec.Attempt = be.Attempts[token]
		if outs, ok := be.Script[token]; ok && len(outs) > 0 {
			i := rec.Attempt - 1
			if i >= len(outs) {
				i = len(outs) - 1
			}
			out = outs[i]
		}
	}
	if hd := be.HostDefault[c.host.IP]; hd != nil {
		out = *hd
	}
	c.logRec(rec)
	be.mu.Unlock()
	return c.apply(stream, out, token)
}

// unpreparedMod: a traced request gets its tracing id on the UNPREPARED answer too, and a
// warning is attached while UnpreparedWarn is set.
func (b *Backend) unpreparedMod(reqFlags byte) func(*frame.Frame) {
	b.mu.Lock()
	warn := b.UnpreparedWarn
	b.mu.Unlock()
	return func(f *frame.Frame) {
		if reqFlags&byte(primitive.HeaderFlagTracing) != 0 {
			f.SetTracingId(schemaVersion)
		}
		if warn && f.Header.Version >= primitive.ProtocolVersion4 {
			f.SetWarnings([]string{"fb: statement re-prepared too often"})
		}
	}
}

func (c *Conn) apply(stream int16, out Outcome, token string) bool {
	do := func() bool {
		switch out.Kind {
		case OkRows:
			c.sendMsg(stream, TokenRows(token))
		case OkVoid:
			c.sendMsg(stream, &message.VoidResult{})
		case ErrMsg:
			if out.MsgFlags == 0 {
				c.sendMsg(stream, out.Msg)
			} else {
				fl := out.MsgFlags
				c.sendMsgMod(stream, out.Msg, func(f *frame.Frame) {
					if fl&0x02 != 0 {
						f.SetTracingId(schemaVersion)
					}
					if fl&0x08 != 0 && f.Header.Version >= primitive.ProtocolVersion4 {
						f.SetWarnings([]string{"fb: a warning"})
					}
					if fl&0x04 != 0 && f.Header.Version >= primitive.ProtocolVersion4 {
						f.SetCustomPayload(map[string][]byte{"k": {1, 2, 3}})
					}
				})
			}
		case Silence:
		case DropConn, SilenceThenDropConn:
			return false
		case DropHost:
			go c.host.dropAll()
			return false
		case RawReply:
			v, st := byte(c.ver())|0x80, stream
			if out.RawVersion != 0 {
				v = out.RawVersion
			}
			if out.RawStream != nil {
				st = *out.RawStream
			}
			b := RawFrameBytes(0, out.RawFlags, st, out.RawOpcode, out.RawBody)
			b[0] = v
			if out.RawLen != nil {
				l := uint32(*out.RawLen)
				b[5], b[6], b[7], b[8] = byte(l>>24), byte(l>>16), byte(l>>8), byte(l)
			}
			if len(out.Pieces) > 0 {
				c.writePieces(b, out.Pieces)
			} else {
				c.writeRaw(b)
			}
			if out.ThenClose {
				return false
			}
		}
		return true
	}
	if out.Hold != nil || out.Delay > 0 {
		go func() {
			if out.Hold != nil {
				<-out.Hold
			}
			if out.Delay > 0 {
				time.Sleep(out.Delay)
			}
			if !do() {
				c.close()
			}
		}()
		return true
	}
	return do()
}

// TokenRows is the RESULT a successful data request gets: one varchar column holding the token.
func TokenRows(token string) *message.RowsResult {
	return &message.RowsResult{
		Metadata: &message.RowsMetadata{ColumnCount: 1, Columns: []*message.ColumnMetadata{{
			Keyspace: "ks", Table: "t", Name: "tok", Type: datatype.Varchar}}},
		Data: message.RowSet{message.Row{[]byte(token)}},
	}
}

func enc(v primitive.ProtocolVersion, dt datatype.DataType, val interface{}) []byte {
	b, err := codecs.EncodeType(dt, v, val)
	if err != nil {
		panic(err)
	}
	return b
}

var hostIDBase, _ = primitive.ParseUuid("b3bca296-5bb7-411d-b875-67c33fe10000")
var schemaVersion, _ = primitive.ParseUuid("4f2b29e6-59b5-4e2d-8fd6-01e32e67f0d7")

func hostID(ip string) *primitive.UUID {
	u := *hostIDBase
	p := net.ParseIP(ip).To4()
	if p != nil {
		u[14], u[15] = p[2], p[3]
	}
	return &u
}

// systemRows answers SELECT * FROM system.local / system.peers (be.mu held).
func (b *Backend) systemRows(c *Conn, local bool) message.Message {
	v := c.ver()
	cols := []*message.ColumnMetadata{
		{Keyspace: "system", Table: "t", Name: "key", Type: datatype.Varchar},
		{Keyspace: "system", Table: "t", Name: "rpc_address", Type: datatype.Inet},
		{Keyspace: "system", Table: "t", Name: "peer", Type: datatype.Inet},
		{Keyspace: "system", Table: "t", Name: "data_center", Type: datatype.Varchar},
		{Keyspace: "system", Table: "t", Name: "rack", Type: datatype.Varchar},
		{Keyspace: "system", Table: "t", Name: "tokens", Type: datatype.NewSet(datatype.Varchar)},
		{Keyspace: "system", Table: "t", Name: "release_version", Type: datatype.Varchar},
		{Keyspace: "system", Table: "t", Name: "partitioner", Type: datatype.Varchar},
		{Keyspace: "system", Table: "t", Name: "cluster_name", Type: datatype.Varchar},
		{Keyspace: "system", Table: "t", Name: "cql_version", Type: datatype.Varchar},
		{Keyspace: "system", Table: "t", Name: "host_id", Type: datatype.Uuid},
		{Keyspace: "system", Table: "t", Name: "schema_version", Type: datatype.Uuid},
		{Keyspace: "system", Table: "t", Name: "dse_version", Type: datatype.Varchar},
	}
	row := func(ip string) message.Row {
		var dse []byte
		if b.DSEVersion != "" {
			dse = enc(v, datatype.Varchar, b.DSEVersion)
		}
		return message.Row{
			enc(v, datatype.Varchar, "local"),
			enc(v, datatype.Inet, net.ParseIP(ip)),
			enc(v, datatype.Inet, net.ParseIP(ip)),
			enc(v, datatype.Varchar, b.DC),
			enc(v, datatype.Varchar, "rack1"),
			enc(v, datatype.NewList(datatype.Varchar), []string{"0"}),
			enc(v, datatype.Varchar, "4.0.0"),
			enc(v, datatype.Varchar, "org.apache.cassandra.dht.Murmur3Partitioner"),
			enc(v, datatype.Varchar, "fb"),
			enc(v, datatype.Varchar, "3.4.5"),
			enc(v, datatype.Uuid, hostID(ip)),
			enc(v, datatype.Uuid, schemaVersion),
			dse,
		}
	}
	var data message.RowSet
	if local {
		rw := row(c.host.IP)
		switch b.SysHostile {
		case 1:
			rw[1] = nil
		case 2:
			rw[3] = nil
		case 3:
			rw[1] = enc(v, datatype.Inet, net.ParseIP("0.0.0.0"))
		case 4:
			rw[1] = []byte{1, 2, 3}
		case 7:
			rw[7] = nil
		}
		if b.SysHostile != 5 {
			data = append(data, rw)
		}
		if b.SysHostile == 10 {
			data = append(data, rw)
		}
	} else if b.SysHostile == 8 || b.SysHostile == 9 {
		for _, ip := range b.Topology {
			if ip != c.host.IP {
				rw := row(ip)
				if b.SysHostile == 8 {
					rw[1] = nil
				} else {
					rw[3] = nil
				}
				data = append(data, rw)
			}
		}
	} else {
		for _, ip := range b.Topology {
			if ip != c.host.IP {
				data = append(data, row(ip))
			}
		}
	}
	return &message.RowsResult{Metadata: &message.RowsMetadata{ColumnCount: int32(len(cols)), Columns: cols}, Data: data}
}
