module verifharness

go 1.24.2

require (
	github.com/datastax/cql-proxy v0.0.0
	github.com/datastax/go-cassandra-native-protocol v0.0.0-20220706104457-5e8aad05cf90
	github.com/pierrec/lz4/v4 v4.0.3
	go.uber.org/zap v1.17.0
	golang.org/x/tools v0.29.0
)

require (
	github.com/alecthomas/kong v0.2.17 // indirect
	github.com/apapsch/go-jsonmerge/v2 v2.0.0 // indirect
	github.com/datastax/astra-client-go/v2 v2.2.54 // indirect
	github.com/deepmap/oapi-codegen v1.12.4 // indirect
	github.com/golang/snappy v0.0.3 // indirect
	github.com/google/uuid v1.3.0 // indirect
	github.com/hashicorp/golang-lru v0.5.4 // indirect
	github.com/pkg/errors v0.9.1 // indirect
	go.uber.org/atomic v1.8.0 // indirect
	go.uber.org/multierr v1.7.0 // indirect
	golang.org/x/mod v0.22.0 // indirect
	golang.org/x/sync v0.10.0 // indirect
	gopkg.in/yaml.v2 v2.4.0 // indirect
)

replace github.com/datastax/cql-proxy => /repo
