// Package hv prints harness observations in the value syntax of coq/theories/Lib/Val.v:
// integers in decimal, byte strings as x<hex>, lists in parentheses.
package hv

import (
	"encoding/hex"
	"fmt"
	"math/big"
	"strconv"
	"strings"
)

type V interface{}

type list []V

func I(n int64) V      { return n }
func U(n uint64) V     { return new(big.Int).SetUint64(n) }
func Big(n *big.Int) V { return n }
func B(b []byte) V     { return append([]byte{}, b...) }
func S(s string) V     { return []byte(s) }
func L(vs ...V) V      { return list(vs) }
func Bool(b bool) V {
	if b {
		return int64(1)
	}
	return int64(0)
}

func write(sb *strings.Builder, v V) {
	switch x := v.(type) {
	case int64:
		sb.WriteString(strconv.FormatInt(x, 10))
	case int:
		sb.WriteString(strconv.Itoa(x))
	case *big.Int:
		sb.WriteString(x.String())
	case []byte:
		sb.WriteByte('x')
		sb.WriteString(hex.EncodeToString(x))
	case list:
		sb.WriteByte('(')
		for i, e := range x {
			if i > 0 {
				sb.WriteByte(' ')
			}
			write(sb, e)
		}
		sb.WriteByte(')')
	case []V:
		write(sb, list(x))
	default:
		panic(fmt.Sprintf("hv: unsupported %T", v))
	}
}

func Str(v V) string {
	var sb strings.Builder
	write(&sb, v)
	return sb.String()
}

// Case prints one line of a case file: input TAB impl_output [TAB note].
func Case(in, out V, note string) string {
	s := Str(in) + "\t" + Str(out)
	if note != "" {
		s += "\t" + strings.ReplaceAll(strings.ReplaceAll(note, "\t", " "), "\n", " ")
	}
	return s
}

// Rng is splitmix64; every random choice of the harness derives from one seed.
type Rng struct{ s uint64 }

func NewRng(seed uint64) *Rng { return &Rng{s: seed*0x9E3779B97F4A7C15 + 0x1234567} }

func (r *Rng) Next() uint64 {
	r.s += 0x9E3779B97F4A7C15
	z := r.s
	z = (z ^ (z >> 30)) * 0xBF58476D1CE4E5B9
	z = (z ^ (z >> 27)) * 0x94D049BB133111EB
	return z ^ (z >> 31)
}

func (r *Rng) Intn(n int) int {
	if n <= 0 {
		return 0
	}
	return int(r.Next() % uint64(n))
}

func (r *Rng) Bool() bool { return r.Next()&1 == 1 }

func (r *Rng) Bytes(n int) []byte {
	b := make([]byte, n)
	for i := range b {
		b[i] = byte(r.Next())
	}
	return b
}

func Pick[T any](r *Rng, xs []T) T { return xs[r.Intn(len(xs))] }
