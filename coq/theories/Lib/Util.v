(** Small shared definitions: result type with explicit panic, ASCII case folding, assoc. *)
From Coq Require Import List ZArith NArith Bool Lia.
From CqlProxy Require Import Lib.Val.
Import ListNotations.
Local Open Scope N_scope.

(** Result of a model function mirroring a Go function that may return an error or panic. *)
Inductive res (A : Type) : Type :=
| Ok (a : A)
| Err (why : bytes)
| Panic (why : bytes)
| OutOfFuel.
Arguments Ok {A} _.
Arguments Err {A} _.
Arguments Panic {A} _.
Arguments OutOfFuel {A}.

Definition bind {A B} (r : res A) (f : A -> res B) : res B :=
  match r with
  | Ok a => f a
  | Err e => Err e
  | Panic e => Panic e
  | OutOfFuel => OutOfFuel
  end.
Notation "'do' x <- r ; k" := (bind r (fun x => k)) (at level 200, x pattern, r at level 100, k at level 200).

Definition is_panic {A} (r : res A) : bool := match r with Panic _ => true | _ => false end.
Definition is_ok {A} (r : res A) : bool := match r with Ok _ => true | _ => false end.

(** ASCII case folding (Go's strings.ToLower restricted to ASCII input; see DESIGN §5 C20). *)
Definition lower_byte (c : N) : N := if (65 <=? c) && (c <=? 90) then c + 32 else c.
Definition upper_byte (c : N) : N := if (97 <=? c) && (c <=? 122) then c - 32 else c.
Definition lower (s : bytes) : bytes := map lower_byte s.
Definition is_ascii (s : bytes) : bool := forallb (fun c => c <? 128) s.

Fixpoint assoc {V} (k : bytes) (t : list (bytes * V)) : option V :=
  match t with
  | [] => None
  | (k', v) :: r => if bytes_eqb k k' then Some v else assoc k r
  end.

Fixpoint mem_bytes (k : bytes) (t : list bytes) : bool :=
  match t with
  | [] => false
  | k' :: r => bytes_eqb k k' || mem_bytes k r
  end.

Lemma list_eqb_eq : forall (l1 l2 : list N), list_eqb N.eqb l1 l2 = true <-> l1 = l2.
Proof.
  induction l1 as [|x l1 IH]; destruct l2 as [|y l2]; simpl; split; intro H; try congruence; auto.
  - apply andb_true_iff in H. destruct H as [Hx Hl]. apply N.eqb_eq in Hx. apply IH in Hl. congruence.
  - inversion H; subst. rewrite N.eqb_refl. simpl. apply IH. reflexivity.
Qed.

Lemma bytes_eqb_eq : forall a b, bytes_eqb a b = true <-> a = b.
Proof. exact list_eqb_eq. Qed.

Lemma bytes_eqb_refl : forall a, bytes_eqb a a = true.
Proof. intro a. apply bytes_eqb_eq. reflexivity. Qed.

Lemma lower_byte_idem : forall c, lower_byte (lower_byte c) = lower_byte c.
Proof.
  intro c. unfold lower_byte.
  destruct ((65 <=? c) && (c <=? 90)) eqn:E.
  - apply andb_true_iff in E. destruct E as [E1 E2].
    apply N.leb_le in E1. apply N.leb_le in E2.
    destruct ((65 <=? c + 32) && (c + 32 <=? 90)) eqn:E'; auto.
    apply andb_true_iff in E'. destruct E' as [_ E4]. apply N.leb_le in E4. lia.
  - rewrite E. reflexivity.
Qed.

Lemma lower_idem : forall s, lower (lower s) = lower s.
Proof. intro s. unfold lower. rewrite map_map. apply map_ext. apply lower_byte_idem. Qed.
