(** * Regex: regular expressions over bytes with Brzozowski derivatives, and the maximal-munch
    scanner that gives a rule list the meaning Ragel's [|* ... *|] scanner gives it: the longest
    match wins, ties go to the earlier rule, a rule without token action is skipped. *)
From Coq Require Import List NArith Bool Lia.
Import ListNotations.
Local Open Scope N_scope.

Inductive re :=
| Emp                            (* matches nothing *)
| Eps                            (* the empty string *)
| Cls (ranges : list (N * N))    (* one byte in one of the inclusive ranges *)
| Cat (a b : re)
| Alt (a b : re)
| Star (a : re).

Inductive lex_action := Tok (code : N) (keep_text : bool) | Skip.

Fixpoint in_ranges (c : N) (rs : list (N * N)) : bool :=
  match rs with
  | [] => false
  | (lo, hi) :: r => ((lo <=? c) && (c <=? hi)) || in_ranges c r
  end.

Fixpoint nullable (r : re) : bool :=
  match r with
  | Emp => false
  | Eps => true
  | Cls _ => false
  | Cat a b => nullable a && nullable b
  | Alt a b => nullable a || nullable b
  | Star _ => true
  end.

Fixpoint ranges_eqb (a b : list (N * N)) : bool :=
  match a, b with
  | [], [] => true
  | (x1, y1) :: a', (x2, y2) :: b' => (x1 =? x2) && (y1 =? y2) && ranges_eqb a' b'
  | _, _ => false
  end.

Fixpoint re_eqb (a b : re) : bool :=
  match a, b with
  | Emp, Emp => true
  | Eps, Eps => true
  | Cls x, Cls y => ranges_eqb x y
  | Cat a1 a2, Cat b1 b2 => re_eqb a1 b1 && re_eqb a2 b2
  | Alt a1 a2, Alt b1 b2 => re_eqb a1 b1 && re_eqb a2 b2
  | Star x, Star y => re_eqb x y
  | _, _ => false
  end.

(** smart constructors: keep derivatives small (they do not change the language) *)
Definition mk_cat (a b : re) : re :=
  match a, b with
  | Emp, _ => Emp
  | _, Emp => Emp
  | Eps, _ => b
  | _, Eps => a
  | _, _ => Cat a b
  end.

Definition mk_alt (a b : re) : re :=
  match a, b with
  | Emp, _ => b
  | _, Emp => a
  | _, _ => if re_eqb a b then a else Alt a b
  end.

Fixpoint deriv (c : N) (r : re) : re :=
  match r with
  | Emp => Emp
  | Eps => Emp
  | Cls rs => if in_ranges c rs then Eps else Emp
  | Cat a b => if nullable a then mk_alt (mk_cat (deriv c a) b) (deriv c b) else mk_cat (deriv c a) b
  | Alt a b => mk_alt (deriv c a) (deriv c b)
  | Star a => mk_cat (deriv c a) (Star a)
  end.

Definition is_emp (r : re) : bool := match r with Emp => true | _ => false end.

(** [matches r s]: does [r] match exactly [s] *)
Fixpoint matches (r : re) (s : list N) : bool :=
  match s with
  | [] => nullable r
  | c :: s' => matches (deriv c r) s'
  end.

(** index of the first rule whose current derivative is nullable *)
Fixpoint first_nullable (rs : list re) (i : nat) : option nat :=
  match rs with
  | [] => None
  | r :: rest => if nullable r then Some i else first_nullable rest (S i)
  end.

(** [munch rs input len best]: [rs] are the derivatives of all rules by the [len] bytes consumed
    so far; [best] is the longest accepted prefix so far as (length, rule index). *)
Fixpoint munch (rs : list re) (input : list N) (len : nat) (best : option (nat * nat)) : option (nat * nat) :=
  let best' := match first_nullable rs 0 with
               | Some i => if Nat.eqb len 0 then best else Some (len, i)
               | None => best
               end in
  match input with
  | [] => best'
  | c :: rest =>
      if forallb is_emp rs then best'
      else munch (map (deriv c) rs) rest (S len) best'
  end.

(** one token: (rule index, length), [None] when no rule matches a non-empty prefix *)
Definition scan_one (rules : list re) (input : list N) : option (nat * nat) := munch rules input 0 None.
