(** * Wire: big-endian integer primitives of the native protocol over byte lists, with
    failure on short input (mirrors go-cassandra-native-protocol/primitive Read.. / Write.. functions). *)
From Coq Require Import List ZArith NArith Bool Lia.
From CqlProxy Require Import Lib.Val.
Import ListNotations.
Local Open Scope N_scope.

Definition get_n (n : nat) (b : bytes) : option (bytes * bytes) :=
  if Nat.leb n (length b) then Some (firstn n b, skipn n b) else None.

(** [get_z]: like [get_n] for a Z count, comparing before converting so that a hostile
    declared length (up to 2^31-1) never becomes a unary number. *)
Definition get_z (n : Z) (b : bytes) : option (bytes * bytes) :=
  if (Z.of_nat (length b) <? n)%Z then None else get_n (Z.to_nat n) b.

Definition enc_byte (n : N) : bytes := [n mod 256].
Definition enc_short (n : N) : bytes := [(n / 256) mod 256; n mod 256].
Definition enc_u32 (u : N) : bytes :=
  [(u / 16777216) mod 256; (u / 65536) mod 256; (u / 256) mod 256; u mod 256].
(** int32 two's complement *)
Definition enc_int (z : Z) : bytes := enc_u32 (Z.to_N (z mod 4294967296)%Z).

Definition read_byte (b : bytes) : option (N * bytes) :=
  match b with x :: r => Some (x, r) | _ => None end.
Definition read_short (b : bytes) : option (N * bytes) :=
  match b with x :: y :: r => Some (x * 256 + y, r) | _ => None end.
Definition read_u32 (b : bytes) : option (N * bytes) :=
  match b with
  | x :: y :: z :: w :: r => Some (((x * 256 + y) * 256 + z) * 256 + w, r)
  | _ => None
  end.
Definition read_int (b : bytes) : option (Z * bytes) :=
  match read_u32 b with
  | Some (u, r) => Some (if u <? 2147483648 then Z.of_N u else (Z.of_N u - 4294967296)%Z, r)
  | None => None
  end.

(** [long string]: int length, then bytes; a non-positive length reads as "" *)
Definition read_long_string (b : bytes) : option (bytes * bytes) :=
  match read_int b with
  | Some (n, r) => if (n <=? 0)%Z then Some ([], r) else get_z n r
  | None => None
  end.
Definition enc_long_string (s : bytes) : bytes := enc_int (Z.of_nat (length s)) ++ s.

(** [short bytes]: unsigned short length, then bytes *)
Definition read_short_bytes (b : bytes) : option (bytes * bytes) :=
  match read_short b with
  | Some (n, r) => get_z (Z.of_N n) r
  | None => None
  end.
Definition enc_short_bytes (s : bytes) : bytes := enc_short (N.of_nat (length s)) ++ s.

Definition wf_bytes (b : bytes) : Prop := Forall (fun x => x < 256) b.
Definition wf_bytesb (b : bytes) : bool := forallb (fun x => x <? 256) b.
