(** * Val: the universal case/observation format shared by the Go harness, the
    extracted model runner and the in-Coq [cases.v] route.

    Text form (one value):   integers in decimal, byte strings as [x] followed by hex
    digits, lists in parentheses with single spaces:  [(1 -2 x0aff (3) ())].
    The parser and the printer are Gallina so that the OCaml glue only moves bytes. *)
From Coq Require Import List ZArith NArith Bool.
Import ListNotations.
Local Open Scope N_scope.

Inductive val : Type :=
| I (z : Z)
| B (bs : list N)
| L (vs : list val).

Definition byte := N.
Definition bytes := list N.

(** ** Equality *)
Fixpoint list_eqb {A} (eqb : A -> A -> bool) (l1 l2 : list A) : bool :=
  match l1, l2 with
  | [], [] => true
  | x :: l1', y :: l2' => eqb x y && list_eqb eqb l1' l2'
  | _, _ => false
  end.

Fixpoint val_eqb (a b : val) : bool :=
  match a, b with
  | I x, I y => Z.eqb x y
  | B x, B y => list_eqb N.eqb x y
  | L xs, L ys =>
      (fix go (xs ys : list val) : bool :=
         match xs, ys with
         | [], [] => true
         | x :: xs', y :: ys' => val_eqb x y && go xs' ys'
         | _, _ => false
         end) xs ys
  | _, _ => false
  end.

(** ** Printer *)
Fixpoint dec_digits (fuel : nat) (n : N) (acc : bytes) : bytes :=
  match fuel with
  | O => acc
  | S f =>
      if n <? 10 then (48 + n) :: acc
      else dec_digits f (n / 10) ((48 + n mod 10) :: acc)
  end.

Definition print_N (n : N) : bytes := dec_digits (S (N.size_nat n)) n [].

Definition print_Z (z : Z) : bytes :=
  match z with
  | Z0 => [48]
  | Zpos p => print_N (Npos p)
  | Zneg p => 45 :: print_N (Npos p)
  end.

Definition hex_digit (n : N) : N := if n <? 10 then 48 + n else 87 + n.

Fixpoint print_hex (bs : bytes) : bytes :=
  match bs with
  | [] => []
  | b :: r => hex_digit (b / 16) :: hex_digit (b mod 16) :: print_hex r
  end.

Fixpoint print_val (v : val) : bytes :=
  match v with
  | I z => print_Z z
  | B bs => 120 :: print_hex bs
  | L vs =>
      40 :: (fix go (first : bool) (vs : list val) : bytes :=
               match vs with
               | [] => [41]
               | x :: r => (if first then [] else [32]) ++ print_val x ++ go false r
               end) true vs
  end.

(** ** Parser *)
Definition is_digit (c : N) : bool := (48 <=? c) && (c <=? 57).

Definition hex_val (c : N) : option N :=
  if is_digit c then Some (c - 48)
  else if (97 <=? c) && (c <=? 102) then Some (c - 87)
  else if (65 <=? c) && (c <=? 70) then Some (c - 55)
  else None.

Fixpoint parse_hex (cs : bytes) : option bytes :=
  match cs with
  | [] => Some []
  | h :: l :: r =>
      match hex_val h, hex_val l, parse_hex r with
      | Some a, Some b, Some t => Some (a * 16 + b :: t)
      | _, _, _ => None
      end
  | _ => None
  end.

Fixpoint parse_dec (cs : bytes) (acc : N) : option N :=
  match cs with
  | [] => Some acc
  | c :: r => if is_digit c then parse_dec r (acc * 10 + (c - 48)) else None
  end.

Definition parse_token (tok : bytes) : option val :=
  match tok with
  | [] => None
  | 120 :: r => option_map B (parse_hex r)
  | 45 :: (_ :: _) as r => option_map (fun n => I (- Z.of_N n)%Z) (parse_dec r 0)
  | _ => option_map (fun n => I (Z.of_N n)) (parse_dec tok 0)
  end.

(** linear-time reversal (List.rev is quadratic: a 50 kB case line took half a minute to split) *)
Definition rev_fast {A} (l : list A) : list A := rev_append l [].

(** [stack]: accumulators of the enclosing open lists, innermost first, each reversed. *)
Definition flush (tokrev : bytes) (stack : list (list val)) : option (list (list val)) :=
  match tokrev with
  | [] => Some stack
  | _ =>
      match parse_token (rev_fast tokrev), stack with
      | Some v, top :: rest => Some ((v :: top) :: rest)
      | _, _ => None
      end
  end.

Fixpoint parse_go (cs : bytes) (tokrev : bytes) (stack : list (list val)) : option val :=
  match cs with
  | [] =>
      match flush tokrev stack with
      | Some [[v]] => Some v
      | _ => None
      end
  | c :: r =>
      if c =? 40 then
        match flush tokrev stack with
        | Some st => parse_go r [] ([] :: st)
        | None => None
        end
      else if c =? 41 then
        match flush tokrev stack with
        | Some (top :: next :: rest) => parse_go r [] ((L (rev_fast top) :: next) :: rest)
        | _ => None
        end
      else if c =? 32 then
        match flush tokrev stack with
        | Some st => parse_go r [] st
        | None => None
        end
      else parse_go r (c :: tokrev) stack
  end.

Definition parse_val (cs : bytes) : option val := parse_go cs [] [[]].

(** ** Small decoding helpers used by the per-property case decoders *)
Definition vZ (v : val) : Z := match v with I z => z | _ => 0%Z end.
Definition vN (v : val) : N := Z.to_N (vZ v).
Definition vB (v : val) : bytes := match v with B b => b | _ => [] end.
Definition vL (v : val) : list val := match v with L l => l | _ => [] end.
Definition vbool (v : val) : bool := negb (Z.eqb (vZ v) 0).
Definition Ibool (b : bool) : val := I (if b then 1 else 0)%Z.
Definition IN (n : N) : val := I (Z.of_N n).
Definition Inat (n : nat) : val := I (Z.of_nat n).
Definition nthv (n : nat) (v : val) : val := nth n (vL v) (L []).

(** ASCII string literal support for model code: [str "abc"] is a byte list. *)
From Coq Require String Ascii.
Export String.StringSyntax.
Delimit Scope string_scope with string.
Bind Scope string_scope with String.string.
Fixpoint str (s : String.string) : bytes :=
  match s with
  | String.EmptyString => []
  | String.String a r => Ascii.N_of_ascii a :: str r
  end.
Arguments str _%string.

Definition bytes_eqb : bytes -> bytes -> bool := list_eqb N.eqb.

(** split a line at TAB (9) *)
Fixpoint split_tab (cs : bytes) (cur : bytes) : list bytes :=
  match cs with
  | [] => [rev_fast cur]
  | c :: r => if c =? 9 then rev_fast cur :: split_tab r [] else split_tab r (c :: cur)
  end.
