(** ---- added: what the TRACE MONITOR (Model/Monitor.v) guarantees about a record sequence it accepts, and that it
    accepts every execution of the request-path model (no false alarms).  Properties C01, C02, C04, C05.

    The monitor is run on the records the proxy (built with the tag [verif]) writes at each atomic step of its request
    path during REAL CONCURRENT executions; a trace that passes satisfies the statements below, which are about the raw
    record list only (definitions: Model/MonitorSpec.v; proofs: Proofs/MonitorProofs.v, Proofs/MonitorSimProofs.v;
    examples, one trace per rejection reason, and the refuted wordings: Proofs/MonitorExamples.v).

    Reading guide.  A record is [(kind table stream req reqkind obj a b c text)].  [accepted recs s]: the monitor ran through
    [recs] without rejecting and ended in state [s].  SCOPE: the monitor only judges objects born while the recording ran --
    [known pre t]: a [table] record for [t] occurs in the prefix [pre]; [started pre r]: a [start] record for [r] occurs
    in [pre]; [kcount p l]: the records of [l] satisfying [p] whose table was known when they were written;
    [born_in_trace recs r]: no push of [r] precedes its start record; [recording_complete recs]: every record's table /
    request was declared earlier (what the harness guarantees by starting the recording before it creates the proxy):
    then [kcount] = [count].  Request id 0 = internal requests, never judged at the request level. ---- *)
From Coq Require Import List ZArith NArith Bool.
From CqlProxy Require Import Lib.Val Gen.Tables Model.Retry Model.Monitor Model.MonitorSpec Proofs.MonitorProofs.
From CqlProxy Require Model.CorePrep Model.MonitorTrace Proofs.MonitorSimProofs.
Import ListNotations.
Local Open Scope Z_scope.

(** * C01 -- exactly one response per client request *)

(** M1.  At most one reply record follows the start record of a request. *)
Theorem c01_mon_at_most_one_reply : forall recs s, accepted recs s ->
  forall r l0 st l1, recs = l0 ++ st :: l1 -> start_of r st = true -> (count (reply_of r) l1 <= 1)%nat.
Proof. exact accepted_at_most_one_reply. Qed.
Print Assumptions c01_mon_at_most_one_reply.

(** M8.  At quiescence ([quiescent_ok] raises nothing) every started request has exactly one reply record. *)
Theorem c01_mon_quiescent_all_answered : forall recs s, accepted recs s -> quiescent_ok s = [] ->
  forall r l0 st l1, recs = l0 ++ st :: l1 -> start_of r st = true -> count (reply_of r) l1 = 1%nat.
Proof. exact accepted_quiescent_all_answered. Qed.
Print Assumptions c01_mon_quiescent_all_answered.

(** M4.  At every prefix a request has at most one outstanding registration: pushes = pops + notifications + n, n <= 1
    (its own entry or that of the re-PREPARE standing in for it; records on known tables). *)
Theorem c01_mon_single_registration : forall recs s, accepted recs s -> forall r, r <> 0 -> born_in_trace recs r ->
  forall pre post, recs = pre ++ post ->
  exists n, (n <= 1)%nat /\ kcount (push_of r) pre = (kcount (pop_of r) pre + kcount (notify_of r) pre + n)%nat.
Proof. exact accepted_single_registration. Qed.
Print Assumptions c01_mon_single_registration.

(** ... with plain counts when the recording is complete *)
Theorem c01_mon_single_registration_complete : forall recs s, accepted recs s -> recording_complete recs -> forall r, r <> 0 ->
  forall pre post, recs = pre ++ post ->
  exists n, (n <= 1)%nat /\ count (push_of r) pre = (count (pop_of r) pre + count (notify_of r) pre + n)%nat.
Proof. exact complete_single_registration. Qed.
Print Assumptions c01_mon_single_registration_complete.

(** M2.  A request is answered only while it stands registered nowhere, and is never written again afterwards. *)
Theorem c01_mon_reply_when_unregistered : forall recs s, accepted recs s -> forall r, r <> 0 -> born_in_trace recs r ->
  forall l1 x l2, recs = l1 ++ x :: l2 -> reply_of r x = true -> started l1 r = true ->
  kcount (push_of r) l1 = (kcount (pop_of r) l1 + kcount (notify_of r) l1)%nat.
Proof. exact accepted_reply_when_unregistered. Qed.
Print Assumptions c01_mon_reply_when_unregistered.

Theorem c01_mon_no_push_after_reply : forall recs s, accepted recs s -> forall r, r <> 0 ->
  forall l1 p l2, recs = l1 ++ p :: l2 -> push_of r p = true -> known l1 (rtable p) = true -> started l1 r = true ->
  count (reply_of r) (life r l1) = 0%nat.
Proof. exact accepted_no_push_after_reply. Qed.
Print Assumptions c01_mon_no_push_after_reply.

Theorem c01_mon_reply_when_unregistered_complete : forall recs s, accepted recs s -> recording_complete recs -> forall r, r <> 0 ->
  forall l1 x l2, recs = l1 ++ x :: l2 -> reply_of r x = true ->
  count (push_of r) l1 = (count (pop_of r) l1 + count (notify_of r) l1)%nat /\ none_of (push_of r) l2.
Proof. exact complete_reply_when_unregistered. Qed.
Print Assumptions c01_mon_reply_when_unregistered_complete.

(** M5.  A close notification on slot [k] is preceded by a closing of its table and, before that, by a push of the same request
    on [k] that nothing freed in between; notifications of a slot are bounded by the closings that found it occupied
    ([captures]), hence at most one when the table id is declared once. *)
Theorem c01_mon_notifications : forall recs s, accepted recs s ->
  forall k l1 x l2, recs = l1 ++ x :: l2 -> notify_on k x = true -> known l1 (fst k) = true ->
  exists la p lb c lc, l1 = la ++ p :: lb ++ c :: lc /\ push_on k p = true /\ known la (fst k) = true /\ rreq p = rreq x /\
                       none_of (touches k) lb /\ closing_of (fst k) c = true.
Proof. exact accepted_notifications. Qed.
Print Assumptions c01_mon_notifications.

Theorem c01_mon_notified_at_most_once : forall recs s, accepted recs s -> forall k,
  (kcount (notify_on k) recs <= captures k recs)%nat /\
  (table_declared_once recs (fst k) -> (kcount (notify_on k) recs <= 1)%nat).
Proof. intros recs s Ha k. split; [exact (accepted_notified_at_most_once recs s Ha k)|exact (accepted_notified_once_per_slot recs s Ha k)]. Qed.
Print Assumptions c01_mon_notified_at_most_once.

(** * C02 -- a stream id is never in use twice *)

(** M3.  Between two pushes on the same slot of a known table there is a pop on it -- or the table was closed and its id
    declared again.  After [closing t] no push on [t] is accepted until a table record declares [t] again; never, when
    ids are declared once (REFUTED without that hypothesis: [MonitorExamples.no_push_after_closing_refuted]). *)
Theorem c02_mon_stream_exclusive : forall recs s, accepted recs s ->
  forall k l1 p1 l2 p2 l3, recs = l1 ++ p1 :: l2 ++ p2 :: l3 -> push_on k p1 = true -> push_on k p2 = true -> known l1 (fst k) = true ->
  (exists y, In y l2 /\ pop_on k y = true) \/
  (exists l2a c l2b y, l2 = l2a ++ c :: l2b /\ closing_of (fst k) c = true /\ In y l2b /\ tbl_rec (fst k) y = true).
Proof. exact accepted_stream_exclusive. Qed.
Print Assumptions c02_mon_stream_exclusive.

Theorem c02_mon_no_push_after_closing : forall recs s, accepted recs s ->
  forall t l1 c l2 p l3, recs = l1 ++ c :: l2 ++ p :: l3 -> closing_of t c = true -> known l1 t = true ->
  (push_at t p = true -> exists y, In y l2 /\ tbl_rec t y = true) /\ (table_declared_once recs t -> push_at t p = false).
Proof.
  intros recs s Ha t l1 c l2 p l3 E Cc Kn. split.
  - exact (accepted_no_push_after_closing recs s Ha t l1 c l2 p l3 E Cc Kn).
  - exact (accepted_closed_table_stays_closed recs s Ha t l1 c l2 p l3 E Cc Kn).
Qed.
Print Assumptions c02_mon_no_push_after_closing.

(** every pop carries the request of the last push on its slot *)
Theorem c02_mon_pop_matches_push : forall recs s, accepted recs s ->
  forall k l1 x l2, recs = l1 ++ x :: l2 -> pop_on k x = true -> known l1 (fst k) = true ->
  exists la p lb, l1 = la ++ p :: lb /\ push_on k p = true /\ known la (fst k) = true /\ rreq p = rreq x /\ none_of (touches k) lb.
Proof. exact accepted_pop_matches_push. Qed.
Print Assumptions c02_mon_pop_matches_push.

(** * C05 -- hosts in plan order, decisions by the policy *)

(** M6.  The texts of a request's host records are a prefix of its plan followed by empty ones, and an empty one occurs
    only once the plan is used up.  (Worded with "non-empty texts" the statement needs the plan to have no empty key:
    [accepted_nonempty_hosts_prefix_of_plan]; REFUTED otherwise: [MonitorExamples.nonempty_hosts_prefix_refuted].) *)
Theorem c05_mon_hosts_in_plan_order : forall recs s, accepted recs s ->
  forall r l0 st l1, recs = l0 ++ st :: l1 -> start_of r st = true ->
  exists taken n, hosts_taken r l1 = taken ++ repeat [] n /\ prefix_of taken (fields (rtext st)) /\
                  (n <> 0%nat -> taken = fields (rtext st)).
Proof. exact accepted_hosts_in_plan_order. Qed.
Print Assumptions c05_mon_hosts_in_plan_order.

Theorem c05_mon_nonempty_hosts_prefix_of_plan : forall recs s, accepted recs s ->
  forall r l0 st l1, recs = l0 ++ st :: l1 -> start_of r st = true -> Forall (fun k : bytes => k <> []) (fields (rtext st)) ->
  prefix_of (filter nonempty (hosts_taken r l1)) (fields (rtext st)) /\
  ((exists h, In h l1 /\ hostrec_of r h = true /\ rtext h = []) -> filter nonempty (hosts_taken r l1) = fields (rtext st)).
Proof. exact accepted_nonempty_hosts_prefix_of_plan. Qed.
Print Assumptions c05_mon_nonempty_hosts_prefix_of_plan.

(** every push of a started request goes to a connection of the request's current host *)
Theorem c05_mon_push_on_current_host : forall recs s, accepted recs s ->
  forall r l1 p l2, recs = l1 ++ p :: l2 -> push_of r p = true -> r <> 0 -> known l1 (rtable p) = true -> started l1 r = true ->
  last_text (tbl_rec (rtable p)) l1 = last (hosts_taken r (life r l1)) [].
Proof. exact accepted_push_on_current_host. Qed.
Print Assumptions c05_mon_push_on_current_host.

(** * C05 / C04 -- M7.  Every decision record of a started request is the policy's, and a request not known to be idempotent
    is retried only after an error that is safe to re-send. *)
Theorem c04_c05_mon_decisions_follow_policy : forall recs s, accepted recs s ->
  forall l1 d l2, recs = l1 ++ d :: l2 -> rkind d = 7 -> started l1 (rreq d) = true ->
  ra d = Z.of_N (handle_error (rc d =? 2) (err_of_fields (rtext d)) (rb d)) /\
  (rc d <> 2 -> ra d <> Z.of_N dec_ReturnError -> safe_to_resend (OError (err_of_fields (rtext d))) = true).
Proof. exact accepted_decisions_follow_policy. Qed.
Print Assumptions c04_c05_mon_decisions_follow_policy.

(** * M9 -- the runner: total, stops at the first rejected record, reports its index *)
Theorem mon_step_total : forall s x, (exists s', mstep s x = Accept s') \/ (exists why, mstep s x = Reject why).
Proof. exact mstep_total. Qed.
Theorem mon_rejecting_is_monotone : forall recs i why s, mrun init_mstate recs 0 = (Some (i, why), s) ->
  (i < length recs)%nat /\ accepted (firstn i recs) s /\ exists x, nth_error recs i = Some x /\ mstep s x = Reject why.
Proof. exact rejecting_is_monotone. Qed.
Theorem mon_rejected_prefix_stays_rejected : forall l1 l2 e s,
  mrun init_mstate l1 0 = (Some e, s) -> mrun init_mstate (l1 ++ l2) 0 = (Some e, s).
Proof. exact rejected_prefix_stays_rejected. Qed.
Print Assumptions mon_step_total.
Print Assumptions mon_rejecting_is_monotone.
Print Assumptions mon_rejected_prefix_stays_rejected.

(** * M10 -- no false alarms: the monitor accepts the trace of EVERY execution of the model Model/CorePrep.v (all events,
    the prepared-statement path included), for any host naming whose keys are non-empty and comma-free.  The write type of
    an error frame is arbitrary (commas included: [err_of_fields] takes everything after the fourth comma); the only side
    condition left is that error frames carry nothing but the five fields the record renders ([traceable_err]: the four
    fields the policy never reads are 0). *)
Module M10.
Import CorePrep MonitorTrace MonitorSimProofs.

Theorem mon_model_traces_accepted : forall hk, good_keys hk -> forall es, Forall traceable_event es ->
  fst (mrun init_mstate (trace_of hk es) 0) = None.
Proof. exact model_traces_accepted_gen. Qed.
Print Assumptions mon_model_traces_accepted.

Theorem mon_model_traces_accepted_host_key : forall es, Forall traceable_event es ->
  fst (mrun init_mstate (trace_of host_key es) 0) = None.
Proof. exact model_traces_accepted. Qed.
Print Assumptions mon_model_traces_accepted_host_key.

(** the rendering of an error frame is read back exactly, whatever its write type *)
Theorem mon_error_text_round_trip : forall m, traceable_err m -> err_of_fields (err_text m) = m.
Proof. exact err_of_fields_text. Qed.
Print Assumptions mon_error_text_round_trip.

(** e.g. the execution with write type "BATCH_LOG,x" is accepted *)
Theorem mon_comma_in_write_type_accepted :
  Forall traceable_event comma_events /\ run_monitor (L [I 8; I 1; L (trace_of host_key comma_events)]) = L [I 0] /\
  err_of_fields (str "4352,0,0,false,BATCH_LOG,x") = mk_err 4352 0 0 false (str "BATCH_LOG,x").
Proof. exact comma_in_write_type_accepted. Qed.
Print Assumptions mon_comma_in_write_type_accepted.
End M10.
