(** * C19 — Astra bundle connections authenticate the server. *)
From Coq Require Import List ZArith NArith Bool.
From CqlProxy Require Import Lib.Val Lib.Util Model.Astra Proofs.AstraProofs.
Import ListNotations.
Local Open Scope Z_scope.

(** A connection is accepted only if the first presented certificate is valid at the time of the
    handshake, names the bundle's host, and is anchored in the bundle's pool through presented
    CA certificates that are themselves valid. *)
Theorem c19_accepted_chains_verify_for_the_bundle_host_now :
  forall roots host now chain, accepts roots host now chain = true ->
    exists leaf rest, chain = leaf :: rest /\ valid_at now leaf = true /\ has_name host leaf = true /\ path roots rest now leaf.
Proof. exact accepts_sound. Qed.
Print Assumptions c19_accepted_chains_verify_for_the_bundle_host_now.

Theorem c19_expired_or_not_yet_valid_rejected :
  forall roots host now leaf rest, (now < c_not_before leaf \/ c_not_after leaf < now) -> accepts roots host now (leaf :: rest) = false.
Proof. exact expired_or_not_yet_valid_rejected. Qed.
Print Assumptions c19_expired_or_not_yet_valid_rejected.

Theorem c19_wrong_name_rejected :
  forall roots host now leaf rest, ~ In host (c_names leaf) -> accepts roots host now (leaf :: rest) = false.
Proof. exact wrong_name_rejected. Qed.
Print Assumptions c19_wrong_name_rejected.

Theorem c19_self_signed_or_wrong_ca_rejected :
  forall roots host now leaf rest,
    (forall r, In r roots -> c_signer leaf <> c_key r) ->
    (forall i, In i rest -> c_is_ca i = true -> c_signer leaf <> c_key i) ->
    accepts roots host now (leaf :: rest) = false.
Proof. exact unanchored_rejected. Qed.
Print Assumptions c19_self_signed_or_wrong_ca_rejected.

Theorem c19_empty_chain_rejected : forall roots host now, accepts roots host now [] = false.
Proof. exact empty_chain_rejected. Qed.
Print Assumptions c19_empty_chain_rejected.

Theorem c19_later_certificates_cannot_replace_the_leaf :
  forall roots host now first good rest,
    ~ In host (c_names first) -> accepts roots host now [good] = true -> accepts roots host now (first :: good :: rest) = false.
Proof. exact later_certificates_cannot_replace_the_leaf. Qed.
Print Assumptions c19_later_certificates_cannot_replace_the_leaf.

(** The good chains are accepted (the rejection theorems are not vacuous). *)
Theorem c19_valid_leaf_accepted :
  forall roots host now leaf root rest,
    In root roots -> signed_by leaf root = true -> valid_at now root = true -> valid_at now leaf = true -> has_name host leaf = true ->
    accepts roots host now (leaf :: rest) = true.
Proof. exact direct_leaf_accepted. Qed.
Print Assumptions c19_valid_leaf_accepted.

Theorem c19_valid_leaf_with_intermediate_accepted :
  forall roots host now leaf ca root rest,
    In root roots -> In ca rest -> signed_by leaf ca = true -> signed_by ca root = true -> c_is_ca ca = true ->
    valid_at now root = true -> valid_at now ca = true -> valid_at now leaf = true -> has_name host leaf = true ->
    accepts roots host now (leaf :: rest) = true.
Proof. exact leaf_via_intermediate_accepted. Qed.
Print Assumptions c19_valid_leaf_with_intermediate_accepted.
