(** * C02 — a response is delivered only to the request (stream, client) that caused it. *)
From Coq Require Import List ZArith NArith Bool Permutation.
From CqlProxy Require Import Lib.Val Lib.Util Model.Streams Proofs.StreamsProofs.
Import ListNotations.
Local Open Scope N_scope.

(** For every interleaving of the atomic steps of any number of threads (taking an id from the
    channel, storing into the map, deleting from the map, returning the id), the free ids, the
    registered ids and the ids held by pre-empted threads are together exactly 0..max-1, each
    once: an id is never owned twice, for every max. *)
Theorem c02_ids_partition :
  forall max es,
    let st := fst (run_events (init_pstate max) es) in
    Permutation (ids st) (map N.of_nat (seq 0 max)) /\ NoDup (ids st).
Proof. exact ids_partition. Qed.
Print Assumptions c02_ids_partition.

Theorem c02_no_id_registered_twice :
  forall max es,
    let st := fst (run_events (init_pstate max) es) in
    NoDup (map fst (pending st)) /\ (length (free st) <= max)%nat.
Proof. exact pending_ids_distinct. Qed.
Print Assumptions c02_no_id_registered_twice.

(** Stream exhaustion: store fails exactly when no id is free and then registers nothing. *)
Theorem c02_store_exhausted_iff : forall st r, snd (store st r) = (-1)%Z <-> free st = [].
Proof. exact store_exhausted_iff. Qed.
Print Assumptions c02_store_exhausted_iff.

Theorem c02_exhausted_registers_nothing : forall st r, free st = [] -> fst (store st r) = st.
Proof. exact store_exhausted_registers_nothing. Qed.
Print Assumptions c02_exhausted_registers_nothing.

(** Routing: a request registered under backend stream [s] stays registered there across any
    number of other registrations and of answers on other streams -- stream-id reuse and
    exhaustion included -- and the frame answering [s] goes to that request's client on that
    request's stream (with whatever content the backend put on stream [s]). *)
Theorem c02_answer_reaches_its_request :
  forall ops st r s token,
    wf st -> lookup s (pending st) = Some r ->
    Forall (fun o => match o with SLoad b => b <> s | SStore _ => True end) ops ->
    snd (deliver (fold_left apply_sop ops st) s token) =
    Some {| d_client := r_client r; d_stream := r_stream r; d_token := token |}.
Proof. exact answer_reaches_its_request. Qed.
Print Assumptions c02_answer_reaches_its_request.

Theorem c02_store_registers_under_returned_id :
  forall st r s, snd (store st r) = Z.of_N s -> free st <> [] -> lookup s (pending (fst (store st r))) = Some r.
Proof. exact store_registers. Qed.
Print Assumptions c02_store_registers_under_returned_id.

(** Non-vacuity: two ids, three stores (third exhausted), an answer on id 0, reuse of id 0. *)
Example c02_example :
  let a := {| r_client := 1; r_stream := 7; r_token := 100 |} in
  let b := {| r_client := 2; r_stream := 7; r_token := 200 |} in
  let c := {| r_client := 1; r_stream := 8; r_token := 300 |} in
  let s0 := init_pstate 2 in
  let '(s1, i1) := store s0 a in
  let '(s2, i2) := store s1 b in
  let '(s3, i3) := store s2 c in
  let '(s4, d) := deliver s3 0 55 in
  let '(s5, i5) := store s4 c in
  (i1, i2, i3, d, i5) = (0%Z, 1%Z, (-1)%Z, Some {| d_client := 1; d_stream := 7; d_token := 55 |}, 0%Z).
Proof. vm_compute. reflexivity. Qed.

(** ---- added: the same property over the integrated request-path model Model/Core.v
    (many requests, many connections, stream-id tables, retries, closes, failed writes) ---- *)
From Coq Require Import List ZArith NArith Bool Permutation.
From CqlProxy Require Import Lib.Val Gen.Tables Model.Retry Model.Core Proofs.CoreProofs Proofs.CoreProofs2.
Local Open Scope N_scope.

(** ** C02 -- a response is delivered only to the request (stream, client) that caused it *)

(** T3.  For the connection created by [EConnect k h n] (the first one for [k]; later ones are
    ignored), the ids in the stream-id channel and the ids in the pending table are together exactly
    0..n-1, each once -- open or closing, whatever was sent, answered, failed to be written.  Hence a
    backend stream id never carries two requests at once. *)
Theorem c02_core_stream_ids_partition : forall es k,
  match first_connect es k with
  | Some (h, n) =>
      exists c, lookupN k (w_conns (run_events es)) = Some c /\ b_host c = h /\
                Permutation (b_free c ++ map fst (b_pending c)) (map N.of_nat (seq 0 n)) /\
                NoDup (b_free c ++ map fst (b_pending c))
  | None => lookupN k (w_conns (run_events es)) = None
  end.
Proof. exact core_stream_ids_partition. Qed.
Print Assumptions c02_core_stream_ids_partition.

(** T4.  Whenever a backend frame that arrived on connection [k], stream [bs] is forwarded to a client
    as the answer to request [r], the last request written to [k] under stream [bs] before that was
    [r] itself -- whatever stream-id reuse happened in between. *)
Theorem c02_core_answer_routes_to_its_request : forall es pre c s r k bs post,
  w_out (run_events es) = pre ++ ToClient c s r (CFrame k bs) :: post ->
  exists pre1 post1, pre = pre1 ++ ToBackend k bs r :: post1 /\ forall r', ~ In (ToBackend k bs r') post1.
Proof. exact core_answer_routes_to_its_request. Qed.
Print Assumptions c02_core_answer_routes_to_its_request.

(** T5 (repaired Send).  A request is registered on an open connection under stream [s] only if it
    was written there, and that write is the last one on that (connection, stream). *)
Theorem c02_core_registered_only_where_written : forall es k s r,
  In (s, r) (live (run_events es) k) ->
  exists pre post, w_out (run_events es) = pre ++ ToBackend k s r :: post /\ forall r', ~ In (ToBackend k s r') post.
Proof. exact core_registered_only_where_written. Qed.
Print Assumptions c02_core_registered_only_where_written.

(** The Send of the code before fix 7dfaea9 violates it: a request whose write failed stays
    registered on a connection it was never written to. *)
Theorem c02_core_registered_only_where_written_orig_refuted :
  exists es k s r, In (s, r) (live (run_events_orig es) k) /\ forall r', ~ In (ToBackend k s r') (w_out (run_events_orig es)).
Proof. exact core_registered_only_where_written_orig_refuted. Qed.
Print Assumptions c02_core_registered_only_where_written_orig_refuted.

Example c02_core_example :
  (first_connect ex_es 3,
   option_map (fun c => (b_free c, b_pending c)) (lookupN 3 (w_conns (run_events ex_es))),
   option_map (fun c => (b_free c, b_pending c)) (lookupN 3 (w_conns (run_events (firstn 9 ex_es))))) =
  (Some (30, 2%nat), Some ([0; 1], []), Some ([0], [(1, 7)])).
Proof. exact ex_ids. Qed.
Example c02_core_example_route :
  exists pre post, w_out (run_events ex_es) = pre ++ ToClient 0 5%Z 7 (CFrame 3 1) :: post /\ last_write pre 3 1 = Some 7.
Proof. exact ex_route. Qed.

