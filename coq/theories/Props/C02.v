(** * C02 — a response is delivered only to the request (stream, client) that caused it. *)
From Coq Require Import List ZArith NArith Bool Permutation.
From CqlProxy Require Import Lib.Val Lib.Util Model.Streams Proofs.StreamsProofs.
Import ListNotations.
Local Open Scope N_scope.

(** For every interleaving of the atomic steps of any number of threads (taking an id from the
    channel, storing into the map, deleting from the map, returning the id), the free ids, the
    registered ids and the ids held by pre-empted threads are together exactly 0..max-1, each
    once: an id is never owned twice, for every max. *)
Theorem c02_ids_partition :
  forall max es,
    let st := fst (run_events (init_pstate max) es) in
    Permutation (ids st) (map N.of_nat (seq 0 max)) /\ NoDup (ids st).
Proof. exact ids_partition. Qed.
Print Assumptions c02_ids_partition.

Theorem c02_no_id_registered_twice :
  forall max es,
    let st := fst (run_events (init_pstate max) es) in
    NoDup (map fst (pending st)) /\ (length (free st) <= max)%nat.
Proof. exact pending_ids_distinct. Qed.
Print Assumptions c02_no_id_registered_twice.

(** Stream exhaustion: store fails exactly when no id is free and then registers nothing. *)
Theorem c02_store_exhausted_iff : forall st r, snd (store st r) = (-1)%Z <-> free st = [].
Proof. exact store_exhausted_iff. Qed.
Print Assumptions c02_store_exhausted_iff.

Theorem c02_exhausted_registers_nothing : forall st r, free st = [] -> fst (store st r) = st.
Proof. exact store_exhausted_registers_nothing. Qed.
Print Assumptions c02_exhausted_registers_nothing.

(** Routing: a request registered under backend stream [s] stays registered there across any
    number of other registrations and of answers on other streams -- stream-id reuse and
    exhaustion included -- and the frame answering [s] goes to that request's client on that
    request's stream (with whatever content the backend put on stream [s]). *)
Theorem c02_answer_reaches_its_request :
  forall ops st r s token,
    wf st -> lookup s (pending st) = Some r ->
    Forall (fun o => match o with SLoad b => b <> s | SStore _ => True end) ops ->
    snd (deliver (fold_left apply_sop ops st) s token) =
    Some {| d_client := r_client r; d_stream := r_stream r; d_token := token |}.
Proof. exact answer_reaches_its_request. Qed.
Print Assumptions c02_answer_reaches_its_request.

Theorem c02_store_registers_under_returned_id :
  forall st r s, snd (store st r) = Z.of_N s -> free st <> [] -> lookup s (pending (fst (store st r))) = Some r.
Proof. exact store_registers. Qed.
Print Assumptions c02_store_registers_under_returned_id.

(** Non-vacuity: two ids, three stores (third exhausted), an answer on id 0, reuse of id 0. *)
Example c02_example :
  let a := {| r_client := 1; r_stream := 7; r_token := 100 |} in
  let b := {| r_client := 2; r_stream := 7; r_token := 200 |} in
  let c := {| r_client := 1; r_stream := 8; r_token := 300 |} in
  let s0 := init_pstate 2 in
  let '(s1, i1) := store s0 a in
  let '(s2, i2) := store s1 b in
  let '(s3, i3) := store s2 c in
  let '(s4, d) := deliver s3 0 55 in
  let '(s5, i5) := store s4 c in
  (i1, i2, i3, d, i5) = (0%Z, 1%Z, (-1)%Z, Some {| d_client := 1; d_stream := 7; d_token := 55 |}, 0%Z).
Proof. vm_compute. reflexivity. Qed.
