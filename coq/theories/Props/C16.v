(** * C16 — the proxy tracks backend topology and heals lost backend connections. *)
From Coq Require Import List ZArith NArith Bool.
From CqlProxy Require Import Lib.Val Lib.Util Model.Topology Proofs.TopologyProofs.
Import ListNotations.

(** Routing follows the peers table: after any history of peers tables, each merged by
    mergeHosts and applied by the load balancer, the balancer lists exactly the last table... *)
Theorem c16_balancer_lists_exactly_the_last_peers_table :
  forall tables lb cur, NoDup lb -> (forall x, memh x lb = memh x cur) -> Forall (@NoDup N) tables ->
    forall x, memh x (follow_all lb cur tables) = memh x (last tables cur).
Proof. exact follow_all_tracks. Qed.
Print Assumptions c16_balancer_lists_exactly_the_last_peers_table.

(** ... and the hosts that receive requests are the listed hosts that are up: newly listed
    nodes start receiving requests, nodes no longer listed stop. *)
Theorem c16_requests_go_to_listed_hosts_that_are_up :
  forall lb up x, memh x (routed lb up) = (memh x lb && memh x up)%bool.
Proof. exact routed_spec. Qed.
Print Assumptions c16_requests_go_to_listed_hosts_that_are_up.

(** Reconnect delays stay within the configured bounds for every configuration 0 < base <= max
    (any 64-bit values), every attempt count and every jitter. *)
Theorem c16_reconnect_delays_within_bounds :
  forall base max js attempts, (0 < base)%Z -> (base <= max)%Z ->
    Forall (fun d => (base <= d <= max)%Z) (delays base max attempts js).
Proof. exact delays_bounds. Qed.
Print Assumptions c16_reconnect_delays_within_bounds.

(** While nothing overflows (base below 2^45 ns) the delay is base + 2^attempts ms + jitter capped
    at max; after success (Reset) it starts again from base + 1 ms + jitter. *)
Theorem c16_reconnect_delay_is_exponential_with_cap :
  forall base max attempts j, (0 < base < 2 ^ 45)%Z -> (base <= max)%Z -> (0 <= attempts < max_attempts base)%Z -> (85 <= j < 115)%Z ->
    next_delay base max attempts j = (Z.min max (base + ms * 2 ^ attempts + j * ms), attempts + 1)%Z.
Proof. exact next_delay_exact. Qed.
Print Assumptions c16_reconnect_delay_is_exponential_with_cap.

Theorem c16_first_delay_after_reset :
  forall base max j, (2 <= base < 2 ^ 45)%Z -> (base <= max)%Z -> (85 <= j < 115)%Z ->
    fst (next_delay base max 0 j) = Z.min max (base + ms + j * ms).
Proof. exact first_delay_after_reset. Qed.
Print Assumptions c16_first_delay_after_reset.

(** The control connection fails over to a known host that is up within one round over the
    host list, whenever any known host is up. *)
Theorem c16_control_connection_fails_over_to_a_live_known_host :
  forall hosts up idx, (exists h, In h hosts /\ memh h up = true) ->
    exists i h, failover hosts up idx (length hosts) = Some (i, h) /\ nth_error hosts i = Some h /\ memh h up = true.
Proof. exact failover_finds_a_live_host. Qed.
Print Assumptions c16_control_connection_fails_over_to_a_live_known_host.

(** The outage is zero whenever a control connection exists, and the time since it was lost otherwise;
    readiness fails exactly when it has lasted the readiness timeout. *)
Theorem c16_outage_only_without_control_connection :
  forall es t, let s := cfinal {| control := true; since := None |} es in
    (control s = true -> snd (cstep s (CSample t)) = Some 0%Z) /\
    (control s = false -> exists t0, since s = Some t0 /\ snd (cstep s (CSample t)) = Some (t - t0)%Z).
Proof. exact outage_zero_iff_connected. Qed.
Print Assumptions c16_outage_only_without_control_connection.

Theorem c16_readiness : forall outage timeout, ready outage timeout = false <-> (timeout <= outage)%Z.
Proof. exact readiness_spec. Qed.
Print Assumptions c16_readiness.

(** ---- the event loop of Cluster.stayConnected (Model/Refresh.v): pending refresh, its timer, the
    control connection ---- *)
From CqlProxy Require Import Model.Refresh Proofs.RefreshProofs.

(** Whenever the table the proxy routes by differs from the backend's peers table, the
    announcement is still on its way, or a refresh is scheduled AND its timer is running or has
    fired, or the control connection is down (the reconnect re-reads the tables) -- after every
    history of backend changes, topology/status events, timer expiries, losses of the control
    connection and successful or failed reconnects. *)
Theorem c16_stale_routing_is_being_caught_up :
  forall t es, stale (Refresh.run t es) = true -> catching_up (Refresh.run t es) = true.
Proof. exact stale_routing_is_being_caught_up. Qed.
Print Assumptions c16_stale_routing_is_being_caught_up.

Theorem c16_pending_refresh_has_its_timer :
  forall t es, pending (Refresh.run t es) = true -> rtimer (Refresh.run t es) <> TIdle.
Proof. exact pending_refresh_has_its_timer. Qed.
Print Assumptions c16_pending_refresh_has_its_timer.

(** ... and the proxy's own next steps (the announcement arriving, the refresh window expiring,
    the loop taking the timer; or the reconnect) leave it routing by exactly the backend's table. *)
Theorem c16_proxy_catches_up_by_its_own_steps :
  forall t es, hosts (fold_left Refresh.step own_steps (Refresh.run t es)) = backend (fold_left Refresh.step own_steps (Refresh.run t es)).
Proof. exact proxy_catches_up_by_its_own_steps. Qed.
Print Assumptions c16_proxy_catches_up_by_its_own_steps.

(** A loop that stops the refresh timer when the control connection is lost gets stuck: a node
    joins, the connection is lost inside the window, the proxy reconnects, a second node joins. *)
Theorem c16_stopping_the_timer_on_loss_gets_stuck :
  let s := run_stopping [1; 2]%N stuck_history in
  stale s = true /\ catching_up s = false /\ stale (fold_left (step_gen true) own_steps s) = true.
Proof. exact stopping_the_timer_on_loss_gets_stuck. Qed.
Print Assumptions c16_stopping_the_timer_on_loss_gets_stuck.
