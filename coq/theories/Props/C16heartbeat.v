(** * C16 (additions) — the idle-timeout loop of a backend connection (Model/Heartbeat.v, transcribing
    proxycore/clientconn.go [Heartbeats]; proofs in Proofs/HeartbeatProofs.v).  Headlines only.

    [hb_loop c t due beats]: the select is entered at time [t] with the idle timer due at [due]; the backend's
    behaviour per heartbeat is [beats]; the result is the time the proxy closes the connection, or [None] when the
    beats run out with the connection open.  [hb_run c beats = hb_loop c 0 (idle c) beats].
    [last_armed c 0 (idle c) beats]: the moment the idle timer was last (re-)armed in that run.
    [beats_nonneg beats]: every delay in [beats] is >= 0.  [healthy c b]: [b = Supported d] with
    [0 <= d < ctimeout c] and [interval c + d < idle c].  Every theorem holds for both values of [tie_idle c]
    unless it says otherwise; the hypotheses each one needs are spelled out. *)
From Coq Require Import List ZArith Bool.
From CqlProxy Require Import Lib.Val Lib.Util Model.Heartbeat Proofs.HeartbeatProofs.
Import ListNotations.
Local Open Scope Z_scope.

(** ** HB1: a connection that answers every heartbeat in time is never closed by this loop (any length, either
    tie-break; no other hypothesis) *)
Theorem hb1_healthy_never_closed : forall c beats,
  (forall b, In b beats -> exists d, b = Supported d /\ 0 <= d < ctimeout c /\ interval c + d < idle c) ->
  interval c < idle c -> hb_run c beats = None.
Proof. exact healthy_never_closed. Qed.
Print Assumptions hb1_healthy_never_closed.

(** ... and [interval c + d < idle c] is exact: an answer that comes back exactly [idle c] after the timer was
    armed finds it already fired; the connection is closed at [idle c] whatever follows, under either tie-break *)
Theorem hb1_boundary_refuted : forall tie,
  exists c beats,
    tie_idle c = tie /\
    (forall b, In b beats -> exists d, b = Supported d /\ 0 <= d < ctimeout c /\ interval c + d <= idle c) /\
    interval c < idle c /\ hb_run c beats = Some (idle c).
Proof. exact healthy_never_closed_boundary_refuted. Qed.
Print Assumptions hb1_boundary_refuted.

Theorem hb1_answer_at_the_deadline_closes : forall c d r,
  0 < interval c -> 0 <= d < ctimeout c -> interval c + d = idle c ->
  hb_run c (Supported d :: r) = Some (idle c).
Proof. exact answer_at_the_deadline_closes. Qed.
Print Assumptions hb1_answer_at_the_deadline_closes.

(** ** HB2: never early.  The close happens at [Z.max t' due'] for the iteration (t', due') whose select took the
    idle-timer branch; that timer was armed at [last_armed]. *)
Theorem hb2_never_early : forall c beats t due x,
  hb_loop c t due beats = Some x ->
  exists t' due',
    hb_close_state c t due beats = Some (t', due') /\ x = Z.max t' due' /\
    closes c t' due' = true /\ last_armed c t due beats = due' - idle c.
Proof. exact never_early. Qed.
Print Assumptions hb2_never_early.

Theorem hb2_never_early_general : forall c beats t due x,
  0 <= interval c -> 0 <= ctimeout c -> beats_nonneg beats ->
  hb_loop c t due beats = Some x ->
  t <= x /\ Z.min due (t + interval c + idle c) <= x.
Proof. exact never_early_general. Qed.
Print Assumptions hb2_never_early_general.

Theorem hb2_never_before_idle : forall c beats x,
  0 <= interval c -> 0 <= ctimeout c -> beats_nonneg beats ->
  hb_run c beats = Some x -> idle c <= x.
Proof. exact never_before_idle. Qed.
Print Assumptions hb2_never_before_idle.

(** no hypothesis at all *)
Theorem hb2_closed_at_least_idle_after_last_arming : forall c beats x,
  hb_run c beats = Some x -> last_armed c 0 (idle c) beats + idle c <= x.
Proof. exact closed_at_least_idle_after_last_arming. Qed.
Print Assumptions hb2_closed_at_least_idle_after_last_arming.

(** ** HB3: closed at most one connect time-out after the timer fires (no [+ interval c]); attained when the tick
    wins a tie ([closed_within_a_connect_timeout_tight]), strict when the idle timer wins ties *)
Theorem hb3_closed_within_a_connect_timeout : forall c beats x,
  0 < idle c -> 0 <= ctimeout c ->
  hb_run c beats = Some x ->
  x <= last_armed c 0 (idle c) beats + idle c + ctimeout c.
Proof. exact closed_within_a_connect_timeout. Qed.
Print Assumptions hb3_closed_within_a_connect_timeout.

Theorem hb3_bound_is_attained :
  let c := {| interval := 100; idle := 600; ctimeout := 200; tie_idle := false |} in
  let beats := [Other 0; Other 0; Other 0; Other 0; Other 0; Silent] in
  hb_run c beats = Some 800 /\ last_armed c 0 600 beats + idle c + ctimeout c = 800.
Proof. exact closed_within_a_connect_timeout_tight. Qed.
Print Assumptions hb3_bound_is_attained.

Theorem hb3_strict_when_idle_wins_ties : forall c beats x,
  tie_idle c = true -> 0 < idle c -> 0 < ctimeout c ->
  hb_run c beats = Some x ->
  x < last_armed c 0 (idle c) beats + idle c + ctimeout c.
Proof. exact closed_within_a_connect_timeout_strict. Qed.
Print Assumptions hb3_strict_when_idle_wins_ties.

(** ** HB4: silence closes.  [t <= due] is not needed; delays >= 0 is (see
    [silence_closes_negative_delay_refuted]). *)
Theorem hb4_silence_closes : forall c beats t due,
  0 <= interval c -> 0 <= ctimeout c -> beats_nonneg beats ->
  (forall b, In b beats -> is_supported c b = false) ->
  Z.of_nat (length beats) * interval c > due - t ->
  exists x, hb_loop c t due beats = Some x /\ due <= x /\ last_armed c t due beats = due - idle c.
Proof. exact silence_closes. Qed.
Print Assumptions hb4_silence_closes.

(** the exact count (one period less: the model also closes when the beats run out with the timer due before the
    next tick); exact by [silence_closes_sharp_count_refuted] *)
Theorem hb4_silence_closes_sharp : forall c beats t due,
  0 <= ctimeout c -> beats_nonneg beats ->
  (forall b, In b beats -> is_supported c b = false) ->
  (Z.of_nat (length beats) + 1) * interval c > due - t ->
  exists x, hb_loop c t due beats = Some x /\ due <= x /\ last_armed c t due beats = due - idle c.
Proof. exact silence_closes_sharp. Qed.
Print Assumptions hb4_silence_closes_sharp.

Theorem hb4_silence_closes_run : forall c beats,
  0 <= interval c -> 0 < idle c -> 0 <= ctimeout c -> beats_nonneg beats ->
  (forall b, In b beats -> is_supported c b = false) ->
  Z.of_nat (length beats) * interval c > idle c ->
  exists x, hb_run c beats = Some x /\ idle c <= x <= idle c + ctimeout c.
Proof. exact silence_closes_run. Qed.
Print Assumptions hb4_silence_closes_run.

(** the state after a healthy prefix: entered when its last answer came back, the timer just re-armed *)
Theorem hb4_healthy_prefix : forall c l1 l2 t,
  interval c < idle c -> (forall b, In b l1 -> healthy c b) ->
  hb_loop c t (t + idle c) (l1 ++ l2) = hb_loop c (healthy_end c t l1) (healthy_end c t l1 + idle c) l2 /\
  last_armed c t (t + idle c) (l1 ++ l2) = last_armed c (healthy_end c t l1) (healthy_end c t l1 + idle c) l2.
Proof. exact healthy_prefix. Qed.
Print Assumptions hb4_healthy_prefix.

(** a connection that answered and then stops answering is closed between one idle timeout and one idle timeout
    plus one connect time-out after its last answer *)
Theorem hb4_healthy_then_silence_closes : forall c l1 l2,
  0 <= interval c -> interval c < idle c -> 0 <= ctimeout c ->
  (forall b, In b l1 -> healthy c b) ->
  beats_nonneg l2 -> (forall b, In b l2 -> is_supported c b = false) ->
  Z.of_nat (length l2) * interval c > idle c ->
  exists x, hb_run c (l1 ++ l2) = Some x /\
            last_armed c 0 (idle c) (l1 ++ l2) = healthy_end c 0 l1 /\
            healthy_end c 0 l1 + idle c <= x <= healthy_end c 0 l1 + idle c + ctimeout c.
Proof. exact healthy_then_silence_closes. Qed.
Print Assumptions hb4_healthy_then_silence_closes.

(** ** HB5: error frames are not heartbeats, however fast they come *)
Theorem hb5_errors_do_not_count : forall c beats,
  0 <= interval c -> 0 < idle c -> 0 <= ctimeout c ->
  (forall b, In b beats -> exists d, b = Other d /\ 0 <= d) ->
  Z.of_nat (length beats) * interval c > idle c ->
  exists x, hb_run c beats = Some x /\ idle c <= x <= idle c + ctimeout c.
Proof. exact errors_do_not_count. Qed.
Print Assumptions hb5_errors_do_not_count.

(** ** HB6: closed stays closed *)
Theorem hb6_closed_stays_closed : forall c l1 l2 t due x,
  hb_loop c t due l1 = Some x -> hb_loop c t due (l1 ++ l2) = Some x.
Proof. exact closed_stays_closed. Qed.
Print Assumptions hb6_closed_stays_closed.

(** ** HB7 (observation): an idle timeout not above the heartbeat interval closes EVERY connection after one idle
    timeout, however healthy (the command line refuses such a configuration, proxy/run.go; a library user of
    proxy.Config is not checked) *)
Theorem hb7_idle_not_above_interval_closes_healthy : forall c beats,
  0 <= idle c ->
  (idle c < interval c \/ (idle c = interval c /\ tie_idle c = true)) ->
  hb_run c beats = Some (idle c).
Proof. exact idle_not_above_interval_closes_healthy. Qed.
Print Assumptions hb7_idle_not_above_interval_closes_healthy.

(** ... and with [idle c = interval c] and the tick winning the tie, as soon as the first heartbeat returns *)
Theorem hb7_idle_equal_interval_closes_too : forall c b r,
  0 < interval c -> 0 <= ctimeout c -> delay_nonneg b ->
  idle c = interval c -> tie_idle c = false ->
  hb_run c (b :: r) = Some (idle c + took c b).
Proof. exact idle_equal_interval_closes_too. Qed.
Print Assumptions hb7_idle_equal_interval_closes_too.

(** ** HB8: the tie-break only matters when a tick coincides with the deadline.  [tie_hit c t due beats]: some select
    of the run of [c] has [due = t + interval c]. *)
Theorem hb8_tie_choice_only_matters_at_equality : forall c beats t due tie,
  tie_hit c t due beats = false ->
  hb_loop (set_tie tie c) t due beats = hb_loop c t due beats /\
  last_armed (set_tie tie c) t due beats = last_armed c t due beats.
Proof. exact tie_choice_only_matters_at_equality. Qed.
Print Assumptions hb8_tie_choice_only_matters_at_equality.

Theorem hb8_tie_results_differ_only_at_equality : forall c beats t due,
  hb_loop (set_tie true c) t due beats <> hb_loop (set_tie false c) t due beats ->
  tie_hit (set_tie true c) t due beats = true /\ tie_hit (set_tie false c) t due beats = true.
Proof. exact tie_results_differ_only_at_equality. Qed.
Print Assumptions hb8_tie_results_differ_only_at_equality.

(** what the tie-break changes: when the tick wins, the heartbeat is sent and the close waits for it to return ... *)
Theorem hb8_tick_wins_tie_closes_on_return : forall c t due b r,
  0 < interval c -> 0 <= ctimeout c -> delay_nonneg b ->
  due = t + interval c -> tie_idle c = false ->
  hb_loop c t due (b :: r) = Some (due + took c b) /\ last_armed c t due (b :: r) = due - idle c.
Proof. exact tick_wins_tie_closes_on_return. Qed.
Print Assumptions hb8_tick_wins_tie_closes_on_return.

(** ... so letting the idle timer win never closes later, and closes whenever the other choice does *)
Theorem hb8_tie_to_idle_closes_no_later : forall c beats t due x,
  0 <= interval c -> 0 <= idle c -> 0 <= ctimeout c -> beats_nonneg beats ->
  hb_loop (set_tie false c) t due beats = Some x ->
  exists y, hb_loop (set_tie true c) t due beats = Some y /\ y <= x.
Proof. exact tie_to_idle_closes_no_later. Qed.
Print Assumptions hb8_tie_to_idle_closes_no_later.

(** non-vacuity (interval 100, idle 600, connect time-out 200): two answered heartbeats, then silence *)
Example hb_example :
  let c := {| interval := 100; idle := 600; ctimeout := 200; tie_idle := true |} in
  hb_run c [Supported 10; Supported 20; Supported 30; Supported 40] = None /\
  hb_run c [Supported 10; Supported 20; Silent; Silent; Silent] = Some 830 /\
  last_armed c 0 600 [Supported 10; Supported 20; Silent; Silent; Silent] = 230.
Proof. vm_compute. repeat split; reflexivity. Qed.
