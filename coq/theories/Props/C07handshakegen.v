(** ---- added: the downgrade chain used by Model/Handshake.v is the one in the source: the table is regenerated from
    proxycore ClientConn.handshake on every run (Gen/Tables.v, `handshake_downgrade_table`) and this theorem is re-checked
    against it, for every version byte. ---- *)
From Coq Require Import List NArith Bool.
From CqlProxy Require Import Gen.Tables Model.Handshake Proofs.HandshakeGen.
Local Open Scope N_scope.

Theorem c07_handshake_downgrade_is_what_the_source_says : forall v, v < 256 -> downgrade v = gen_downgrade v.
Proof. exact downgrade_is_what_the_source_says. Qed.
Print Assumptions c07_handshake_downgrade_is_what_the_source_says.
