(** * C09 — only USE and genuine system-table SELECTs are answered by the proxy itself. *)
From Coq Require Import List ZArith NArith Bool.
From CqlProxy Require Import Lib.Val Lib.Util Gen.LexRules Gen.Tables Model.Lexer Model.Parser Model.Handled Proofs.HandledProofs.
Import ListNotations.
Local Open Scope N_scope.

(** A SELECT -- with any selector tokens before FROM and any tokens after the table -- is
    handled if and only if the keyspace in force (the qualifier when there is one, the
    connection's current keyspace otherwise) is system and the table is one of the
    virtualised system tables (regenerated from parser_utils.go), both compared by the CQL
    identifier rules: unquoted names case-insensitively, quoted names exactly. *)
Theorem c09_select_handled_iff_system_table :
  forall cur sels qualifier table rest,
    Forall (fun x => t_code x <> tkFrom /\ t_code x <> tkEOF) sels ->
    (qualifier = None -> match rest with t :: _ => t_code t <> tkDot | [] => True end) ->
    let ts := kwtok tkSelect :: sels ++ kwtok tkFrom :: target_tokens qualifier table ++ rest in
    fst (fst (is_handled_tokens cur ts)) =
    ident_equal (effective_keyspace cur qualifier) (str "system") && is_system_table (ident_of_lexed table).
Proof. exact handled_select_decision. Qed.
Print Assumptions c09_select_handled_iff_system_table.

(** hence a table in a user keyspace is never handled, even when it is called local or peers
    and even while the connection's keyspace is system *)
Corollary c09_user_keyspace_always_forwarded :
  forall cur sels q table rest,
    Forall (fun x => t_code x <> tkFrom /\ t_code x <> tkEOF) sels ->
    ident_is_empty (ident_of_lexed q) = false -> ident_equal (ident_of_lexed q) (str "system") = false ->
    fst (fst (is_handled_tokens cur (kwtok tkSelect :: sels ++ kwtok tkFrom :: target_tokens (Some q) table ++ rest))) = false.
Proof.
  intros cur sels q table rest Hs He Hq.
  rewrite (handled_select_decision cur sels (Some q) table rest Hs) by discriminate.
  cbn [effective_keyspace]. rewrite He, Hq. reflexivity.
Qed.
Print Assumptions c09_user_keyspace_always_forwarded.

(** and reads of system.local / system.peers (any case, or quoted lower case) always are *)
Corollary c09_system_local_and_peers_never_forwarded :
  forall cur sels rest table,
    Forall (fun x => t_code x <> tkFrom /\ t_code x <> tkEOF) sels ->
    In table [str "local"; str "LOCAL"; str "Local"; [34] ++ str "local" ++ [34]; str "peers"; str "PEERS"; [34] ++ str "peers" ++ [34]; str "peers_v2"] ->
    fst (fst (is_handled_tokens cur (kwtok tkSelect :: sels ++ kwtok tkFrom :: target_tokens (Some (str "system")) table ++ rest))) = true.
Proof.
  intros cur sels rest table Hs Hin.
  rewrite (handled_select_decision cur sels (Some (str "system")) table rest Hs) by discriminate.
  cbn [In] in Hin. repeat (destruct Hin as [<-|Hin]; [vm_compute; reflexivity|]). destruct Hin.
Qed.
Print Assumptions c09_system_local_and_peers_never_forwarded.

Theorem c09_use_is_handled :
  forall cur ks rest, is_handled_tokens cur (kwtok tkUse :: idtok ks :: rest) = (true, StUse ks, false).
Proof. exact use_handled. Qed.
Print Assumptions c09_use_is_handled.

Theorem c09_other_statements_forwarded :
  forall cur t rest, t_code t <> tkSelect -> t_code t <> tkUse -> fst (fst (is_handled_tokens cur (t :: rest))) = false.
Proof. exact other_statements_not_handled. Qed.
Print Assumptions c09_other_statements_forwarded.

(** Non-vacuity, on real statement text. *)
Example c09_examples :
  map (fun p => fst (fst (is_query_handled (ident_of_lexed (str (fst p))) (str (snd p)))))
    [ ("", "SELECT * FROM system.local"); ("system", "select key from PEERS where x = 1"); ("system", "SELECT * FROM myks.local");
      ("myks", "SELECT * FROM local"); ("", "SELECT * FROM ""system"".""peers_v2"""); ("", "SELECT * FROM system.""Local""");
      ("", "USE ks"); ("system", "INSERT INTO local (key) VALUES ('x')") ]%string
  = [true; true; false; false; true; false; true; false].
Proof. vm_compute. reflexivity. Qed.
