(** * C06 — the idempotency classifier: lexing is Ragel's maximal munch over the rule list
    regenerated from parser/lexer.rl; whatever does not parse is not idempotent; the verdict
    is a function of the token stream.  (Soundness against the documented constructs and
    spelling stability of whole statements are carried by the correspondence run; see the
    examples at the end and DESIGN.md section 5.) *)
From Coq Require Import List NArith Bool.
From CqlProxy Require Import Lib.Val Lib.Util Lib.Regex Gen.LexRules Gen.Tables Model.Lexer Model.Parser
  Proofs.RegexProofs Proofs.ParserProofs.
Import ListNotations.
Local Open Scope N_scope.

(** The scanner returns the longest prefix any rule matches and, among the rules matching
    it, the earliest: for every rule list and every input. *)
Theorem c06_scanner_is_maximal_munch :
  forall rules input len idx, scan_one rules input = Some (len, idx) ->
    (0 < len <= length input)%nat /\
    matches (nth idx rules Emp) (firstn len input) = true /\
    (forall j, (j < idx)%nat -> matches (nth j rules Emp) (firstn len input) = false) /\
    (forall len' j, (len < len' <= length input)%nat -> (j < length rules)%nat ->
       matches (nth j rules Emp) (firstn len' input) = false).
Proof. exact scan_one_maximal_munch. Qed.
Print Assumptions c06_scanner_is_maximal_munch.

(** Anything the classifier cannot parse is reported not idempotent -- for every token list,
    hence for every byte string. *)
Theorem c06_unparseable_is_not_idempotent :
  forall q, snd (is_query_idempotent q) <> 0 -> fst (is_query_idempotent q) = false.
Proof. intro q. apply unparseable_is_not_idempotent. Qed.
Print Assumptions c06_unparseable_is_not_idempotent.

(** The verdict depends on the token stream only: two spellings that lex to the same tokens
    (keyword case, blanks, newlines) get the same verdict. *)
Theorem c06_verdict_is_a_function_of_tokens :
  forall a b, tokenize a = tokenize b -> is_query_idempotent a = is_query_idempotent b.
Proof. intros a b H. unfold is_query_idempotent. rewrite H. reflexivity. Qed.
Print Assumptions c06_verdict_is_a_function_of_tokens.

(** A trailing ';' ends the statement like the end of input does. *)
Theorem c06_terminator_tokens : is_dml_terminator tkEOS = true /\ is_dml_terminator tkEOF = true.
Proof. split; reflexivity. Qed.

(** Concrete instances (evaluated, not quantified): every documented non-idempotent construct
    is refused, plain mutations are accepted, spelling does not matter. *)
Definition verdicts (qs : list String.string) : list bool := map (fun q => fst (is_query_idempotent (str q))) qs.

Example c06_non_idempotent_constructs :
  verdicts [ "INSERT INTO t (a) VALUES (now())"; "INSERT INTO t (a) VALUES ([1, {2: (3, uuid())}])";
             "INSERT INTO t (a) VALUES ({system.now()})"; "INSERT INTO t (a) VALUES ({f: SYSTEM . Uuid()})";
             "UPDATE t SET c = c + 1 WHERE k = 1"; "UPDATE t SET l = l + [1] WHERE k = 1"; "UPDATE t SET l = [1] + l WHERE k = 1";
             "UPDATE t SET l = l - [1] WHERE k = 1"; "UPDATE t SET l += [1] WHERE k = 1"; "UPDATE t SET c = c + ? WHERE k = 1";
             "UPDATE t SET c = c + f(1) WHERE k = 1"; "DELETE l[0] FROM t WHERE k = 1"; "DELETE l[?] FROM t WHERE k = 1";
             "INSERT INTO t (a) VALUES (1) IF NOT EXISTS"; "UPDATE t SET a = 1 WHERE k = 1 IF a = 2"; "DELETE FROM t WHERE k = 1 IF EXISTS";
             "BEGIN COUNTER BATCH UPDATE t SET c = c + 1 WHERE k = 1 APPLY BATCH";
             "BEGIN BATCH INSERT INTO t (a) VALUES (1) INSERT INTO t (a) VALUES (uuid()) APPLY BATCH";
             "DELETE FROM t WHERE k = now()"; "garbage"; "INSERT INTO t (a) VALUES (1" ]%string
  = repeat false 21.
Proof. vm_compute. reflexivity. Qed.

Example c06_plain_mutations :
  verdicts [ "INSERT INTO t (a, b) VALUES (1, 'x')"; "insert  into ks.t(a)values(?) using ttl 5;";
             "UPDATE t SET s = s + {1, 2}, m = m + {'k': :v}, a = [1], b = (1, 2) WHERE k = ? AND j IN (1, 2)";
             "DELETE a, m['k'] FROM t WHERE k = 1"; "SELECT * FROM t";
             "BEGIN UNLOGGED BATCH INSERT INTO t (a) VALUES (1); UPDATE t SET a = 2 WHERE k = 1; APPLY BATCH;" ]%string
  = repeat true 6.
Proof. vm_compute. reflexivity. Qed.
