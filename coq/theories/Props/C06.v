(** * C06 — the idempotency classifier: sound and complete against the documented constructs
    on the syntax of Model/Ast.v (every DML form, nested terms, collections, UDT/tuple literals,
    casts, function calls, USING/WHERE/IF, batches); lexing is Ragel's maximal munch over the rule
    list regenerated from parser/lexer.rl; whatever does not parse is not idempotent; the verdict
    is a function of the token stream.  (That a statement's text lexes to the printed token list
    -- spelling stability -- is carried by the correspondence run, which re-spells every
    generated statement.) *)
From Coq Require Import List NArith Bool.
From CqlProxy Require Import Lib.Val Lib.Util Lib.Regex Gen.LexRules Gen.Tables Model.Lexer Model.Parser
  Proofs.RegexProofs Proofs.ParserProofs Model.Ast Proofs.AstProofs.
Import ListNotations.
Local Open Scope N_scope.

(** The scanner returns the longest prefix any rule matches and, among the rules matching
    it, the earliest: for every rule list and every input. *)
Theorem c06_scanner_is_maximal_munch :
  forall rules input len idx, scan_one rules input = Some (len, idx) ->
    (0 < len <= length input)%nat /\
    matches (nth idx rules Emp) (firstn len input) = true /\
    (forall j, (j < idx)%nat -> matches (nth j rules Emp) (firstn len input) = false) /\
    (forall len' j, (len < len' <= length input)%nat -> (j < length rules)%nat ->
       matches (nth j rules Emp) (firstn len' input) = false).
Proof. exact scan_one_maximal_munch. Qed.
Print Assumptions c06_scanner_is_maximal_munch.

(** Anything the classifier cannot parse is reported not idempotent -- for every token list,
    hence for every byte string. *)
Theorem c06_unparseable_is_not_idempotent :
  forall q, snd (is_query_idempotent q) <> 0 -> fst (is_query_idempotent q) = false.
Proof. intro q. apply unparseable_is_not_idempotent. Qed.
Print Assumptions c06_unparseable_is_not_idempotent.

(** The verdict depends on the token stream only: two spellings that lex to the same tokens
    (keyword case, blanks, newlines) get the same verdict. *)
Theorem c06_verdict_is_a_function_of_tokens :
  forall a b, tokenize a = tokenize b -> is_query_idempotent a = is_query_idempotent b.
Proof. intros a b H. unfold is_query_idempotent. rewrite H. reflexivity. Qed.
Print Assumptions c06_verdict_is_a_function_of_tokens.

(** ** Soundness and completeness on the grammar (proofs: Proofs/Ast*.v, one simulation lemma per
    nonterminal of the recursive-descent classifier over positioned lexer states).

    [doc_idem_stmt] is the documented ground truth, written by recursion on the syntax from the
    property text: a now()/uuid() call (name by CQL identifier rules, unqualified or qualified by
    system) anywhere in any term -- values, relation operands, collection elements, map keys and
    values, UDT fields, tuple elements, cast operands, function arguments, subscripts --, counter
    batches, [c = c +/- t], [c = t + c], [c +=/-= t] unless [t] is a set/map/UDT/tuple literal, a
    delete-by-index whose index is an integer, bind marker, call or cast, and any IF clause make
    a statement non-idempotent.  [wf_stmt] (Model/Ast.v) excludes: nesting deeper than the
    parser's limit, a tuple literal starting with a function call, a CONTAINS operand starting
    with an identifier spelled [key], a tuple relation without columns -- each shown necessary
    by an Example in Proofs/AstProofs.v, each refused (never accepted) by the classifier. *)

(** Sound: whatever the classifier reports idempotent contains none of the documented
    non-idempotent constructs, at any nesting depth, in any statement form including batches. *)
Theorem c06_classifier_sound :
  forall st, wf_stmt st -> fst (is_idempotent_tokens (tokens_of_stmt st)) = true -> doc_idem_stmt st = true.
Proof. exact classifier_sound. Qed.
Print Assumptions c06_classifier_sound.

(** Plain mutations -- literals, bind markers, collection/tuple/UDT literals of such, set/map
    additions, no IF -- are reported idempotent, without a parse error. *)
Theorem c06_plain_mutations_accepted :
  forall st, wf_stmt st -> plain_stmt st = true -> is_idempotent_tokens (tokens_of_stmt st) = (true, 0).
Proof. exact classifier_accepts_plain. Qed.
Print Assumptions c06_plain_mutations_accepted.

(** Exact: on the grammar the verdict is the documented one (the only corner: a call qualified
    by the empty quoted keyspace [""] is treated like an unqualified one -- stricter). *)
Theorem c06_classifier_decides_documented :
  forall st, wf_stmt st -> noemptyks_stmt st = true ->
    fst (is_idempotent_tokens (tokens_of_stmt st)) = doc_idem_stmt st.
Proof. exact classifier_decides_documented. Qed.
Print Assumptions c06_classifier_decides_documented.

(** and is the function [cls_stmt] of the syntax, which is sound without any side condition *)
Theorem c06_verdict_on_syntax :
  forall st, wf_stmt st -> fst (is_idempotent_tokens (tokens_of_stmt st)) = cls_stmt st.
Proof. exact classifier_verdict. Qed.
Print Assumptions c06_verdict_on_syntax.

Theorem c06_syntax_verdict_sound : forall st, cls_stmt st = true -> doc_idem_stmt st = true.
Proof. exact cls_sound. Qed.
Print Assumptions c06_syntax_verdict_sound.

(** Non-vacuity: a batch whose second child hides now() in a map value inside a list is
    well-formed, prints to exactly the tokens of its CQL text, and is refused. *)
Example c06_deep_now :
  wf_stmt ex_deep_now /\ fst (is_idempotent_tokens (tokens_of_stmt ex_deep_now)) = false /\ doc_idem_stmt ex_deep_now = false.
Proof. repeat split; vm_compute; reflexivity. Qed.

(** A trailing ';' ends the statement like the end of input does. *)
Theorem c06_terminator_tokens : is_dml_terminator tkEOS = true /\ is_dml_terminator tkEOF = true.
Proof. split; reflexivity. Qed.
Print Assumptions c06_terminator_tokens.

(** Concrete instances (evaluated, not quantified): every documented non-idempotent construct
    is refused, plain mutations are accepted, spelling does not matter. *)
Definition verdicts (qs : list String.string) : list bool := map (fun q => fst (is_query_idempotent (str q))) qs.

Example c06_non_idempotent_constructs :
  verdicts [ "INSERT INTO t (a) VALUES (now())"; "INSERT INTO t (a) VALUES ([1, {2: (3, uuid())}])";
             "INSERT INTO t (a) VALUES ({system.now()})"; "INSERT INTO t (a) VALUES ({f: SYSTEM . Uuid()})";
             "UPDATE t SET c = c + 1 WHERE k = 1"; "UPDATE t SET l = l + [1] WHERE k = 1"; "UPDATE t SET l = [1] + l WHERE k = 1";
             "UPDATE t SET l = l - [1] WHERE k = 1"; "UPDATE t SET l += [1] WHERE k = 1"; "UPDATE t SET c = c + ? WHERE k = 1";
             "UPDATE t SET c = c + f(1) WHERE k = 1"; "DELETE l[0] FROM t WHERE k = 1"; "DELETE l[?] FROM t WHERE k = 1";
             "INSERT INTO t (a) VALUES (1) IF NOT EXISTS"; "UPDATE t SET a = 1 WHERE k = 1 IF a = 2"; "DELETE FROM t WHERE k = 1 IF EXISTS";
             "BEGIN COUNTER BATCH UPDATE t SET c = c + 1 WHERE k = 1 APPLY BATCH";
             "BEGIN BATCH INSERT INTO t (a) VALUES (1) INSERT INTO t (a) VALUES (uuid()) APPLY BATCH";
             "DELETE FROM t WHERE k = now()"; "garbage"; "INSERT INTO t (a) VALUES (1" ]%string
  = repeat false 21.
Proof. vm_compute. reflexivity. Qed.

Example c06_plain_mutations :
  verdicts [ "INSERT INTO t (a, b) VALUES (1, 'x')"; "insert  into ks.t(a)values(?) using ttl 5;";
             "UPDATE t SET s = s + {1, 2}, m = m + {'k': :v}, a = [1], b = (1, 2) WHERE k = ? AND j IN (1, 2)";
             "DELETE a, m['k'] FROM t WHERE k = 1"; "SELECT * FROM t";
             "BEGIN UNLOGGED BATCH INSERT INTO t (a) VALUES (1); UPDATE t SET a = 2 WHERE k = 1; APPLY BATCH;" ]%string
  = repeat true 6.
Proof. vm_compute. reflexivity. Qed.
