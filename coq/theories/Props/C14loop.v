(** * C14 / C16 (additions) -- the control connection's reader against the cluster's event loop
    (Model/ControlLoop.v, transcribing proxycore/cluster.go [OnEvent] / [stayConnected] / [refreshHosts] and the reader
    side of proxycore/clientconn.go; proofs in Proofs/ControlLoopProofs.v).  Headlines only.

    [crun orig sts]: the state after the steps [sts] from the initial state; [orig = true] is the code before the repair
    480d57e ([OnEvent] sends on an unbuffered channel that the loop receives from only in its select), [orig = false]
    the repaired code ([OnEvent] appends to a queue the loop takes whole).
    The refresh is two steps: [SRefresh] (the loop writes the query and waits; [asked s = true]: the query is at the
    backend, not yet answered) and [SAnswer] (the backend writes the response).  [SBackend (IEvent _)] is always
    enabled, so an event can land AHEAD of the response after the query was sent.
    [written sts]: the events the backend wrote, in order.  [in_flight s]: the events queued, in the reader's hand or on
    the socket, in the order they will be delivered.  [stuck orig s]: work is pending and none of [SRead], [SHand],
    [STake], [SAnswer] is enabled -- only the refresh time-out can happen.  [no_timeout sts]: no [STimeout] in [sts].
    [drain_gen orig fuel s]: repeatedly fire the first enabled of [SHand; SRead; STake; SAnswer] (the reader's, the
    loop's and the answering backend's own steps), at most [fuel] times; [drain = drain_gen false];
    [drain_trace] is the list of steps it fires.
    [calm sts] (computed along the run of the original code): whenever [SRefresh] fires no event is in flight, and no
    [SBackend (IEvent _)] step happens while the loop waits ([lp = LWaitResp]: between [SRefresh] and the [SHand] that
    delivers its response).  [calm_exact sts]: the second clause only while [asked] (the answer is not yet written). *)
From Coq Require Import List ZArith NArith Bool.
From CqlProxy Require Import Lib.Val Lib.Util Model.ControlLoop Proofs.ControlLoopProofs.
Import ListNotations.

(** ** CL1: the repaired code is never stuck -- in any run, time-outs included *)
Theorem cl1_repaired_never_stuck : forall sts, stuck false (crun false sts) = false.
Proof. exact repaired_never_stuck. Qed.
Print Assumptions cl1_repaired_never_stuck.

(** the invariant behind it: while the loop waits, the response is still owed by the backend, on the socket, or in the
    reader's hand (in any run of either version) *)
Theorem cl1_response_pending_while_waiting : forall orig sts,
  lp (crun orig sts) = LWaitResp ->
  asked (crun orig sts) = true \/ holding (crun orig sts) = Some IResp \/ In IResp (socket (crun orig sts)).
Proof. exact resp_pending_run. Qed.
Print Assumptions cl1_response_pending_while_waiting.

(** ** CL2: the original code gets stuck: one event on the socket when the refresh timer fires is enough (the backend answers, the
    reader takes the event off the socket first) ... *)
Theorem cl2_original_gets_stuck : exists sts,
  no_timeout sts = true /\ stuck true (crun true sts) = true /\
  in_flight (crun true sts) <> [] /\ delivered (crun true sts) = [].
Proof. exact original_gets_stuck. Qed.
Print Assumptions cl2_original_gets_stuck.

(** ... and whatever happens next, short of the time-out, delivers nothing and completes no refresh *)
Theorem cl2_original_stuck_forever_without_timeout : forall r, no_timeout r = true ->
  delivered (crun true ([SBackend (IEvent 7%N); SRefresh; SAnswer; SRead] ++ r)) = [] /\
  refreshes (crun true ([SBackend (IEvent 7%N); SRefresh; SAnswer; SRead] ++ r)) = 0%nat.
Proof. exact original_stuck_forever_without_timeout. Qed.
Print Assumptions cl2_original_stuck_forever_without_timeout.

Theorem cl2_original_stuck_forever_strong : forall r, no_timeout r = true ->
  let s := crun true ([SBackend (IEvent 7%N); SRefresh; SAnswer; SRead] ++ r) in
  stuck true s = true /\ holding s = Some (IEvent 7%N) /\ lp s = LWaitResp /\ delivered s = [] /\ refreshes s = 0%nat.
Proof. exact original_stuck_forever_strong. Qed.
Print Assumptions cl2_original_stuck_forever_strong.

(** the invariant behind it, for any state: the reader holds an event, the loop waits for a response *)
Theorem cl2_original_wedged_forever : forall s r,
  (lost s = false /\ lp s = LWaitResp /\ exists id, holding s = Some (IEvent id)) -> no_timeout r = true ->
  let s' := fold_left (step true) r s in
  (lost s' = false /\ lp s' = LWaitResp /\ exists id, holding s' = Some (IEvent id)) /\
  delivered s' = delivered s /\ refreshes s' = refreshes s /\ (asked s = false -> stuck true s' = true).
Proof. exact original_wedged_forever. Qed.
Print Assumptions cl2_original_wedged_forever.

(** ** CL3: no event lost, duplicated or reordered, in either version, as long as no time-out closes the connection *)
Theorem cl3_conservation : forall orig sts, no_timeout sts = true ->
  delivered (crun orig sts) ++ in_flight (crun orig sts) = written sts.
Proof. exact conservation. Qed.
Print Assumptions cl3_conservation.

(** [no_timeout] is needed: the time-out closes the connection and what was on it is gone *)
Theorem cl3_conservation_needs_no_timeout_refuted : exists orig sts,
  no_timeout sts = false /\ delivered (crun orig sts) ++ in_flight (crun orig sts) <> written sts.
Proof. exact conservation_needs_no_timeout_refuted. Qed.
Print Assumptions cl3_conservation_needs_no_timeout_refuted.

(** with time-outs: a prefix -- never a duplicate, never a reordering *)
Theorem cl3_delivered_prefix_always : forall orig sts, exists tail, written sts = delivered (crun orig sts) ++ tail.
Proof. exact delivered_prefix_always. Qed.
Print Assumptions cl3_delivered_prefix_always.

(** ** CL4: in the repaired code the own steps of reader, loop and answering backend deliver every event written, in
    order, and complete a pending refresh.  [drain] fires the first enabled of [SHand; SRead; STake; SAnswer].
    The bound is [2 * length (socket s) + 5]: one more than in the coarser model, where the answer was not a step *)
Theorem cl4_repaired_drains : forall sts, no_timeout sts = true ->
  let s := crun false sts in
  let s' := drain (2 * length (socket s) + 5) s in
  in_flight s' = [] /\ lp s' = LSelect /\ lost s' = false /\ asked s' = false /\ delivered s' = written sts.
Proof. exact repaired_drains. Qed.
Print Assumptions cl4_repaired_drains.

Theorem cl4_repaired_drains_bound4_refuted : exists sts, no_timeout sts = true /\
  let s := crun false sts in
  in_flight (drain (2 * length (socket s) + 4) s) <> [] /\ in_flight (drain (2 * length (socket s) + 5) s) = [] /\
  drain_trace false (2 * length (socket s) + 5) s = [SHand; SAnswer; SRead; SHand; STake].
Proof. exact repaired_drains_bound4_refuted. Qed.
Print Assumptions cl4_repaired_drains_bound4_refuted.

(** with [+ 4] all that can be missing is the loop's final [STake] *)
Theorem cl4_repaired_drains_bound4 : forall sts, no_timeout sts = true ->
  let s := crun false sts in
  let s' := drain (2 * length (socket s) + 4) s in
  socket s' = [] /\ holding s' = None /\ lp s' = LSelect /\ lost s' = false /\ asked s' = false /\
  delivered s' ++ queue s' = written sts.
Proof. exact repaired_drains_bound4. Qed.
Print Assumptions cl4_repaired_drains_bound4.

(** the scheduler is a run of the model, firing only those four steps *)
Theorem cl4_drain_is_run : forall orig fuel s,
  drain_gen orig fuel s = fold_left (step orig) (drain_trace orig fuel s) s /\
  forall st, In st (drain_trace orig fuel s) -> st = SHand \/ st = SRead \/ st = STake \/ st = SAnswer.
Proof. intros orig fuel s. split; [apply drain_is_run|apply drain_trace_own_steps]. Qed.
Print Assumptions cl4_drain_is_run.

Theorem cl4_repaired_drains_as_trace : forall sts, no_timeout sts = true ->
  exists own, (forall st, In st own -> st = SHand \/ st = SRead \/ st = STake \/ st = SAnswer) /\
    let s' := crun false (sts ++ own) in
    in_flight s' = [] /\ lp s' = LSelect /\ lost s' = false /\ delivered s' = written sts /\
    written (sts ++ own) = written sts.
Proof. exact repaired_drains_as_trace. Qed.
Print Assumptions cl4_repaired_drains_as_trace.

(** ** CL5: a refresh started in the repaired code completes by those steps (here [+ 4] suffices) *)
Theorem cl5_refresh_completes_repaired : forall sts, no_timeout sts = true -> lp (crun false sts) = LSelect ->
  let s := step false (crun false sts) SRefresh in
  refreshes (drain (2 * length (socket s) + 4) s) = S (refreshes (crun false sts)).
Proof. exact refresh_completes_repaired. Qed.
Print Assumptions cl5_refresh_completes_repaired.

Theorem cl5_refresh_completes_repaired_full : forall sts, no_timeout sts = true -> lp (crun false sts) = LSelect ->
  let s := step false (crun false sts) SRefresh in
  let s' := drain (2 * length (socket s) + 5) s in
  refreshes s' = S (refreshes (crun false sts)) /\ in_flight s' = [] /\ lp s' = LSelect /\ delivered s' = written sts.
Proof. exact refresh_completes_repaired_full. Qed.
Print Assumptions cl5_refresh_completes_repaired_full.

(** ** CL6: why the tests passed -- the original code is fine in runs where no event meets a refresh *)
Theorem cl6_original_fine_without_events_during_refresh : forall sts, no_timeout sts = true -> calm sts = true ->
  let s := crun true sts in
  let s' := drain_gen true (2 * length (socket s) + 5) s in
  in_flight s' = [] /\ lp s' = LSelect /\ lost s' = false /\ asked s' = false /\ delivered s' = written sts /\
  stuck true s = false /\ stuck true s' = false.
Proof. exact original_fine_without_events_during_refresh. Qed.
Print Assumptions cl6_original_fine_without_events_during_refresh.

(** both clauses of [calm] are needed.  The second: an event written between the query and its answer *)
Theorem cl6_calm_second_clause_needed_refuted :
  let sts := [SRefresh; SBackend (IEvent 7%N); SAnswer; SRead] in
  no_timeout sts = true /\ calm sts = false /\ calm_exact sts = false /\
  calm_from cinit [SRefresh] = true /\
  stuck true (crun true sts) = true /\ in_flight (crun true sts) = [7%N] /\ delivered (crun true sts) = [] /\
  let s' := drain_gen true (2 * length (socket (crun true sts)) + 5) (crun true sts) in
  stuck true s' = true /\ in_flight s' = [7%N] /\ delivered s' = [] /\ refreshes s' = 0%nat.
Proof. exact calm_second_clause_needed_refuted. Qed.
Print Assumptions cl6_calm_second_clause_needed_refuted.

(** the first: an event in flight when the timer fires *)
Theorem cl6_calm_first_clause_needed_refuted :
  let sts := [SBackend (IEvent 7%N); SRefresh] in
  no_timeout sts = true /\ calm sts = false /\ calm_exact sts = false /\
  let s' := drain_gen true (2 * length (socket (crun true sts)) + 5) (crun true sts) in
  stuck true s' = true /\ in_flight s' = [7%N] /\ delivered s' = [] /\ refreshes s' = 0%nat.
Proof. exact calm_first_clause_needed_refuted. Qed.
Print Assumptions cl6_calm_first_clause_needed_refuted.

(** the exact condition: the second clause is needed only until the answer is written ... *)
Theorem cl6_original_fine_if_no_event_ahead_of_response : forall sts,
  no_timeout sts = true -> calm_exact sts = true ->
  let s := crun true sts in
  let s' := drain_gen true (2 * length (socket s) + 5) s in
  in_flight s' = [] /\ lp s' = LSelect /\ lost s' = false /\ asked s' = false /\ delivered s' = written sts /\
  stuck true s = false /\ stuck true s' = false.
Proof. exact original_fine_if_no_event_ahead_of_response. Qed.
Print Assumptions cl6_original_fine_if_no_event_ahead_of_response.

(** ... and every violation wedges the original code: in any reachable state with the query unanswered and an event on
    the connection, two own steps suffice; nothing more is delivered, the refresh does not complete *)
Theorem cl6_original_wedges_when_event_ahead_of_response : forall sts fuel,
  lost (crun true sts) = false -> asked (crun true sts) = true -> in_flight (crun true sts) <> [] ->
  let s' := drain_gen true (S (S fuel)) (crun true sts) in
  (lost s' = false /\ lp s' = LWaitResp /\ exists id, holding s' = Some (IEvent id)) /\ stuck true s' = true /\
  delivered s' = delivered (crun true sts) /\ refreshes s' = refreshes (crun true sts).
Proof. exact original_wedges_when_event_ahead_of_response. Qed.
Print Assumptions cl6_original_wedges_when_event_ahead_of_response.

Theorem cl6_original_wedges_when_event_meets_refresh : forall sts fuel,
  lost (crun true sts) = false -> lp (crun true sts) = LSelect -> in_flight (crun true sts) <> [] ->
  let s' := drain_gen true (S (S fuel)) (step true (crun true sts) SRefresh) in
  (lost s' = false /\ lp s' = LWaitResp /\ exists id, holding s' = Some (IEvent id)) /\ stuck true s' = true /\
  delivered s' = delivered (crun true sts) /\ refreshes s' = refreshes (crun true sts).
Proof. exact original_wedges_when_event_meets_refresh. Qed.
Print Assumptions cl6_original_wedges_when_event_meets_refresh.

Theorem cl6_original_wedges_when_event_written_before_answer : forall sts id fuel,
  lost (crun true sts) = false -> asked (crun true sts) = true ->
  let s' := drain_gen true (S (S fuel)) (step true (crun true sts) (SBackend (IEvent id))) in
  (lost s' = false /\ lp s' = LWaitResp /\ exists id, holding s' = Some (IEvent id)) /\ stuck true s' = true /\
  delivered s' = delivered (crun true sts) /\ refreshes s' = refreshes (crun true sts).
Proof. exact original_wedges_when_event_written_before_answer. Qed.
Print Assumptions cl6_original_wedges_when_event_written_before_answer.

(** the drain of the original code never fires [STake] *)
Theorem cl6_drain_orig_no_take : forall fuel s, ~ In STake (drain_trace true fuel s).
Proof. exact drain_trace_orig_no_take. Qed.
Print Assumptions cl6_drain_orig_no_take.

(** the weaker form: any events, drain, refresh, drain *)
Theorem cl6_original_fine_events_then_refresh : forall ids,
  let s0 := crun true (map (fun i => SBackend (IEvent i)) ids) in
  let s1 := drain_gen true (2 * length (socket s0) + 5) s0 in
  let s2 := step true s1 SRefresh in
  let s3 := drain_gen true (2 * length (socket s2) + 5) s2 in
  stuck true s0 = false /\ stuck true s1 = false /\ stuck true s3 = false /\
  in_flight s3 = [] /\ delivered s3 = ids /\ refreshes s3 = S (refreshes s0).
Proof. exact original_fine_events_then_refresh. Qed.
Print Assumptions cl6_original_fine_events_then_refresh.

(** ** CL7: nothing is delivered that the backend did not write *)
Theorem cl7_no_spurious_delivery : forall orig sts id, In id (delivered (crun orig sts)) -> In id (written sts).
Proof. exact no_spurious_delivery. Qed.
Print Assumptions cl7_no_spurious_delivery.
