(** ---- added: the formal record of the KNOWN FINDING of C17 (KNOWN_FINDINGS.txt): one backend connection's reader and the
    bounded write queues of the client connections it serves (Model/HeadOfLine.v).  The property "no client stops the proxy
    serving the others" is FALSE of the faithful model: a client whose queue is full and who does not read blocks the reader
    for good, whatever the other clients do (theorem with its witness); when every client reads, everything is delivered. ---- *)
From Coq Require Import List NArith Bool.
From CqlProxy Require Import Model.HeadOfLine Proofs.HeadOfLineProofs.
Import ListNotations.
Local Open Scope nat_scope.

Theorem c17_hol_wedged_forever : forall cap c s sts,
  wedged cap c s -> never_drains c sts = true -> wedged cap c (run cap s sts) /\ backend (run cap s sts) = backend s.
Proof. exact wedged_forever. Qed.
Print Assumptions c17_hol_wedged_forever.

Theorem c17_hol_a_client_that_does_not_read_starves_the_others_refuted :
  forall sts, never_drains 1%N sts = true ->
    In 2%N (backend (run 2 (run 2 (start [1; 1; 1; 2]%N) hol_prefix) sts)) /\ count 2%N (got (run 2 (run 2 (start [1; 1; 1; 2]%N) hol_prefix) sts)) = O.
Proof. exact a_client_that_does_not_read_starves_the_others_refuted. Qed.
Print Assumptions c17_hol_a_client_that_does_not_read_starves_the_others_refuted.

Theorem c17_hol_everything_is_delivered_when_every_client_reads : forall cap answers, 0 < cap ->
  got (run cap (start answers) (fair answers)) = answers /\ backend (run cap (start answers) (fair answers)) = [].
Proof. exact everything_is_delivered_when_every_client_reads. Qed.
Print Assumptions c17_hol_everything_is_delivered_when_every_client_reads.
