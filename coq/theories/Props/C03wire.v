(** * ConnIO — the connection's writer and reader goroutines (proxycore/conn.go, bufio.Writer): headline theorems.
    Proofs in Proofs/ConnIOProofs.v.  Used by C01 (a queued answer is written out once the queue drains) and C03
    (the bytes on the wire are the frames that were queued, whole, in order). *)
From Coq Require Import List ZArith NArith Bool.
From CqlProxy Require Import Lib.Val Lib.Util Lib.Wire Model.Frame Proofs.FrameProofs2 Model.ConnIO
  Proofs.ConnIOProofs.
Import ListNotations.

(** ** W1. one bufio.Writer.Write keeps the byte stream and the buffer bound *)
Theorem connio_bw_write_stream :
  forall cap buf p, concat (fst (bw_write cap buf p)) ++ snd (bw_write cap buf p) = buf ++ p.
Proof. exact bw_write_stream. Qed.
Print Assumptions connio_bw_write_stream.

Theorem connio_bw_write_bound :
  forall cap buf p, 0 < cap -> length buf <= cap -> length (snd (bw_write cap buf p)) <= cap.
Proof. exact bw_write_bound. Qed.
Print Assumptions connio_bw_write_bound.

(** ** W2. the writer loop conserves the stream *)
Theorem connio_run_stream :
  forall cap buf sch,
    concat (fst (run cap buf sch)) ++ snd (run cap buf sch) = buf ++ all_bytes (map fst sch).
Proof. exact run_stream. Qed.
Print Assumptions connio_run_stream.

(** ** W3. blocked on the empty queue = everything is on the wire *)
Theorem connio_run_quiescent_flushed :
  forall cap buf sch, sch <> [] -> quiescent sch = true -> snd (run cap buf sch) = [].
Proof. exact run_quiescent_flushed. Qed.
Print Assumptions connio_run_quiescent_flushed.

Theorem connio_everything_queued_is_on_the_wire_once_in_order :
  forall cap sch, sch <> [] -> quiescent sch = true ->
    concat (fst (run cap [] sch)) = all_bytes (map fst sch).
Proof. exact everything_queued_is_on_the_wire_once_in_order. Qed.
Print Assumptions connio_everything_queued_is_on_the_wire_once_in_order.

(** ** W4. compositionality; the wire is always a prefix of what was queued *)
Theorem connio_run_app :
  forall cap buf s1 s2,
    fst (run cap buf (s1 ++ s2)) = fst (run cap buf s1) ++ fst (run cap (snd (run cap buf s1)) s2)
    /\ snd (run cap buf (s1 ++ s2)) = snd (run cap (snd (run cap buf s1)) s2).
Proof. exact run_app. Qed.
Print Assumptions connio_run_app.

Theorem connio_wire_is_always_a_prefix :
  forall cap s1 s2, exists tail,
    all_bytes (map fst (s1 ++ s2)) = concat (fst (run cap [] s1)) ++ tail.
Proof. exact wire_is_always_a_prefix. Qed.
Print Assumptions connio_wire_is_always_a_prefix.

(** also in the middle of a sender or of a chunk *)
Theorem connio_wire_cut_anywhere_is_a_prefix :
  forall cap sch k, exists tail,
    all_bytes (map fst sch) = firstn k (concat (fst (run cap [] sch))) ++ tail.
Proof. exact wire_cut_anywhere_is_a_prefix. Qed.
Print Assumptions connio_wire_cut_anywhere_is_a_prefix.

(** ** W5. the shape of the chunks *)
Theorem connio_chunks_nonempty :
  forall cap buf sch, 0 < cap -> length buf <= cap -> Forall (fun c => c <> []) (fst (run cap buf sch)).
Proof. exact chunks_nonempty. Qed.
Print Assumptions connio_chunks_nonempty.

Theorem connio_chunk_is_buffered_or_direct :
  forall cap buf sch c, 0 < cap -> length buf <= cap -> In c (fst (run cap buf sch)) ->
    length c <= cap \/ (exists s p k, In s (map fst sch) /\ In p s /\ c = skipn k p).
Proof. exact chunk_is_buffered_or_direct. Qed.
Print Assumptions connio_chunk_is_buffered_or_direct.

Theorem connio_no_amplification :
  forall cap buf sch,
    length (fst (run cap buf sch)) <= 2 * length (concat (map fst sch)) + length (filter snd sch).
Proof. exact no_amplification. Qed.
Print Assumptions connio_no_amplification.

(** ** W6. the acceptor = existence of a quiescent schedule, both directions *)
Theorem connio_acc_sound :
  forall cap buf ss obs, 0 < cap -> length buf <= cap -> acc cap buf ss obs = true ->
    exists flags, length flags = length ss /\ quiescent (combine ss flags) = true
                  /\ run cap buf (combine ss flags) = (obs, []).
Proof. exact acc_sound. Qed.
Print Assumptions connio_acc_sound.

Theorem connio_acc_complete :
  forall cap buf ss flags obs,
    0 < cap -> length buf <= cap -> length flags = length ss -> quiescent (combine ss flags) = true ->
    run cap buf (combine ss flags) = (obs, []) -> acc cap buf ss obs = true.
Proof. exact acc_complete. Qed.
Print Assumptions connio_acc_complete.

(** the same without any side condition *)
Theorem connio_acc_iff :
  forall cap buf ss obs,
    acc cap buf ss obs = true <->
    exists flags, length flags = length ss /\ quiescent (combine ss flags) = true
                  /\ run cap buf (combine ss flags) = (obs, []).
Proof. exact acc_iff. Qed.
Print Assumptions connio_acc_iff.

Theorem connio_acc_stream :
  forall cap ss obs, 0 < cap -> acc cap [] ss obs = true -> concat obs = all_bytes ss.
Proof. exact acc_stream. Qed.
Print Assumptions connio_acc_stream.

(** an equal acceptor that does not take 2^n steps on rejected observations (see Proofs/ConnIOProofs.v) *)
Theorem connio_acc_fast_eq :
  forall cap ss buf obs, acc_fast cap buf ss obs = acc cap buf ss obs.
Proof. exact acc_fast_eq. Qed.
Print Assumptions connio_acc_fast_eq.

(** ** W7. the reader *)
Theorem connio_reader_ignores_segmentation :
  forall s1 s2, concat s1 = concat s2 -> reader s1 = reader s2.
Proof. exact reader_ignores_segmentation. Qed.
Print Assumptions connio_reader_ignores_segmentation.

Theorem connio_reader_of_encoded_frames :
  forall fs, Forall wf_frame fs -> reader [concat (map encode_raw_frame fs)] = (fs, []).
Proof. exact reader_of_encoded_frames. Qed.
Print Assumptions connio_reader_of_encoded_frames.

(** ** W8. end to end: writer of one side, any TCP segmentation, reader of the other side *)
Theorem connio_wire_end_to_end :
  forall cap fs (sch : list (sender * bool)),
    0 < cap -> Forall wf_frame fs -> map (@concat N) (map fst sch) = map encode_raw_frame fs ->
    sch <> [] -> quiescent sch = true ->
    forall segs, concat segs = concat (fst (run cap [] sch)) -> reader segs = (fs, []).
Proof. exact wire_end_to_end. Qed.
Print Assumptions connio_wire_end_to_end.

(** ** Stretch: a connection that dies mid-stream never makes the peer see an altered or half frame *)
Theorem connio_strict_prefix_of_a_frame_does_not_decode :
  forall f j, wf_frame f -> j < length (encode_raw_frame f) ->
    decode_raw_frame (firstn j (encode_raw_frame f)) = None.
Proof. exact strict_prefix_of_a_frame_does_not_decode. Qed.
Print Assumptions connio_strict_prefix_of_a_frame_does_not_decode.

Theorem connio_reader_of_a_prefix_sees_a_prefix_of_the_frames :
  forall fs, Forall wf_frame fs ->
    forall k, exists rest, fs = fst (reader [firstn k (concat (map encode_raw_frame fs))]) ++ rest.
Proof. exact reader_of_a_prefix_sees_a_prefix_of_the_frames. Qed.
Print Assumptions connio_reader_of_a_prefix_sees_a_prefix_of_the_frames.

Theorem connio_connection_cut_at_any_byte_shows_a_prefix_of_the_frames :
  forall cap fs (sch : list (sender * bool)) segs k,
    Forall wf_frame fs -> map (@concat N) (map fst sch) = map encode_raw_frame fs ->
    concat segs = firstn k (concat (fst (run cap [] sch))) ->
    exists rest, fs = fst (reader segs) ++ rest.
Proof. exact connection_cut_at_any_byte_shows_a_prefix_of_the_frames. Qed.
Print Assumptions connio_connection_cut_at_any_byte_shows_a_prefix_of_the_frames.
