(** * C03 (addition) -- no well-formed request is dropped on its way through client.Receive, and what
    is forwarded is the raw frame unless the consistency override applies (Model/Front.v). *)
From Coq Require Import List ZArith NArith Bool Lia.
From CqlProxy Require Import Lib.Val Lib.Util Lib.Wire Model.Parser Model.Codec Model.Frame Model.Override Model.Gate Model.Front
  Proofs.CodecProofs Proofs.FrontProofs.
Import ListNotations.
Local Open Scope N_scope.

(** For every frame the gate dispatches (accepted header, version in [3, maxv], opcode QUERY /
    PREPARE / EXECUTE / BATCH, complete body, readable custom payload): a message that does not
    decode closes the connection; a statement the proxy owns is answered by it; anything else is
    forwarded -- or, when no backend session can be had, answered with a server error. *)
Theorem c03_front_forwards_iff : forall e c prep cl frame lb,
  receive (maxv c) (fc_gate cl) frame lb = GDispatched ->
  exists h r body rest0 pl rest,
    decode_header frame = inr (h, r) /\ get_z (h_len h) r = Some (body, rest0) /\
    split_envelope (h_flags h) (logical lb body) = Some (pl, rest) /\
    match frame_handled cl h rest with
    | None => fst (front e c prep cl frame lb) = AClosed
    | Some true => is_handled_action (fst (front e c prep cl frame lb)) = true
    | Some false =>
        if session_ok e (h_version h) (fc_keyspace cl) (comp (fc_gate cl))
        then is_forward (fst (front e c prep cl frame lb)) = true
        else fst (front e c prep cl frame lb) = ANoSession
    end.
Proof. exact front_forwards_iff. Qed.
Print Assumptions c03_front_forwards_iff.

(** A QUERY / PREPARE / EXECUTE / BATCH laid out as the reference codec writes it (C11's
    [decode_ref_*]; any option tail, any custom payload) is never dropped: it is forwarded or
    answered by the proxy. *)
Theorem c03_front_never_drops_wellformed : forall e c prep cl frame lb h r body rest0 pl rest,
  receive (maxv c) (fc_gate cl) frame lb = GDispatched ->
  decode_header frame = inr (h, r) -> get_z (h_len h) r = Some (body, rest0) ->
  split_envelope (h_flags h) (logical lb body) = Some (pl, rest) ->
  ref_message (h_version h) (h_opcode h) rest ->
  fst (front e c prep cl frame lb) <> AClosed /\
  (session_ok e (h_version h) (fc_keyspace cl) (comp (fc_gate cl)) = true ->
   is_forward (fst (front e c prep cl frame lb)) = true \/ is_handled_action (fst (front e c prep cl frame lb)) = true).
Proof. exact front_never_drops_wellformed. Qed.
Print Assumptions c03_front_never_drops_wellformed.

(** What is forwarded is never a rejected body; it is the raw frame (C03's byte transparency
    then applies) exactly when the request is a SELECT or its consistency is not listed, and a
    PREPARE is always forwarded raw. *)
Theorem c03_front_forward_raw_iff : forall e c prep cl frame lb op f state sel m,
  fst (front e c prep cl frame lb) = AForward op f state sel (FReq m) ->
  f <> FwdReject /\
  ((exists b l, f = FwdReenc b l) <-> (sel = false /\ is_unsupported (ocfg_of c) (msg_cl m) = true)) /\
  (f = FwdRaw <-> (sel = true \/ is_unsupported (ocfg_of c) (msg_cl m) = false)).
Proof. exact forward_reenc_iff. Qed.
Print Assumptions c03_front_forward_raw_iff.

Theorem c03_front_prepare_raw : forall e c prep cl frame lb op f state sel p,
  fst (front e c prep cl frame lb) = AForward op f state sel (FPrepare p) -> f = FwdRaw /\ state = IsIdempotent.
Proof. exact prepare_forwarded_raw. Qed.
Print Assumptions c03_front_prepare_raw.

(** totality and locality of the front *)
Theorem c03_front_total : forall e c prep cl frame lb,
  (exists a cl', front e c prep cl frame lb = (a, cl')) /\
  ident_of_string (fc_keyspace cl) = Ok (ident_from (fc_keyspace cl)) /\
  (forall op v b, is_panic (decode_msg op v b) = false /\ decode_msg op v b <> OutOfFuel).
Proof. exact front_total. Qed.
Print Assumptions c03_front_total.

Theorem c03_front_other_clients_untouched : forall e c prep cls i j frame lb,
  i <> j -> nth_error (snd (sys_front e c prep cls i frame lb)) j = nth_error cls j.
Proof. exact other_clients_untouched. Qed.
Print Assumptions c03_front_other_clients_untouched.

(** Non-vacuity: a v4 QUERY in reference layout with a tracing flag and an option tail goes out raw. *)
Example c03_front_example :
  match fst (front run_env ex_cfg [] init_fclient (mk_frame 4 2 7 (ref_query sel_user 6 [4; 0; 0; 0; 100])) None) with
  | AForward 7 FwdRaw NotDetermined true _ => True | _ => False end.
Proof. vm_compute. exact Logic.I. Qed.
