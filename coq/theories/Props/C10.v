(** * C10 — the virtual system.local / system.peers present a correct, consistent ring. *)
From Coq Require Import List ZArith NArith Bool.
From CqlProxy Require Import Lib.Val Lib.Util Lib.Wire Gen.Tables Model.Handled Model.SysTables Proofs.SysTablesProofs.
Import ListNotations.
Local Open Scope N_scope.

(** system.local: exactly one row, as wide as the metadata -- for every configuration,
    every selector list (projection, aliases, star, count, now) and both column sets. *)
Theorem c10_local_one_row :
  forall c nodes sels out rows, answer_select c nodes (str "local") sels = ARows out rows ->
    exists row, rows = [row] /\ length row = length out.
Proof. exact local_one_row. Qed.
Print Assumptions c10_local_one_row.

(** system.peers: one row per node other than this proxy, each as wide as the metadata. *)
Theorem c10_peers_one_row_per_other_node :
  forall c nodes sels out rows, answer_select c nodes (str "peers") sels = ARows out rows ->
    length rows = length (filter (fun n => negb (n_local n)) nodes) /\ Forall (fun row => length row = length out) rows.
Proof. exact peers_rows. Qed.
Print Assumptions c10_peers_one_row_per_other_node.

(** the selected columns are exactly the requested ones, in order *)
Theorem c10_projection_width :
  forall table cols value sels out cells,
    filter_columns table cols sels = Some out -> filter_values cols value sels = Some cells -> length cells = length out.
Proof. exact filter_width. Qed.
Print Assumptions c10_projection_width.

(** host ids are version-3 (name based), variant-10 UUIDs, and a function of the address alone *)
Theorem c10_host_id_is_v3_uuid :
  forall d, length d = 16%nat -> wf_bytes d ->
    length (uuid_of_md5 d) = 16%nat /\ nth 6 (uuid_of_md5 d) 0 / 16 = 3 /\ 128 <= nth 8 (uuid_of_md5 d) 0 < 192.
Proof. exact uuid_is_version3. Qed.
Print Assumptions c10_host_id_is_v3_uuid.

(** computed tokens start at the minimum token, strictly increase in address order (hence are
    distinct) and stay inside the signed 64-bit range, for every number of peers below 2^32 *)
Theorem c10_tokens_start_increase_in_range :
  forall num_peers i j, (0 < num_peers)%nat -> (Z.of_nat num_peers < 4294967296)%Z -> (i < j <= num_peers)%nat ->
    nth_token num_peers 0 = min_token /\
    (nth_token num_peers i < nth_token num_peers j)%Z /\
    (min_token <= nth_token num_peers i)%Z /\ (nth_token num_peers j <= 9223372036854775807)%Z.
Proof. exact tokens_start_increase_in_range. Qed.
Print Assumptions c10_tokens_start_increase_in_range.

(** Non-vacuity / evaluated instance of "views agree": three proxies sharing one peer list. *)
Definition nd (a b c d : N) (dc : String.string) : node :=
  {| n_ip := [0;0;0;0;0;0;0;0;0;0;255;255;a;b;c;d]; n_zone := []; n_dc := str dc; n_tokens := []; n_md5 := repeat (a + d) 16; n_local := false |}.
Example c10_views_agree_example :
  views_agree [nd 10 0 0 3 "dc1"; nd 10 0 0 1 "dc2"; nd 9 255 0 1 "dc1"]
    {| c_has_rpc := true; c_local := nd 0 0 0 0 ""; c_peers := []; c_cluster_dc := str "dc1"; c_release := []; c_partitioner := [];
       c_cql := []; c_dse := []; c_version := 4 |} = true.
Proof. vm_compute. reflexivity. Qed.
