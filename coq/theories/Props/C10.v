(** * C10 — the virtual system.local / system.peers present a correct, consistent ring. *)
From Coq Require Import List ZArith NArith Bool Permutation Sorting.Sorted.
From CqlProxy Require Import Lib.Val Lib.Util Lib.Wire Gen.Tables Model.Handled Model.SysTables Proofs.SysTablesProofs
  Model.SysTablesSpec Proofs.SysTablesProofs2.
Import ListNotations.
Local Open Scope N_scope.

(** system.local: exactly one row, as wide as the metadata -- for every configuration,
    every selector list (projection, aliases, star, count, now) and both column sets. *)
Theorem c10_local_one_row :
  forall c nodes sels out rows, answer_select c nodes (str "local") sels = ARows out rows ->
    exists row, rows = [row] /\ length row = length out.
Proof. exact local_one_row. Qed.
Print Assumptions c10_local_one_row.

(** system.peers: one row per node other than this proxy, each as wide as the metadata. *)
Theorem c10_peers_one_row_per_other_node :
  forall c nodes sels out rows, answer_select c nodes (str "peers") sels = ARows out rows ->
    length rows = length (filter (fun n => negb (n_local n)) nodes) /\ Forall (fun row => length row = length out) rows.
Proof. exact peers_rows. Qed.
Print Assumptions c10_peers_one_row_per_other_node.

(** the selected columns are exactly the requested ones, in order *)
Theorem c10_projection_width :
  forall table cols value sels out cells,
    filter_columns table cols sels = Some out -> filter_values cols value sels = Some cells -> length cells = length out.
Proof. exact filter_width. Qed.
Print Assumptions c10_projection_width.

(** host ids are version-3 (name based), variant-10 UUIDs, and a function of the address alone *)
Theorem c10_host_id_is_v3_uuid :
  forall d, length d = 16%nat -> wf_bytes d ->
    length (uuid_of_md5 d) = 16%nat /\ nth 6 (uuid_of_md5 d) 0 / 16 = 3 /\ 128 <= nth 8 (uuid_of_md5 d) 0 < 192.
Proof. exact uuid_is_version3. Qed.
Print Assumptions c10_host_id_is_v3_uuid.

(** computed tokens start at the minimum token, strictly increase in address order (hence are
    distinct) and stay inside the signed 64-bit range, for every number of peers below 2^32 *)
Theorem c10_tokens_start_increase_in_range :
  forall num_peers i j, (0 < num_peers)%nat -> (Z.of_nat num_peers < 4294967296)%Z -> (i < j <= num_peers)%nat ->
    nth_token num_peers 0 = min_token /\
    (nth_token num_peers i < nth_token num_peers j)%Z /\
    (min_token <= nth_token num_peers i)%Z /\ (nth_token num_peers j <= 9223372036854775807)%Z.
Proof. exact tokens_start_increase_in_range. Qed.
Print Assumptions c10_tokens_start_increase_in_range.

(** ---------------------------------------------------------------- mutual consistency *)

(** Computed-token mode.  Take ANY shared peer list (any length) whose entries have pairwise
    different, non-empty addresses, none of which configures tokens, and whose data centers are
    coherent (all given, or none given; precisely: whenever some entry has no dc, every member's
    own effective dc is the cluster dc).  Then every member of the list, run as a proxy with
    that list as its peers, starts up and presents exactly the same ring -- the nodes of the
    list in address order, each with its own effective dc, its version-3 host id and the i-th
    token of [length + 1] equal slices -- and so the executable check [views_agree] is true. *)
Theorem c10_views_agree_computed :
  forall shared info,
    addr_nodup shared -> ips_nonempty shared -> no_tokens shared -> dc_coherent info shared ->
    (forall a, In a shared -> view_of shared info a = Some (canon_ring info shared)) /\
    (shared <> [] -> views_agree shared info = true).
Proof. exact views_agree_computed. Qed.
Print Assumptions c10_views_agree_computed.

(** The same with the plain hypothesis "every data center is configured", for two members. *)
Theorem c10_views_agree_computed_two_members :
  forall shared info a b,
    addr_nodup shared -> ips_nonempty shared -> no_tokens shared -> dcs_nonempty shared ->
    In a shared -> In b shared ->
    exists ring, view_of shared info a = Some ring /\ view_of shared info b = Some ring /\ views_agree shared info = true.
Proof. exact views_agree_computed_dcs. Qed.
Print Assumptions c10_views_agree_computed_two_members.

(** Configured-token mode (every entry carries tokens): all members present the same ring,
    the entries in address order with their configured tokens. *)
Theorem c10_views_agree_configured :
  forall shared info,
    addr_nodup shared -> ips_nonempty shared -> all_tokens shared -> dc_coherent info shared ->
    (forall a, In a shared -> view_of shared info a = Some (canon_ring_cfg info shared)) /\
    (shared <> [] -> views_agree shared info = true).
Proof. exact views_agree_configured. Qed.
Print Assumptions c10_views_agree_configured.

(** [views_agree] means what it says: when it is true all members present one and the same ring. *)
Theorem c10_views_agree_sound :
  forall shared info, views_agree shared info = true ->
    exists ring, forall a, In a shared -> view_of shared info a = Some ring.
Proof. exact views_agree_sound. Qed.
Print Assumptions c10_views_agree_sound.

(** REFUTED without dc coherence.  A peer entry WITHOUT a data center is reported by each proxy
    with that proxy's OWN data center: three proxies (dc1, dc2, and one without dc) sharing one
    peer list, distinct addresses, no tokens, and two of them present different rings. *)
Theorem c10_views_disagree_without_dc_coherence :
  exists shared info,
    addr_nodup shared /\ ips_nonempty shared /\ no_tokens shared /\ shared <> [] /\
    views_agree shared info = false /\
    (exists a b ra rb, In a shared /\ In b shared /\ view_of shared info a = Some ra /\ view_of shared info b = Some rb /\ ra <> rb).
Proof. exact views_agree_without_dcs_refuted. Qed.
Print Assumptions c10_views_disagree_without_dc_coherence.

(** ---------------------------------------------------------------- tokens *)

(** Computed-token mode, any configuration whose start-up succeeds: the nodes are in address
    order (strictly, if the configured peers have distinct addresses); there are between 1 and
    [number of configured peers + 1] of them; the i-th node's token list is exactly the single
    token [nth_token (number of configured peers) i]; and below 2^32 peers the tokens along the
    ring start at the minimum token, strictly increase, stay in the signed 64-bit range and are
    pairwise different also as the decimal strings that are sent. *)
Theorem c10_ring_tokens_computed :
  forall c nodes,
    n_tokens (c_local c) = [] -> build_nodes c = Ok nodes ->
    let k := length (c_peers c) in
    StronglySorted addr_le nodes /\
    (addr_nodup (c_peers c) -> StronglySorted addr_lt nodes) /\
    (1 <= length nodes <= k + 1)%nat /\
    (forall i n, nth_error nodes i = Some n -> n_tokens n = [print_Z (nth_token k i)]) /\
    ((Z.of_nat k < 4294967296)%Z ->
     forall i j a b, (i < j)%nat -> nth_error nodes i = Some a -> nth_error nodes j = Some b ->
       (min_token <= nth_token k i < nth_token k j)%Z /\ (nth_token k j <= 9223372036854775807)%Z /\
       (i = 0%nat -> nth_token k i = min_token) /\ n_tokens a <> n_tokens b).
Proof. exact ring_tokens_computed. Qed.
Print Assumptions c10_ring_tokens_computed.

(** ---------------------------------------------------------------- projection *)

(** The column metadata of a handled SELECT is exactly the plan written from the property text:
    each requested identifier gives that table column with its table type (unknown column =
    error), an alias renames it (the outermost alias wins), `*` expands to all table columns in
    table order, count gives one int column, now() one timeuuid column; in request order. *)
Theorem c10_projection_columns_exact :
  forall table cols sels, filter_columns table cols sels = expected_columns table cols sels.
Proof. exact filter_columns_exact. Qed.
Print Assumptions c10_projection_columns_exact.

(** Position by position, the cell under each output column is the value of the table column it
    stands for (for `*`, each table column's value in order; the count cell under a count
    column; the clock under now()). *)
Theorem c10_projection_cells_exact :
  forall cols value sels cells plan,
    filter_values cols value sels = Some cells -> expected_plan cols sels = Some plan ->
    Forall2 (cell_ok value) plan cells.
Proof. exact filter_values_exact. Qed.
Print Assumptions c10_projection_cells_exact.

(** A handled SELECT on system.local / system.peers is answered INVALID exactly when it names a
    column the table does not have; otherwise it is answered with rows. *)
Theorem c10_local_invalid_iff_unknown_column :
  forall c nodes sels,
    (answer_select c nodes (str "local") sels = AInvalid <-> expected_plan (local_cols c) sels = None) /\
    answer_select c nodes (str "local") sels <> ANotHandled.
Proof. exact local_invalid_iff. Qed.
Print Assumptions c10_local_invalid_iff_unknown_column.

Theorem c10_peers_invalid_iff_unknown_column :
  forall c nodes sels,
    (answer_select c nodes (str "peers") sels = AInvalid <-> expected_plan (peers_cols c) sels = None) /\
    answer_select c nodes (str "peers") sels <> ANotHandled.
Proof. exact peers_invalid_iff. Qed.
Print Assumptions c10_peers_invalid_iff_unknown_column.

(** ---------------------------------------------------------------- cells decode to the facts *)

(** Wire round trips: an inet cell decodes to the 16-byte address it was made from (an IPv4
    address travels as its 4 bytes); a set<varchar> cell decodes to the list of strings; an int
    cell to the integer. *)
Theorem c10_inet_round_trip : forall ip, length ip = 16%nat -> dec_inet (enc_inet ip) = Some ip.
Proof. exact dec_inet_enc. Qed.
Print Assumptions c10_inet_round_trip.

Theorem c10_varchar_set_round_trip :
  forall l : list bytes,
    (Z.of_nat (length l) < 2147483648)%Z -> Forall (fun s => (Z.of_nat (length s) < 2147483648)%Z) l ->
    dec_varchar_list (enc_varchar_list l) = Some l.
Proof. exact dec_varchar_list_enc. Qed.
Print Assumptions c10_varchar_set_round_trip.

Theorem c10_int_round_trip : forall z, (-2147483648 <= z < 2147483648)%Z -> dec_int (enc_int z) = Some z.
Proof. exact dec_int_enc. Qed.
Print Assumptions c10_int_round_trip.

(** For every well-formed configuration whose start-up succeeds: exactly one node is local and it
    has this proxy's address, digest and effective data center; every handled SELECT on
    system.local that is answered with rows has the expected metadata, exactly one row, and at
    every output position a cell that decodes -- under the type advertised at that position -- to
    the fact about THIS proxy named by the requested column (count decodes to 1); every handled
    SELECT on system.peers answered with rows has the expected metadata, one row per non-local
    node in order, each decoding to the facts about THAT peer, and the count cell decodes to the
    number of peers rows. *)
Theorem c10_system_tables_decode :
  forall c nodes,
    config_wf c -> build_nodes c = Ok nodes ->
    exists loc,
      filter n_local nodes = [loc] /\
      n_ip loc = n_ip (c_local c) /\ n_zone loc = n_zone (c_local c) /\ n_md5 loc = n_md5 (c_local c) /\
      n_dc loc = local_dc_of c /\
      let peers := filter (fun n => negb (n_local n)) nodes in
      (forall sels out rows, answer_select c nodes (str "local") sels = ARows out rows ->
         exists plan row, expected_plan (local_cols c) sels = Some plan /\ out = map col_of plan /\ rows = [row] /\
                          Forall2 (cell_decodes (local_fact c loc) 1) plan row) /\
      (forall sels out rows, answer_select c nodes (str "peers") sels = ARows out rows ->
         exists plan, expected_plan (peers_cols c) sels = Some plan /\ out = map col_of plan /\
                      length rows = length peers /\
                      Forall2 (fun p row => Forall2 (cell_decodes (peer_fact c p) (Z.of_nat (length peers))) plan row) peers rows).
Proof. exact system_tables_decode. Qed.
Print Assumptions c10_system_tables_decode.

(** The sentence of the property text, cell by cell, for system.local. *)
Theorem c10_local_named_cells :
  forall c nodes,
    config_wf c -> build_nodes c = Ok nodes ->
    let loc := hd (c_local c) (filter n_local nodes) in
    (exists b, local_value c loc (str "rpc_address") = Some b /\ dec_inet b = Some (n_ip (c_local c))) /\
    local_value c loc (str "data_center") = Some (local_dc_of c) /\
    (exists b, local_value c loc (str "tokens") = Some b /\ dec_varchar_list b = Some (n_tokens loc)) /\
    local_value c loc (str "host_id") = Some (uuid_of_md5 (n_md5 (c_local c))) /\
    (exists b, local_value c loc (str "count(*)") = Some b /\ dec_int b = Some 1%Z).
Proof. exact local_named_cells. Qed.
Print Assumptions c10_local_named_cells.

(** ... and for each row of system.peers. *)
Theorem c10_peer_named_cells :
  forall c nodes p,
    config_wf c -> build_nodes c = Ok nodes ->
    let loc := hd (c_local c) (filter n_local nodes) in
    let peers := filter (fun n => negb (n_local n)) nodes in
    In p peers ->
    (exists b, peer_value c loc p (length nodes - 1) (str "peer") = Some b /\ dec_inet b = Some (n_ip p)) /\
    (exists b, peer_value c loc p (length nodes - 1) (str "rpc_address") = Some b /\ dec_inet b = Some (n_ip p)) /\
    peer_value c loc p (length nodes - 1) (str "data_center") = Some (n_dc p) /\
    (exists b, peer_value c loc p (length nodes - 1) (str "tokens") = Some b /\ dec_varchar_list b = Some (n_tokens p)) /\
    peer_value c loc p (length nodes - 1) (str "host_id") = Some (uuid_of_md5 (n_md5 p)) /\
    (exists b, peer_value c loc p (length nodes - 1) (str "count(*)") = Some b /\ dec_int b = Some (Z.of_nat (length peers))).
Proof. exact peer_named_cells. Qed.
Print Assumptions c10_peer_named_cells.

(** ---------------------------------------------------------------- local is self *)

(** Whatever the configuration, if start-up succeeds: exactly one node is local, system.local
    describes it, and it is this proxy; every other node is non-local, does NOT have this
    proxy's address (a peer entry with the proxy's own address is not listed as a peer), and is
    one of the configured peers (same address and digest; its own dc, or the proxy's if it has
    none); conversely every configured peer with another address appears; the count cell of
    system.peers ([length nodes - 1]) is the number of peers rows. *)
Theorem c10_local_is_self :
  forall c nodes,
    build_nodes c = Ok nodes ->
    let peers := filter (fun n => negb (n_local n)) nodes in
    exists loc,
      filter n_local nodes = [loc] /\ hd (c_local c) (filter n_local nodes) = loc /\
      n_ip loc = n_ip (c_local c) /\ n_zone loc = n_zone (c_local c) /\ n_md5 loc = n_md5 (c_local c) /\
      n_dc loc = local_dc_of c /\
      Forall (fun p => n_local p = false /\ addr_cmp (c_local c) p <> Eq /\
                       exists q, In q (c_peers c) /\ n_ip p = n_ip q /\ n_zone p = n_zone q /\ n_md5 p = n_md5 q /\
                                 n_dc p = match n_dc q with [] => local_dc_of c | d => d end) peers /\
      (length nodes - 1 = length peers)%nat /\ (length peers <= length (c_peers c))%nat /\
      (forall q, In q (c_peers c) -> addr_cmp (c_local c) q <> Eq ->
                 exists p, In p peers /\ n_ip p = n_ip q /\ n_zone p = n_zone q).
Proof. exact local_is_self. Qed.
Print Assumptions c10_local_is_self.

(** Non-vacuity / evaluated instance of "views agree": three proxies sharing one peer list. *)
Definition nd (a b c d : N) (dc : String.string) : node :=
  {| n_ip := [0;0;0;0;0;0;0;0;0;0;255;255;a;b;c;d]; n_zone := []; n_dc := str dc; n_tokens := []; n_md5 := repeat (a + d) 16; n_local := false |}.
Example c10_views_agree_example :
  views_agree [nd 10 0 0 3 "dc1"; nd 10 0 0 1 "dc2"; nd 9 255 0 1 "dc1"]
    {| c_has_rpc := true; c_local := nd 0 0 0 0 ""; c_peers := []; c_cluster_dc := str "dc1"; c_release := []; c_partitioner := [];
       c_cql := []; c_dse := []; c_version := 4 |} = true.
Proof. vm_compute. reflexivity. Qed.
