(** * C13 — handshake, version negotiation and compression selection are answered locally. *)
From Coq Require Import List ZArith NArith Bool.
From CqlProxy Require Import Lib.Val Lib.Util Lib.Wire Gen.Tables Model.Frame Model.Override Model.Gate Proofs.GateProofs.
Import ListNotations.
Local Open Scope N_scope.

(** A frame whose (known) version is above the configured maximum or below 3 gets exactly one
    protocol error naming that version; the connection state is untouched and stays usable.
    For every opcode, flag byte, body and connection state. *)
Theorem c13_out_of_range_version_one_error :
  forall maxv st h body, maxv < h_version h \/ h_version h < 3 ->
    gate maxv st h body = GAnswered [RProtocolErrorVersion (h_version h)] st.
Proof. exact gate_out_of_range. Qed.
Print Assumptions c13_out_of_range_version_one_error.

(** Nothing outside [3, max] is ever dispatched towards a backend, whatever bytes arrive. *)
Theorem c13_only_in_range_versions_dispatched :
  forall maxv st frame lb, receive maxv st frame lb = GDispatched ->
    exists h r, decode_header frame = inr (h, r) /\ 3 <= h_version h <= maxv.
Proof. exact receive_dispatched_in_range. Qed.
Print Assumptions c13_only_in_range_versions_dispatched.

(** An unknown version byte closes the connection (nothing is forwarded). *)
Theorem c13_unknown_version_closed :
  forall maxv st vd fl r lb, version_supported (vd mod 128) = false ->
    receive maxv st (vd :: fl :: r) lb = GClosed.
Proof. exact unknown_version_closed. Qed.
Print Assumptions c13_unknown_version_closed.

(** OPTIONS, STARTUP and REGISTER are never dispatched, and whatever the proxy answers by
    itself is exactly one frame. *)
Theorem c13_handshake_never_forwarded :
  forall maxv st h body, h_opcode h = 5 \/ h_opcode h = 1 \/ h_opcode h = 11 ->
    gate maxv st h body <> GDispatched.
Proof. exact handshake_never_dispatched. Qed.
Print Assumptions c13_handshake_never_forwarded.

Theorem c13_local_answer_is_one_frame :
  forall maxv st h body rs st', gate maxv st h body = GAnswered rs st' -> length rs = 1%nat.
Proof. exact gate_answers_one_frame. Qed.
Print Assumptions c13_local_answer_is_one_frame.

Theorem c13_options_supported :
  forall maxv st h body pl msg,
    3 <= h_version h <= maxv -> flag_compressed (h_flags h) = false -> h_opcode h = 5 ->
    split_envelope (h_flags h) body = Some (pl, msg) ->
    gate maxv st h body = GAnswered [RSupported] st.
Proof. exact options_answer. Qed.
Print Assumptions c13_options_supported.

(** STARTUP: READY, and the connection switches to the requested algorithm iff it is one of
    the supported names (any letter case); an unsupported name gets only the error and
    changes nothing. *)
Theorem c13_startup :
  forall maxv st h body pl msg opts,
    3 <= h_version h <= maxv -> flag_compressed (h_flags h) = false -> h_opcode h = 1 ->
    split_envelope (h_flags h) body = Some (pl, msg) -> read_string_map msg = Some opts ->
    gate maxv st h body =
    match map_get (str "COMPRESSION") opts with
    | Some c => if compression_supported c then GAnswered [RReady] {| comp := c; registered := registered st |}
                else GAnswered [RProtocolErrorCompression] st
    | None => GAnswered [RReady] st
    end.
Proof. exact startup_answer. Qed.
Print Assumptions c13_startup.

Theorem c13_register_ready :
  forall maxv st h body pl msg evs,
    3 <= h_version h <= maxv -> flag_compressed (h_flags h) = false -> h_opcode h = 11 ->
    split_envelope (h_flags h) body = Some (pl, msg) -> read_string_list msg = Some evs ->
    forallb valid_event_type evs = true ->
    gate maxv st h body =
    GAnswered [RReady] {| comp := comp st; registered := registered st || existsb (bytes_eqb (str "SCHEMA_CHANGE")) evs |}.
Proof. exact register_answer. Qed.
Print Assumptions c13_register_ready.

(** Compression (and registration) is per connection: a frame on one connection leaves the
    state of every other connection unchanged. *)
Theorem c13_other_connections_untouched :
  forall maxv sts i j frame lb, i <> j ->
    nth_error (sys_receive maxv sts i frame lb) j = nth_error sts j.
Proof. exact other_connections_untouched. Qed.
Print Assumptions c13_other_connections_untouched.

(** Non-vacuity. *)
Example c13_v5_startup_when_max_is_v4 :
  receive 4 init_cstate [5; 0; 0; 1; 1; 0; 0; 0; 2; 0; 0] None = GAnswered [RProtocolErrorVersion 5] init_cstate.
Proof. vm_compute. reflexivity. Qed.
Example c13_startup_lz4 :
  receive 4 init_cstate ([4; 0; 0; 1; 1; 0; 0; 0; 20; 0; 1; 0; 11] ++ str "COMPRESSION" ++ [0; 3] ++ str "LZ4") None
  = GAnswered [RReady] {| comp := str "LZ4"; registered := false |}.
Proof. vm_compute. reflexivity. Qed.

(** ---- added: stronger statements (proofs in Proofs/*2.v) ---- *)
From Coq Require Import List ZArith NArith Bool.
From CqlProxy Require Import Lib.Val Lib.Util Lib.Wire Gen.Tables Model.Frame Model.Override Model.Gate
  Proofs.GateProofs Proofs.GateProofs2.

(** Every byte list is classified: closed; or dispatched (only PREPARE/QUERY/EXECUTE/BATCH in a
    version within [3, max]); or answered locally by exactly one frame, the connection state
    changing only through STARTUP (compression, to a supported algorithm) or REGISTER
    (registration, only switched on); or -- the model's fourth outcome -- not decoded, only for an
    opcode outside the set the model decodes. *)
Theorem c13_receive_classification :
  forall maxv st frame lb,
  match receive maxv st frame lb with
  | GClosed => True
  | GDispatched =>
      exists h r, decode_header frame = inr (h, r) /\ 3 <= h_version h <= maxv /\
        (h_opcode h = 7 \/ h_opcode h = 9 \/ h_opcode h = 10 \/ h_opcode h = 13)
  | GAnswered rs st' =>
      exists h r, decode_header frame = inr (h, r) /\ (exists rp, rs = [rp]) /\
      (st' = st \/
       (h_opcode h = 1 /\ registered st' = registered st /\ compression_supported (comp st') = true) \/
       (h_opcode h = 11 /\ comp st' = comp st /\ (registered st = true -> registered st' = true)))
  | GUnmodelled =>
      exists h r, decode_header frame = inr (h, r) /\ 3 <= h_version h <= maxv /\
        modelled_opcode (h_opcode h) = false
  end.
Proof. exact receive_classification. Qed.
Print Assumptions c13_receive_classification.

(** For the opcodes the model decodes there are exactly three outcomes. *)
Theorem c13_receive_three_outcomes :
  forall maxv st frame lb h r,
  decode_header frame = inr (h, r) -> modelled_opcode (h_opcode h) = true ->
  receive maxv st frame lb = GClosed \/
  (exists rp st', receive maxv st frame lb = GAnswered [rp] st') \/
  receive maxv st frame lb = GDispatched.
Proof. exact receive_three_outcomes. Qed.
Print Assumptions c13_receive_three_outcomes.
