(** * C15 — query plans visit each live host exactly once, in round-robin rotation. *)
From Coq Require Import List ZArith NArith Bool Permutation.
From CqlProxy Require Import Lib.Val Lib.Util Model.LB Proofs.LBProofs.
Import ListNotations.

(** After any history the cluster can emit, the balancer's host list is exactly the
    set-based membership of that history and has no duplicates. *)
Theorem c15_membership_tracks_history :
  forall es s, NoDup (lb_hosts s) -> wf_history (lb_hosts s) es ->
    lb_hosts (fold_left on_event es s) = fold_left spec_event es (lb_hosts s) /\
    NoDup (lb_hosts (fold_left on_event es s)).
Proof. exact membership_tracks_history. Qed.
Print Assumptions c15_membership_tracks_history.

(** A removed host is not a member, an added one is. *)
Theorem c15_removed_absent_added_present :
  forall m h, ~ In h (spec_event m (Remove h)) /\ In h (spec_event m (Add h)).
Proof. intros m h. split; [apply spec_remove_not_in|apply spec_add_in]. Qed.
Print Assumptions c15_removed_absent_added_present.

(** Every plan -- whatever the counter value, including all values of the wrapping 64-bit
    counter -- yields a rotation of its snapshot: a permutation, so with duplicate-free
    membership every host exactly once and no stranger. *)
Theorem c15_plan_is_rotation :
  forall p, p_hosts p <> [] ->
    plan_all p = map Some (skipn (plan_start p) (p_hosts p) ++ firstn (plan_start p) (p_hosts p)).
Proof. exact plan_is_rotation. Qed.
Print Assumptions c15_plan_is_rotation.

Theorem c15_plan_is_permutation :
  forall p, exists ys, plan_all p = map Some ys /\ Permutation ys (p_hosts p).
Proof. exact plan_is_permutation. Qed.
Print Assumptions c15_plan_is_permutation.

Theorem c15_each_host_exactly_once :
  forall p h, NoDup (p_hosts p) -> In h (p_hosts p) ->
    count_occ opt_host_dec (plan_all p) (Some h) = 1.
Proof. exact plan_each_host_once. Qed.
Print Assumptions c15_each_host_exactly_once.

Theorem c15_no_stranger : forall p h, In (Some h) (plan_all p) -> In h (p_hosts p).
Proof. exact plan_no_stranger. Qed.
Print Assumptions c15_no_stranger.

(** Next walks that sequence and then reports exhaustion (and keeps reporting it). *)
Theorem c15_next_then_exhausted :
  forall p,
    fst (plan_next p) = (if Nat.ltb (p_index p) (length (p_hosts p))
                         then nth (p_index p) (plan_all p) None else None) /\
    p_hosts (snd (plan_next p)) = p_hosts p /\ p_offset (snd (plan_next p)) = p_offset p /\
    p_index (snd (plan_next p)) =
      (if Nat.ltb (p_index p) (length (p_hosts p)) then S (p_index p) else p_index p).
Proof. exact plan_next_spec. Qed.
Print Assumptions c15_next_then_exhausted.

(** Consecutive plans start at consecutive hosts (the 2^64 counter not wrapping in between). *)
Theorem c15_consecutive_starts :
  forall s, lb_hosts s <> [] -> (lb_index s + 1 < counter_mod)%N ->
    let '(p1, s1) := new_plan s in
    let '(p2, _) := new_plan s1 in
    plan_start p2 = (plan_start p1 + 1) mod length (lb_hosts s).
Proof. exact consecutive_starts. Qed.
Print Assumptions c15_consecutive_starts.

(** Over any run of [m] plans with stable membership (counter not wrapping) the per-host
    first-choice counts differ by at most one. *)
Theorem c15_first_choice_balanced :
  forall s m j1 j2, lb_hosts s <> [] -> (lb_index s + N.of_nat m <= counter_mod)%N ->
    j1 < length (lb_hosts s) -> j2 < length (lb_hosts s) ->
    first_choice_count j1 (plans m s) <= first_choice_count j2 (plans m s) + 1.
Proof. exact first_choice_balanced. Qed.
Print Assumptions c15_first_choice_balanced.

(** Non-vacuity: a concrete well-formed history, and a plan taken at the old 32-bit wrap
    point 2^32-1 over three hosts, which the unrepaired code answered with a,a,b. *)
Example c15_wf_example :
  wf_history [] [Bootstrap [1;2;3]%N; Remove 2%N; Add 4%N; Add 2%N] /\
  lb_hosts (fold_left on_event [Bootstrap [1;2;3]%N; Remove 2%N; Add 4%N; Add 2%N]
              {| lb_hosts := []; lb_index := 0 |}) = [1;3;4;2]%N.
Proof.
  split; [|reflexivity]. simpl. repeat split; try (repeat constructor; simpl; intuition congruence).
  all: simpl; intuition congruence.
Qed.

Example c15_wrap_point :
  plan_all {| p_hosts := [10;20;30]%N; p_offset := 4294967295%N; p_index := 0 |}
  = [Some 10; Some 20; Some 30]%N.
Proof. vm_compute. reflexivity. Qed.
