(** * C17 — hostile or malformed peers cannot crash or wedge the proxy.

    What is proved here is the logic part: the places where untrusted bytes meet a partial Go
    operation cannot panic, the partial decoders return a value or an error for every byte
    string, and a frame is handled on its own connection only.  That the running process stays
    up is observed, not proved (see DESIGN.md): the correspondence runs the real binary. *)
From Coq Require Import List ZArith NArith Bool.
From CqlProxy Require Import Lib.Val Lib.Util Gen.Tables Model.Lexer Model.Parser Model.Codec Model.Gate Model.Hostile
  Proofs.CodecProofs Proofs.GateProofs Proofs.HostileProofs Proofs.ParserProofs.
Import ListNotations.

(** IdentifierFromString, with the guard as read from the source, slices in range for every string. *)
Theorem c17_identifier_from_string_never_panics : forall id, exists i, identifier_from_string id = Ok i.
Proof. exact identifier_from_string_never_panics. Qed.
Print Assumptions c17_identifier_from_string_never_panics.

(** The body reader's slices (BytesSince, RemainingBytes) are in range after any reads. *)
Theorem c17_reader_slices_in_range :
  forall r ns r', reader_wf r -> reads r ns = Some r' ->
    (exists b, bytes_since r' (r_pos r) = Ok b) /\ (exists b, remaining_bytes r' = Ok b).
Proof.
  intros r ns r' Hwf H. split; [exact (bytes_since_never_panics r ns r' Hwf H)|].
  apply remaining_bytes_never_panics. exact (proj1 (reads_wf ns r r' Hwf H)).
Qed.
Print Assumptions c17_reader_slices_in_range.

(** The partial QUERY / EXECUTE / BATCH decoders return a message or an error for every body. *)
Theorem c17_partial_decoders_total :
  forall v b, (match decode_query b with Ok _ | Err _ => True | _ => False end) /\
              (match decode_execute v b with Ok _ | Err _ => True | _ => False end) /\
              (match decode_batch b with Ok _ | Err _ => True | _ => False end).
Proof. intros v b. split; [apply decode_query_total|split; [apply decode_execute_total|apply decode_batch_total]]. Qed.
Print Assumptions c17_partial_decoders_total.

(** A frame with a version outside the configured range closes its connection and nothing else;
    whatever a connection receives, the state of every other connection is unchanged. *)
Theorem c17_other_connections_untouched :
  forall maxv sts i j frame lb, i <> j -> nth_error (sys_receive maxv sts i frame lb) j = nth_error sts j.
Proof. exact other_connections_untouched. Qed.
Print Assumptions c17_other_connections_untouched.

(** Whatever cannot be parsed -- statements nested deeper than the parser allows included -- is
    rejected by the classifier, not recursed into. *)
Theorem c17_unparseable_rejected :
  forall ts, snd (is_idempotent_tokens ts) <> 0%N -> fst (is_idempotent_tokens ts) = false.
Proof. exact unparseable_is_not_idempotent. Qed.
Print Assumptions c17_unparseable_rejected.

Example c17_nesting_beyond_the_limit_is_an_error :
  is_query_idempotent (str "INSERT INTO t (a) VALUES (" ++ concat (repeat (str "[") 300) ++ str "1" ++ concat (repeat (str "]") 300) ++ str ")") = (false, 1%N)
  /\ is_query_idempotent (str "INSERT INTO t (a) VALUES (" ++ concat (repeat (str "[") 200) ++ str "1" ++ concat (repeat (str "]") 200) ++ str ")") = (true, 0%N).
Proof. split; vm_compute; reflexivity. Qed.

(** Whatever request a backend chooses to answer with UNPREPARED for a cached statement -- a client's
    request, one of the proxy's own heartbeats or control queries, or the proxy's own re-PREPARE,
    nested to any depth -- the Execute the proxy calls once its PREPARE is answered returns. *)
Theorem c17_execute_of_every_request_kind_returns :
  forall k, exists e, unprepared_then_prepare_answered false k = Ok e.
Proof. exact execute_never_panics. Qed.
Print Assumptions c17_execute_of_every_request_kind_returns.

(** Before fixes 90a69b1 / 864854b the heartbeat and the re-PREPARE cases panicked. *)
Theorem c17_execute_panicked_before_the_repair :
  (exists w, execute_req true KInternal = Panic w) /\ (exists w, execute_req true (KPrepare KClient) = Panic w).
Proof. exact execute_panicked_before_the_repair. Qed.
Print Assumptions c17_execute_panicked_before_the_repair.

(** Every place where the source calls [panic] (list regenerated from the source on every run) is one
    of the examined sites that no peer-controlled input reaches. *)
Theorem c17_every_explicit_panic_is_an_examined_one : unaudited_panic_sites = [].
Proof. vm_compute. reflexivity. Qed.
Print Assumptions c17_every_explicit_panic_is_an_examined_one.
