(** * C07 (concurrent part) -- requests run on a connection speaking the client's protocol version
    and compression and USEd into the client's current keyspace, FOR ANY INTERLEAVING of clients,
    including clients switching to (or first using) the same keyspace at the same instant; a failed
    USE leaves the previous keyspace in force; clients do not affect each other.

    Model: [Model/SessionsConc.v], a small-step transcription of proxy.go's findSession /
    maybeCreateSession / lookupSession / maybeCreateSessionUnlocked with their two callers
    (client.execute and the USE branch of interceptSystemQuery).  One event = one thread doing its
    next atomic step (a map access under sessionsMu, taking createSessionMu, ConnectSession
    returning ok / error as chosen by the environment).  Every theorem below quantifies over ALL
    event lists [evs] (all interleavings, all connect outcomes), all numbers of clients and
    operations, and all well-formed initial session tables.  [sc_run false] is the proxy as it is;
    [sc_run true] is the seeded variant "in-flight creations shared by keyspace only".

    The sequential statements (which keyspace is current, the reply to USE) are in Props/C07.v. *)
From Coq Require Import List ZArith NArith Bool.
From CqlProxy Require Import Lib.Val Lib.Util Model.Sessions Model.SessionsConc Proofs.SessionsConcProofs.
Import ListNotations.

(** A REQUEST of client [c] in a frame of version [v] that starts (event [e]: the client's goroutine
    reads the frame; possible only when the client's previous operation is over) when the client is
    in keyspace [cl_keyspace cl] with compression [cl_compression cl], and that at any later point
    -- after any events of any threads -- has been given session [s]:  [s] was connected with
    exactly (v, that keyspace, that compression).  So the backend connections it is forwarded on
    speak version [v], negotiated the client's compression and have USEd the client's keyspace. *)
Theorem c07conc_request_runs_on_its_own_key :
  forall cs tb ops evs0 e evs t cl c v t' s,
    sc_init_ok cs tb ops ->
    let st := sc_run false (sc_init cs tb ops) evs0 in
    nth_error (st_threads st) (ev_tid e) = Some t -> t_pc t = PIdle -> t_op t = OpRequest c v ->
    sc_enabled st (ev_tid e) = true -> nth_error (st_clients st) c = Some cl ->
    nth_error (st_threads (sc_run false st (e :: evs))) (ev_tid e) = Some t' -> t_pc t' = PDone s ->
    s_key s = {| sk_version := v; sk_keyspace := cl_keyspace cl; sk_compression := cl_compression cl |} /\
    view_of_session (s_key s) =
      {| bv_keyspace := cl_keyspace cl; bv_version := v; bv_compression := lower (cl_compression cl) |}.
Proof.
  intros cs tb ops evs0 e evs t cl c v t' s Hok st Ht Hpc Hop Hen Hcl Ht' Hpc'.
  assert (Hinv : sc_inv st) by (apply sc_run_inv, sc_init_inv, Hok).
  split.
  - apply (request_runs_on_its_own_key st e evs t cl c v t' s); assumption.
  - apply (request_backend_view st e evs t cl c v t' s); assumption.
Qed.
Print Assumptions c07conc_request_runs_on_its_own_key.

(** While an operation is in flight, its key is the key of its client's CURRENT keyspace and
    compression: nothing any other thread does can change them under its feet. *)
Theorem c07conc_in_flight_key_is_current :
  forall cs tb ops evs i t cl,
    sc_init_ok cs tb ops ->
    let st := sc_run false (sc_init cs tb ops) evs in
    nth_error (st_threads st) i = Some t -> in_flight (t_pc t) = true ->
    nth_error (st_clients st) (op_client (t_op t)) = Some cl -> t_key t = op_key cl (t_op t).
Proof.
  intros cs tb ops evs i t cl Hok st. apply in_flight_key_is_current. apply sc_run_inv, sc_init_inv, Hok.
Qed.
Print Assumptions c07conc_in_flight_key_is_current.

(** A USE is validated against a session connected with (v, the NEW keyspace, the client's compression). *)
Theorem c07conc_use_validated_on_its_own_key :
  forall cs tb ops evs0 e evs t cl c v ks t' s,
    sc_init_ok cs tb ops ->
    let st := sc_run false (sc_init cs tb ops) evs0 in
    nth_error (st_threads st) (ev_tid e) = Some t -> t_pc t = PIdle -> t_op t = OpUse c v ks ->
    sc_enabled st (ev_tid e) = true -> nth_error (st_clients st) c = Some cl ->
    nth_error (st_threads (sc_run false st (e :: evs))) (ev_tid e) = Some t' -> t_pc t' = PDone s ->
    s_key s = {| sk_version := v; sk_keyspace := ks; sk_compression := cl_compression cl |}.
Proof.
  intros cs tb ops evs0 e evs t cl c v ks t' s Hok st. apply use_runs_on_its_own_key.
  apply sc_run_inv, sc_init_inv, Hok.
Qed.
Print Assumptions c07conc_use_validated_on_its_own_key.

(** The session table is sound: under key [k] there is only ever a session connected with [k]. *)
Theorem c07conc_table_sound :
  forall cs tb ops evs k s,
    sc_init_ok cs tb ops -> In (k, s) (st_table (sc_run false (sc_init cs tb ops) evs)) -> s_key s = k.
Proof. intros cs tb ops evs k s Hok. apply table_sound_reachable. apply sc_run_inv, sc_init_inv, Hok. Qed.
Print Assumptions c07conc_table_sound.

(** One session per key: among all the sessions ConnectSession ever returned no two have the same
    key (a session is never connected twice for one key); no key is ever stored twice (the table is
    the log of the stores); and all operations asking for one key are given the same session. *)
Theorem c07conc_one_session_per_key :
  forall cs tb ops evs,
    sc_init_ok cs tb ops ->
    let st := sc_run false (sc_init cs tb ops) evs in
    NoDup (map s_key (st_connected st)) /\ NoDup (map fst (st_table st)) /\
    (forall i j ti tj si sj, nth_error (st_threads st) i = Some ti -> nth_error (st_threads st) j = Some tj ->
        t_pc ti = PDone si -> t_pc tj = PDone sj -> t_key ti = t_key tj -> si = sj).
Proof.
  intros cs tb ops evs Hok st. assert (Hinv : sc_inv st) by (apply sc_run_inv, sc_init_inv, Hok).
  split; [apply one_session_per_key, Hinv|]. split; [apply one_store_per_key, Hinv|].
  intros i j ti tj si sj. apply same_key_same_session. exact Hinv.
Qed.
Print Assumptions c07conc_one_session_per_key.

(** ConnectSession is only ever called for a key that is missing from the table and for which no
    session was connected before. *)
Theorem c07conc_connect_only_on_miss :
  forall cs tb ops evs e,
    sc_init_ok cs tb ops ->
    let st := sc_run false (sc_init cs tb ops) evs in
    st_connected (sc_step false st e) = st_connected st \/
    exists s, st_connected (sc_step false st e) = s :: st_connected st /\
              clookup (s_key s) (st_table st) = None /\ ~ In (s_key s) (map s_key (st_connected st)).
Proof. intros cs tb ops evs e Hok st. apply connect_only_on_miss. apply sc_run_inv, sc_init_inv, Hok. Qed.
Print Assumptions c07conc_connect_only_on_miss.

(** Mutual exclusion: at most one thread is between taking createSessionMu and releasing it. *)
Theorem c07conc_mutual_exclusion :
  forall cs tb ops evs i j ti tj,
    sc_init_ok cs tb ops ->
    let st := sc_run false (sc_init cs tb ops) evs in
    nth_error (st_threads st) i = Some ti -> nth_error (st_threads st) j = Some tj ->
    in_cs (t_pc ti) = true -> in_cs (t_pc tj) = true -> i = j.
Proof. intros cs tb ops evs i j ti tj Hok st. apply mutual_exclusion. apply sc_run_inv, sc_init_inv, Hok. Qed.
Print Assumptions c07conc_mutual_exclusion.

(** No deadlock: in every reachable state with an unfinished operation some thread can move (the
    mutex is released on every path, including the failing connect); an enabled thread really
    moves; no schedule has more than 6 effective events per operation; and some schedule finishes
    everything. *)
Theorem c07conc_no_deadlock :
  forall cs tb ops evs,
    sc_init_ok cs tb ops ->
    let st := sc_run false (sc_init cs tb ops) evs in
    ((exists i t, nth_error (st_threads st) i = Some t /\ finished (t_pc t) = false) ->
     exists j, sc_enabled st j = true /\ forall ok, sc_step false st {| ev_tid := j; ev_ok := ok |} <> st) /\
    count_moves (sc_init cs tb ops) evs <= 6 * length ops /\
    exists more, all_finished (sc_run false st more) = true.
Proof.
  intros cs tb ops evs Hok st. assert (Hinv : sc_inv st) by (apply sc_run_inv, sc_init_inv, Hok).
  split; [|split].
  - intro Hex. destruct (no_deadlock st Hinv Hex) as [j Hj]. exists j. split; [exact Hj|].
    intro ok. apply enabled_changes_state. exact Hj.
  - pose proof (moves_bounded evs (sc_init cs tb ops)) as H. rewrite sc_init_measure in H.
    apply (PeanoNat.Nat.le_trans _ (count_moves (sc_init cs tb ops) evs + sc_measure (sc_run false (sc_init cs tb ops) evs)));
      [apply PeanoNat.Nat.le_add_r|exact H].
  - apply can_always_finish. exact Hinv.
Qed.
Print Assumptions c07conc_no_deadlock.

(** A step in which an operation fails -- a USE whose session could not be connected -- leaves
    every client's keyspace as it was; and the only way to fail is ConnectSession's error, after
    which the mutex is free again. *)
Theorem c07conc_failed_use_keeps_keyspace :
  forall st e t t',
    nth_error (st_threads st) (ev_tid e) = Some t -> t_pc t <> PFailed ->
    nth_error (st_threads (sc_step false st e)) (ev_tid e) = Some t' -> t_pc t' = PFailed ->
    st_clients (sc_step false st e) = st_clients st /\
    t_pc t = PConnecting /\ ev_ok e = false /\ st_mu (sc_step false st e) = None.
Proof.
  intros st e t t' Ht Hne Ht' Hpc'. split.
  - apply (failed_use_keeps_keyspace st e t' Ht' Hpc').
  - apply (failed_only_by_connect_error st e t t' Ht Hne Ht' Hpc').
Qed.
Print Assumptions c07conc_failed_use_keeps_keyspace.

(** The clients' state changes only when a USE returns a session, and then only the keyspace of
    that USE's client changes, to the new keyspace. *)
Theorem c07conc_use_changes_only_its_client :
  forall st e,
    st_clients (sc_step false st e) = st_clients st \/
    exists t c v ks s,
      nth_error (st_threads st) (ev_tid e) = Some t /\ t_op t = OpUse c v ks /\ in_flight (t_pc t) = true /\
      nth_error (st_threads (sc_step false st e)) (ev_tid e) = Some (set_pc t (PDone s)) /\
      st_clients (sc_step false st e) = finish_clients (st_clients st) (OpUse c v ks) /\
      forall j, j <> c -> nth_error (st_clients (sc_step false st e)) j = nth_error (st_clients st) j.
Proof.
  intros st e. destruct (clients_change_only_by_successful_use st e) as [H|(t & c & v & ks & s & H1 & H2 & H3 & H4 & H5)];
    [left; exact H|right]. exists t, c, v, ks, s. repeat split; try assumption.
  intros j Hj. rewrite H5. apply finish_clients_other. exact Hj.
Qed.
Print Assumptions c07conc_use_changes_only_its_client.

(** Clients are isolated: whatever the threads of the OTHER clients do (any interleaving, any connect
    outcomes), client [j]'s keyspace and compression stay what they were; and nobody's compression
    ever changes. *)
Theorem c07conc_clients_isolated :
  forall st evs j,
    Forall (event_of_other_client st j) evs ->
    nth_error (st_clients (sc_run false st evs)) j = nth_error (st_clients st) j.
Proof. intros st evs j. apply clients_isolated. Qed.
Print Assumptions c07conc_clients_isolated.

Theorem c07conc_compression_never_changes :
  forall st evs j,
    option_map cl_compression (nth_error (st_clients (sc_run false st evs)) j)
    = option_map cl_compression (nth_error (st_clients st) j).
Proof. intros st evs j. apply compression_never_changes. Qed.
Print Assumptions c07conc_compression_never_changes.

(** REFUTED for the variant in which threads waiting for a creation adopt the result of the creator
    whose KEYSPACE matches (version and compression ignored): two clients with different compression
    first using one keyspace at the same instant; the second one's request is given the first
    one's session, connected with another compression.  (All hypotheses of
    [c07conc_request_runs_on_its_own_key] hold, its conclusion does not.) *)
Theorem c07conc_keyspace_only_sharing_refuted :
  exists st e evs t cl c v t' s,
    sc_inv st /\
    nth_error (st_threads st) (ev_tid e) = Some t /\ t_pc t = PIdle /\ t_op t = OpRequest c v /\
    sc_enabled st (ev_tid e) = true /\ nth_error (st_clients st) c = Some cl /\
    nth_error (st_threads (sc_run true st (e :: evs))) (ev_tid e) = Some t' /\ t_pc t' = PDone s /\
    s_key s <> session_for cl v.
Proof. exact keyspace_only_sharing_refuted. Qed.
Print Assumptions c07conc_keyspace_only_sharing_refuted.

(** Two clients (no compression / lz4) USE the same new keyspace at the same instant, every step of
    the two creations interleaved; then requests, a USE that fails to connect, more requests (one
    with protocol version 3): each operation ends on the session of its own key. *)
Example c07conc_example :
  map (fun t => match t_pc t with PDone s => Some (s_key s) | _ => None end) (st_threads demo_end)
  = [Some {| sk_version := 4; sk_keyspace := str "ks1"; sk_compression := [] |};
     Some {| sk_version := 4; sk_keyspace := str "ks1"; sk_compression := str "lz4" |};
     Some {| sk_version := 4; sk_keyspace := str "ks1"; sk_compression := [] |};
     Some {| sk_version := 4; sk_keyspace := str "ks1"; sk_compression := str "lz4" |};
     None;
     Some {| sk_version := 4; sk_keyspace := str "ks1"; sk_compression := [] |};
     Some {| sk_version := 3; sk_keyspace := str "ks1"; sk_compression := str "lz4" |}]
  /\ map cl_keyspace (st_clients demo_end) = [str "ks1"; str "ks1"].
Proof. vm_compute. auto. Qed.
