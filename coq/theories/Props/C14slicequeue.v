(** ---- added: the event queue as the Go slice it is (Model/SliceQueue.v; proxycore/cluster.go OnEvent / takePendingEvents,
    the state introduced by the repair 480d57e), arrays behind the slices explicit.  C14: every event reaches the listeners
    unchanged.  The batch the loop took is not touched by whatever the reader appends afterwards -- for every sequence of
    events before and after -- because the queue is reset to nil and so continues in a fresh array; reset with
    `pendingEvents[:0]` (the seeded change C14-m16) the very next events overwrite the batch being delivered. ---- *)
From Coq Require Import List NArith.
From CqlProxy Require Import Model.SliceQueue Proofs.SliceQueueProofs.
Import ListNotations.

Theorem c14_slicequeue_batch_is_stable : forall before after,
  fst (batch_after false before after) = snd (batch_after false before after).
Proof. exact batch_is_stable. Qed.
Print Assumptions c14_slicequeue_batch_is_stable.

Theorem c14_slicequeue_shared_array_overwrites_refuted :
  batch_after true [1; 2; 3]%N [7; 8; 9; 10]%N = ([1; 2; 3]%N, [7; 8; 9]%N).
Proof. exact shared_array_overwrites_refuted. Qed.
Print Assumptions c14_slicequeue_shared_array_overwrites_refuted.

Theorem c14_slicequeue_premises_met :
  batch_after false [1; 2; 3]%N [7; 8; 9; 10]%N = ([1; 2; 3]%N, [1; 2; 3]%N).
Proof. exact stable_case. Qed.
Print Assumptions c14_slicequeue_premises_met.

Theorem c14_slicequeue_batch_is_what_arrived : forall before after, batch_after false before after = (before, before).
Proof. exact batch_is_what_arrived. Qed.
Print Assumptions c14_slicequeue_batch_is_what_arrived.
