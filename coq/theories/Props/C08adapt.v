(** ---- added: the cached PREPARE frame made ready for a connection of another protocol version (Model/Adapt.v;
    proxycore/clientconn.go adaptPrepareFrame as repaired by e2b8310).  C08: "the proxy re-prepares the original statement
    on that connection".  Every frame a client can have sent is turned into a frame of the connection's version that the
    codec accepts, with the same statement (and the same tracing request); a payload is kept wherever the connection can
    carry one.  The original code had no frame to send for a connection older than version 4 when the statement had been
    prepared with a custom payload (the defect the C08 rounds found once PREPAREs carried payloads). ---- *)
From Coq Require Import Arith Bool.
From CqlProxy Require Import Model.Adapt Proofs.AdaptProofs.

Theorem c08_adapt_every_cached_frame_can_be_sent_on_every_connection : forall v f, encodable f = true ->
  exists g, adapt false v f = Some g /\ pver g = v /\ query g = query f /\ tracing g = tracing f /\ encodable g = true.
Proof. exact adapt_total. Qed.
Print Assumptions c08_adapt_every_cached_frame_can_be_sent_on_every_connection.

Theorem c08_adapt_keeps_a_payload_the_connection_can_carry : forall v f g,
  4 <= v -> adapt false v f = Some g -> payload g = payload f.
Proof. exact adapt_keeps_a_payload_the_connection_can_carry. Qed.
Print Assumptions c08_adapt_keeps_a_payload_the_connection_can_carry.

Theorem c08_adapt_same_version_is_identity : forall orig f, adapt orig (pver f) f = Some f.
Proof. exact adapt_same_version_is_identity. Qed.
Print Assumptions c08_adapt_same_version_is_identity.

Theorem c08_adapt_original_code_has_no_frame_refuted : forall v f,
  v < 4 -> pver f <> v -> payload f = true -> adapt true v f = None.
Proof. exact orig_adapt_fails_refuted. Qed.
Print Assumptions c08_adapt_original_code_has_no_frame_refuted.

Theorem c08_adapt_repair_changes_nothing_else : forall v f,
  (4 <= v \/ payload f = false) -> adapt true v f = adapt false v f.
Proof. exact orig_adapt_agrees_otherwise. Qed.
Print Assumptions c08_adapt_repair_changes_nothing_else.

Theorem c08_adapt_premises_met :
  adapt false 3 {| pver := 4; payload := true; tracing := true; query := 7 |}
    = Some {| pver := 3; payload := false; tracing := true; query := 7 |}
  /\ adapt true 3 {| pver := 4; payload := true; tracing := true; query := 7 |} = None.
Proof. exact adapt_case. Qed.
Print Assumptions c08_adapt_premises_met.
