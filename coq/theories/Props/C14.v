(** * C14 — schema-change events reach every registered client exactly once, and only those. *)
From Coq Require Import List ZArith NArith Bool.
From CqlProxy Require Import Lib.Val Lib.Util Model.Events Proofs.EventsProofs.
Import ListNotations.
Local Open Scope N_scope.

(** For every history of clients connecting, registering, disconnecting, backend events of
    the three kinds and control-connection failovers, every client receives exactly the frames
    of its own specification: the schema events emitted while it was registered and connected,
    each once, in the backend's order. *)
Theorem c14_each_client_gets_exactly_its_events :
  forall h c, delivered c (run init h) = expected c false false h.
Proof. exact delivered_from_start. Qed.
Print Assumptions c14_each_client_gets_exactly_its_events.

(** A client that registered (for schema changes) and is still connected receives every schema
    event emitted since, whatever anybody else did before or does meanwhile. *)
Theorem c14_registered_client_receives_every_schema_event :
  forall h1 h2 c, (forall o, In o h2 -> o <> ODisconnect c) ->
    delivered c (run init (h1 ++ [OConnect c; ORegister c true] ++ h2))
    = delivered c (run init h1) ++ schema_ids h2.
Proof. exact registered_client_receives_every_schema_event. Qed.
Print Assumptions c14_registered_client_receives_every_schema_event.

(** No client that has not registered for schema changes receives anything. *)
Theorem c14_unregistered_client_receives_nothing :
  forall h c, (forall d, In (ORegister d true) h -> d <> c) -> delivered c (run init h) = [].
Proof. exact never_registered_receives_nothing. Qed.
Print Assumptions c14_unregistered_client_receives_nothing.

(** Topology and status events are never forwarded and nothing is delivered twice: what a client
    receives is a subsequence of the schema events of the history. *)
Theorem c14_only_schema_events_each_at_most_once :
  forall h c, sublist (delivered c (run init h)) (schema_ids h).
Proof. exact only_schema_events_at_most_once. Qed.
Print Assumptions c14_only_schema_events_each_at_most_once.

(** Connecting, registering and disconnecting of other clients never changes what a client receives. *)
Theorem c14_other_clients_do_not_disturb_delivery :
  forall h1 h2 c, filter (concerns c) h1 = filter (concerns c) h2 ->
    delivered c (run init h1) = delivered c (run init h2).
Proof. exact other_clients_do_not_matter. Qed.
Print Assumptions c14_other_clients_do_not_disturb_delivery.

Example c14_example :
  let h := [OConnect 0; OConnect 1; ORegister 0 true; ORegister 1 false; OBackend KSchema 7; OBackend KTopology 8;
            ORegister 1 true; OFailover; OBackend KSchema 9; ODisconnect 0; OBackend KStatus 10; OBackend KSchema 11] in
  (delivered 0 (run init h), delivered 1 (run init h)) = ([7; 9], [9; 11]).
Proof. vm_compute. reflexivity. Qed.
