(** ---- added: properties C01, C02, C04, C05 and C08 over the integrated request-path model EXTENDED WITH
    THE PREPARED-STATEMENT PATH, Model/CorePrep.v (many requests, many connections, stream-id tables, retries,
    closes, failed writes, and: UNPREPARED answers, the proxy's own re-PREPARE standing in for a request --
    possibly nested --, its answers, its failure to be sent).  Every theorem is about
    [run_events es] for an ARBITRARY event list [es] (every interleaving the environment can produce) of the
    repaired code.  Proofs: Proofs/CorePrepProofs.v, Proofs/CorePrepProofs2.v.
    NOTE for whoever merges this into Props/C0x.v: Model.Core and Model.CorePrep define the same names
    ([run_events], [world], ...): import only one of them per file, or keep this file separate. ---- *)
From Coq Require Import List ZArith NArith Bool Permutation.
From CqlProxy Require Import Lib.Val Gen.Tables Model.Retry Model.CorePrep Proofs.CorePrepProofs Proofs.CorePrepProofs2.
Import ListNotations.
Local Open Scope N_scope.

(** * C01 -- exactly one response per client request, on the request's own stream *)

(** P1a.  Never two: a request gets at most one frame written to a client, and any frame written for request
    [r] goes to the client and the client stream recorded for [r]. *)
Theorem c01_prep_at_most_one_reply : forall es r,
  (length (client_replies (run_events es) r) <= 1)%nat /\
  forall c s x, In (ToClient c s r x) (w_out (run_events es)) ->
    exists q, lookupN r (w_reqs (run_events es)) = Some q /\ c = q_client q /\ s = q_cstream q.
Proof. exact prep_at_most_one_reply. Qed.
Print Assumptions c01_prep_at_most_one_reply.

(** ... and that client and stream are the ones named by the [EStart] event that created [r]. *)
Theorem c01_prep_reply_to_own_client : forall es r cl cs idem p c s x,
  first_start es r = Some (cl, cs, idem, p) -> In (ToClient c s r x) (w_out (run_events es)) -> c = cl /\ s = cs.
Proof. exact prep_reply_to_own_client. Qed.
Print Assumptions c01_prep_reply_to_own_client.

(** P1b.  The done flag of a started request is set exactly when its (single) reply has been written. *)
Theorem c01_prep_done_iff_replied : forall es r q,
  lookupN r (w_reqs (run_events es)) = Some q ->
  (q_done q = true <-> length (client_replies (run_events es) r) = 1%nat).
Proof. exact prep_done_iff_replied. Qed.
Print Assumptions c01_prep_done_iff_replied.

(** P1c.  The reason none is lost and none answered twice.  [regs w r] counts the entries of request [r] -- [EReq r]
    (the request itself) AND [EPrep r _] (the proxy's re-PREPARE standing in for it) -- in the pending tables of the
    connections that are not closing and in the lists of close notifications still to be delivered.  It is 1 for a
    started, unanswered request and 0 for an answered or unknown one: always, in every reachable state. *)
Theorem c01_prep_registered_iff_unanswered : forall es r,
  regs (run_events es) r =
  match lookupN r (w_reqs (run_events es)) with Some q => if q_done q then 0%nat else 1%nat | None => 0%nat end.
Proof. exact prep_registered_iff_unanswered. Qed.
Print Assumptions c01_prep_registered_iff_unanswered.

Theorem c01_prep_unanswered_is_registered_once : forall es r q,
  lookupN r (w_reqs (run_events es)) = Some q -> q_done q = false -> regs (run_events es) r = 1%nat.
Proof. exact prep_unanswered_is_registered_once. Qed.
Print Assumptions c01_prep_unanswered_is_registered_once.

(** ... and the place is a connection of the host the request currently points at ([ents c] = the live entries of
    [c] and its pending notifications). *)
Theorem c01_prep_unanswered_is_registered_somewhere : forall es r q,
  lookupN r (w_reqs (run_events es)) = Some q -> q_done q = false ->
  exists k c ent, lookupN k (w_conns (run_events es)) = Some c /\ In ent (ents c) /\ entry_req ent = r /\
                  q_host q = Some (b_host c).
Proof. exact prep_unanswered_is_registered_somewhere. Qed.
Print Assumptions c01_prep_unanswered_is_registered_somewhere.

(** An answered request has no entry of either kind anywhere. *)
Theorem c01_prep_done_not_registered : forall es r q,
  lookupN r (w_reqs (run_events es)) = Some q -> q_done q = true ->
  (forall k s ent, In (s, ent) (live (run_events es) k) -> entry_req ent <> r) /\
  (forall k c ent, lookupN k (w_conns (run_events es)) = Some c -> In ent (b_tonotify c) -> entry_req ent <> r).
Proof. exact prep_done_not_registered. Qed.
Print Assumptions c01_prep_done_not_registered.

(** P1d.  Never none: in every reachable state in which every attempt -- of a request or of a re-PREPARE -- has been
    answered or its connection's close fully processed, every request that was started has been answered, once. *)
Theorem c01_prep_none_lost_at_quiescence : forall es,
  quiescent (run_events es) -> forall r q, lookupN r (w_reqs (run_events es)) = Some q -> q_done q = true.
Proof. exact prep_none_lost_at_quiescence. Qed.
Print Assumptions c01_prep_none_lost_at_quiescence.

Theorem c01_prep_exactly_one_at_quiescence : forall es,
  quiescent (run_events es) -> forall r q, lookupN r (w_reqs (run_events es)) = Some q ->
  length (client_replies (run_events es) r) = 1%nat.
Proof. exact prep_exactly_one_at_quiescence. Qed.
Print Assumptions c01_prep_exactly_one_at_quiescence.

(** Every event writes at most one frame (to a backend or to a client). *)
Theorem c01_prep_one_output_per_event : forall es e,
  exists d, w_out (run_events (es ++ [e])) = w_out (run_events es) ++ d /\ (length d <= 1)%nat.
Proof. exact prep_one_output_per_event. Qed.
Print Assumptions c01_prep_one_output_per_event.

(** Non-vacuity: run B (UNPREPARED, re-PREPARE, nested re-PREPARE, close, notification of the nested re-PREPARE,
    next host, RESULT): one reply; registered exactly once at every moment in between, under five different guises. *)
Example c01_prep_example :
  (client_replies (run_events exA) 7, client_replies (run_events exB) 7,
   option_map q_done (lookupN 7 (w_reqs (run_events exB))), first_start exB 7) =
  ([ToClient 0 5%Z 7 (CFrame 2 0 KUnprepared)], [ToClient 0 5%Z 7 (CFrame 2 0 KResult)], Some true, Some (0, 5%Z, true, [10; 20])).
Proof. exact ex_replies. Qed.
Example c01_prep_example_registered_once :
  map (fun n => regs (run_events (firstn n exB)) 7) [2; 3; 4; 5; 6; 7; 8]%nat = [0; 1; 1; 1; 1; 1; 0]%nat /\
  live (run_events (firstn 4 exB)) 1 = [(1, EPrep 7 false)] /\
  live (run_events (firstn 5 exB)) 1 = [(0, EPrep 7 true)] /\
  option_map b_tonotify (lookupN 1 (w_conns (run_events (firstn 6 exB)))) = Some [EPrep 7 true] /\
  live (run_events (firstn 7 exB)) 2 = [(0, EReq 7)] /\
  option_map q_done (lookupN 7 (w_reqs (run_events (firstn 7 exB)))) = Some false.
Proof. exact ex_registered_once. Qed.
Example c01_prep_example_quiescent :
  quiescent (run_events exB) /\ quiescentb (run_events (firstn 7 exB)) = false /\
  map (fun rq => (fst rq, q_done (snd rq))) (w_reqs (run_events exB)) = [(7, true)].
Proof. exact ex_quiescent. Qed.

