(** ---- added: how a session comes into being (Model/SessionBoot.v; proofs in Proofs/SessionBootProofs.v).  C17: a request
    sent through a session the repaired ConnectSession hands out never dereferences a nil pool, whatever the runtime picks when
    both of its channels are ready; the original code could hand out such a session (defect repaired by 89063f9). ---- *)
From Coq Require Import List NArith Bool.
From CqlProxy Require Import Model.SessionBoot Proofs.SessionBootProofs.
Import ListNotations.
Local Open Scope N_scope.

Theorem c17_session_send_never_panics : forall b pick t h, select false b pick = Session t -> send t h <> SendPanic.
Proof. exact repaired_send_never_panics. Qed.
Print Assumptions c17_session_send_never_panics.

Theorem c17_session_means_no_failure : forall b pick t, select false b pick = Session t -> failed_ready b = false /\ connected_ready b = true.
Proof. exact repaired_session_means_no_failure. Qed.
Print Assumptions c17_session_means_no_failure.

Theorem c17_session_has_a_pool_for_every_finished_host : forall b pick t h r,
  select false b pick = Session t -> In (h, r) (done b) -> send t h = SendOk.
Proof. exact repaired_session_has_a_pool_for_every_finished_host. Qed.
Print Assumptions c17_session_has_a_pool_for_every_finished_host.

Theorem c17_session_outcome_does_not_depend_on_the_runtime : forall b p1 p2, select false b p1 = select false b p2.
Proof. exact repaired_outcome_is_deterministic. Qed.
Print Assumptions c17_session_outcome_does_not_depend_on_the_runtime.

Theorem c17_session_failure_is_reported : forall b pick, failed_ready b = true -> select false b pick = Error.
Proof. exact repaired_failure_is_reported. Qed.
Print Assumptions c17_session_failure_is_reported.

Theorem c17_original_session_could_panic : exists hosts results h t, run true hosts results true = Session t /\ send t h = SendPanic.
Proof. exact original_hands_out_a_session_that_panics_refuted. Qed.
Print Assumptions c17_original_session_could_panic.

Theorem c17_session_versions_agree_without_failure : forall b pick, failed_ready b = false -> select true b pick = select false b pick.
Proof. exact versions_agree_without_failure. Qed.
Print Assumptions c17_session_versions_agree_without_failure.
