(** * C06 (addition) -- "the verdict does not change with whitespace, newlines": layout invariance of
    the lexer as a theorem with a computable side condition.

    The classifier's verdict is a function of the token list (Props/C06.v).  Here: the TOKEN LIST does
    not depend on how much blank space separates the tokens, for EVERY rule list / action list (no
    reference to Gen/LexRules.v in the generic theorems), provided the executable check [layout_ok]
    holds of the token texts.  Blanks covered for the real lexer: space (32), tab (9), LF (10) and the
    two-byte unit CR LF (13 10).  A lone CR is NOT a blank for parser/lexer.rl (it lexes as tkInvalid).
    Definitions: Model/Layout.v; proofs: Proofs/LayoutProofs.v. *)
From Coq Require Import List NArith Bool.
From CqlProxy Require Import Lib.Val Lib.Regex Gen.LexRules Model.Lexer Model.Parser Proofs.RegexProofs
  Model.Layout Proofs.LayoutProofs.
Import ListNotations.
Local Open Scope N_scope.

(** The emptiness test is sound: a regular expression reported dead matches no string; one reported
    "at most empty" matches no non-empty string (so after it no rule survives one more byte,
    whatever the byte: no sweep over 0..255). *)
Theorem c06_dead_sound : forall r, dead r = true -> forall s, matches r s = false.
Proof. exact dead_sound. Qed.
Print Assumptions c06_dead_sound.

Theorem c06_le_eps_sound : forall r, le_eps r = true -> forall c s, matches r (c :: s) = false.
Proof. exact le_eps_sound. Qed.
Print Assumptions c06_le_eps_sound.

(** A text that alone is exactly one token of rule [idx] is still scanned as that token when
    followed by nothing or by a byte before which it is closed. *)
Theorem c06_scan_one_extend : forall rules t idx rest,
  single_token rules t = Some idx -> (rest = [] \/ closed_before rules t (hd 0 rest) = true) ->
  scan_one rules (t ++ rest) = Some (length t, idx).
Proof. exact scan_one_extend. Qed.
Print Assumptions c06_scan_one_extend.

(** The fuel [S (length input)] of the lexer suffices: any larger fuel gives the same tokens. *)
Theorem c06_fuel_suffices : forall inv rules acts f input,
  (length input < f)%nat -> tokenize_gen_fuel inv rules acts f input = tokenize_gen inv rules acts input.
Proof. exact tokenize_gen_fuel_enough. Qed.
Print Assumptions c06_fuel_suffices.

(** [tokenize_gen] instantiated with the regenerated rule list IS the model's lexer. *)
Theorem c06_tokenize_is_gen : tokenize = tokenize_gen tkInvalid rule_res rule_acts.
Proof. exact tokenize_is_gen. Qed.
Print Assumptions c06_tokenize_is_gen.

(** THE THEOREM (every rule list, every action list, every catch-all code, every list of blank
    units): if [layout_ok] holds of the token texts [ts] -- each blank unit is alone one Skip token
    after which every rule is dead one byte later; each text is alone one token with a token action
    and every rule is dead after the text followed by the first byte of any blank unit; the last
    token is not the catch-all token -- then for ALL separators (one per gap, each a non-empty run
    of blank units) and ALL leading and trailing blank runs (possibly empty) the lexer returns
    exactly the tokens of [ts]. *)
Theorem c06_layout_tokens : forall inv rules acts blanks ts seps lead trail,
  layout_ok inv rules acts blanks ts = true ->
  seps_ok blanks ts seps -> blank_run blanks lead -> blank_run blanks trail ->
  tokenize_gen inv rules acts (lead ++ interleave ts seps ++ trail) = map (token_of inv rules acts) ts.
Proof. exact layout_tokens. Qed.
Print Assumptions c06_layout_tokens.

(** Stronger: a gap may also be EMPTY wherever the left token is closed before the first byte of the
    right token ([a=1], [f(x)], [t;] -- but not [-] [1], [1] [.5], [<] [=]). *)
Theorem c06_layout_tokens_gaps : forall inv rules acts blanks ts gaps lead trail,
  layout_ok inv rules acts blanks ts = true ->
  gaps_ok rules blanks ts gaps -> blank_run blanks lead -> blank_run blanks trail ->
  tokenize_gen inv rules acts (layout ts gaps lead trail) = map (token_of inv rules acts) ts.
Proof. exact layout_tokens_gaps. Qed.
Print Assumptions c06_layout_tokens_gaps.

(** Corollary for the real lexer and classifier: two layouts of the same token texts get the same
    verdict.  ([seps_ok] separators are a special case of [gaps_ok]: [seps_gaps].) *)
Theorem c06_layout_invariance : forall ts seps1 lead1 trail1 seps2 lead2 trail2,
  layout_ok tkInvalid rule_res rule_acts std_blanks ts = true ->
  gaps_ok rule_res std_blanks ts seps1 -> blank_run std_blanks lead1 -> blank_run std_blanks trail1 ->
  gaps_ok rule_res std_blanks ts seps2 -> blank_run std_blanks lead2 -> blank_run std_blanks trail2 ->
  is_query_idempotent (layout ts seps1 lead1 trail1) = is_query_idempotent (layout ts seps2 lead2 trail2).
Proof. exact layout_invariance. Qed.
Print Assumptions c06_layout_invariance.

Theorem c06_seps_are_gaps : forall rules blanks ts seps, seps_ok blanks ts seps -> gaps_ok rules blanks ts seps.
Proof. exact seps_gaps. Qed.
Print Assumptions c06_seps_are_gaps.

(** The blank runs of the real lexer, executably: a byte string of space, tab, LF and CR LF. *)
Theorem c06_std_blank_runs : forall s, is_std_blank_run s = true -> blank_run std_blanks s.
Proof. exact is_std_blank_run_sound. Qed.
Print Assumptions c06_std_blank_runs.

(** The lexemes the lexer finds in a text give back its tokens (for every rule list). *)
Theorem c06_lexemes_tokens : forall inv rules acts input,
  tokenize_gen inv rules acts input = map (token_of inv rules acts) (lexemes inv rules acts input).
Proof. exact lexemes_tokens. Qed.
Print Assumptions c06_lexemes_tokens.

(** The executable entry: if [layout_ok_text q] then EVERY re-layout of the lexemes of [q] -- any
    leading/trailing blank runs, any blank runs in the gaps, empty gaps where [closed_before] allows --
    lexes to the tokens of [q], hence is classified like [q].  (The lexemes of [q] are its token texts
    in order; a stray invalid byte at the very end of [q], which the lexer drops, is not a lexeme.) *)
Theorem c06_layout_ok_text_sound : forall q,
  layout_ok_text q = true ->
  forall gaps lead trail,
    gaps_ok rule_res std_blanks (lexemes_of q) gaps -> blank_run std_blanks lead -> blank_run std_blanks trail ->
    tokenize (layout (lexemes_of q) gaps lead trail) = tokenize q /\
    is_query_idempotent (layout (lexemes_of q) gaps lead trail) = is_query_idempotent q.
Proof.
  intros q H gaps lead trail Hg Hl Ht. split; [apply layout_ok_text_sound|apply layout_ok_text_verdict]; assumption.
Qed.
Print Assumptions c06_layout_ok_text_sound.

(** the one-pass version used by the runner computes the same boolean *)
Theorem c06_layout_ok_text_fast : forall q, layout_ok_text_fast q = layout_ok_text q.
Proof. exact layout_ok_text_fast_eq. Qed.
Print Assumptions c06_layout_ok_text_fast.

Theorem c06_gaps_okb_sound : forall ts gaps, gaps_okb rule_res ts gaps = true -> gaps_ok rule_res std_blanks ts gaps.
Proof. exact gaps_okb_sound. Qed.
Print Assumptions c06_gaps_okb_sound.

(** REFUTED (a genuine whitespace dependence of the Go classifier, confirmed on
    parser.IsQueryIdempotent): appending one blank to a statement can change the verdict.  The lexer
    drops a tkInvalid token that ends exactly at the end of the input (lexer.rl: "if tk == tkInvalid
    && p == eof { return tkEOF }") but keeps it when anything -- a blank -- follows. *)
Theorem c06_trailing_blank_invariance_refuted :
  exists q, is_query_idempotent q = (true, 0) /\ is_query_idempotent (q ++ [32]) = (false, 1) /\
            is_query_idempotent (q ++ [10]) = (false, 1).
Proof. exact trailing_blank_invariance_refuted. Qed.
Print Assumptions c06_trailing_blank_invariance_refuted.

(** ... which is why [layout_ok] asks that the last token is not the catch-all token. *)
Theorem c06_last_not_invalid_needed :
  exists ts, blanks_ok rule_res rule_acts std_blanks = true /\ forallb (tok_ok rule_res rule_acts std_blanks) ts = true /\
    seps_ok std_blanks ts [[32]] /\
    tokenize (layout ts [[32]] [] []) <> tokenize (layout ts [[32]] [] [32]).
Proof. exact layout_tokens_without_last_not_invalid_refuted. Qed.
Print Assumptions c06_last_not_invalid_needed.

(** Non-vacuity (reflection on the current rule list): the check holds of statements that together
    contain every token kind of the rule list -- keywords, plain and quoted identifiers, integers,
    floats, hex, uuid, durations, both string forms, every operator, NaN/Infinity, [;] -- ... *)
Example c06_layout_ok_all_kinds :
  map (fun q => layout_ok_text (str q)) kinds_texts = [true; true; true] /\
  (let codes := flat_map (fun q => map t_code (tokenize (str q))) kinds_texts in
   forallb (fun a => match a with Tok c _ => (c =? tkInvalid) || existsb (N.eqb c) codes | Skip => true end) rule_acts = true).
Proof. split; vm_compute; reflexivity. Qed.

(** ... the theorem applied to a tightly written INSERT re-laid over several lines with CR LF and tabs ... *)
Example c06_relayout :
  is_query_idempotent (layout (lexemes_of ex_q) ex_gaps_wide (str "  ") [10]) = is_query_idempotent ex_q /\
  is_query_idempotent ex_q = (true, 0) /\ layout (lexemes_of ex_q) ex_gaps_tight [] [] = ex_q.
Proof. split; [apply ex_relayout|]. split; vm_compute; reflexivity. Qed.

(** ... and it is false exactly where a blank can be swallowed: after an opening quote that was
    never closed (double quote, dollar, single quote) and after a lone CR. *)
Example c06_layout_ok_false :
  map (fun q => layout_ok_text (str q)) ["SELECT 'abc"; "SELECT ""ab"; "SELECT $ab"; "a ' b"]%string = [false; false; false; false] /\
  filter (fun c => negb (tok_ok rule_res rule_acts std_blanks [c])) (map N.of_nat (seq 0 256)) = [9; 10; 13; 32; 34; 36; 39].
Proof. split; vm_compute; reflexivity. Qed.
