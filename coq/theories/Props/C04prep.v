(** ---- added: properties C01, C02, C04, C05 and C08 over the integrated request-path model EXTENDED WITH
    THE PREPARED-STATEMENT PATH, Model/CorePrep.v (many requests, many connections, stream-id tables, retries,
    closes, failed writes, and: UNPREPARED answers, the proxy's own re-PREPARE standing in for a request --
    possibly nested --, its answers, its failure to be sent).  Every theorem is about
    [run_events es] for an ARBITRARY event list [es] (every interleaving the environment can produce) of the
    repaired code.  Proofs: Proofs/CorePrepProofs.v, Proofs/CorePrepProofs2.v.
    NOTE for whoever merges this into Props/C0x.v: Model.Core and Model.CorePrep define the same names
    ([run_events], [world], ...): import only one of them per file, or keep this file separate. ---- *)
From Coq Require Import List ZArith NArith Bool Permutation.
From CqlProxy Require Import Lib.Val Gen.Tables Model.Retry Model.CorePrep Proofs.CorePrepProofs Proofs.CorePrepProofs2.
Import ListNotations.
Local Open Scope N_scope.

(** * C04 -- a non-idempotent request is never re-sent after an outcome that may have applied it *)

(** P3.  Let [r] be non-idempotent.  At and after an ERROR frame delivered to [r] itself that is not safe to
    resend after, or a RESULT frame delivered to [r] itself, or the close notification of an entry of [r] of either
    kind, nothing is ever written for [r] again: neither the request nor a PREPARE of the proxy for it. *)
Theorem c04_prep_nonidem_never_resent_after_unsafe : forall es1 e es2 r q,
  lookupN r (w_reqs (run_events es1)) = Some q -> q_idem q = false ->
  final_for (run_events es1) r e ->
  backend_writes (run_events (es1 ++ e :: es2)) r = backend_writes (run_events es1) r /\
  prepare_writes (run_events (es1 ++ e :: es2)) r = prepare_writes (run_events es1) r.
Proof. exact prep_nonidem_never_resent_after_unsafe. Qed.
Print Assumptions c04_prep_nonidem_never_resent_after_unsafe.

(** the same, the three cases of [final_for] spelled out *)
Theorem c04_prep_nonidem_not_resent_after_unsafe_error : forall es1 k s m o es2 r q,
  lookupN r (w_reqs (run_events es1)) = Some q -> q_idem q = false ->
  lookupN s (live (run_events es1) k) = Some (EReq r) -> safe_to_resend (OError m) = false ->
  backend_writes (run_events (es1 ++ EFrame k s (FError m) o :: es2)) r = backend_writes (run_events es1) r /\
  prepare_writes (run_events (es1 ++ EFrame k s (FError m) o :: es2)) r = prepare_writes (run_events es1) r.
Proof. exact prep_nonidem_not_resent_after_unsafe_error. Qed.
Print Assumptions c04_prep_nonidem_not_resent_after_unsafe_error.

Theorem c04_prep_not_resent_after_result : forall es1 k s o es2 r,
  lookupN s (live (run_events es1) k) = Some (EReq r) ->
  backend_writes (run_events (es1 ++ EFrame k s FResult o :: es2)) r = backend_writes (run_events es1) r /\
  prepare_writes (run_events (es1 ++ EFrame k s FResult o :: es2)) r = prepare_writes (run_events es1) r.
Proof. exact prep_not_resent_after_result. Qed.
Print Assumptions c04_prep_not_resent_after_result.

Theorem c04_prep_nonidem_not_resent_after_close : forall es1 k c ent o es2 r q,
  lookupN r (w_reqs (run_events es1)) = Some q -> q_idem q = false ->
  lookupN k (w_conns (run_events es1)) = Some c -> In ent (b_tonotify c) -> entry_req ent = r ->
  backend_writes (run_events (es1 ++ ENotify k ent o :: es2)) r = backend_writes (run_events es1) r /\
  prepare_writes (run_events (es1 ++ ENotify k ent o :: es2)) r = prepare_writes (run_events es1) r.
Proof. exact prep_nonidem_not_resent_after_close. Qed.
Print Assumptions c04_prep_nonidem_not_resent_after_close.

(** Conversely, an event that writes anything (the request, or the proxy's PREPARE) for a non-idempotent request is
    its start, or delivers to it an ERROR after which a resend is safe or an UNPREPARED for a cached statement, or
    delivers any answer to the proxy's own PREPARE -- all outcomes in which the statement was not executed. *)
Theorem c04_prep_nonidem_write_cause : forall es e r q,
  lookupN r (w_reqs (run_events (es ++ [e]))) = Some q -> q_idem q = false ->
  (backend_writes (run_events (es ++ [e])) r <> backend_writes (run_events es) r \/
   prepare_writes (run_events (es ++ [e])) r <> prepare_writes (run_events es) r) ->
  safe_cause r (run_events es) e.
Proof. exact prep_nonidem_write_cause. Qed.
Print Assumptions c04_prep_nonidem_write_cause.

(** any request: nothing is written for it once it has been answered *)
Theorem c04_prep_no_write_after_reply : forall es1 es2 r q,
  lookupN r (w_reqs (run_events es1)) = Some q -> q_done q = true ->
  backend_writes (run_events (es1 ++ es2)) r = backend_writes (run_events es1) r /\
  prepare_writes (run_events (es1 ++ es2)) r = prepare_writes (run_events es1) r.
Proof. exact prep_no_write_after_reply. Qed.
Print Assumptions c04_prep_no_write_after_reply.

(** nor for a request that was never started *)
Theorem c04_prep_unstarted_never_written : forall es r, first_start es r = None ->
  backend_writes (run_events es) r = [] /\ prepare_writes (run_events es) r = [] /\ client_replies (run_events es) r = [].
Proof. exact prep_unstarted_never_written. Qed.
Print Assumptions c04_prep_unstarted_never_written.

Example c04_prep_example_safe :
  (option_map q_idem (lookupN 7 (w_reqs (run_events exA))), backend_writes (run_events exA) 7, prepare_writes (run_events exA) 7) =
  (Some false, [(1, 0); (1, 0); (2, 0)], [(1, 1)]).
Proof. exact ex_nonidem_safe. Qed.
Example c04_prep_example_final :
  let es1 := firstn 6 exA in
  let e := EFrame 2 0 (FError write_timeout) [Some (1, true)] in
  let es2 := [ECloseBegin 2; ENotify 2 (EReq 7) [Some (1, true)]; EFrame 1 0 FResult []] in
  (lookupN 0 (live (run_events es1) 2), option_map q_idem (lookupN 7 (w_reqs (run_events es1))),
   safe_to_resend (OError write_timeout),
   backend_writes (run_events (es1 ++ e :: es2)) 7, backend_writes (run_events es1) 7,
   prepare_writes (run_events (es1 ++ e :: es2)) 7, prepare_writes (run_events es1) 7,
   client_replies (run_events (es1 ++ [e])) 7) =
  (Some (EReq 7), Some false, false, [(1, 0); (1, 0); (2, 0)], [(1, 0); (1, 0); (2, 0)], [(1, 1)], [(1, 1)],
   [ToClient 0 5%Z 7 (CFrame 2 0 KError)]).
Proof. exact ex_nonidem_final. Qed.
Example c04_prep_example_close :
  let es1 := firstn 4 exA ++ [ECloseBegin 1] in
  let es := es1 ++ [ENotify 1 (EPrep 7 false) [Some (2, true)]] in
  (option_map b_tonotify (lookupN 1 (w_conns (run_events es1))),
   backend_writes (run_events es) 7, prepare_writes (run_events es) 7, client_replies (run_events es) 7) =
  (Some [EPrep 7 false], [(1, 0)], [(1, 1)], [ToClient 0 5%Z 7 CConnLost]).
Proof. exact ex_nonidem_close. Qed.

