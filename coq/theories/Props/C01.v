(** * C01 — exactly one response per client request, on the request's own stream. *)
From Coq Require Import List Arith ZArith Bool.
From CqlProxy Require Import Lib.Val Model.OneReply Proofs.OneReplyProofs Model.ClosingLocks Proofs.ClosingLocksProofs.
Import ListNotations.

(** Never two: for every interleaving of request starts, backend frames (each either final or
    retried on any list of connections), connection closes and close notifications, over any
    number of requests and connections, a request gets at most one reply. *)
Theorem c01_at_most_one_reply :
  forall es r, r_replies (reqs (run_events es) r) <= 1.
Proof. exact at_most_one_reply. Qed.
Print Assumptions c01_at_most_one_reply.

(** Never none: in every reachable state in which each attempt has either been answered or
    had its connection dropped (and the drop processed), every request that was started has
    been answered -- exactly once. *)
Theorem c01_none_lost_at_quiescence :
  forall es r, quiescent (run_events es) -> r_started (reqs (run_events es) r) = true ->
    r_done (reqs (run_events es) r) = true /\ r_replies (reqs (run_events es) r) = 1.
Proof. exact none_lost_at_quiescence. Qed.
Print Assumptions c01_none_lost_at_quiescence.

(** The notifications of closing connections cannot block each other: for any set of
    connections closing together, any retry targets and any schedule, the lock protocol of
    Closing / addToPending never reaches a state in which some thread is unfinished and none
    can move. *)
Theorem c01_closing_protocol_deadlock_free :
  forall conns sched,
    deadlocked false (run_schedule false (map (fun kt => closing_thread (fst kt) (snd kt)) conns) sched) = false.
Proof. exact repaired_protocol_no_reachable_deadlock. Qed.
Print Assumptions c01_closing_protocol_deadlock_free.

(** The protocol as it was before the repair (exclusive lock kept while notifying) does
    deadlock: two connections, each with one request to be retried on the other. *)
Theorem c01_original_closing_protocol_deadlocks :
  exists conns sched, deadlocked true (run_schedule true (map (fun kt => closing_thread (fst kt) (snd kt)) conns) sched) = true.
Proof. exact original_protocol_deadlocks. Qed.
Print Assumptions c01_original_closing_protocol_deadlocks.

(** Non-vacuity: an idempotent request registered on connection 1, which closes; the request
    moves to connection 2, which answers; a late frame on connection 1 changes nothing. *)
Example c01_example :
  let w := run_events [Start 7 true [1; 2]; CloseBegin 1; Notify 7 1 [1; 2]; Result 7 2 true []; Result 7 1 true []] in
  (r_replies (reqs w 7), r_done (reqs w 7), k_pending (conns w 2)) = (1, true, []).
Proof. vm_compute. reflexivity. Qed.
