(** * C01 — exactly one response per client request, on the request's own stream. *)
From Coq Require Import List Arith ZArith Bool.
From CqlProxy Require Import Lib.Val Model.OneReply Proofs.OneReplyProofs Model.ClosingLocks Proofs.ClosingLocksProofs.
Import ListNotations.

(** Never two: for every interleaving of request starts, backend frames (each either final or
    retried on any list of connections), connection closes and close notifications, over any
    number of requests and connections, a request gets at most one reply. *)
Theorem c01_at_most_one_reply :
  forall es r, r_replies (reqs (run_events es) r) <= 1.
Proof. exact at_most_one_reply. Qed.
Print Assumptions c01_at_most_one_reply.

(** Never none: in every reachable state in which each attempt has either been answered or
    had its connection dropped (and the drop processed), every request that was started has
    been answered -- exactly once. *)
Theorem c01_none_lost_at_quiescence :
  forall es r, quiescent (run_events es) -> r_started (reqs (run_events es) r) = true ->
    r_done (reqs (run_events es) r) = true /\ r_replies (reqs (run_events es) r) = 1.
Proof. exact none_lost_at_quiescence. Qed.
Print Assumptions c01_none_lost_at_quiescence.

(** The notifications of closing connections cannot block each other: for any set of
    connections closing together, any retry targets and any schedule, the lock protocol of
    Closing / addToPending never reaches a state in which some thread is unfinished and none
    can move. *)
Theorem c01_closing_protocol_deadlock_free :
  forall conns sched,
    deadlocked false (run_schedule false (map (fun kt => closing_thread (fst kt) (snd kt)) conns) sched) = false.
Proof. exact repaired_protocol_no_reachable_deadlock. Qed.
Print Assumptions c01_closing_protocol_deadlock_free.

(** The protocol as it was before the repair (exclusive lock kept while notifying) does
    deadlock: two connections, each with one request to be retried on the other. *)
Theorem c01_original_closing_protocol_deadlocks :
  exists conns sched, deadlocked true (run_schedule true (map (fun kt => closing_thread (fst kt) (snd kt)) conns) sched) = true.
Proof. exact original_protocol_deadlocks. Qed.
Print Assumptions c01_original_closing_protocol_deadlocks.

(** Non-vacuity: an idempotent request registered on connection 1, which closes; the request
    moves to connection 2, which answers; a late frame on connection 1 changes nothing. *)
Example c01_example :
  let w := run_events [Start 7 true [1; 2]; CloseBegin 1; Notify 7 1 [1; 2]; Result 7 2 true []; Result 7 1 true []] in
  (r_replies (reqs w 7), r_done (reqs w 7), k_pending (conns w 2)) = (1, true, []).
Proof. vm_compute. reflexivity. Qed.

(** ---- added: the same property over the integrated request-path model Model/Core.v
    (many requests, many connections, stream-id tables, retries, closes, failed writes) ---- *)
From Coq Require Import List ZArith NArith Bool Permutation.
From CqlProxy Require Import Lib.Val Gen.Tables Model.Retry Model.Core Proofs.CoreProofs Proofs.CoreProofs2.
Local Open Scope N_scope.

(** ** C01 -- exactly one response per client request, on the request's own stream *)

(** T1.  Never two: a request gets at most one frame written to a client, and any frame written
    for request [r] goes to the client and the client stream recorded for [r]. *)
Theorem c01_core_at_most_one_reply : forall es r,
  (length (client_replies (run_events es) r) <= 1)%nat /\
  forall c s x, In (ToClient c s r x) (w_out (run_events es)) ->
    exists q, lookupN r (w_reqs (run_events es)) = Some q /\ c = q_client q /\ s = q_cstream q.
Proof. exact core_at_most_one_reply. Qed.
Print Assumptions c01_core_at_most_one_reply.

(** ... and that client and stream are the ones named by the [EStart] event that created [r]. *)
Theorem c01_core_reply_to_own_client : forall es r cl cs idem p c s x,
  first_start es r = Some (cl, cs, idem, p) -> In (ToClient c s r x) (w_out (run_events es)) -> c = cl /\ s = cs.
Proof. exact core_reply_to_own_client. Qed.
Print Assumptions c01_core_reply_to_own_client.

(** T2.  The done flag of a started request is set exactly when its (single) reply has been written. *)
Theorem c01_core_done_iff_replied : forall es r q,
  lookupN r (w_reqs (run_events es)) = Some q ->
  (q_done q = true <-> length (client_replies (run_events es) r) = 1%nat).
Proof. exact core_done_iff_replied. Qed.
Print Assumptions c01_core_done_iff_replied.

(** T9.  Never none: in every reachable state in which every attempt has been answered or its
    connection's close fully processed (no open connection has anything pending, no closing
    connection has a notification left), every request that was started has been answered. *)
Theorem c01_core_none_lost_at_quiescence : forall es,
  quiescent (run_events es) -> forall r q, lookupN r (w_reqs (run_events es)) = Some q -> q_done q = true.
Proof. exact core_none_lost_at_quiescence. Qed.
Print Assumptions c01_core_none_lost_at_quiescence.

(** ... exactly once. *)
Theorem c01_core_exactly_one_at_quiescence : forall es,
  quiescent (run_events es) -> forall r q, lookupN r (w_reqs (run_events es)) = Some q ->
  length (client_replies (run_events es) r) = 1%nat.
Proof. exact core_exactly_one_at_quiescence. Qed.
Print Assumptions c01_core_exactly_one_at_quiescence.

(** The reason: a started, unanswered request is registered in exactly one place (live in the pending
    table of one open connection, or in one closing connection's list of notifications still to be
    delivered); an answered one is registered nowhere. *)
Theorem c01_core_unanswered_is_registered_once : forall es r q,
  lookupN r (w_reqs (run_events es)) = Some q -> q_done q = false -> regs (run_events es) r = 1%nat.
Proof. exact core_unanswered_is_registered_once. Qed.
Print Assumptions c01_core_unanswered_is_registered_once.

(** Non-vacuity: two requests, three connections, an Unavailable retry, a close with a pending
    idempotent request whose next write fails, a read-timeout retry on the same host, two answers. *)
Example c01_core_example :
  (client_replies (run_events ex_es) 7, client_replies (run_events ex_es) 8,
   option_map q_done (lookupN 7 (w_reqs (run_events ex_es))), first_start ex_es 7) =
  ([ToClient 0 5%Z 7 (CFrame 3 1)], [ToClient 1 6%Z 8 (CFrame 2 0)], Some true, Some (0, 5%Z, true, [10; 20; 30])).
Proof. exact ex_replies. Qed.
Example c01_core_example_quiescent :
  quiescent (run_events ex_es) /\ quiescentb (run_events (firstn 10 ex_es)) = false /\
  map (fun rq => (fst rq, q_done (snd rq))) (w_reqs (run_events ex_es)) = [(7, true); (8, true)].
Proof. exact ex_quiescent. Qed.

