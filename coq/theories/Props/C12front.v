(** * C12 (addition) -- which forwarded requests the consistency override touches, with "is a SELECT"
    as client.Receive computes it: from the text (QUERY), from the prepared metadata (EXECUTE),
    never for a BATCH; a PREPARE is never touched (Model/Front.v). *)
From Coq Require Import List ZArith NArith Bool Lia.
From CqlProxy Require Import Lib.Val Lib.Util Lib.Wire Model.Parser Model.Codec Model.Frame Model.Override Model.Gate Model.Front
  Proofs.FrontProofs.
Import ListNotations.
Local Open Scope N_scope.

(** everything about a forwarded request *)
Theorem c12_front_forward_kind : forall e c prep cl frame lb op f state sel msg,
  fst (front e c prep cl frame lb) = AForward op f state sel msg ->
  exists h r body rest0 pl rest,
    decode_header frame = inr (h, r) /\ get_z (h_len h) r = Some (body, rest0) /\
    3 <= h_version h <= maxv c /\
    split_envelope (h_flags h) (logical lb body) = Some (pl, rest) /\
    op = h_opcode h /\
    session_ok e (h_version h) (fc_keyspace cl) (comp (fc_gate cl)) = true /\
    match msg with
    | FPrepare p =>
        op = 9 /\ decode_prepare (h_version h) rest = Some p /\
        prepare_is_handled (p_query p) (prepare_keyspace cl p) = false /\
        f = FwdRaw /\ state = IsIdempotent /\
        sel = prepare_is_select (p_query p) (prepare_keyspace cl p)
    | FReq m =>
        decode_msg op (h_version h) rest = Ok m /\
        f = process_request (ocfg_of c) sel (h_version h) (h_flags h) op (logical lb body) /\
        match m with
        | MQuery q =>
            op = 7 /\ prepare_is_handled (q_query q) (fc_keyspace cl) = false /\
            sel = prepare_is_select (q_query q) (fc_keyspace cl) /\ state = default_idempotency c pl
        | MExecute x =>
            op = 10 /\ assoc (id_key (x_id x)) (fc_sysprep cl) = None /\
            sel = id_select prep (x_id x) /\ state = default_idempotency c pl
        | MBatch b => op = 13 /\ sel = false /\ state = NotDetermined
        end
    end.
Proof. exact forward_kind. Qed.
Print Assumptions c12_front_forward_kind.

(** "is a SELECT" of a forwarded QUERY / PREPARE is: the first token of the text is SELECT *)
Theorem c12_front_select_is_first_token : forall text ks,
  prepare_is_handled text ks = false -> prepare_is_select text ks = starts_with_select text.
Proof. exact not_handled_select_iff. Qed.
Print Assumptions c12_front_select_is_first_token.

(** a SELECT (direct, or prepared through this proxy) and every PREPARE go out raw *)
Theorem c12_front_select_never_reencoded : forall e c prep cl frame lb op f state msg,
  fst (front e c prep cl frame lb) = AForward op f state true msg -> f = FwdRaw.
Proof. exact select_never_reencoded. Qed.
Print Assumptions c12_front_select_never_reencoded.

Theorem c12_front_prepared_select_known : forall hist i text ks id,
  functional_hist hist -> In (i, text, ks) hist -> id_key i = id_key id -> prepare_is_handled text ks = false ->
  (starts_with_select text = true -> id_select (prepared_of hist) id = true) /\
  (starts_with_select text = false -> id_select (prepared_of hist) id = false).
Proof. exact prepared_select_known. Qed.
Print Assumptions c12_front_prepared_select_known.

(** re-encoded iff non-SELECT with a listed consistency; the new body is the old envelope and
    message with the override consistency (C12's byte-level theorems then apply to it) *)
Theorem c12_front_reenc_iff : forall e c prep cl frame lb op f state sel m,
  fst (front e c prep cl frame lb) = AForward op f state sel (FReq m) ->
  f <> FwdReject /\
  ((exists b l, f = FwdReenc b l) <-> (sel = false /\ is_unsupported (ocfg_of c) (msg_cl m) = true)) /\
  (f = FwdRaw <-> (sel = true \/ is_unsupported (ocfg_of c) (msg_cl m) = false)).
Proof. exact forward_reenc_iff. Qed.
Print Assumptions c12_front_reenc_iff.

Theorem c12_front_reenc_body : forall e c prep cl frame lb op b l state sel m,
  fst (front e c prep cl frame lb) = AForward op (FwdReenc b l) state sel (FReq m) ->
  exists h r body rest0 pl rest,
    decode_header frame = inr (h, r) /\ get_z (h_len h) r = Some (body, rest0) /\
    split_envelope (h_flags h) (logical lb body) = Some (pl, rest) /\ decode_msg op (h_version h) rest = Ok m /\
    b = reenc_body (h_version h) (h_flags h) pl (set_cl m (override (ocfg_of c))) /\ l = Z.of_nat (length b).
Proof. exact forward_reenc_body. Qed.
Print Assumptions c12_front_reenc_body.

(** Non-vacuity: EXECUTE at a listed consistency of a prepared SELECT is raw, of a prepared INSERT
    re-encoded, of an id the proxy never saw prepared re-encoded as well (unknown => not a SELECT). *)
Example c12_front_example :
  map (fun id => match fst (front run_env ex_cfg ex_prep init_fclient (mk_frame 4 0 10 (execute_body id 6)) None) with
                 | AForward 10 FwdRaw _ true _ => 0 | AForward 10 (FwdReenc _ _) _ false _ => 1 | _ => 2 end)
      [id_b; id_a; repeat 1 16] = [0; 1; 1].
Proof. vm_compute. reflexivity. Qed.
