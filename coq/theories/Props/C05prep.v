(** ---- added: properties C01, C02, C04, C05 and C08 over the integrated request-path model EXTENDED WITH
    THE PREPARED-STATEMENT PATH, Model/CorePrep.v (many requests, many connections, stream-id tables, retries,
    closes, failed writes, and: UNPREPARED answers, the proxy's own re-PREPARE standing in for a request --
    possibly nested --, its answers, its failure to be sent).  Every theorem is about
    [run_events es] for an ARBITRARY event list [es] (every interleaving the environment can produce) of the
    repaired code.  Proofs: Proofs/CorePrepProofs.v, Proofs/CorePrepProofs2.v.
    NOTE for whoever merges this into Props/C0x.v: Model.Core and Model.CorePrep define the same names
    ([run_events], [world], ...): import only one of them per file, or keep this file separate. ---- *)
From Coq Require Import List ZArith NArith Bool Permutation.
From CqlProxy Require Import Lib.Val Gen.Tables Model.Retry Model.CorePrep Proofs.CorePrepProofs Proofs.CorePrepProofs2.
Import ListNotations.
Local Open Scope N_scope.

(** * C05 -- retries follow the query plan, are bounded, and "no hosts" means no hosts *)

(** P4.  For a request started with plan [p]: every host it was written to is in [p]; the hosts it was written
    to, in order, are a subsequence [hs'] of [p] (by position: no plan entry is used twice, none out of order) with
    [m] in-place repetitions ([stut m hs hs']): re-sends to the same host.  There is at most one repetition for the
    single RetrySame of the policy (allowed only at retry count 0 -- derived from [policy_eq_doc]) plus one per
    successful non-nested re-PREPARE ([prep_results es r]: RESULT frames delivered to an [EPrep r false] entry).
    So at most [length p + 1 + prep_results es r] writes. *)
Theorem c05_prep_writes_bounded_and_in_plan_order : forall es r cl cs idem p,
  first_start es r = Some (cl, cs, idem, p) ->
  let hs := whosts (run_events es) r in
  (forall h, In h hs -> In h p) /\
  (exists hs' m, subseq hs' p /\ stut m hs hs' /\ (m <= 1 + prep_results es r)%nat) /\
  (length (backend_writes (run_events es) r) <= length p + 1 + prep_results es r)%nat.
Proof. exact prep_writes_bounded_and_in_plan_order. Qed.
Print Assumptions c05_prep_writes_bounded_and_in_plan_order.

(** what [stut] means for lengths and membership *)
Theorem c05_prep_stut_meaning : forall n a b, stut n a b -> length a = (length b + n)%nat /\ forall x, In x a -> In x b.
Proof. intros n a b H. split; [exact (stut_length n a b H)|intros x; exact (stut_In n a b x H)]. Qed.
Print Assumptions c05_prep_stut_meaning.

(** P4c.  In any state in which "Proxy exhausted query plan ..." has been written for [r], [r] is not registered on
    any connection under either guise (no attempt and no re-PREPARE in flight, no notification outstanding) and
    its plan is exhausted. *)
Theorem c05_prep_no_hosts_only_when_not_in_flight : forall es c s r,
  In (ToClient c s r CNoHosts) (w_out (run_events es)) ->
  (forall k s' ent, In (s', ent) (live (run_events es) k) -> entry_req ent <> r) /\
  (forall k cn ent, lookupN k (w_conns (run_events es)) = Some cn -> In ent (b_tonotify cn) -> entry_req ent <> r) /\
  exists q, lookupN r (w_reqs (run_events es)) = Some q /\ q_plan q = [] /\ q_done q = true.
Proof. exact prep_no_hosts_only_when_not_in_flight. Qed.
Print Assumptions c05_prep_no_hosts_only_when_not_in_flight.

Example c05_prep_example :
  (whosts (run_events exA) 7, prep_results exA 7, whosts (run_events exB) 7, prep_results exB 7) =
  ([10; 10; 20], 1%nat, [10; 20], 0%nat) /\
  subseq [10; 20] [10; 20] /\ stut 1 [10; 10; 20] [10; 20].
Proof. exact ex_plan_order. Qed.
Example c05_prep_example_bound_tight :
  let es := [EConnect 1 10 2; EStart 7 0 5%Z true [10] [Some (1, true)];
             EFrame 1 0 (FUnprepared true true) []; EFrame 1 1 FResult [Some (1, true)];
             EFrame 1 0 (FError read_timeout) [Some (1, true)]] in
  (backend_writes (run_events es) 7, prep_results es 7) = ([(1, 0); (1, 0); (1, 1)], 1%nat).
Proof. exact ex_bound_tight. Qed.
Example c05_prep_example_no_hosts :
  let es := firstn 3 exB ++ [EFrame 1 0 (FUnprepared true false) [None; Some (2, false)]] in
  (client_replies (run_events es) 7, live (run_events es) 1, live (run_events es) 2,
   option_map q_plan (lookupN 7 (w_reqs (run_events es)))) =
  ([ToClient 0 5%Z 7 CNoHosts], [], [], Some []).
Proof. exact ex_no_hosts. Qed.

