(** ---- added: properties C01, C02, C04, C05 and C08 over the integrated request-path model EXTENDED WITH
    THE PREPARED-STATEMENT PATH, Model/CorePrep.v (many requests, many connections, stream-id tables, retries,
    closes, failed writes, and: UNPREPARED answers, the proxy's own re-PREPARE standing in for a request --
    possibly nested --, its answers, its failure to be sent).  Every theorem is about
    [run_events es] for an ARBITRARY event list [es] (every interleaving the environment can produce) of the
    repaired code.  Proofs: Proofs/CorePrepProofs.v, Proofs/CorePrepProofs2.v.
    NOTE for whoever merges this into Props/C0x.v: Model.Core and Model.CorePrep define the same names
    ([run_events], [world], ...): import only one of them per file, or keep this file separate. ---- *)
From Coq Require Import List ZArith NArith Bool Permutation.
From CqlProxy Require Import Lib.Val Gen.Tables Model.Retry Model.CorePrep Proofs.CorePrepProofs Proofs.CorePrepProofs2.
Import ListNotations.
Local Open Scope N_scope.

(** * C02 -- a response is delivered only to the request (stream, client) that caused it *)

(** P2a.  For the connection created by [EConnect k h n], the ids in the stream-id channel and the ids in the
    pending table (entries of both kinds) are together exactly 0..n-1, each once -- open or closing, whatever was
    sent, prepared, answered, failed to be written. *)
Theorem c02_prep_stream_ids_partition : forall es k,
  match first_connect es k with
  | Some (h, n) =>
      exists c, lookupN k (w_conns (run_events es)) = Some c /\ b_host c = h /\
                Permutation (b_free c ++ map fst (b_pending c)) (map N.of_nat (seq 0 n)) /\
                NoDup (b_free c ++ map fst (b_pending c))
  | None => lookupN k (w_conns (run_events es)) = None
  end.
Proof. exact prep_stream_ids_partition. Qed.
Print Assumptions c02_prep_stream_ids_partition.

(** P2b.  Whenever a backend frame that arrived on connection [k], stream [bs] is forwarded to a client as the
    answer to request [r] (whatever its kind: RESULT, ERROR, UNPREPARED), the last thing written to [k] under stream
    [bs] before that was request [r] itself: no other request, and no PREPARE of the proxy, was written on
    ([k], [bs]) in between -- the answer to the proxy's own PREPARE is never forwarded. *)
Theorem c02_prep_answer_routes_to_its_request : forall es pre c s r k bs kd post,
  w_out (run_events es) = pre ++ ToClient c s r (CFrame k bs kd) :: post ->
  exists pre1 post1, pre = pre1 ++ ToBackend k bs r :: post1 /\
                     forall r', ~ In (ToBackend k bs r') post1 /\ ~ In (ToBackendPrepare k bs r') post1.
Proof. exact prep_answer_routes_to_its_request. Qed.
Print Assumptions c02_prep_answer_routes_to_its_request.

(** ... and it was forwarded by the step in which a frame of that kind arrived on ([k], [bs]) for [EReq r]. *)
Theorem c02_prep_forwarded_frame_is_the_delivered_one : forall es pre c s r k bs kd post,
  w_out (run_events es) = pre ++ ToClient c s r (CFrame k bs kd) :: post ->
  exists es1 f o es2, es = es1 ++ EFrame k bs f o :: es2 /\ fkind_of f = Some kd /\
                      lookupN bs (live (run_events es1) k) = Some (EReq r) /\ w_out (run_events es1) = pre.
Proof. exact prep_forwarded_frame_is_the_delivered_one. Qed.
Print Assumptions c02_prep_forwarded_frame_is_the_delivered_one.

(** P2c.  An entry is registered on an open connection under stream [s] only if it was written there -- the
    request for [EReq r], the proxy's PREPARE for [EPrep r _] ([wout k s (tag ent)]) -- and that write is the last
    one of either kind on that (connection, stream). *)
Theorem c02_prep_registered_only_where_written : forall es k s ent,
  In (s, ent) (live (run_events es) k) ->
  exists pre post, w_out (run_events es) = pre ++ wout k s (tag ent) :: post /\
                   forall r', ~ In (ToBackend k s r') post /\ ~ In (ToBackendPrepare k s r') post.
Proof. exact prep_registered_only_where_written. Qed.
Print Assumptions c02_prep_registered_only_where_written.

Example c02_prep_example :
  (first_connect exA 1,
   option_map (fun c => (b_free c, b_pending c)) (lookupN 1 (w_conns (run_events exA))),
   option_map (fun c => (b_free c, b_pending c)) (lookupN 1 (w_conns (run_events (firstn 4 exA))))) =
  (Some (10, 2%nat), Some ([1; 0], []), Some ([0], [(1, EPrep 7 false)])).
Proof. exact ex_ids. Qed.
Example c02_prep_example_route :
  exists pre post, w_out (run_events exA) = pre ++ ToClient 0 5%Z 7 (CFrame 2 0 KUnprepared) :: post /\
                   last_write pre 2 0 = Some (false, 7).
Proof. exact ex_route. Qed.
Example c02_prep_example_live :
  let w := run_events (firstn 5 exB) in
  In (0, EPrep 7 true) (live w 1) /\ last_write (w_out w) 1 0 = Some (true, 7) /\
  last_write (w_out (run_events (firstn 3 exB))) 1 0 = Some (false, 7).
Proof. exact ex_live_written. Qed.

