(** * C07 / C16 / C19 (additions) — how the proxy opens a BACKEND connection (Model/Handshake.v; proofs in
    Proofs/HandshakeProofs.v).  Headlines only.

    The backend is an ARBITRARY function [list hframe -> hframe -> bresp] (history so far, this frame -> answer);
    the theorems quantify over all of them unless they say [simple].  [answers be l] replays the frames [l] against
    [be], each frame together with the frames before it ([hs_answers_replay]); [rej x] is the pair
    (STARTUP x, "unsupported protocol version"). *)
From Coq Require Import List ZArith NArith Bool.
From CqlProxy Require Import Lib.Val Lib.Util Model.Handshake Proofs.HandshakeProofs.
Import ListNotations.
Local Open Scope N_scope.

(** ** the replay function is what it says *)
Theorem hs_answers_replay : forall be l i f,
  nth_error l i = Some f -> nth_error (answers be l) i = Some (f, be (firstn i l) f).
Proof. exact answers_nth. Qed.
Print Assumptions hs_answers_replay.

(** ** the shape of every handshake, whatever the backend does and whatever version is requested:
    rejected STARTUPs along the downgrade chain, one last STARTUP (its version is the result), and a tail of one of
    the eleven shapes of [tail_shape] *)
Theorem hs_transcript_shape : forall be v auth ev,
  let s := run_handshake be v auth ev in
  exists pre rest a post,
    chain 300 v = pre ++ h_version s :: rest /\
    answers be (sent s) = map rej pre ++ (FStartup (h_version s), a) :: post /\
    sent s = map FStartup pre ++ FStartup (h_version s) :: map fst post /\
    tail_shape (h_version s) auth ev a post (h_out s).
Proof. exact transcript_shape. Qed.
Print Assumptions hs_transcript_shape.

(** ** H1: the loop ends *)
Theorem hs_handshake_terminates : forall be v auth ev, v < 256 -> h_out (run_handshake be v auth ev) <> HOutOfFuel.
Proof. exact handshake_terminates. Qed.
Print Assumptions hs_handshake_terminates.

(** ... the premise [v < 256] is not needed *)
Theorem hs_handshake_terminates_any_version : forall be v auth ev, h_out (run_handshake be v auth ev) <> HOutOfFuel.
Proof. exact handshake_terminates_any_version. Qed.
Print Assumptions hs_handshake_terminates_any_version.

(** general form: if the chain from [v] stops within the fuel, the loop never runs out of it *)
Theorem hs_enough_fuel_general : forall fuel be hist v auth ev,
  (length (chain fuel v) <= fuel)%nat -> h_out (handshake fuel be hist v auth ev) <> HOutOfFuel.
Proof. exact enough_fuel_general. Qed.
Print Assumptions hs_enough_fuel_general.

(** 196 is exact (v = 1) *)
Theorem hs_chain_length_bound : forall v, v < 256 -> (length (chain 300 v) <= 196)%nat.
Proof. exact chain_length_bound. Qed.
Print Assumptions hs_chain_length_bound.

Theorem hs_chain_length_any : forall v, (length (chain 300 v) <= 197)%nat.
Proof. exact chain_length_any. Qed.
Print Assumptions hs_chain_length_any.

Theorem hs_chain_length_known : forall v, In v [2; 3; 4; 5; 65; 66] -> (length (chain 300 v) <= 5)%nat.
Proof. exact chain_length_known. Qed.
Print Assumptions hs_chain_length_known.

Theorem hs_chain_never_returns : forall v, ~ In v (tl (chain 300 v)).
Proof. exact chain_never_returns. Qed.
Print Assumptions hs_chain_never_returns.

(** ** H2: the versions asked are a prefix of the downgrade chain (no premise on [v] needed) *)
Theorem hs_startups_follow_chain : forall be v auth ev,
  is_prefix_N (startups (sent (run_handshake be v auth ev))) (chain 300 v) = true.
Proof. exact startups_follow_chain. Qed.
Print Assumptions hs_startups_follow_chain.

(** ... and the last one asked is the resulting version *)
Theorem hs_startups_exact : forall be v auth ev,
  let s := run_handshake be v auth ev in
  exists pre rest, startups (sent s) = pre ++ [h_version s] /\ chain 300 v = startups (sent s) ++ rest.
Proof. exact startups_exact. Qed.
Print Assumptions hs_startups_exact.

(** ** H3: success means the last STARTUP was accepted and every earlier one was refused for its version *)
Theorem hs_success_means_last_startup_accepted : forall be v auth ev,
  let s := run_handshake be v auth ev in
  h_out s = HOk ->
  exists pre a post,
    answers be (sent s) = map rej pre ++ (FStartup (h_version s), a) :: post /\
    (a = RReady \/ exists name, a = RAuthenticate name) /\
    startups (map fst post) = [].
Proof. exact success_means_last_startup_accepted. Qed.
Print Assumptions hs_success_means_last_startup_accepted.

(** H3s: against a [simple] backend the result is the FIRST version of the chain that the backend accepts *)
Theorem hs_simple_success_first_accepted : forall b v auth ev,
  let s := run_handshake (simple b) v auth ev in
  h_out s = HOk ->
  memv (h_version s) (accepts b) = true /\
  find (fun x => memv x (accepts b)) (chain 300 v) = Some (h_version s).
Proof. exact simple_success_first_accepted. Qed.
Print Assumptions hs_simple_success_first_accepted.

(** ... and conversely (for either value of [events]: a simple backend answers REGISTER with READY) *)
Theorem hs_simple_accepted_means_success : forall b v auth ev w,
  need_auth b = None ->
  find (fun x => memv x (accepts b)) (chain 300 v) = Some w ->
  let s := run_handshake (simple b) v auth ev in h_out s = HOk /\ h_version s = w.
Proof. exact simple_accepted_means_success. Qed.
Print Assumptions hs_simple_accepted_means_success.

(** ** H4: the callers' version rules *)
Theorem hs_connect_exact_one_startup : forall be v auth ev,
  connect_exact be v auth ev = true -> startups (sent (run_handshake be v auth ev)) = [v].
Proof. exact connect_exact_one_startup. Qed.
Print Assumptions hs_connect_exact_one_startup.

Theorem hs_connect_initial_version_in_chain : forall be v auth w,
  connect_initial be v auth = Some w -> In w (chain 300 v).
Proof. exact connect_initial_version_in_chain. Qed.
Print Assumptions hs_connect_initial_version_in_chain.

(** ** H5: credentials *)
Theorem hs_no_token_without_credentials : forall be v ev, tokens_sent (sent (run_handshake be v None ev)) = [].
Proof. exact no_token_without_credentials. Qed.
Print Assumptions hs_no_token_without_credentials.

Theorem hs_no_token_unless_asked : forall be v auth ev,
  let s := run_handshake be v auth ev in
  tokens_sent (sent s) <> [] ->
  exists pre name post,
    answers be (sent s) = map rej pre ++ (FStartup (h_version s), RAuthenticate name) :: post.
Proof. exact no_token_unless_asked. Qed.
Print Assumptions hs_no_token_unless_asked.

Theorem hs_tokens_are_plain_or_the_token : forall be v c ev t,
  In t (tokens_sent (sent (run_handshake be v (Some c) ev))) -> t = plain \/ t = make_token c.
Proof. exact tokens_are_plain_or_the_token. Qed.
Print Assumptions hs_tokens_are_plain_or_the_token.

Theorem hs_at_most_two_tokens : forall be v auth ev,
  (length (tokens_sent (sent (run_handshake be v auth ev))) <= 2)%nat.
Proof. exact at_most_two_tokens. Qed.
Print Assumptions hs_at_most_two_tokens.

Theorem hs_password_after_plain_only_on_plain_start : forall be v c ev t1 t2,
  let s := run_handshake be v (Some c) ev in
  tokens_sent (sent s) = [t1; t2] ->
  t2 = make_token c /\ In (FAuthResponse (h_version s) t1, RAuthChallenge plain_start) (answers be (sent s)).
Proof. exact password_after_plain_only_on_plain_start. Qed.
Print Assumptions hs_password_after_plain_only_on_plain_start.

(** the first token is PLAIN exactly for the DSE authenticator; ANY other authenticator name gets the password *)
Theorem hs_dse_gets_plain_first : forall be v c ev name t ts,
  let s := run_handshake be v (Some c) ev in
  In (FStartup (h_version s), RAuthenticate name) (answers be (sent s)) ->
  tokens_sent (sent s) = t :: ts ->
  t = initial_response c name /\ (t = plain <-> name = dse_authenticator)
  /\ (name <> dse_authenticator -> t = make_token c).
Proof. exact dse_gets_plain_first. Qed.
Print Assumptions hs_dse_gets_plain_first.

(** ** H6: REGISTER *)
Theorem hs_register_iff_events : forall be v auth ev,
  let s := run_handshake be v auth ev in
  h_out s = HOk -> (ev = true <-> exists l, sent s = l ++ [FRegister (h_version s)]).
Proof. exact register_iff_events. Qed.
Print Assumptions hs_register_iff_events.

Theorem hs_no_register_without_events : forall be v auth x,
  ~ In (FRegister x) (sent (run_handshake be v auth false)).
Proof. exact no_register_without_events. Qed.
Print Assumptions hs_no_register_without_events.

(** ** H7 *)
Theorem hs_frames_after_startup_carry_the_negotiated_version : forall be v auth ev,
  let s := run_handshake be v auth ev in
  (forall x t, In (FAuthResponse x t) (sent s) -> x = h_version s) /\
  (forall x, In (FRegister x) (sent s) -> x = h_version s).
Proof. exact frames_after_startup_carry_the_negotiated_version. Qed.
Print Assumptions hs_frames_after_startup_carry_the_negotiated_version.

(** ** H8 / H9: the chains of the versions the proxy can be configured with, and two observations *)
Theorem hs_known_versions_chain :
  chain 300 66 = [66; 65; 4; 3; 2] /\ chain 300 65 = [65; 4; 3; 2] /\ chain 300 5 = [5; 4; 3; 2]
  /\ chain 300 4 = [4; 3; 2] /\ chain 300 3 = [3; 2] /\ chain 300 2 = [2].
Proof. exact known_versions_chain. Qed.
Print Assumptions hs_known_versions_chain.

(** a backend that only speaks v5 cannot be reached when DSEv2 (or DSEv1) is requested *)
Theorem hs_dse1_skips_v5 : ~ In 5 (chain 300 66).
Proof. exact dse1_skips_v5. Qed.
Print Assumptions hs_dse1_skips_v5.

Theorem hs_v5_only_backend_unreachable_from_dse_refuted :
  exists b v w, memv w (accepts b) = true /\ w < v /\ need_auth b = None
    /\ h_out (run_handshake (simple b) v None false) = HCqlError
    /\ startups (sent (run_handshake (simple b) v None false)) = [66; 65; 4; 3; 2].
Proof. exact v5_only_backend_unreachable_from_dse_refuted. Qed.
Print Assumptions hs_v5_only_backend_unreachable_from_dse_refuted.

Theorem hs_negotiates_highest_accepted_refuted :
  exists b v w, memv w (accepts b) = true /\ w < v /\
    h_out (run_handshake (simple b) v None false) = HOk /\ h_version (run_handshake (simple b) v None false) < w.
Proof. exact negotiates_highest_accepted_refuted. Qed.
Print Assumptions hs_negotiates_highest_accepted_refuted.

(** a requested version below 2 walks 1, 0, 255, 254, ... 66, 65, 4, 3, 2 (196 STARTUPs against a backend that
    refuses them all).  Configuration parsing never produces such a version. *)
Theorem hs_wrap_observation :
  length (chain 300 1) = 196%nat /\ firstn 4 (chain 300 1) = [1; 0; 255; 254] /\ length (chain 300 0) = 195%nat.
Proof. exact wrap_observation. Qed.
Print Assumptions hs_wrap_observation.
