(** * C03 — forwarded requests and responses are byte-transparent except for the stream id. *)
From Coq Require Import List ZArith NArith Bool.
From CqlProxy Require Import Lib.Val Lib.Util Lib.Wire Model.Frame Proofs.FrameProofs.
Import ListNotations.
Local Open Scope N_scope.

(** For every frame that [DecodeRawFrame] accepts (any version from 3 up, direction, flag
    byte -- tracing, custom payload, warning, compressed, beta --, opcode, and any body: the
    body is an arbitrary byte list, so every compression algorithm and payload content is
    covered), what the proxy writes when forwarding it with another stream id is, byte for
    byte, what arrived with bytes 2-3 replaced.  The same function is used towards the
    backend (requestSender.Send) and towards the client (request.sendRaw). *)
Theorem c03_forward_only_stream_differs :
  forall b f s, wf_bytes b -> decode_raw_frame b = Some (f, []) -> 3 <= h_version (rf_header f) ->
    forward f s = replace_stream b s.
Proof. exact forward_only_stream_differs. Qed.
Print Assumptions c03_forward_only_stream_differs.

(** In particular version, flags, opcode, length and every body byte are unchanged. *)
Theorem c03_everything_but_stream_kept :
  forall b f s, wf_bytes b -> decode_raw_frame b = Some (f, []) -> 3 <= h_version (rf_header f) ->
    firstn 2 (forward f s) = firstn 2 b /\ skipn 4 (forward f s) = skipn 4 b.
Proof.
  intros b f s Hw Hd Hv. rewrite (forward_only_stream_differs b f s Hw Hd Hv).
  unfold replace_stream.
  unfold decode_raw_frame in Hd. destruct (decode_header b) as [e|[h r]] eqn:E; [discriminate|].
  unfold decode_header in E. destruct b as [|x [|y b']]; try discriminate.
  split; reflexivity.
Qed.
Print Assumptions c03_everything_but_stream_kept.

(** Non-vacuity: a v4 QUERY with tracing and custom-payload flags. *)
Example c03_example :
  let b := [4; 6; 0; 9; 7; 0; 0; 0; 3; 1; 2; 3] in
  match decode_raw_frame b with
  | Some (f, []) => forward f 513 = [4; 6; 2; 1; 7; 0; 0; 0; 3; 1; 2; 3]
  | _ => False
  end.
Proof. vm_compute. reflexivity. Qed.

(** ---- added: stronger statements (proofs in Proofs/*2.v) ---- *)
From Coq Require Import List ZArith NArith Bool.
From CqlProxy Require Import Lib.Val Lib.Util Lib.Wire Model.Frame Proofs.FrameProofs Proofs.FrameProofs2.

(** The header codec is a bijection between well-formed headers ([wf_header]: supported
    version 2/3/4/5/DSEv1/DSEv2, one flag byte, a stream id that fits the version's field -- 16
    bits from v3, 8 bits in v2 --, an opcode of the header's direction, an int32 length) and
    their encodings: on well-formed bytes [decode_header] accepts exactly these, and the two
    functions are mutually inverse. *)
Theorem c03_header_roundtrip_both_ways :
  forall b h r, wf_bytes b -> (decode_header b = inr (h, r) <-> wf_header h /\ b = encode_header h ++ r).
Proof. exact decode_header_iff. Qed.
Print Assumptions c03_header_roundtrip_both_ways.

(** decode after encode needs no assumption on what follows the header *)
Theorem c03_header_decode_encode :
  forall h r, wf_header h -> decode_header (encode_header h ++ r) = inr (h, r).
Proof. exact decode_encode_header. Qed.
Print Assumptions c03_header_decode_encode.

(** Which inputs are excluded, and why -- for any byte list: too short (fewer than 2 bytes, or
    fewer than the 9 -- v2: 8 -- header bytes), a version outside the supported set, an unassigned
    opcode, an opcode of the other direction. *)
Theorem c03_header_rejections :
  forall b e, decode_header b = inl e ->
  let v := hd 0 b mod 128 in
  let op := nth (if (3 <=? v)%N then 4%nat else 3%nat) b 0 in
  match e with
  | HShort => (length b < 2)%nat \/
              (version_supported v = true /\ (length b < (if (3 <=? v)%N then 9 else 8))%nat)
  | HBadVersion v' => (2 <= length b)%nat /\ v' = v /\ version_supported v = false
  | HBadOpcode => version_supported v = true /\ opcode_is_request op = false /\ opcode_is_response op = false
  | HWrongDirection => version_supported v = true /\
                       ((128 <=? hd 0 b) = true /\ opcode_is_request op = true \/
                        (128 <=? hd 0 b) = false /\ opcode_is_response op = true)
  end.
Proof. exact decode_header_rejects. Qed.
Print Assumptions c03_header_rejections.

(** Raw frames round-trip both ways in every supported version (v2 included), with arbitrary
    bytes following the frame left untouched. *)
Theorem c03_raw_frame_decode_encode :
  forall f rest, wf_frame f -> decode_raw_frame (encode_raw_frame f ++ rest) = Some (f, rest).
Proof. exact decode_encode_raw_frame. Qed.
Print Assumptions c03_raw_frame_decode_encode.

Theorem c03_raw_frame_encode_decode :
  forall b f rest, wf_bytes b -> decode_raw_frame b = Some (f, rest) ->
    b = encode_raw_frame f ++ rest /\ wf_frame f.
Proof. exact encode_decode_raw_frame. Qed.
Print Assumptions c03_raw_frame_encode_decode.

(** What the proxy writes when it forwards a frame with stream id [s] decodes to the SAME frame
    -- version, direction, flags, opcode, length, body -- with only the stream id replaced, and
    nothing left over: no well-formed frame is dropped or altered. *)
Theorem c03_forwarded_frame_decodes_to_same_frame :
  forall f s rest, wf_frame f -> s < (if 3 <=? h_version (rf_header f) then 65536 else 256) ->
    decode_raw_frame (forward f s ++ rest) = Some (with_stream f s, rest).
Proof. exact decode_forward. Qed.
Print Assumptions c03_forwarded_frame_decodes_to_same_frame.

(** Bytes to bytes: a frame that arrived, forwarded under another stream id and forwarded back
    under its original one (request path then response path of one stream) is restored exactly. *)
Theorem c03_forward_back_restores :
  forall b f rest s, wf_bytes b -> decode_raw_frame b = Some (f, rest) ->
    s < (if 3 <=? h_version (rf_header f) then 65536 else 256) ->
    exists f', decode_raw_frame (forward f s ++ rest) = Some (f', rest) /\
               f' = with_stream f s /\
               forward f' (h_stream (rf_header f)) ++ rest = b.
Proof. exact forward_back_restores. Qed.
Print Assumptions c03_forward_back_restores.

(** Protocol v2 (one-byte stream id), excluded above by [3 <= version]: only byte 2 changes. *)
Theorem c03_forward_only_stream_differs_v2 :
  forall b f s, wf_bytes b -> decode_raw_frame b = Some (f, []) -> h_version (rf_header f) < 3 -> s < 256 ->
    forward f s = firstn 2 b ++ [s] ++ skipn 3 b.
Proof. exact forward_only_stream_differs_v2. Qed.
Print Assumptions c03_forward_only_stream_differs_v2.
