(** * C03 — forwarded requests and responses are byte-transparent except for the stream id. *)
From Coq Require Import List ZArith NArith Bool.
From CqlProxy Require Import Lib.Val Lib.Util Lib.Wire Model.Frame Proofs.FrameProofs.
Import ListNotations.
Local Open Scope N_scope.

(** For every frame that [DecodeRawFrame] accepts (any version from 3 up, direction, flag
    byte -- tracing, custom payload, warning, compressed, beta --, opcode, and any body: the
    body is an arbitrary byte list, so every compression algorithm and payload content is
    covered), what the proxy writes when forwarding it with another stream id is, byte for
    byte, what arrived with bytes 2-3 replaced.  The same function is used towards the
    backend (requestSender.Send) and towards the client (request.sendRaw). *)
Theorem c03_forward_only_stream_differs :
  forall b f s, wf_bytes b -> decode_raw_frame b = Some (f, []) -> 3 <= h_version (rf_header f) ->
    forward f s = replace_stream b s.
Proof. exact forward_only_stream_differs. Qed.
Print Assumptions c03_forward_only_stream_differs.

(** In particular version, flags, opcode, length and every body byte are unchanged. *)
Theorem c03_everything_but_stream_kept :
  forall b f s, wf_bytes b -> decode_raw_frame b = Some (f, []) -> 3 <= h_version (rf_header f) ->
    firstn 2 (forward f s) = firstn 2 b /\ skipn 4 (forward f s) = skipn 4 b.
Proof.
  intros b f s Hw Hd Hv. rewrite (forward_only_stream_differs b f s Hw Hd Hv).
  unfold replace_stream.
  unfold decode_raw_frame in Hd. destruct (decode_header b) as [e|[h r]] eqn:E; [discriminate|].
  unfold decode_header in E. destruct b as [|x [|y b']]; try discriminate.
  split; reflexivity.
Qed.
Print Assumptions c03_everything_but_stream_kept.

(** Non-vacuity: a v4 QUERY with tracing and custom-payload flags. *)
Example c03_example :
  let b := [4; 6; 0; 9; 7; 0; 0; 0; 3; 1; 2; 3] in
  match decode_raw_frame b with
  | Some (f, []) => forward f 513 = [4; 6; 2; 1; 7; 0; 0; 0; 3; 1; 2; 3]
  | _ => False
  end.
Proof. vm_compute. reflexivity. Qed.
