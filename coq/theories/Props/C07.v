(** * C07 — requests run in the client's current keyspace, protocol version and compression. *)
From Coq Require Import List ZArith NArith Bool.
From CqlProxy Require Import Lib.Val Lib.Util Model.Lexer Model.Parser Model.Handled Model.Sessions Proofs.SessionsProofs.
Import ListNotations.
Local Open Scope N_scope.

(** After any history of operations by any number of clients, client i's keyspace is the text
    of ITS OWN last accepted USE (failed USEs and other clients' USEs do not count) and its
    compression is the one it negotiated. *)
Theorem c07_keyspace_is_last_accepted_use :
  forall ops cs i c, nth_error cs i = Some c ->
    exists c', nth_error (state_after cs ops) i = Some c' /\
               cl_keyspace c' = last_use i ops (cl_keyspace c) /\ cl_compression c' = cl_compression c.
Proof. exact keyspace_is_last_accepted_use. Qed.
Print Assumptions c07_keyspace_is_last_accepted_use.

(** A forwarded request is executed on the session whose backend connections speak the
    request's protocol version and the client's compression and have USEd the keyspace in force. *)
Theorem c07_request_runs_in_current_keyspace :
  forall cs i c v, nth_error cs i = Some c ->
    snd (step cs (ORequest i v)) =
    RanOn {| bv_keyspace := cl_keyspace c; bv_version := v; bv_compression := lower (cl_compression c) |}.
Proof. exact request_runs_in_current_keyspace. Qed.
Print Assumptions c07_request_runs_in_current_keyspace.

Theorem c07_failed_use_keeps_previous_keyspace :
  forall cs i ks, fst (step cs (OUse i ks false)) = cs.
Proof. exact failed_use_keeps_state. Qed.
Print Assumptions c07_failed_use_keeps_previous_keyspace.

Theorem c07_clients_isolated :
  forall cs o i, (match o with OUse j _ _ | ORequest j _ => j <> i end) -> nth_error (fst (step cs o)) i = nth_error cs i.
Proof. exact other_clients_untouched. Qed.
Print Assumptions c07_clients_isolated.

Theorem c07_use_reply_names_keyspace_as_backend_would :
  forall cs i c ks, nth_error cs i = Some c -> snd (step cs (OUse i ks true)) = UseOk (ident_ID (ident_of_lexed ks)).
Proof. exact use_reply_name. Qed.
Print Assumptions c07_use_reply_names_keyspace_as_backend_would.

Example c07_example :
  run_ops [fresh_client []; fresh_client (str "LZ4")]
    [OUse 0 (str "MyKs") true; OUse 1 ([34] ++ str "MyKs" ++ [34]) true; OUse 0 (str "nope") false; ORequest 0 4; ORequest 1 3]
  = [UseOk (str "myks"); UseOk (str "MyKs"); UseFailed;
     RanOn {| bv_keyspace := str "MyKs"; bv_version := 4; bv_compression := [] |};
     RanOn {| bv_keyspace := [34] ++ str "MyKs" ++ [34]; bv_version := 3; bv_compression := str "lz4" |}].
Proof. vm_compute. reflexivity. Qed.
