(** * C04 (addition) -- which requests the proxy classifies idempotent (the input [q_idem] of the
    retry models Model/Retry.v, Model/Core.v): request.checkIdempotent, the prepared metadata that
    define what an id means, and the graph rule (Model/Front.v). *)
From Coq Require Import List ZArith NArith Bool Lia.
From CqlProxy Require Import Lib.Val Lib.Util Lib.Wire Model.Parser Model.Codec Model.Frame Model.Override Model.Gate Model.Front
  Proofs.ParserProofs Proofs.FrontProofs Proofs.FrontProofs2.
Import ListNotations.
Local Open Scope N_scope.

(** A request counts as idempotent exactly when its state was fixed to idempotent at creation, or
    nothing was fixed and: QUERY -- the classifier accepts the text; EXECUTE -- the proxy holds
    metadata for the id saying idempotent; BATCH -- every child is such. *)
Theorem c04_class_sound : forall prep state m,
  check_idempotent prep state m = true <->
  state = IsIdempotent \/ (state = NotDetermined /\ msg_justified prep m).
Proof. exact class_sound. Qed.
Print Assumptions c04_class_sound.

(** At the level of a frame: a forwarded request is retried after an outcome that may have applied
    it only if it is a PREPARE, or a QUERY / EXECUTE carrying "graph-source" with the
    idempotent-graph option on, or it is justified as above. *)
Theorem c04_front_retry_justified : forall e c prep cl frame lb op f state sel msg,
  fst (front e c prep cl frame lb) = AForward op f state sel msg ->
  check_idempotent prep state msg = true ->
  op = 9 \/
  ((op = 7 \/ op = 10) /\ idem_graph c = true /\
     exists h r body rest0 pl rest, decode_header frame = inr (h, r) /\ get_z (h_len h) r = Some (body, rest0) /\
       split_envelope (h_flags h) (logical lb body) = Some (pl, rest) /\ has_graph_source pl = true) \/
  (state = NotDetermined /\ msg_justified prep msg).
Proof. exact front_retry_justified. Qed.
Print Assumptions c04_front_retry_justified.

(** The metadata of an id, after any history of PREPAREs answered through the proxy: those of
    the last PREPARE (with that id's key) for which anything was stored -- a forwarded PREPARE
    whose text the classifier parses. *)
Theorem c04_prepared_meta_sound : forall hist id m,
  lookup_meta (prepared_of hist) id = Some m ->
  exists h1 i text ks h2,
    hist = h1 ++ (i, text, ks) :: h2 /\ id_key i = id_key id /\
    prepare_is_handled text ks = false /\ snd (is_query_idempotent text) = 0 /\
    pm_idem m = fst (is_query_idempotent text) /\ pm_select m = prepare_is_select text ks /\
    Forall (fun en => entry_has_key id en = true -> entry_stored en = false) h2.
Proof. exact prepared_meta_sound. Qed.
Print Assumptions c04_prepared_meta_sound.

(** ids never prepared through the proxy have no metadata: not idempotent, not a SELECT *)
Theorem c04_unprepared_id_not_idempotent : forall hist id,
  Forall (fun en => entry_has_key id en = false \/ entry_stored en = false) hist ->
  lookup_meta (prepared_of hist) id = None /\
  id_idempotent (prepared_of hist) id = false /\ id_select (prepared_of hist) id = false.
Proof. exact unprepared_id_absent. Qed.
Print Assumptions c04_unprepared_id_not_idempotent.

(** with ids that are a function of (text, keyspace): the id's idempotency is the classifier's
    verdict on its text *)
Theorem c04_prepared_meta_functional : forall hist i text ks id,
  functional_hist hist -> In (i, text, ks) hist -> id_key i = id_key id -> prepare_is_handled text ks = false ->
  id_idempotent (prepared_of hist) id = fst (is_query_idempotent text) /\
  id_select (prepared_of hist) id = (prepare_is_select text ks && (snd (is_query_idempotent text) =? 0)).
Proof. exact prepared_meta_functional. Qed.
Print Assumptions c04_prepared_meta_functional.

(** REFUTED: "the metadata of an id are those of the LAST successful PREPARE of that id".  A parse
    error of the classifier stores nothing, so an earlier entry for the same id survives. *)
Theorem c04_prepared_meta_last_refuted :
  exists hist h1 i text ks id,
    hist = h1 ++ [(i, text, ks)] /\ id_key i = id_key id /\ prepare_is_handled text ks = false /\
    fst (is_query_idempotent text) = false /\
    id_idempotent (prepared_of hist) id = true.
Proof. exact prepared_meta_last_refuted. Qed.
Print Assumptions c04_prepared_meta_last_refuted.

(** the graph rule, for QUERY and EXECUTE *)
Theorem c04_graph_rule : forall e c prep cl frame lb op f state sel msg,
  fst (front e c prep cl frame lb) = AForward op f state sel msg -> op = 7 \/ op = 10 ->
  exists h r body rest0 pl rest,
    decode_header frame = inr (h, r) /\ get_z (h_len h) r = Some (body, rest0) /\
    split_envelope (h_flags h) (logical lb body) = Some (pl, rest) /\
    (has_graph_source pl = true ->
       (state = IsIdempotent <-> idem_graph c = true) /\ (state = NotIdempotent <-> idem_graph c = false) /\
       check_idempotent prep state msg = idem_graph c) /\
    (has_graph_source pl = false -> state = NotDetermined).
Proof. exact graph_rule. Qed.
Print Assumptions c04_graph_rule.

(** REFUTED for BATCH: a BATCH carrying "graph-source" with the option off is classified by its
    children (client.Receive ignores the payload of a BATCH). *)
Theorem c04_graph_rule_batch_refuted :
  exists c frame, idem_graph c = false /\
    match decode_header frame with
    | inr (h, r) => match split_envelope (h_flags h) r with Some (pl, _) => has_graph_source pl = true | None => False end
    | inl _ => False
    end /\
    match fst (front run_env c [] init_fclient frame None) with
    | AForward 13 _ NotDetermined false msg => check_idempotent [] NotDetermined msg = true
    | _ => False
    end.
Proof. exact graph_rule_batch_refuted. Qed.
Print Assumptions c04_graph_rule_batch_refuted.

(** the model passes the executable predicate the implementation is judged by *)
Theorem c04_run_front_holds : forall input,
  functional_hist (front_hist_of input) -> forwarded_only (front_hist_of input) ->
  holds_front input (run_front input) = B [].
Proof. exact run_front_holds. Qed.
Print Assumptions c04_run_front_holds.

Theorem c04_run_front_holds_refuted :
  forwarded_only (front_hist_of stale_input) /\
  run_front stale_input = L [I 3; I 0; I 1] /\
  holds_front stale_input (run_front stale_input) = B (str "non-idempotent-or-unknown-statement-was-retried").
Proof. exact run_front_holds_refuted. Qed.
Print Assumptions c04_run_front_holds_refuted.

(** Non-vacuity: an unparseable QUERY, an EXECUTE of an unknown id and a counter-like batch child are
    not idempotent; a plain INSERT and a prepared plain INSERT are. *)
Example c04_front_example :
  map (fun m => check_idempotent ex_prep NotDetermined (FReq m))
    [ MQuery {| q_query := str "garbage"; q_cl := 1; q_params := [] |};
      MExecute {| x_id := repeat 1 16; x_rmid := []; x_cl := 1; x_params := [] |};
      MBatch {| b_type := 0; b_children := [ {| ch_id := QStr ins1; ch_values := [] |}; {| ch_id := QId id_c; ch_values := [] |} ]; b_cl := 1; b_params := [] |};
      MQuery {| q_query := ins1; q_cl := 1; q_params := [] |};
      MExecute {| x_id := id_a; x_rmid := []; x_cl := 1; x_params := [] |} ]
  = [false; false; false; true; true].
Proof. vm_compute. reflexivity. Qed.
