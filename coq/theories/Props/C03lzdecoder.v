(** * Lz4 — the proxy's own LZ4 block decoder (codecs/lz4.go uncompressLz4Block): headline theorems.
    Proofs in Proofs/Lz4Proofs.v.  Used by C03 (every valid block that fits the stated length is decoded to what the
    format says) and C17 (no body makes the decoder panic or run forever).
    [impl false] is the Go code, [impl true] the seeded weak guard C17-m13, [spec] the block format. *)
From Coq Require Import List ZArith NArith Bool.
From CqlProxy Require Import Lib.Val Lib.Util Model.Lz4 Proofs.Lz4Proofs.
Import ListNotations.

(** ** L1. no body and no stated length make the decoder panic *)
Theorem lz4_impl_never_panics : forall src cap, impl false src cap <> DPanic.
Proof. exact impl_never_panics. Qed.
Print Assumptions lz4_impl_never_panics.

Theorem lz4_impl_decode_never_panics : forall fuel src out cap, impl_decode false fuel src out cap <> DPanic.
Proof. exact impl_decode_never_panics. Qed.
Print Assumptions lz4_impl_decode_never_panics.

(** ** L2. what is accepted is a valid block, decoded to what the format says, within the stated length *)
Theorem lz4_impl_sound : forall src cap out, impl false src cap = DOk out -> spec src = Some out /\ length out <= cap.
Proof. exact impl_sound. Qed.
Print Assumptions lz4_impl_sound.

(** ** L3. every valid block whose output fits the stated length is accepted *)
Theorem lz4_impl_complete : forall src cap out, spec src = Some out -> length out <= cap -> impl false src cap = DOk out.
Proof. exact impl_complete. Qed.
Print Assumptions lz4_impl_complete.

(** ** L4. exactly the other bodies are rejected *)
Theorem lz4_impl_rejects_iff : forall src cap,
  impl false src cap = DErr <-> ~ (exists out, spec src = Some out /\ length out <= cap).
Proof. exact impl_rejects_iff. Qed.
Print Assumptions lz4_impl_rejects_iff.

(** the property the harness checks of the Go code holds of the model, for every input *)
Theorem lz4_run_holds : forall input, holds_lz4 input (run_lz4 input) = B [].
Proof. exact run_lz4_holds. Qed.
Print Assumptions lz4_run_holds.

(** ** L5. the copy in pieces of at most [offset] bytes is the byte-by-byte copy, overlaps included *)
Theorem lz4_copy_chunks_is_copy_bytes : forall n out offset cap,
  0 < offset -> offset <= length out -> length out + n <= cap ->
  copy_chunks (S n) n out offset cap = Some (copy_bytes n out offset).
Proof. exact copy_chunks_is_copy_bytes. Qed.
Print Assumptions lz4_copy_chunks_is_copy_bytes.

Theorem lz4_copy_chunks_is_copy_bytes_fuel : forall fuel n out offset cap,
  n < fuel -> 0 < offset -> offset <= length out -> length out + n <= cap ->
  copy_chunks fuel n out offset cap = Some (copy_bytes n out offset).
Proof. exact copy_chunks_is_copy_bytes_fuel. Qed.
Print Assumptions lz4_copy_chunks_is_copy_bytes_fuel.

(** ** L6. the weak guard (C17-m13) panics, and that is all it does differently *)
Theorem lz4_weak_guard_panics_refuted : exists src cap, impl true src cap = DPanic.
Proof. exact weak_guard_panics_refuted. Qed.
Print Assumptions lz4_weak_guard_panics_refuted.

Theorem lz4_weak_guard_exact : forall src cap,
  impl true src cap = impl false src cap \/ (impl true src cap = DPanic /\ impl false src cap = DErr).
Proof. exact weak_guard_exact. Qed.
Print Assumptions lz4_weak_guard_exact.

Theorem lz4_weak_guard_same_unless_panic : forall src cap, impl true src cap <> DPanic -> impl true src cap = impl false src cap.
Proof. exact weak_guard_same_unless_panic. Qed.
Print Assumptions lz4_weak_guard_same_unless_panic.

Theorem lz4_weak_guard_differs_only_near_the_end : forall src cap,
  impl true src cap <> DPanic -> impl true src cap = impl false src cap \/ impl false src cap = DErr.
Proof. exact weak_guard_differs_only_near_the_end. Qed.
Print Assumptions lz4_weak_guard_differs_only_near_the_end.

Theorem lz4_weak_guard_panics_only_where_rejected : forall src cap, impl true src cap = DPanic -> impl false src cap = DErr.
Proof. exact weak_guard_panics_only_where_rejected. Qed.
Print Assumptions lz4_weak_guard_panics_only_where_rejected.

(** ** L7. neither decoder depends on the fuel *)
Theorem lz4_fuel_independence : forall f1 f2 src out, length src < f1 -> length src < f2 ->
  spec_decode f1 src out = spec_decode f2 src out
  /\ forall weak cap, impl_decode weak f1 src out cap = impl_decode weak f2 src out cap.
Proof. exact fuel_independence. Qed.
Print Assumptions lz4_fuel_independence.

(** ** L8. a block of literals round-trips, whatever the literals and however long (no condition on the bytes) *)
Theorem lz4_lit_block_round_trip : forall l, spec (lit_block l) = Some l /\ impl false (lit_block l) (length l) = DOk l.
Proof. exact lit_block_round_trip. Qed.
Print Assumptions lz4_lit_block_round_trip.

(** ** L9. a block of bytes expands at most 255 times, and no smaller constant will do *)
Theorem lz4_expansion_bound : forall src out, Forall is_byte src -> spec src = Some out -> length out <= 255 * length src.
Proof. exact expansion_bound. Qed.
Print Assumptions lz4_expansion_bound.

Theorem lz4_expansion_bound_without_byte_range_refuted : exists src out, spec src = Some out /\ 255 * length src < length out.
Proof. exact expansion_bound_without_byte_range_refuted. Qed.
Print Assumptions lz4_expansion_bound_without_byte_range_refuted.

Theorem lz4_expansion_bound_255_is_least : forall c, c < 255 -> exists src out,
  Forall is_byte src /\ spec src = Some out /\ c * length src < length out.
Proof. exact expansion_bound_255_is_least. Qed.
Print Assumptions lz4_expansion_bound_255_is_least.

Theorem lz4_wrapper_refusal_is_safe : forall src cap out,
  Forall is_byte src -> 255 * length src < cap -> spec src = Some out -> length out <> cap.
Proof. exact wrapper_refusal_is_safe. Qed.
Print Assumptions lz4_wrapper_refusal_is_safe.

(** ** L10. the output only grows along the decoding *)
Theorem lz4_output_monotone : forall f src out out', spec_decode f src out = Some out' -> exists tail, out' = out ++ tail.
Proof. exact output_monotone. Qed.
Print Assumptions lz4_output_monotone.

(** ** the wrapper: every body a conforming compressor sends is accepted and decoded to the content *)
From CqlProxy Require Import Lib.Wire Proofs.Lz4Wrapper.
Theorem c03_lz4_wrapper_accepts_every_valid_body : forall block out,
  Forall is_byte block -> spec block = Some out -> out <> [] -> (N.of_nat (length out) < 4294967296)%N ->
  wrapper (enc_u32 (N.of_nat (length out)) ++ block) = DOk out.
Proof. exact wrapper_accepts_every_valid_body. Qed.
Print Assumptions c03_lz4_wrapper_accepts_every_valid_body.

Theorem c03_lz4_wrapper_never_panics : forall body, wrapper body <> DPanic.
Proof. exact wrapper_never_panics. Qed.
Print Assumptions c03_lz4_wrapper_never_panics.

Theorem c03_lz4_wrapper_sound : forall body out, wrapper body = DOk out -> out <> [] ->
  exists n block, read_u32 body = Some (n, block) /\ spec block = Some out /\ length out <= N.to_nat n.
Proof. exact wrapper_sound. Qed.
Print Assumptions c03_lz4_wrapper_sound.
