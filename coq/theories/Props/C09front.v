(** * C09 (addition) -- routing follows the parser's verdict: a QUERY / PREPARE is answered by the
    proxy iff [is_query_handled] says so in the keyspace in force, an EXECUTE iff its id was
    handed out by the proxy on this connection (Model/Front.v); composed with the token-level
    decision of C09. *)
From Coq Require Import List ZArith NArith Bool Lia.
From CqlProxy Require Import Lib.Val Lib.Util Lib.Wire Gen.LexRules Model.Lexer Model.Parser Model.Handled Model.Codec Model.Frame
  Model.Override Model.Gate Model.Front Proofs.HandledProofs Proofs.FrontProofs.
Import ListNotations.
Local Open Scope N_scope.

Theorem c09_front_forward_iff_not_handled : forall e c prep cl frame lb h r body rest0 pl rest,
  receive (maxv c) (fc_gate cl) frame lb = GDispatched ->
  decode_header frame = inr (h, r) -> get_z (h_len h) r = Some (body, rest0) ->
  split_envelope (h_flags h) (logical lb body) = Some (pl, rest) ->
  session_ok e (h_version h) (fc_keyspace cl) (comp (fc_gate cl)) = true ->
  (is_forward (fst (front e c prep cl frame lb)) = true <-> frame_handled cl h rest = Some false) /\
  (is_handled_action (fst (front e c prep cl frame lb)) = true <-> frame_handled cl h rest = Some true) /\
  (fst (front e c prep cl frame lb) = AClosed <-> frame_handled cl h rest = None).
Proof. exact front_forward_iff_not_handled. Qed.
Print Assumptions c09_front_forward_iff_not_handled.

(** End to end for a QUERY whose text is a SELECT [sels] FROM [qualifier.]table ...: it stays in the
    proxy iff the keyspace in force is system and the table is a virtualised system table;
    otherwise it is forwarded.  ([cur] of C09 is the connection's keyspace as IdentifierFromString
    reads it.) *)
Theorem c09_front_select_routing : forall e c prep cl frame lb h r body rest0 pl rest q sels qualifier table more,
  receive (maxv c) (fc_gate cl) frame lb = GDispatched ->
  decode_header frame = inr (h, r) -> get_z (h_len h) r = Some (body, rest0) ->
  split_envelope (h_flags h) (logical lb body) = Some (pl, rest) ->
  session_ok e (h_version h) (fc_keyspace cl) (comp (fc_gate cl)) = true ->
  h_opcode h = 7 -> decode_query rest = Ok q ->
  tokenize (q_query q) = kwtok tkSelect :: sels ++ kwtok tkFrom :: target_tokens qualifier table ++ more ->
  Forall (fun x => t_code x <> tkFrom /\ t_code x <> tkEOF) sels ->
  (qualifier = None -> match more with t :: _ => t_code t <> tkDot | [] => True end) ->
  let sys := ident_equal (effective_keyspace (ident_from (fc_keyspace cl)) qualifier) (str "system")
             && is_system_table (ident_of_lexed table) in
  (sys = true -> is_handled_action (fst (front e c prep cl frame lb)) = true) /\
  (sys = false -> is_forward (fst (front e c prep cl frame lb)) = true).
Proof.
  intros e c prep cl frame lb h r body rest0 pl rest q sels qualifier table more Hr Hd Hg Hs Hok E7 Eq Etok Hsels Hmore sys.
  destruct (front_forward_iff_not_handled e c prep cl frame lb h r body rest0 pl rest Hr Hd Hg Hs Hok) as (Hf & Hh & _).
  rewrite (frame_handled_query cl h rest q E7 Eq) in Hf, Hh.
  rewrite prepare_is_handled_tokens, Etok in Hf, Hh.
  rewrite (handled_select_decision (ident_from (fc_keyspace cl)) sels qualifier table more Hsels Hmore) in Hf, Hh.
  fold sys in Hf, Hh. split; intro E; rewrite E in *; [apply Hh|apply Hf]; reflexivity.
Qed.
Print Assumptions c09_front_select_routing.

(** the same for a PREPARE, resolved in its own keyspace when it names one *)
Theorem c09_front_prepare_select_routing : forall e c prep cl frame lb h r body rest0 pl rest p sels qualifier table more,
  receive (maxv c) (fc_gate cl) frame lb = GDispatched ->
  decode_header frame = inr (h, r) -> get_z (h_len h) r = Some (body, rest0) ->
  split_envelope (h_flags h) (logical lb body) = Some (pl, rest) ->
  session_ok e (h_version h) (fc_keyspace cl) (comp (fc_gate cl)) = true ->
  h_opcode h = 9 -> decode_prepare (h_version h) rest = Some p ->
  tokenize (p_query p) = kwtok tkSelect :: sels ++ kwtok tkFrom :: target_tokens qualifier table ++ more ->
  Forall (fun x => t_code x <> tkFrom /\ t_code x <> tkEOF) sels ->
  (qualifier = None -> match more with t :: _ => t_code t <> tkDot | [] => True end) ->
  let sys := ident_equal (effective_keyspace (ident_from (prepare_keyspace cl p)) qualifier) (str "system")
             && is_system_table (ident_of_lexed table) in
  (sys = true -> is_handled_action (fst (front e c prep cl frame lb)) = true) /\
  (sys = false -> is_forward (fst (front e c prep cl frame lb)) = true).
Proof.
  intros e c prep cl frame lb h r body rest0 pl rest p sels qualifier table more Hr Hd Hg Hs Hok E9 Ep Etok Hsels Hmore sys.
  destruct (front_forward_iff_not_handled e c prep cl frame lb h r body rest0 pl rest Hr Hd Hg Hs Hok) as (Hf & Hh & _).
  rewrite (frame_handled_prepare cl h rest p E9 Ep) in Hf, Hh.
  rewrite prepare_is_handled_tokens, Etok in Hf, Hh.
  rewrite (handled_select_decision (ident_from (prepare_keyspace cl p)) sels qualifier table more Hsels Hmore) in Hf, Hh.
  fold sys in Hf, Hh. split; intro E; rewrite E in *; [apply Hh|apply Hf]; reflexivity.
Qed.
Print Assumptions c09_front_prepare_select_routing.

(** what a handled request may do to the connection: only an accepted USE changes the keyspace,
    only a PREPARE answered with an id adds to preparedSystemQuery *)
Theorem c09_front_state_change : forall e c prep cl frame lb a cl',
  front e c prep cl frame lb = (a, cl') ->
  match a with
  | ALocal _ => exists st', cl' = set_gate cl st'
  | AHandledQuery st _ => cl' = cl \/ exists ks, st = StUse ks /\ cl' = set_keyspace cl ks
  | AHandledExecute st => cl' = cl \/ exists ks, st = StUse ks /\ cl' = set_keyspace cl ks
  | AHandledPrepare st err oid =>
      match oid with Some id => cl' = add_sysprep cl id st | None => cl' = cl end
  | _ => cl' = cl
  end.
Proof. exact front_state_change. Qed.
Print Assumptions c09_front_state_change.

(** Non-vacuity: PREPARE of a system read while the keyspace is system, then EXECUTE of the id the
    proxy answered with -- neither reaches a backend; the same text on a connection without
    keyspace is forwarded. *)
Example c09_front_example :
  (let '(a, cl') := front run_env ex_cfg [] (set_keyspace init_fclient (str "SYSTEM"))
                          (mk_frame 4 0 9 (ref_prepare 4 (str "SELECT * FROM peers") 0 [] [])) None in
   match a with
   | AHandledPrepare _ false (Some id) =>
       is_handled_action (fst (front run_env ex_cfg [] cl' (mk_frame 4 0 10 (execute_body id 1)) None)) = true
   | _ => False
   end) /\
  is_forward (fst (front run_env ex_cfg [] init_fclient (mk_frame 4 0 9 (ref_prepare 4 (str "SELECT * FROM peers") 0 [] [])) None)) = true.
Proof. vm_compute. auto. Qed.

(** the token shape asked for by [c09_front_select_routing] is that of real statement text *)
Example c09_front_select_routing_hyps :
  tokenize (str "SELECT key FROM system.local WHERE key = 'local'") =
  kwtok tkSelect :: [idtok (str "key")] ++ kwtok tkFrom :: target_tokens (Some (str "system")) (str "local") ++
    skipn 6 (tokenize (str "SELECT key FROM system.local WHERE key = 'local'")).
Proof. vm_compute. reflexivity. Qed.
