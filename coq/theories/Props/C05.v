(** * C05 — retries follow the documented policy, terminate, and fail over to healthy hosts.
    Model: Model/Retry.v ([exec] = request.executeInternal and the callbacks that re-enter it;
    the four policy methods are regenerated from proxy/retrypolicy.go on every run). *)
From Coq Require Import List ZArith NArith Bool Lia.
From CqlProxy Require Import Lib.Val Lib.Util Gen.Tables Model.Retry Proofs.RetryProofs Proofs.RetryProofs2.
Import ListNotations.
Local Open Scope Z_scope.

(** The decision taken for every error response, every retry count and both idempotency
    classes is the documented one (same host once for a read timeout with enough responses
    and no data and for an idempotent batch-log write timeout; next host for unavailable
    once, bootstrapping, and -- if idempotent -- server/overloaded/truncate; otherwise none). *)
Theorem c05_policy_is_documented :
  forall idem m retry, 0 <= retry ->
    handle_error idem m retry = doc_code (doc_policy idem m retry).
Proof. exact policy_eq_doc. Qed.
Print Assumptions c05_policy_is_documented.

(** Hence, for every sequence of backend outcomes (every environment), the sequence of
    attempts and the reply are exactly what the documented policy prescribes. *)
Theorem c05_attempts_equal_documented_run :
  forall fuel idem e p, run fuel idem e p = run_doc fuel idem e p.
Proof. exact run_eq_doc. Qed.
Print Assumptions c05_attempts_equal_documented_run.

(** Attempts are bounded by the host count plus one (plus one per successful re-prepare),
    whatever the environment does. *)
Theorem c05_attempts_bounded :
  forall fuel idem e p t r, run fuel idem e p = (t, r) ->
    (count_sent t <= length p + 1 + reexecs t)%nat.
Proof. exact attempts_bounded. Qed.
Print Assumptions c05_attempts_bounded.

(** Hosts are taken from the plan in order, each at most once per traversal, and the
    "no more hosts" error is sent exactly when the whole plan has been walked. *)
Theorem c05_each_host_once_in_plan_order :
  forall fuel idem e p t r, run fuel idem e p = (t, r) ->
    exists rest, p = adv_hosts t ++ rest /\ (r = Some RpNoHosts -> rest = []).
Proof. exact adv_hosts_prefix. Qed.
Print Assumptions c05_each_host_once_in_plan_order.

(** An attempt that does not move to the next host is a re-send to the host that has just
    answered with an error (retry-same) or with a successful re-prepare. *)
Theorem c05_same_host_only_after_its_answer :
  forall fuel idem e p t r, run fuel idem e p = (t, r) ->
    forall t1 x y t2, t = t1 ++ x :: y :: t2 ->
      match y with
      | Sent false h _ _ | SendFailed false h =>
          exists a j o, x = Sent a h j o /\ (match o with OError _ | OUnprepared PrepOk => True | _ => False end)
      | _ => True
      end.
Proof. intros fuel idem e p t r E. exact (same_host_follows_sent_gen _ _ _ _ _ _ _ E). Qed.
Print Assumptions c05_same_host_only_after_its_answer.

(** The loop terminates with a reply once the backend stops answering "unprepared" to
    re-executions: no spinning, no silent drop. *)
Theorem c05_terminates_with_a_reply :
  forall fuel idem e u p, no_prepok_from e u ->
    (2 * length p + 2 * u + 2 < fuel)%nat -> snd (run fuel idem e p) <> None.
Proof. exact terminates. Qed.
Print Assumptions c05_terminates_with_a_reply.

(** An idempotent request succeeds whenever some host of its plan answers successfully and
    the other hosts fail in ways the policy retries on the next host.  (With two consecutive
    "unavailable" answers the documented policy itself returns the second one: see the
    example below.) *)
Theorem c05_idempotent_succeeds :
  forall p e fuel, (length p < fuel)%nat ->
    (forall j h, moves_on (answer e j h)) ->
    (exists h, In h p /\ (forall i, can_send e i h = true) /\ (forall j, answer e j h = OResult)) ->
    exists h j, snd (run fuel true e p) = Some (RpResult h j).
Proof. exact idempotent_succeeds. Qed.
Print Assumptions c05_idempotent_succeeds.

(** Non-vacuity and the documented corner: hosts 1,2 unavailable, host 3 healthy. *)
Definition unavailable : outcome := OError (mk_err 4096 0 0 false []).
Example c05_two_unavailable_returns_second :
  run 20 true {| can_send := fun _ _ => true; answer := fun j h => if N.eqb h 3 then OResult else unavailable |} [1; 2; 3]%N
  = ([Sent true 1%N 0 unavailable; Sent true 2%N 1 unavailable], Some (RpError 2%N 1)).
Proof. vm_compute. reflexivity. Qed.
Example c05_failover_example :
  snd (run 20 true {| can_send := fun _ h => negb (N.eqb h 1); answer := fun j h => if N.eqb h 3 then OResult else OLost |} [1; 2; 3]%N)
  = Some (RpResult 3%N 1).
Proof. vm_compute. reflexivity. Qed.

(** ---- added: the same property over the integrated request-path model Model/Core.v
    (many requests, many connections, stream-id tables, retries, closes, failed writes) ---- *)
From Coq Require Import List ZArith NArith Bool Permutation.
From CqlProxy Require Import Lib.Val Gen.Tables Model.Retry Model.Core Proofs.CoreProofs Proofs.CoreProofs2.
Local Open Scope N_scope.

(** ** C05 -- retries follow the query plan, are bounded, and "no hosts" means no hosts *)

(** T7.  For a request started with plan [p]: every host it was written to is in [p]; the hosts it
    was written to, in order, are a subsequence of [p] (by position: no plan entry is used twice, none
    out of order) except that at most one of them may appear twice in a row (the single RetrySame,
    which the policy allows only at retry count 0 -- derived from [policy_eq_doc]); so at most
    [length p + 1] writes. *)
Theorem c05_core_writes_bounded_and_in_plan_order : forall es r cl cs idem p,
  first_start es r = Some (cl, cs, idem, p) ->
  let hs := whosts (run_events es) r in
  (forall h, In h hs -> In h p) /\
  (exists hs', subseq hs' p /\ (hs = hs' \/ exists a x b, hs' = a ++ x :: b /\ hs = a ++ x :: x :: b)) /\
  (length (backend_writes (run_events es) r) <= length p + 1)%nat.
Proof. exact core_writes_bounded_and_in_plan_order. Qed.
Print Assumptions c05_core_writes_bounded_and_in_plan_order.

(** T8 (repaired Send).  In any state in which "Proxy exhausted query plan ..." has been written for
    [r] -- the state right after the event that wrote it included: the reply is the last thing that
    event does -- [r] is not registered on any connection (no attempt is in flight, no notification
    is outstanding) and its plan is exhausted. *)
Theorem c05_core_no_hosts_only_when_not_in_flight : forall es c s r,
  In (ToClient c s r CNoHosts) (w_out (run_events es)) ->
  (forall k s', ~ In (s', r) (live (run_events es) k)) /\
  (forall k cn, lookupN k (w_conns (run_events es)) = Some cn -> ~ In r (b_tonotify cn)) /\
  exists q, lookupN r (w_reqs (run_events es)) = Some q /\ q_plan q = [] /\ q_done q = true.
Proof. exact core_no_hosts_only_when_not_in_flight. Qed.
Print Assumptions c05_core_no_hosts_only_when_not_in_flight.

(** The code before fix 7dfaea9 does answer "no hosts" while an attempt is in flight: the request's
    first Send registers it on connection 1 and fails to write; it is written to connection 2, gets
    Unavailable, is written to connection 3; connection 1 closes and notifies it; the plan is
    exhausted, so it is answered "no hosts" while live on connection 3, whose RESULT is then dropped. *)
Theorem c05_core_orig_spurious_no_hosts :
  exists es r k c s, In (ToClient c s r CNoHosts) (w_out (run_events_orig es)) /\
                     (exists s', In (s', r) (live (run_events_orig es) k)) /\
                     exists s' o, w_out (run_events_orig (es ++ [EFrame k s' FResult o])) = w_out (run_events_orig es).
Proof. exact core_orig_spurious_no_hosts. Qed.
Print Assumptions c05_core_orig_spurious_no_hosts.

Example c05_core_example :
  (whosts (run_events ex_es) 7, whosts (run_events ex_es) 8) = ([10; 30; 30], [10; 20]) /\ subseq [10; 30] [10; 20; 30].
Proof. exact ex_plan_order. Qed.
Example c05_core_example_no_hosts :
  let es := [EConnect 1 10 2; EStart 9 2 7%Z true [40; 10] [None; Some (1, false)]] in
  (client_replies (run_events es) 9, live (run_events es) 1, option_map q_plan (lookupN 9 (w_reqs (run_events es)))) =
  ([ToClient 2 7%Z 9 CNoHosts], [], Some []).
Proof. exact ex_no_hosts. Qed.
