(** * C05 — retries follow the documented policy, terminate, and fail over to healthy hosts.
    Model: Model/Retry.v ([exec] = request.executeInternal and the callbacks that re-enter it;
    the four policy methods are regenerated from proxy/retrypolicy.go on every run). *)
From Coq Require Import List ZArith NArith Bool Lia.
From CqlProxy Require Import Lib.Val Lib.Util Gen.Tables Model.Retry Proofs.RetryProofs Proofs.RetryProofs2.
Import ListNotations.
Local Open Scope Z_scope.

(** The decision taken for every error response, every retry count and both idempotency
    classes is the documented one (same host once for a read timeout with enough responses
    and no data and for an idempotent batch-log write timeout; next host for unavailable
    once, bootstrapping, and -- if idempotent -- server/overloaded/truncate; otherwise none). *)
Theorem c05_policy_is_documented :
  forall idem m retry, 0 <= retry ->
    handle_error idem m retry = doc_code (doc_policy idem m retry).
Proof. exact policy_eq_doc. Qed.
Print Assumptions c05_policy_is_documented.

(** Hence, for every sequence of backend outcomes (every environment), the sequence of
    attempts and the reply are exactly what the documented policy prescribes. *)
Theorem c05_attempts_equal_documented_run :
  forall fuel idem e p, run fuel idem e p = run_doc fuel idem e p.
Proof. exact run_eq_doc. Qed.
Print Assumptions c05_attempts_equal_documented_run.

(** Attempts are bounded by the host count plus one (plus one per successful re-prepare),
    whatever the environment does. *)
Theorem c05_attempts_bounded :
  forall fuel idem e p t r, run fuel idem e p = (t, r) ->
    (count_sent t <= length p + 1 + reexecs t)%nat.
Proof. exact attempts_bounded. Qed.
Print Assumptions c05_attempts_bounded.

(** Hosts are taken from the plan in order, each at most once per traversal, and the
    "no more hosts" error is sent exactly when the whole plan has been walked. *)
Theorem c05_each_host_once_in_plan_order :
  forall fuel idem e p t r, run fuel idem e p = (t, r) ->
    exists rest, p = adv_hosts t ++ rest /\ (r = Some RpNoHosts -> rest = []).
Proof. exact adv_hosts_prefix. Qed.
Print Assumptions c05_each_host_once_in_plan_order.

(** An attempt that does not move to the next host is a re-send to the host that has just
    answered with an error (retry-same) or with a successful re-prepare. *)
Theorem c05_same_host_only_after_its_answer :
  forall fuel idem e p t r, run fuel idem e p = (t, r) ->
    forall t1 x y t2, t = t1 ++ x :: y :: t2 ->
      match y with
      | Sent false h _ _ | SendFailed false h =>
          exists a j o, x = Sent a h j o /\ (match o with OError _ | OUnprepared PrepOk => True | _ => False end)
      | _ => True
      end.
Proof. intros fuel idem e p t r E. exact (same_host_follows_sent_gen _ _ _ _ _ _ _ E). Qed.
Print Assumptions c05_same_host_only_after_its_answer.

(** The loop terminates with a reply once the backend stops answering "unprepared" to
    re-executions: no spinning, no silent drop. *)
Theorem c05_terminates_with_a_reply :
  forall fuel idem e u p, no_prepok_from e u ->
    (2 * length p + 2 * u + 2 < fuel)%nat -> snd (run fuel idem e p) <> None.
Proof. exact terminates. Qed.
Print Assumptions c05_terminates_with_a_reply.

(** An idempotent request succeeds whenever some host of its plan answers successfully and
    the other hosts fail in ways the policy retries on the next host.  (With two consecutive
    "unavailable" answers the documented policy itself returns the second one: see the
    example below.) *)
Theorem c05_idempotent_succeeds :
  forall p e fuel, (length p < fuel)%nat ->
    (forall j h, moves_on (answer e j h)) ->
    (exists h, In h p /\ (forall i, can_send e i h = true) /\ (forall j, answer e j h = OResult)) ->
    exists h j, snd (run fuel true e p) = Some (RpResult h j).
Proof. exact idempotent_succeeds. Qed.
Print Assumptions c05_idempotent_succeeds.

(** Non-vacuity and the documented corner: hosts 1,2 unavailable, host 3 healthy. *)
Definition unavailable : outcome := OError (mk_err 4096 0 0 false []).
Example c05_two_unavailable_returns_second :
  run 20 true {| can_send := fun _ _ => true; answer := fun j h => if N.eqb h 3 then OResult else unavailable |} [1; 2; 3]%N
  = ([Sent true 1%N 0 unavailable; Sent true 2%N 1 unavailable], Some (RpError 2%N 1)).
Proof. vm_compute. reflexivity. Qed.
Example c05_failover_example :
  snd (run 20 true {| can_send := fun _ h => negb (N.eqb h 1); answer := fun j h => if N.eqb h 3 then OResult else OLost |} [1; 2; 3]%N)
  = Some (RpResult 3%N 1).
Proof. vm_compute. reflexivity. Qed.
