(** * C08 — prepared statements execute on every backend host without client involvement. *)
From Coq Require Import List ZArith NArith Bool.
From CqlProxy Require Import Lib.Val Lib.Util Model.Prepared Proofs.PreparedProofs.
Import ListNotations.
Local Open Scope N_scope.

(** While the statement is in the proxy's cache the client never sees UNPREPARED: for every
    plan, every set of hosts that know the statement and every pattern of re-PREPARE results. *)
Theorem c08_never_unprepared_when_cached :
  forall w plan known h, cached w = true -> (forall x, recognised w x = true) ->
    snd (fst (execute w known plan)) <> RUnprepared h.
Proof. exact never_unprepared_when_cached. Qed.
Print Assumptions c08_never_unprepared_when_cached.

(** The EXECUTE succeeds on whichever host the plan reaches first that knows the statement or
    accepts the re-PREPARE (hosts that never saw it, restarted hosts, hosts that joined later). *)
Theorem c08_execute_succeeds_if_some_host_can_serve :
  forall w plan known, cached w = true -> (forall x, recognised w x = true) ->
    (exists h, In h plan /\ (memN h known = true \/ prepare_ok w h = true)) ->
    exists h, snd (fst (execute w known plan)) = RRows h /\ In h plan.
Proof. exact succeeds_if_some_host_can_serve. Qed.
Print Assumptions c08_execute_succeeds_if_some_host_can_serve.

(** If re-preparation fails the request moves on; when no host is left the client is told. *)
Theorem c08_failed_reprepare_moves_on_and_terminates :
  forall w plan known, cached w = true -> (forall x, recognised w x = true) ->
    (forall h, In h plan -> memN h known = false /\ prepare_ok w h = false) ->
    snd (fst (execute w known plan)) = RNoHosts.
Proof. exact no_host_can_serve_then_no_hosts. Qed.
Print Assumptions c08_failed_reprepare_moves_on_and_terminates.

Theorem c08_hosts_tried_in_plan_order :
  forall w plan known,
    let evs := fst (fst (execute w known plan)) in
    exists prefix, firstn (length prefix) plan = prefix /\ forall h, In (EvExecute h) evs -> In h prefix.
Proof. exact hosts_tried_in_plan_order. Qed.
Print Assumptions c08_hosts_tried_in_plan_order.

Example c08_example :
  execute {| cached := true; recognised := fun _ => true; prepare_ok := fun h => negb (h =? 2) |} [1] [2; 3; 1]
  = ([EvExecute 2; EvPrepare 2 false; EvExecute 3; EvPrepare 3 true; EvExecute 3], RRows 3, [3; 1]).
Proof. vm_compute. reflexivity. Qed.
