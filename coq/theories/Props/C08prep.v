(** ---- added: properties C01, C02, C04, C05 and C08 over the integrated request-path model EXTENDED WITH
    THE PREPARED-STATEMENT PATH, Model/CorePrep.v (many requests, many connections, stream-id tables, retries,
    closes, failed writes, and: UNPREPARED answers, the proxy's own re-PREPARE standing in for a request --
    possibly nested --, its answers, its failure to be sent).  Every theorem is about
    [run_events es] for an ARBITRARY event list [es] (every interleaving the environment can produce) of the
    repaired code.  Proofs: Proofs/CorePrepProofs.v, Proofs/CorePrepProofs2.v.
    NOTE for whoever merges this into Props/C0x.v: Model.Core and Model.CorePrep define the same names
    ([run_events], [world], ...): import only one of them per file, or keep this file separate. ---- *)
From Coq Require Import List ZArith NArith Bool Permutation.
From CqlProxy Require Import Lib.Val Gen.Tables Model.Retry Model.CorePrep Proofs.CorePrepProofs Proofs.CorePrepProofs2.
Import ListNotations.
Local Open Scope N_scope.

(** * C08 -- prepared statements execute on every backend host without client involvement *)

(** P5.  While the statement is in the proxy's cache the client never sees UNPREPARED.  Whenever an UNPREPARED
    frame is handed to a client (as the answer to request [r], from connection [k], stream [bs]) the event that did
    it is the delivery, to request [r] itself on ([k], [bs]), of an UNPREPARED frame with [cached = false]: the
    pool has no prepared cache, or the frame is not recognised, or its id is not in the cache. *)
Theorem c08_prep_never_unprepared_when_cached : forall es pre c s r k bs post,
  w_out (run_events es) = pre ++ ToClient c s r (CFrame k bs KUnprepared) :: post ->
  exists es1 ok o es2, es = es1 ++ EFrame k bs (FUnprepared false ok) o :: es2 /\
                       lookupN bs (live (run_events es1) k) = Some (EReq r) /\
                       w_out (run_events es1) = pre /\
                       w_out (run_events (es1 ++ [EFrame k bs (FUnprepared false ok) o])) =
                         pre ++ [ToClient c s r (CFrame k bs KUnprepared)].
Proof. exact prep_never_unprepared_when_cached. Qed.
Print Assumptions c08_prep_never_unprepared_when_cached.

(** Corollary: in a run in which every UNPREPARED frame is for a statement the cache has, no UNPREPARED frame is
    ever sent to a client. *)
Theorem c08_prep_cached_never_unprepared : forall es,
  all_cached es -> forall c s r k bs, ~ In (ToClient c s r (CFrame k bs KUnprepared)) (w_out (run_events es)).
Proof. exact prep_cached_never_unprepared. Qed.
Print Assumptions c08_prep_cached_never_unprepared.

(** What happens instead: an UNPREPARED frame for a cached statement whose PREPARE can be sent is answered, in the
    same step, by the proxy's PREPARE on the same connection, registered there in place of the request. *)
Theorem c08_prep_cached_unprepared_is_reprepared : forall es k s o ent,
  let w := run_events es in
  let w' := run_events (es ++ [EFrame k s (FUnprepared true true) o]) in
  lookupN s (live w k) = Some ent ->
  exists s0, w_out w' = w_out w ++ [ToBackendPrepare k s0 (entry_req ent)] /\
             In (s0, EPrep (entry_req ent) (nested_of ent)) (live w' k) /\
             lookupN (entry_req ent) (w_reqs w') = lookupN (entry_req ent) (w_reqs w).
Proof. exact prep_cached_unprepared_is_reprepared. Qed.
Print Assumptions c08_prep_cached_unprepared_is_reprepared.

(** P6.  If re-preparation fails the request moves on.  A frame that refuses ([refusal]: an ERROR, or an UNPREPARED
    the proxy cannot act on, delivered to the proxy's PREPARE for [r]; or an UNPREPARED for a cached statement
    delivered to [r] itself when the PREPARE cannot be sent) runs, in the SAME step, request.Execute(true): the
    request -- unanswered until then, pointing at the refusing connection's host -- is written to a connection of
    a host taken from the REST of its plan (the entries after the refusing host's: Execute(false), a re-send to
    the same plan entry, is not what runs) where it is now registered, or is answered "no hosts" with the plan
    exhausted.  (That it is never left unregistered and unanswered is P1c.) *)
Theorem c08_prep_failed_reprepare_moves_on : forall es k s f o ent,
  let w := run_events es in
  lookupN s (live w k) = Some ent -> refusal ent f = true ->
  let r := entry_req ent in
  let w' := run_events (es ++ [EFrame k s f o]) in
  exists c q,
    lookupN k (w_conns w) = Some c /\ lookupN r (w_reqs w) = Some q /\ q_done q = false /\ q_host q = Some (b_host c) /\
    w' = exec_internal false (set_conn w k (popped c s)) r true o /\
    ((exists skipped h p' k' s' c',
        q_plan q = skipped ++ h :: p' /\ w_out w' = w_out w ++ [ToBackend k' s' r] /\
        lookupN r (w_reqs w') = Some (with_host q (Some h) p') /\
        lookupN k' (w_conns w') = Some c' /\ b_host c' = h /\ b_closing c' = false /\ In (s', EReq r) (b_pending c')) \/
     (exists q', w_out w' = w_out w ++ [ToClient (q_client q) (q_cstream q) r CNoHosts] /\
                 lookupN r (w_reqs w') = Some q' /\ q_done q' = true /\ q_plan q' = [])).
Proof. exact prep_failed_reprepare_moves_on. Qed.
Print Assumptions c08_prep_failed_reprepare_moves_on.

(** P7.  The RESULT of the proxy's (non-nested) PREPARE for [r], arriving on connection [k], re-sends the EXECUTE to
    the host that has just been prepared: if the pool then picks a usable connection [k'] of that host (open, with
    a free stream id -- [k] itself always has one: the id just released) and the write succeeds, request [r] is
    written to [k'] in that step and registered there. *)
Theorem c08_prep_successful_reprepare_reexecutes_on_same_host : forall es k s o r c k' c',
  let w := run_events es in
  lookupN s (live w k) = Some (EPrep r false) ->
  lookupN k (w_conns w) = Some c ->
  hd None o = Some (k', true) ->
  lookupN k' (w_conns w) = Some c' -> b_host c' = b_host c -> b_closing c' = false -> (k' = k \/ b_free c' <> []) ->
  exists s', w_out (run_events (es ++ [EFrame k s FResult o])) = w_out w ++ [ToBackend k' s' r] /\
             In (s', EReq r) (live (run_events (es ++ [EFrame k s FResult o])) k').
Proof. exact prep_successful_reprepare_reexecutes_on_same_host. Qed.
Print Assumptions c08_prep_successful_reprepare_reexecutes_on_same_host.

(** P8.  The proxy never loops by itself: each of its PREPAREs is caused by one UNPREPARED frame (for a cached
    statement, PREPARE sendable) delivered to an entry of the request, in the same step and on the same connection;
    so the number of PREPAREs for [r] is bounded by the number of such frames. *)
Theorem c08_prep_prepares_bounded_by_unprepared_frames : forall es r,
  (length (prepare_writes (run_events es) r) <= count_events (is_unprepared_tt r) es)%nat.
Proof. exact prep_prepares_bounded_by_unprepared_frames. Qed.
Print Assumptions c08_prep_prepares_bounded_by_unprepared_frames.

Theorem c08_prep_prepare_cause : forall es pre k s0 r post,
  w_out (run_events es) = pre ++ ToBackendPrepare k s0 r :: post ->
  exists es1 s o es2 ent, es = es1 ++ EFrame k s (FUnprepared true true) o :: es2 /\
                          lookupN s (live (run_events es1) k) = Some ent /\ entry_req ent = r /\
                          w_out (run_events es1) = pre.
Proof. exact prep_prepare_cause. Qed.
Print Assumptions c08_prep_prepare_cause.

Example c08_prep_example_runs :
  w_out (run_events exA) =
    [ToBackend 1 0 7; ToBackendPrepare 1 1 7; ToBackend 1 0 7; ToBackend 2 0 7; ToClient 0 5%Z 7 (CFrame 2 0 KUnprepared)] /\
  w_out (run_events exB) =
    [ToBackend 1 0 7; ToBackendPrepare 1 1 7; ToBackendPrepare 1 0 7; ToBackend 2 0 7; ToClient 0 5%Z 7 (CFrame 2 0 KResult)].
Proof. split; [exact exA_out|exact exB_out]. Qed.
Example c08_prep_example_unprepared_to_client :
  exists pre post, w_out (run_events exA) = pre ++ ToClient 0 5%Z 7 (CFrame 2 0 KUnprepared) :: post /\
                   exA = firstn 6 exA ++ EFrame 2 0 (FUnprepared false false) [] :: [] /\
                   lookupN 0 (live (run_events (firstn 6 exA)) 2) = Some (EReq 7).
Proof. exact ex_unprepared_to_client. Qed.
Example c08_prep_example_all_cached : all_cached exB.
Proof. exact ex_all_cached. Qed.
Example c08_prep_example_refusal :
  lookupN 0 (live (run_events (firstn 5 exA)) 1) = Some (EReq 7) /\ refusal (EReq 7) (FUnprepared true false) = true /\
  backend_writes (run_events (firstn 6 exA)) 7 = [(1, 0); (1, 0); (2, 0)] /\
  lookupN 1 (live (run_events (firstn 4 exA)) 1) = Some (EPrep 7 false) /\ refusal (EPrep 7 false) (FError unavailable) = true /\
  w_out (run_events (firstn 4 exA ++ [EFrame 1 1 (FError unavailable) [Some (2, true)]])) =
    [ToBackend 1 0 7; ToBackendPrepare 1 1 7; ToBackend 2 0 7].
Proof. exact ex_refusal. Qed.
Example c08_prep_example_reexecute :
  lookupN 1 (live (run_events (firstn 4 exA)) 1) = Some (EPrep 7 false) /\
  w_out (run_events (firstn 5 exA)) = w_out (run_events (firstn 4 exA)) ++ [ToBackend 1 0 7] /\
  In (0, EReq 7) (live (run_events (firstn 5 exA)) 1).
Proof. exact ex_reexecute_same_host. Qed.
Example c08_prep_example_prepares_counted :
  (length (prepare_writes (run_events exB) 7), count_events (is_unprepared_tt 7) exB,
   length (prepare_writes (run_events exA) 7), count_events (is_unprepared_tt 7) exA) = (2, 2, 1, 1)%nat.
Proof. exact ex_prepares_counted. Qed.
