(** * C04 — non-idempotent requests are never re-executed once they may have been applied. *)
From Coq Require Import List ZArith NArith Bool Lia.
From CqlProxy Require Import Lib.Val Lib.Util Gen.Tables Model.Retry Proofs.RetryProofs Proofs.RetryProofs2.
Import ListNotations.
Local Open Scope Z_scope.

(** For a request that is not positively classified idempotent: an attempt whose outcome is
    anything but unavailable / bootstrapping / read timeout / unprepared (i.e. a write
    timeout, server, overloaded or truncate error, read or write failure, any other error,
    or the loss of the connection) is the last thing that happens -- nothing is sent after
    it, to any host -- and the client receives exactly that answer (or the connection-lost
    error).  For every environment, plan, and point of the run. *)
Theorem c04_unsafe_outcome_is_final :
  forall fuel e p t r, run fuel false e p = (t, r) ->
    forall t1 a h j o t2, t = t1 ++ Sent a h j o :: t2 -> safe_to_resend o = false ->
      t2 = [] /\ r = Some (final_reply h j o).
Proof. intros fuel e p t r E. exact (nonidem_unsafe_is_final _ _ _ _ _ _ E). Qed.
Print Assumptions c04_unsafe_outcome_is_final.

(** The only error responses after which a non-idempotent request is sent again are the
    three that guarantee the previous attempt was not applied. *)
Theorem c04_retry_decision_implies_safe :
  forall m retry, handle_error false m retry <> dec_ReturnError -> safe_to_resend (OError m) = true.
Proof. exact nonidem_retry_is_safe. Qed.
Print Assumptions c04_retry_decision_implies_safe.

(** Non-vacuity: a write timeout on the first host ends a non-idempotent request there,
    while the same request marked idempotent with a batch-log timeout is retried. *)
Definition wto : outcome := OError (mk_err 4352 0 1 false (str "BATCH_LOG")).
Example c04_write_timeout_not_retried :
  run 20 false {| can_send := fun _ _ => true; answer := fun _ _ => wto |} [1; 2]%N
  = ([Sent true 1%N 0 wto], Some (RpError 1%N 0)).
Proof. vm_compute. reflexivity. Qed.
Example c04_idempotent_is_retried :
  count_sent (fst (run 20 true {| can_send := fun _ _ => true; answer := fun _ _ => wto |} [1; 2]%N)) = 2%nat.
Proof. vm_compute. reflexivity. Qed.

(** ---- added: the same property over the integrated request-path model Model/Core.v
    (many requests, many connections, stream-id tables, retries, closes, failed writes) ---- *)
From Coq Require Import List ZArith NArith Bool Permutation.
From CqlProxy Require Import Lib.Val Gen.Tables Model.Retry Model.Core Proofs.CoreProofs Proofs.CoreProofs2.
Local Open Scope N_scope.

(** ** C04 -- a non-idempotent request is never re-sent after an outcome that may have applied it *)

(** T6.  Let [r] be non-idempotent.  After an ERROR frame delivered to [r] that is not safe to resend
    after, or a RESULT frame delivered to [r], or the close notification of the connection [r] was
    pending on, nothing is ever written for [r] again, by any later event. *)
Theorem c04_core_nonidem_never_resent_after_unsafe : forall es1 e es2 r q,
  lookupN r (w_reqs (run_events es1)) = Some q -> q_idem q = false ->
  final_for (run_events es1) r e ->
  backend_writes (run_events (es1 ++ e :: es2)) r = backend_writes (run_events es1) r.
Proof. exact core_nonidem_never_resent_after_unsafe. Qed.
Print Assumptions c04_core_nonidem_never_resent_after_unsafe.

(** the same, the three cases of [final_for] spelled out *)
Theorem c04_core_nonidem_not_resent_after_unsafe_error : forall es1 k s m o es2 r q,
  lookupN r (w_reqs (run_events es1)) = Some q -> q_idem q = false ->
  lookupN s (live (run_events es1) k) = Some r -> safe_to_resend (OError m) = false ->
  backend_writes (run_events (es1 ++ EFrame k s (FError m) o :: es2)) r = backend_writes (run_events es1) r.
Proof. exact core_nonidem_not_resent_after_unsafe_error. Qed.
Print Assumptions c04_core_nonidem_not_resent_after_unsafe_error.

Theorem c04_core_not_resent_after_result : forall es1 k s o es2 r,
  lookupN s (live (run_events es1) k) = Some r ->
  backend_writes (run_events (es1 ++ EFrame k s FResult o :: es2)) r = backend_writes (run_events es1) r.
Proof. exact core_not_resent_after_result. Qed.
Print Assumptions c04_core_not_resent_after_result.

Theorem c04_core_nonidem_not_resent_after_close : forall es1 k c o es2 r q,
  lookupN r (w_reqs (run_events es1)) = Some q -> q_idem q = false ->
  lookupN k (w_conns (run_events es1)) = Some c -> In r (b_tonotify c) ->
  backend_writes (run_events (es1 ++ ENotify k r o :: es2)) r = backend_writes (run_events es1) r.
Proof. exact core_nonidem_not_resent_after_close. Qed.
Print Assumptions c04_core_nonidem_not_resent_after_close.

(** Conversely, an event that writes a non-idempotent request is either its start (its first write)
    or an ERROR frame delivered to it after which a resend is safe (unavailable, bootstrapping, read
    timeout); and no event writes a request more than once. *)
Theorem c04_core_nonidem_write_cause : forall es e r q,
  lookupN r (w_reqs (run_events (es ++ [e]))) = Some q -> q_idem q = false ->
  backend_writes (run_events (es ++ [e])) r <> backend_writes (run_events es) r ->
  (exists cl cs p o, e = EStart r cl cs false p o /\ lookupN r (w_reqs (run_events es)) = None) \/
  (exists k s m o, e = EFrame k s (FError m) o /\ lookupN s (live (run_events es) k) = Some r /\
                   safe_to_resend (OError m) = true).
Proof. exact core_nonidem_write_cause. Qed.
Print Assumptions c04_core_nonidem_write_cause.

Theorem c04_core_one_write_per_event : forall es e r,
  exists l, backend_writes (run_events (es ++ [e])) r = backend_writes (run_events es) r ++ l /\ (length l <= 1)%nat.
Proof. exact core_one_write_per_event. Qed.
Print Assumptions c04_core_one_write_per_event.

(** any request: nothing is written for it once it has been answered *)
Theorem c04_core_no_write_after_reply : forall es1 es2 r q,
  lookupN r (w_reqs (run_events es1)) = Some q -> q_done q = true ->
  backend_writes (run_events (es1 ++ es2)) r = backend_writes (run_events es1) r.
Proof. exact core_no_write_after_reply. Qed.
Print Assumptions c04_core_no_write_after_reply.

Example c04_core_example :
  let es1 := firstn 5 ex_es in
  let e := EFrame 1 1 (FError write_timeout) [Some (2, true)] in
  (lookupN 1 (live (run_events es1) 1), option_map q_idem (lookupN 8 (w_reqs (run_events es1))),
   safe_to_resend (OError write_timeout),
   backend_writes (run_events (es1 ++ e :: skipn 6 ex_es)) 8, backend_writes (run_events es1) 8,
   client_replies (run_events (es1 ++ [e])) 8) =
  (Some 8, Some false, false, [(1, 1)], [(1, 1)], [ToClient 1 6%Z 8 (CFrame 1 1)]).
Proof. exact ex_nonidem_final. Qed.

