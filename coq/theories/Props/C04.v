(** * C04 — non-idempotent requests are never re-executed once they may have been applied. *)
From Coq Require Import List ZArith NArith Bool Lia.
From CqlProxy Require Import Lib.Val Lib.Util Gen.Tables Model.Retry Proofs.RetryProofs Proofs.RetryProofs2.
Import ListNotations.
Local Open Scope Z_scope.

(** For a request that is not positively classified idempotent: an attempt whose outcome is
    anything but unavailable / bootstrapping / read timeout / unprepared (i.e. a write
    timeout, server, overloaded or truncate error, read or write failure, any other error,
    or the loss of the connection) is the last thing that happens -- nothing is sent after
    it, to any host -- and the client receives exactly that answer (or the connection-lost
    error).  For every environment, plan, and point of the run. *)
Theorem c04_unsafe_outcome_is_final :
  forall fuel e p t r, run fuel false e p = (t, r) ->
    forall t1 a h j o t2, t = t1 ++ Sent a h j o :: t2 -> safe_to_resend o = false ->
      t2 = [] /\ r = Some (final_reply h j o).
Proof. intros fuel e p t r E. exact (nonidem_unsafe_is_final _ _ _ _ _ _ E). Qed.
Print Assumptions c04_unsafe_outcome_is_final.

(** The only error responses after which a non-idempotent request is sent again are the
    three that guarantee the previous attempt was not applied. *)
Theorem c04_retry_decision_implies_safe :
  forall m retry, handle_error false m retry <> dec_ReturnError -> safe_to_resend (OError m) = true.
Proof. exact nonidem_retry_is_safe. Qed.
Print Assumptions c04_retry_decision_implies_safe.

(** Non-vacuity: a write timeout on the first host ends a non-idempotent request there,
    while the same request marked idempotent with a batch-log timeout is retried. *)
Definition wto : outcome := OError (mk_err 4352 0 1 false (str "BATCH_LOG")).
Example c04_write_timeout_not_retried :
  run 20 false {| can_send := fun _ _ => true; answer := fun _ _ => wto |} [1; 2]%N
  = ([Sent true 1%N 0 wto], Some (RpError 1%N 0)).
Proof. vm_compute. reflexivity. Qed.
Example c04_idempotent_is_retried :
  count_sent (fst (run 20 true {| can_send := fun _ _ => true; answer := fun _ _ => wto |} [1; 2]%N)) = 2%nat.
Proof. vm_compute. reflexivity. Qed.
