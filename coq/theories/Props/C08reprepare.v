(** ---- added: one request's way through its plan when hosts answer UNPREPARED (Model/Reprepare.v; proxycore/clientconn.go
    maybePrepareAndExecute and prepareRequest.OnResult as repaired by 49b678c).  C08: "If re-preparation fails the request
    moves on to the next host instead of hanging or being dropped."  The repaired code ends every request, whatever the
    hosts answer, within two round trips per host of the plan plus two for every time a host answers PREPARED with the
    very id it had reported as unprepared; against a backend that keeps its word (EXECUTE is UNPREPARED exactly for ids
    it has not prepared) within three round trips per host.  The original code is kept going for good by such a backend
    as soon as the PREPARE the proxy sends hashes to another id than the client's (the defect the thorough tier found:
    a flagged PREPARE cached as an empty statement).  A healthy re-preparation is answered by the first host, in both
    versions. ---- *)
From Coq Require Import List Arith Bool.
From CqlProxy Require Import Model.Reprepare Proofs.ReprepareProofs.
Import ListNotations.

Theorem c08_reprepare_every_request_ends : forall n l,
  2 * n + 2 + 2 * sames l <= length l -> ph (run false (start n) l) = Done.
Proof. exact fixed_ends. Qed.
Print Assumptions c08_reprepare_every_request_ends.

Theorem c08_reprepare_ends_within_two_round_trips_per_host_without_same_id : forall n l,
  sames l = 0 -> 2 * n + 2 <= length l -> ph (run false (start n) l) = Done.
Proof. exact fixed_ends_without_same_id. Qed.
Print Assumptions c08_reprepare_ends_within_two_round_trips_per_host_without_same_id.

Theorem c08_reprepare_never_more_hosts_than_the_plan : forall orig n l, hops (run orig (start n) l) <= n.
Proof. exact hops_within_plan. Qed.
Print Assumptions c08_reprepare_never_more_hosts_than_the_plan.

Theorem c08_reprepare_original_code_loops_refuted : forall n k, run true (start n) (loop k) = start n.
Proof. exact orig_loops. Qed.
Print Assumptions c08_reprepare_original_code_loops_refuted.

Theorem c08_reprepare_another_id_moves_on : forall n,
  run false (start (S n)) [AUnprep; POther] = {| left := n; ph := Exec; hops := 1 |}.
Proof. exact fixed_leaves_the_loop. Qed.
Print Assumptions c08_reprepare_another_id_moves_on.

Theorem c08_reprepare_another_id_on_the_last_host_ends :
  run false (start 0) [AUnprep; POther] = {| left := 0; ph := Done; hops := 0 |}.
Proof. exact fixed_last_host_ends. Qed.
Print Assumptions c08_reprepare_another_id_on_the_last_host_ends.

Theorem c08_reprepare_same_id_stays_on_the_host : forall orig n,
  run orig (start n) [AUnprep; PSame; AFinal] = {| left := n; ph := Done; hops := 0 |}.
Proof. exact same_id_stays. Qed.
Print Assumptions c08_reprepare_same_id_stays_on_the_host.

Theorem c08_reprepare_answered_against_a_backend_that_keeps_its_word : forall i j n b,
  ph (drive false i j (3 * n + 3) (start n) b) = Done.
Proof. exact fixed_answers. Qed.
Print Assumptions c08_reprepare_answered_against_a_backend_that_keeps_its_word.

Theorem c08_reprepare_original_code_never_answers_refuted : forall i j n b fuel,
  i <> j -> existsb (Nat.eqb i) (cur b) = false -> ph (drive true i j fuel (start n) b) <> Done.
Proof. exact orig_never_answers. Qed.
Print Assumptions c08_reprepare_original_code_never_answers_refuted.

Theorem c08_reprepare_healthy_first_host_answers : forall orig i n b,
  drive orig i i 3 (start n) b = {| left := n; ph := Done; hops := 0 |}.
Proof. exact healthy_first_host_answers. Qed.
Print Assumptions c08_reprepare_healthy_first_host_answers.

Theorem c08_reprepare_premises_met :
  ph (drive true 7 0 1000 (start 2) {| cur := []; rest := [[]; []] |}) = Exec
  /\ drive false 7 0 1000 (start 2) {| cur := []; rest := [[]; [7]] |} = {| left := 0; ph := Done; hops := 2 |}.
Proof. exact loop_case. Qed.
Print Assumptions c08_reprepare_premises_met.
