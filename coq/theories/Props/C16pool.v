(** * C16 (additions) — a session's pool table, leastBusyConn, a slot's stayConnected loop
    (Model/Pool.v; proofs in Proofs/PoolProofs.v).  Headlines only. *)
From Coq Require Import List ZArith NArith Bool.
From CqlProxy Require Import Lib.Val Lib.Util Model.Topology Model.Pool Proofs.PoolProofs.
Import ListNotations.

(** ** A. the table (orig = false: the repaired code; orig = true: before the repair ccaba00) *)

(** After any interleaving of the bootstrap goroutines' stores with add / remove events, every listed host that is
    not still being connected by its bootstrap goroutine has a live pool in the session's table. *)
Theorem pool_table_follows_listed :
  forall es, wf_history es = true -> table_follows (prun false es) = true.
Proof. exact table_follows_listed. Qed.
Print Assumptions pool_table_follows_listed.

(** ... and this does not depend on the cluster's discipline: it holds for every event list. *)
Theorem pool_table_follows_any_history : forall es, table_follows (prun false es) = true.
Proof. exact table_follows_any_history. Qed.
Print Assumptions pool_table_follows_any_history.

Theorem pool_table_entries_alive :
  forall es, wf_history es = true ->
    forall h e, lookup h (table (prun false es)) = Some e -> memh e (live (prun false es)) = true.
Proof. exact table_entries_alive. Qed.
Print Assumptions pool_table_entries_alive.

(** Before the repair: an add event for a host that already has a pool cancels that pool and leaves it in the table. *)
Theorem pool_orig_add_kills_the_pool_refuted :
  exists es h, wf_history es = true /\ memh h (listed (prun true es)) = true
    /\ memh h (booting (prun true es)) = false /\ usable (prun true es) h = false.
Proof. exact orig_add_kills_the_pool_refuted. Qed.
Print Assumptions pool_orig_add_kills_the_pool_refuted.

(** ... and the session never reaches that host again, whatever happens to other hosts, until the host is removed. *)
Theorem pool_orig_never_recovers :
  forall r, wf_history (orig_prefix ++ r) = true -> no_remove 3 r = true ->
    usable (prun true (orig_prefix ++ r)) 3 = false.
Proof. exact orig_never_recovers. Qed.
Print Assumptions pool_orig_never_recovers.

Theorem pool_orig_never_recovers_no_boot :
  forall r, no_remove 3 r = true -> no_boot r = true -> usable (prun true (orig_prefix ++ r)) 3 = false.
Proof. exact orig_never_recovers_no_boot. Qed.
Print Assumptions pool_orig_never_recovers_no_boot.

Theorem pool_orig_never_recovers_no_store :
  forall r, no_remove 3 r = true -> no_store_of 3 r = true -> usable (prun true (orig_prefix ++ r)) 3 = false.
Proof. exact orig_never_recovers_no_store. Qed.
Print Assumptions pool_orig_never_recovers_no_store.

(** The repaired code leaks: a host removed while its bootstrap goroutine was connecting keeps a live pool. *)
Theorem pool_stale_pool_observation :
  exists es h, wf_history es = true /\ memh h (listed (prun false es)) = false /\ usable (prun false es) h = true.
Proof. exact stale_pool_observation. Qed.
Print Assumptions pool_stale_pool_observation.

(** No leak when every bootstrap store precedes the first topology event. *)
Theorem pool_unlisted_after_boot_has_no_pool :
  forall es, wf_history es = true -> stores_first es = true ->
    forall h, memh h (listed (prun false es)) = false -> usable (prun false es) h = false.
Proof. exact unlisted_after_boot_has_no_pool. Qed.
Print Assumptions pool_unlisted_after_boot_has_no_pool.

Theorem pool_settled_host_usable_iff_listed :
  forall es, wf_history es = true -> stores_first es = true ->
    forall h, memh h (booting (prun false es)) = false -> usable (prun false es) h = memh h (listed (prun false es)).
Proof. exact settled_host_usable_iff_listed. Qed.
Print Assumptions pool_settled_host_usable_iff_listed.

(** The equality for all hosts is FALSE under [stores_first] alone ... *)
Theorem pool_unlisted_after_boot_equality_refuted :
  exists es h, wf_history es = true /\ stores_first es = true
    /\ usable (prun false es) h = false /\ memh h (listed (prun false es)) = true.
Proof. exact unlisted_after_boot_equality_refuted. Qed.
Print Assumptions pool_unlisted_after_boot_equality_refuted.

(** ... and true once every bootstrap goroutine has stored. *)
Theorem pool_unlisted_after_boot_has_no_pool_partial :
  forall es, wf_history es = true -> stores_first es = true -> booting (prun false es) = [] ->
    forall h, usable (prun false es) h = memh h (listed (prun false es)).
Proof. exact unlisted_after_boot_has_no_pool_partial. Qed.
Print Assumptions pool_unlisted_after_boot_has_no_pool_partial.

(** ** B. leastBusyConn *)
Theorem pool_least_busy_none_iff :
  forall slots, (2 <= length slots)%nat ->
    Forall (fun c => forall f, c = Some f -> (f < max_int32)%Z) slots ->
    (least_busy slots = None <-> Forall (fun c => c = None) slots).
Proof. exact least_busy_none_iff. Qed.
Print Assumptions pool_least_busy_none_iff.

Theorem pool_least_busy_picks_min :
  forall slots i, (2 <= length slots)%nat ->
    Forall (fun c => forall f, c = Some f -> (f < max_int32)%Z) slots ->
    least_busy slots = Some i ->
    exists f, nth i slots None = Some f /\ (forall j g, nth j slots None = Some g -> (f <= g)%Z)
              /\ (forall j g, (j < i)%nat -> nth j slots None = Some g -> (f < g)%Z).
Proof. exact least_busy_picks_min. Qed.
Print Assumptions pool_least_busy_picks_min.

(** both hold for pools of any size *)
Theorem pool_least_busy_none_iff_any :
  forall slots, Forall (fun c => forall f, c = Some f -> (f < max_int32)%Z) slots ->
    (least_busy slots = None <-> Forall (fun c => c = None) slots).
Proof. exact least_busy_none_iff_any. Qed.
Print Assumptions pool_least_busy_none_iff_any.

Theorem pool_least_busy_picks_min_any :
  forall slots i, Forall (fun c => forall f, c = Some f -> (f < max_int32)%Z) slots ->
    least_busy slots = Some i ->
    exists f, nth i slots None = Some f /\ (forall j g, nth j slots None = Some g -> (f <= g)%Z)
              /\ (forall j g, (j < i)%nat -> nth j slots None = Some g -> (f < g)%Z).
Proof. exact least_busy_picks_min_any. Qed.
Print Assumptions pool_least_busy_picks_min_any.

Theorem pool_least_busy_single :
  forall c, least_busy [c] = match c with Some _ => Some 0%nat | None => None end.
Proof. exact least_busy_single. Qed.
Print Assumptions pool_least_busy_single.

Theorem pool_least_busy_empty : least_busy [] = None.
Proof. exact least_busy_empty. Qed.
Print Assumptions pool_least_busy_empty.

(** the precondition is needed (and always met: a connection has at most 32768 stream ids) *)
Theorem pool_least_busy_at_max_int32_refuted :
  exists slots, (2 <= length slots)%nat /\ ~ Forall (fun c : option Z => c = None) slots /\ least_busy slots = None.
Proof. exact least_busy_at_max_int32_refuted. Qed.
Print Assumptions pool_least_busy_at_max_int32_refuted.

(** ** C. the slot loop *)
Theorem pool_slot_never_stuck :
  forall base mx c es, let s := srun base mx (slot0 c) es in finished s = false ->
    conn s = true \/ pending s = true \/ (forall j1 j2, enabled s (SArm j1 j2) = true).
Proof. exact slot_never_stuck. Qed.
Print Assumptions pool_slot_never_stuck.

Theorem pool_slot_heals :
  forall base mx s, finished s = false -> conn s = false -> forall j1 j2,
    let s1 := if pending s then s else sstep base mx s (SArm j1 j2) in
    conn (sstep base mx s1 (STimer true)) = true /\ attempts (sstep base mx s1 (STimer true)) = 0%Z.
Proof. exact slot_heals. Qed.
Print Assumptions pool_slot_heals.

Theorem pool_armed_delays_within_bounds :
  forall base mx c es, jitters_legal es = true ->
    Forall (fun d => (Z.min base mx <= d <= mx)%Z) (armed (srun base mx (slot0 c) es)).
Proof. exact armed_delays_within_bounds. Qed.
Print Assumptions pool_armed_delays_within_bounds.

Theorem pool_armed_delays_within_bounds_any :
  forall base mx c es, Forall (fun d => (Z.min base mx <= d <= mx)%Z) (armed (srun base mx (slot0 c) es)).
Proof. exact armed_delays_within_bounds_any. Qed.
Print Assumptions pool_armed_delays_within_bounds_any.

Theorem pool_armed_delays_between_base_and_max :
  forall base mx c es, (0 < base)%Z -> (base <= mx)%Z ->
    Forall (fun d => (base <= d <= mx)%Z) (armed (srun base mx (slot0 c) es)).
Proof. exact armed_delays_between_base_and_max. Qed.
Print Assumptions pool_armed_delays_between_base_and_max.

Theorem pool_backoff_resets_after_success :
  forall base mx c es j1 j2, let s := srun base mx (slot0 c) es in conn s = true -> finished s = false ->
    armed (srun base mx s [SClosed; SArm j1 j2])
    = fst (next_delay base mx (snd (next_delay base mx 0 j1)) j2) :: armed s.
Proof. exact backoff_resets_after_success. Qed.
Print Assumptions pool_backoff_resets_after_success.

(** the code calls NextDelay() twice per reconnect attempt: the k-th consecutive failed reconnect uses draw 2k+1 *)
Theorem pool_two_draws_per_attempt_observation :
  forall base mx s js, idle s -> attempts s = 0%Z ->
    attempts (srun base mx s (failed_rounds js)) = attempts_after base mx 0 (draws js)
    /\ length (draws js) = (2 * length js)%nat
    /\ rev (armed (srun base mx s (failed_rounds js))) = rev (armed s) ++ odds (delays base mx 0 (draws js)).
Proof. exact two_draws_per_attempt_observation. Qed.
Print Assumptions pool_two_draws_per_attempt_observation.

Theorem pool_two_draws_counter_closed_form :
  forall base mx s js, (0 < base)%Z -> idle s -> attempts s = 0%Z ->
    attempts (srun base mx s (failed_rounds js)) = Z.min (2 * Z.of_nat (length js)) (max_attempts base).
Proof. exact two_draws_counter_closed_form. Qed.
Print Assumptions pool_two_draws_counter_closed_form.

Theorem pool_cancelled_slot_is_silent :
  forall base mx s, finished s = true -> forall e, sstep base mx s e = s.
Proof. exact cancelled_slot_is_silent. Qed.
Print Assumptions pool_cancelled_slot_is_silent.
