(** * C12 — the write-consistency override rewrites exactly the consistency of matching writes. *)
From Coq Require Import List ZArith NArith Bool.
From CqlProxy Require Import Lib.Val Lib.Util Lib.Wire Model.Codec Proofs.CodecProofs Model.Override Proofs.OverrideProofs.
Import ListNotations.
Local Open Scope N_scope.

(** With no list configured nothing is ever modified: for every body whatsoever. *)
Theorem c12_no_list_no_change :
  forall c sel v flags op body, unsupported c = [] ->
    forall b l, process_request c sel v flags op body <> FwdReenc b l.
Proof. exact no_list_no_change. Qed.
Print Assumptions c12_no_list_no_change.

(** SELECTs (direct or prepared) and requests with any other consistency are forwarded
    unmodified (raw path: C03 then gives byte identity). *)
Theorem c12_select_or_other_consistency_unmodified :
  forall c sel v flags op body pl rest m,
    split_envelope flags body = Some (pl, rest) -> decode_msg op v rest = Ok m ->
    sel = true \/ is_unsupported c (msg_cl m) = false ->
    process_request c sel v flags op body = FwdRaw.
Proof. exact unchanged_when_select_or_other_cl. Qed.
Print Assumptions c12_select_or_other_consistency_unmodified.

(** A matching non-SELECT QUERY / EXECUTE / BATCH goes out as the reference layout of the
    same message -- same statement or id, result-metadata id, batch type and children, the
    whole option tail (values, flags, serial consistency, timestamp, paging, keyspace, ...),
    the same custom payload, under the same header flags -- with only the consistency
    replaced, and the header's length field equals the body length (well framed). *)
Theorem c12_override_exact_query :
  forall c v flags pl q cl tail,
    flag_warning flags = false -> Forall wf_entry pl -> N.of_nat (length pl) < 65536 ->
    len31 q -> cl < 65536 -> is_unsupported c cl = true ->
    let out := env_prefix flags pl ++ ref_query q (override c) tail in
    process_request c false v flags 7 (env_prefix flags pl ++ ref_query q cl tail) = FwdReenc out (Z.of_nat (length out)).
Proof. exact override_exact_query. Qed.
Print Assumptions c12_override_exact_query.

Theorem c12_override_exact_execute :
  forall c v flags pl id rmid cl tail,
    flag_warning flags = false -> Forall wf_entry pl -> N.of_nat (length pl) < 65536 ->
    id <> [] -> len16 id -> (supports_rmid v = true -> rmid <> [] /\ len16 rmid) -> cl < 65536 ->
    is_unsupported c cl = true ->
    let out := env_prefix flags pl ++ ref_execute v id rmid (override c) tail in
    process_request c false v flags 10 (env_prefix flags pl ++ ref_execute v id rmid cl tail) = FwdReenc out (Z.of_nat (length out)).
Proof. exact override_exact_execute. Qed.
Print Assumptions c12_override_exact_execute.

Theorem c12_override_exact_batch :
  forall c v flags pl t cs cl tail,
    flag_warning flags = false -> Forall wf_entry pl -> N.of_nat (length pl) < 65536 ->
    t <= 2 -> Forall wf_child cs -> N.of_nat (length cs) < 65536 -> cl < 65536 ->
    is_unsupported c cl = true ->
    let out := env_prefix flags pl ++ ref_batch t cs (override c) tail in
    process_request c false v flags 13 (env_prefix flags pl ++ ref_batch t cs cl tail) = FwdReenc out (Z.of_nat (length out)).
Proof. exact override_exact_batch. Qed.
Print Assumptions c12_override_exact_batch.

(** Non-vacuity: LOCAL_QUORUM (6) in the list, override QUORUM (4), tracing + payload flags. *)
Example c12_example :
  process_request {| unsupported := [6; 7]; override := 4 |} false 4 6 7
    (enc_bytes_map [([107], Some [1; 2])] ++ ref_query [65; 66] 6 [0])
  = FwdReenc (enc_bytes_map [([107], Some [1; 2])] ++ ref_query [65; 66] 4 [0]) 20.
Proof. vm_compute. reflexivity. Qed.
