(** * C12 — the write-consistency override rewrites exactly the consistency of matching writes. *)
From Coq Require Import List ZArith NArith Bool.
From CqlProxy Require Import Lib.Val Lib.Util Lib.Wire Model.Codec Proofs.CodecProofs Model.Override Proofs.OverrideProofs.
Import ListNotations.
Local Open Scope N_scope.

(** With no list configured nothing is ever modified: for every body whatsoever. *)
Theorem c12_no_list_no_change :
  forall c sel v flags op body, unsupported c = [] ->
    forall b l, process_request c sel v flags op body <> FwdReenc b l.
Proof. exact no_list_no_change. Qed.
Print Assumptions c12_no_list_no_change.

(** SELECTs (direct or prepared) and requests with any other consistency are forwarded
    unmodified (raw path: C03 then gives byte identity). *)
Theorem c12_select_or_other_consistency_unmodified :
  forall c sel v flags op body pl rest m,
    split_envelope flags body = Some (pl, rest) -> decode_msg op v rest = Ok m ->
    sel = true \/ is_unsupported c (msg_cl m) = false ->
    process_request c sel v flags op body = FwdRaw.
Proof. exact unchanged_when_select_or_other_cl. Qed.
Print Assumptions c12_select_or_other_consistency_unmodified.

(** A matching non-SELECT QUERY / EXECUTE / BATCH goes out as the reference layout of the
    same message -- same statement or id, result-metadata id, batch type and children, the
    whole option tail (values, flags, serial consistency, timestamp, paging, keyspace, ...),
    the same custom payload, under the same header flags -- with only the consistency
    replaced, and the header's length field equals the body length (well framed). *)
Theorem c12_override_exact_query :
  forall c v flags pl q cl tail,
    flag_warning flags = false -> Forall wf_entry pl -> N.of_nat (length pl) < 65536 ->
    len31 q -> cl < 65536 -> is_unsupported c cl = true ->
    let out := env_prefix flags pl ++ ref_query q (override c) tail in
    process_request c false v flags 7 (env_prefix flags pl ++ ref_query q cl tail) = FwdReenc out (Z.of_nat (length out)).
Proof. exact override_exact_query. Qed.
Print Assumptions c12_override_exact_query.

Theorem c12_override_exact_execute :
  forall c v flags pl id rmid cl tail,
    flag_warning flags = false -> Forall wf_entry pl -> N.of_nat (length pl) < 65536 ->
    id <> [] -> len16 id -> (supports_rmid v = true -> rmid <> [] /\ len16 rmid) -> cl < 65536 ->
    is_unsupported c cl = true ->
    let out := env_prefix flags pl ++ ref_execute v id rmid (override c) tail in
    process_request c false v flags 10 (env_prefix flags pl ++ ref_execute v id rmid cl tail) = FwdReenc out (Z.of_nat (length out)).
Proof. exact override_exact_execute. Qed.
Print Assumptions c12_override_exact_execute.

Theorem c12_override_exact_batch :
  forall c v flags pl t cs cl tail,
    flag_warning flags = false -> Forall wf_entry pl -> N.of_nat (length pl) < 65536 ->
    t <= 2 -> Forall wf_child cs -> N.of_nat (length cs) < 65536 -> cl < 65536 ->
    is_unsupported c cl = true ->
    let out := env_prefix flags pl ++ ref_batch t cs (override c) tail in
    process_request c false v flags 13 (env_prefix flags pl ++ ref_batch t cs cl tail) = FwdReenc out (Z.of_nat (length out)).
Proof. exact override_exact_batch. Qed.
Print Assumptions c12_override_exact_batch.

(** Non-vacuity: LOCAL_QUORUM (6) in the list, override QUORUM (4), tracing + payload flags. *)
Example c12_example :
  process_request {| unsupported := [6; 7]; override := 4 |} false 4 6 7
    (enc_bytes_map [([107], Some [1; 2])] ++ ref_query [65; 66] 6 [0])
  = FwdReenc (enc_bytes_map [([107], Some [1; 2])] ++ ref_query [65; 66] 4 [0]) 20.
Proof. vm_compute. reflexivity. Qed.

(** ---- added: stronger statements (proofs in Proofs/*2.v) ---- *)
From Coq Require Import List ZArith NArith Bool.
From CqlProxy Require Import Lib.Val Lib.Util Lib.Wire Model.Codec Proofs.CodecProofs Proofs.CodecProofs2
  Model.Override Proofs.OverrideProofs Proofs.OverrideProofs2.

(** For EVERY request body the proxy accepts (any envelope, any QUERY/EXECUTE/BATCH bytes the
    partial decoders take -- not only reference layouts): when the override applies, what goes
    out has the length of what came in and differs from it in exactly the two consistency bytes,
    which sit at offset |envelope| + |encoded leading fields|; every byte before (custom payload,
    statement / ids / batch children with their values) and after (the whole option tail) is
    identical, and the header's length field equals the body length.
    Side conditions, each necessary (refutations below): no warning flag on the request, no nil
    payload value declared below -1 ([env_neg]), no [long string] declared with negative length
    ([msg_neg]). *)
Theorem c12_override_changes_exactly_two_bytes :
  forall c v flags op lbody pl rest m,
  wf_bytes lbody ->
  split_envelope flags lbody = Some (pl, rest) -> decode_msg op v rest = Ok m ->
  is_unsupported c (msg_cl m) = true ->
  flag_warning flags = false -> env_neg flags lbody = false -> msg_neg op rest = false ->
  exists out,
    process_request c false v flags op lbody = FwdReenc out (Z.of_nat (length out)) /\
    let k := (length lbody - length rest + length (msg_lead v m))%nat in
    length out = length lbody /\
    firstn k out = firstn k lbody /\
    skipn (k + 2) out = skipn (k + 2) lbody /\
    firstn 2 (skipn k out) = enc_short (override c) /\
    firstn 2 (skipn k lbody) = enc_short (msg_cl m).
Proof. exact override_changes_exactly_two_bytes_full. Qed.
Print Assumptions c12_override_changes_exactly_two_bytes.

(** Unconditionally (even for non-canonical bodies) the re-encoded message keeps its length and
    everything after the consistency verbatim, and carries the new consistency at that offset. *)
Theorem c12_override_keeps_length_and_tail :
  forall op v b m cl', decode_msg op v b = Ok m ->
  let k := length (msg_lead v m) in
  let out := encode_msg v (set_cl m cl') in
  length out = length b /\ skipn (k + 2) out = skipn (k + 2) b /\ skipn (k + 2) b = msg_params m /\
  firstn 2 (skipn k out) = enc_short cl'.
Proof. exact override_msg_length_and_tail. Qed.
Print Assumptions c12_override_keeps_length_and_tail.

(** Re-encoding identity of the message part, with its exact condition. *)
Theorem c12_message_reencodes_iff :
  forall op v b m, wf_bytes b -> decode_msg op v b = Ok m -> (encode_msg v m = b <-> msg_neg op b = false).
Proof. exact encode_decode_msg_iff. Qed.
Print Assumptions c12_message_reencodes_iff.

(** The side conditions are necessary.
    (1) a QUERY whose query string is declared with length -1: four more bytes change; *)
Theorem c12_two_bytes_refuted_negative_length :
  exists c v flags lbody out l,
    wf_bytes lbody /\ process_request c false v flags 7 lbody = FwdReenc out l /\
    length out = length lbody /\ firstn 4 out <> firstn 4 lbody.
Proof. exact override_two_bytes_refuted_negative_length. Qed.
Print Assumptions c12_two_bytes_refuted_negative_length.

(** (2) the warning flag set on a request: the body grows by two bytes (an empty warning list); *)
Theorem c12_two_bytes_refuted_warning_flag :
  exists c v flags lbody out l,
    wf_bytes lbody /\ process_request c false v flags 7 lbody = FwdReenc out l /\
    length out = (length lbody + 2)%nat.
Proof. exact override_two_bytes_refuted_warning_flag. Qed.
Print Assumptions c12_two_bytes_refuted_warning_flag.

(** (3) a custom payload with a nil value declared as length -2: rewritten as -1. *)
Theorem c12_two_bytes_refuted_payload_nil :
  exists c v flags lbody out l,
    wf_bytes lbody /\ process_request c false v flags 7 lbody = FwdReenc out l /\
    length out = length lbody /\ firstn 9 out <> firstn 9 lbody.
Proof. exact override_two_bytes_refuted_payload_nil. Qed.
Print Assumptions c12_two_bytes_refuted_payload_nil.
