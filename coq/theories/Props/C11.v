(** * C11 — the partial QUERY/EXECUTE/BATCH codecs agree with the reference layout. *)
From Coq Require Import List ZArith NArith Bool.
From CqlProxy Require Import Lib.Val Lib.Util Lib.Wire Model.Codec Proofs.CodecProofs.
Import ListNotations.
Local Open Scope N_scope.

(** Every reference-layout body decodes to the reference's own fields -- for every query
    string, id, consistency and every option tail (an arbitrary byte list: flags, values,
    paging state, serial consistency, timestamp, keyspace, now-in-seconds, continuous paging
    are all inside it), in every protocol version. *)
Theorem c11_query_decodes :
  forall q cl tail, len31 q -> cl < 65536 ->
    decode_query (ref_query q cl tail) = Ok {| q_query := q; q_cl := cl; q_params := tail |}.
Proof. exact decode_ref_query. Qed.
Print Assumptions c11_query_decodes.

Theorem c11_execute_decodes :
  forall v id rmid cl tail,
    id <> [] -> len16 id -> (supports_rmid v = true -> rmid <> [] /\ len16 rmid) -> cl < 65536 ->
    decode_execute v (ref_execute v id rmid cl tail) =
    Ok {| x_id := id; x_rmid := (if supports_rmid v then rmid else []); x_cl := cl; x_params := tail |}.
Proof. exact decode_ref_execute. Qed.
Print Assumptions c11_execute_decodes.

Theorem c11_batch_decodes :
  forall t cs cl tail,
    t <= 2 -> Forall wf_child cs -> N.of_nat (length cs) < 65536 -> cl < 65536 ->
    decode_batch (ref_batch t cs cl tail) =
    Ok {| b_type := t; b_children := map partial_of cs; b_cl := cl; b_params := tail |}.
Proof. exact decode_ref_batch. Qed.
Print Assumptions c11_batch_decodes.

(** Re-encoding the partially decoded message reproduces the original bytes exactly. *)
Theorem c11_query_reencodes :
  forall q cl tail, len31 q -> cl < 65536 ->
    match decode_query (ref_query q cl tail) with
    | Ok m => encode_query m = ref_query q cl tail
    | _ => False
    end.
Proof. intros q cl tail Hq Hcl. rewrite decode_ref_query by assumption. apply encode_query_ref. Qed.
Print Assumptions c11_query_reencodes.

Theorem c11_execute_reencodes :
  forall v id rmid cl tail,
    id <> [] -> len16 id -> (supports_rmid v = true -> rmid <> [] /\ len16 rmid) -> cl < 65536 ->
    match decode_execute v (ref_execute v id rmid cl tail) with
    | Ok m => encode_execute v m = ref_execute v id rmid cl tail
    | _ => False
    end.
Proof.
  intros v id rmid cl tail H1 H2 H3 H4. rewrite decode_ref_execute by assumption. apply encode_execute_ref.
Qed.
Print Assumptions c11_execute_reencodes.

Theorem c11_batch_reencodes :
  forall t cs cl tail,
    t <= 2 -> Forall wf_child cs -> N.of_nat (length cs) < 65536 -> cl < 65536 ->
    match decode_batch (ref_batch t cs cl tail) with
    | Ok m => encode_batch m = ref_batch t cs cl tail
    | _ => False
    end.
Proof.
  intros t cs cl tail H1 H2 H3 H4. rewrite decode_ref_batch by assumption. apply encode_batch_ref.
Qed.
Print Assumptions c11_batch_reencodes.

(** Arbitrary byte lists are accepted or rejected with an error: never a panic, never
    fuel exhaustion (a hang). *)
Theorem c11_decoders_total :
  forall v b,
    match decode_query b with Ok _ | Err _ => True | _ => False end /\
    match decode_execute v b with Ok _ | Err _ => True | _ => False end /\
    match decode_batch b with Ok _ | Err _ => True | _ => False end.
Proof.
  intros v b. split; [apply decode_query_total|split; [apply decode_execute_total|apply decode_batch_total]].
Qed.
Print Assumptions c11_decoders_total.

(** What a decoder keeps is a suffix of its input: nothing past the body is read. *)
Theorem c11_query_reads_prefix_only :
  forall b m, decode_query b = Ok m -> exists p, b = p ++ q_params m.
Proof. exact decode_query_suffix. Qed.
Print Assumptions c11_query_reads_prefix_only.

(** Non-vacuity: a DSEv1 EXECUTE (no result-metadata id) and a v5 one (with it). *)
Example c11_dse1_execute :
  decode_execute 65 (ref_execute 65 [1;2] [9] 6 [0;0;0;0]) =
  Ok {| x_id := [1;2]; x_rmid := []; x_cl := 6; x_params := [0;0;0;0] |}.
Proof. vm_compute. reflexivity. Qed.
Example c11_v5_execute :
  decode_execute 5 (ref_execute 5 [1;2] [9] 6 [0;0;0;0]) =
  Ok {| x_id := [1;2]; x_rmid := [9]; x_cl := 6; x_params := [0;0;0;0] |}.
Proof. vm_compute. reflexivity. Qed.

(** ---- added: stronger statements (proofs in Proofs/*2.v) ---- *)
From Coq Require Import List ZArith NArith Bool.
From CqlProxy Require Import Lib.Val Lib.Util Lib.Wire Model.Codec Proofs.CodecProofs Proofs.CodecProofs2.

(** *** Every accepted body, not only reference layouts *)

(** QUERY: whatever byte list the decoder accepts splits into a consumed prefix [p] of length
    4 + |query| + 2 and the parameters, kept verbatim; the query string and consistency depend
    on [p] alone (any other bytes after [p] just become the parameters); and every strict prefix
    of [p] -- a body truncated anywhere up to and including the consistency -- is rejected with
    an error. *)
Theorem c11_query_prefix :
  forall b m, decode_query b = Ok m ->
  exists p, b = p ++ q_params m /\ length p = (4 + length (q_query m) + 2)%nat /\
    (forall t, decode_query (p ++ t) = Ok {| q_query := q_query m; q_cl := q_cl m; q_params := t |}) /\
    (forall p', sprefix p' p -> exists e, decode_query p' = Err e).
Proof. exact decode_query_prefix. Qed.
Print Assumptions c11_query_prefix.

(** EXECUTE: the same, in every protocol version (with and without result-metadata id). *)
Theorem c11_execute_prefix :
  forall v b m, decode_execute v b = Ok m ->
  exists p, b = p ++ x_params m /\
    length p = (2 + length (x_id m) + (if supports_rmid v then 2 + length (x_rmid m) else 0) + 2)%nat /\
    (forall t, decode_execute v (p ++ t) =
               Ok {| x_id := x_id m; x_rmid := x_rmid m; x_cl := x_cl m; x_params := t |}) /\
    (forall p', sprefix p' p -> exists e, decode_execute v p' = Err e).
Proof. exact decode_execute_prefix. Qed.
Print Assumptions c11_execute_prefix.

(** BATCH: the same; the consumed prefix is type, count, the children exactly as re-encoded
    (in length), consistency. *)
Theorem c11_batch_prefix :
  forall b m, decode_batch b = Ok m ->
  exists p, b = p ++ b_params m /\
    length p = (1 + 2 + length (concat (map encode_child (b_children m))) + 2)%nat /\
    (forall t, decode_batch (p ++ t) =
               Ok {| b_type := b_type m; b_children := b_children m; b_cl := b_cl m; b_params := t |}) /\
    (forall p', sprefix p' p -> exists e, decode_batch p' = Err e).
Proof. exact decode_batch_prefix. Qed.
Print Assumptions c11_batch_prefix.

(** Truncation, stated with [firstn]: cutting ANY accepted body at any offset inside its leading
    part yields an error (never an acceptance with other fields, never a panic). *)
Theorem c11_truncated_rejected :
  (forall b m k, decode_query b = Ok m -> (k < length b - length (q_params m))%nat ->
     exists e, decode_query (firstn k b) = Err e) /\
  (forall v b m k, decode_execute v b = Ok m -> (k < length b - length (x_params m))%nat ->
     exists e, decode_execute v (firstn k b) = Err e) /\
  (forall b m k, decode_batch b = Ok m -> (k < length b - length (b_params m))%nat ->
     exists e, decode_batch (firstn k b) = Err e).
Proof.
  split; [exact truncated_query_rejected|split; [exact truncated_execute_rejected|exact truncated_batch_rejected]].
Qed.
Print Assumptions c11_truncated_rejected.

(** ... in particular for every reference-layout body cut inside its leading part. *)
Theorem c11_truncated_ref_query_rejected :
  forall q cl tail k, len31 q -> cl < 65536 -> (k < length (ref_query_lead q cl))%nat ->
    exists e, decode_query (firstn k (ref_query q cl tail)) = Err e.
Proof. exact truncated_ref_query_rejected. Qed.
Print Assumptions c11_truncated_ref_query_rejected.

Theorem c11_truncated_ref_execute_rejected :
  forall v id rmid cl tail k,
    id <> [] -> len16 id -> (supports_rmid v = true -> rmid <> [] /\ len16 rmid) -> cl < 65536 ->
    (k < length (ref_execute_lead v id rmid cl))%nat ->
    exists e, decode_execute v (firstn k (ref_execute v id rmid cl tail)) = Err e.
Proof. exact truncated_ref_execute_rejected. Qed.
Print Assumptions c11_truncated_ref_execute_rejected.

Theorem c11_truncated_ref_batch_rejected :
  forall t cs cl tail k,
    t <= 2 -> Forall wf_child cs -> N.of_nat (length cs) < 65536 -> cl < 65536 ->
    (k < length (ref_batch_lead t cs cl))%nat ->
    exists e, decode_batch (firstn k (ref_batch t cs cl tail)) = Err e.
Proof. exact truncated_ref_batch_rejected. Qed.
Print Assumptions c11_truncated_ref_batch_rejected.

(** *** Re-encoding what was decoded *)

(** EXECUTE: re-encoding reproduces EVERY accepted body exactly ([wf_bytes]: all elements < 256). *)
Theorem c11_execute_reencodes_any :
  forall v b m, wf_bytes b -> decode_execute v b = Ok m -> encode_execute v m = b.
Proof. exact encode_decode_execute. Qed.
Print Assumptions c11_execute_reencodes_any.

(** QUERY: the unconditional identity is FALSE.  A query string declared with a negative length
    decodes to "" (ReadLongString: length <= 0) and is written back with length 0: the six bytes
    ff ff ff ff 00 01 come back as 00 00 00 00 00 01 (confirmed on the Go code). *)
Theorem c11_query_reencodes_any_refuted :
  exists b m, wf_bytes b /\ decode_query b = Ok m /\ encode_query m <> b /\ length (encode_query m) = length b.
Proof. exact encode_decode_query_refuted. Qed.
Print Assumptions c11_query_reencodes_any_refuted.

(** QUERY, exact: re-encoding reproduces the body iff the declared length of the query string is
    not negative; in general the output is the input with a negative length field zeroed. *)
Theorem c11_query_reencodes_iff :
  forall b m, wf_bytes b -> decode_query b = Ok m -> (encode_query m = b <-> lstr_neg b = false).
Proof. exact encode_decode_query_iff. Qed.
Print Assumptions c11_query_reencodes_iff.

Theorem c11_query_reencodes_general :
  forall b m, wf_bytes b -> decode_query b = Ok m ->
    encode_query m = (if lstr_neg b then [0; 0; 0; 0] else firstn 4 b) ++ skipn 4 b.
Proof. exact encode_decode_query_gen. Qed.
Print Assumptions c11_query_reencodes_general.

(** ... hence always when the decoded query string is not empty. *)
Theorem c11_query_reencodes_nonempty :
  forall b m, wf_bytes b -> decode_query b = Ok m -> q_query m <> [] -> encode_query m = b.
Proof. exact encode_decode_query_nonempty. Qed.
Print Assumptions c11_query_reencodes_nonempty.

(** BATCH: same defect through a child's query string (00 0001 00 ffffffff 0000 0001), same
    exact condition ([batch_neg]: some decoded query-string child is declared with negative
    length); the length never changes. *)
Theorem c11_batch_reencodes_any_refuted :
  exists b m, wf_bytes b /\ decode_batch b = Ok m /\ encode_batch m <> b.
Proof. exact encode_decode_batch_refuted. Qed.
Print Assumptions c11_batch_reencodes_any_refuted.

Theorem c11_batch_reencodes_iff :
  forall b m, wf_bytes b -> decode_batch b = Ok m -> (encode_batch m = b <-> batch_neg b = false).
Proof. exact encode_decode_batch_iff. Qed.
Print Assumptions c11_batch_reencodes_iff.

Theorem c11_batch_reencodes_nonempty :
  forall b m, wf_bytes b -> decode_batch b = Ok m ->
    Forall (fun c => ch_id c <> QStr []) (b_children m) -> encode_batch m = b.
Proof. exact encode_decode_batch_nonempty. Qed.
Print Assumptions c11_batch_reencodes_nonempty.

Theorem c11_batch_reencode_keeps_length :
  forall b m, decode_batch b = Ok m -> length (encode_batch m) = length b.
Proof. exact encode_decode_batch_length. Qed.
Print Assumptions c11_batch_reencode_keeps_length.

(** Re-encoding is semantically stable in all three codecs, canonical body or not: what was
    decoded, re-encoded with any 16-bit consistency, decodes to the same message with that
    consistency. *)
Theorem c11_reencode_stable :
  (forall b m cl', wf_bytes b -> decode_query b = Ok m -> cl' < 65536 ->
     decode_query (encode_query {| q_query := q_query m; q_cl := cl'; q_params := q_params m |}) =
     Ok {| q_query := q_query m; q_cl := cl'; q_params := q_params m |}) /\
  (forall v b m cl', wf_bytes b -> decode_execute v b = Ok m -> cl' < 65536 ->
     decode_execute v (encode_execute v {| x_id := x_id m; x_rmid := x_rmid m; x_cl := cl'; x_params := x_params m |}) =
     Ok {| x_id := x_id m; x_rmid := x_rmid m; x_cl := cl'; x_params := x_params m |}) /\
  (forall b m cl', wf_bytes b -> decode_batch b = Ok m -> cl' < 65536 ->
     decode_batch (encode_batch {| b_type := b_type m; b_children := b_children m; b_cl := cl'; b_params := b_params m |}) =
     Ok {| b_type := b_type m; b_children := b_children m; b_cl := cl'; b_params := b_params m |}).
Proof.
  split; [exact decode_encode_query_stable|split; [exact decode_encode_execute_stable|exact decode_encode_batch_stable]].
Qed.
Print Assumptions c11_reencode_stable.
