(** * C11 — the partial QUERY/EXECUTE/BATCH codecs agree with the reference layout. *)
From Coq Require Import List ZArith NArith Bool.
From CqlProxy Require Import Lib.Val Lib.Util Lib.Wire Model.Codec Proofs.CodecProofs.
Import ListNotations.
Local Open Scope N_scope.

(** Every reference-layout body decodes to the reference's own fields -- for every query
    string, id, consistency and every option tail (an arbitrary byte list: flags, values,
    paging state, serial consistency, timestamp, keyspace, now-in-seconds, continuous paging
    are all inside it), in every protocol version. *)
Theorem c11_query_decodes :
  forall q cl tail, len31 q -> cl < 65536 ->
    decode_query (ref_query q cl tail) = Ok {| q_query := q; q_cl := cl; q_params := tail |}.
Proof. exact decode_ref_query. Qed.
Print Assumptions c11_query_decodes.

Theorem c11_execute_decodes :
  forall v id rmid cl tail,
    id <> [] -> len16 id -> (supports_rmid v = true -> rmid <> [] /\ len16 rmid) -> cl < 65536 ->
    decode_execute v (ref_execute v id rmid cl tail) =
    Ok {| x_id := id; x_rmid := (if supports_rmid v then rmid else []); x_cl := cl; x_params := tail |}.
Proof. exact decode_ref_execute. Qed.
Print Assumptions c11_execute_decodes.

Theorem c11_batch_decodes :
  forall t cs cl tail,
    t <= 2 -> Forall wf_child cs -> N.of_nat (length cs) < 65536 -> cl < 65536 ->
    decode_batch (ref_batch t cs cl tail) =
    Ok {| b_type := t; b_children := map partial_of cs; b_cl := cl; b_params := tail |}.
Proof. exact decode_ref_batch. Qed.
Print Assumptions c11_batch_decodes.

(** Re-encoding the partially decoded message reproduces the original bytes exactly. *)
Theorem c11_query_reencodes :
  forall q cl tail, len31 q -> cl < 65536 ->
    match decode_query (ref_query q cl tail) with
    | Ok m => encode_query m = ref_query q cl tail
    | _ => False
    end.
Proof. intros q cl tail Hq Hcl. rewrite decode_ref_query by assumption. apply encode_query_ref. Qed.
Print Assumptions c11_query_reencodes.

Theorem c11_execute_reencodes :
  forall v id rmid cl tail,
    id <> [] -> len16 id -> (supports_rmid v = true -> rmid <> [] /\ len16 rmid) -> cl < 65536 ->
    match decode_execute v (ref_execute v id rmid cl tail) with
    | Ok m => encode_execute v m = ref_execute v id rmid cl tail
    | _ => False
    end.
Proof.
  intros v id rmid cl tail H1 H2 H3 H4. rewrite decode_ref_execute by assumption. apply encode_execute_ref.
Qed.
Print Assumptions c11_execute_reencodes.

Theorem c11_batch_reencodes :
  forall t cs cl tail,
    t <= 2 -> Forall wf_child cs -> N.of_nat (length cs) < 65536 -> cl < 65536 ->
    match decode_batch (ref_batch t cs cl tail) with
    | Ok m => encode_batch m = ref_batch t cs cl tail
    | _ => False
    end.
Proof.
  intros t cs cl tail H1 H2 H3 H4. rewrite decode_ref_batch by assumption. apply encode_batch_ref.
Qed.
Print Assumptions c11_batch_reencodes.

(** Arbitrary byte lists are accepted or rejected with an error: never a panic, never
    fuel exhaustion (a hang). *)
Theorem c11_decoders_total :
  forall v b,
    match decode_query b with Ok _ | Err _ => True | _ => False end /\
    match decode_execute v b with Ok _ | Err _ => True | _ => False end /\
    match decode_batch b with Ok _ | Err _ => True | _ => False end.
Proof.
  intros v b. split; [apply decode_query_total|split; [apply decode_execute_total|apply decode_batch_total]].
Qed.
Print Assumptions c11_decoders_total.

(** What a decoder keeps is a suffix of its input: nothing past the body is read. *)
Theorem c11_query_reads_prefix_only :
  forall b m, decode_query b = Ok m -> exists p, b = p ++ q_params m.
Proof. exact decode_query_suffix. Qed.
Print Assumptions c11_query_reads_prefix_only.

(** Non-vacuity: a DSEv1 EXECUTE (no result-metadata id) and a v5 one (with it). *)
Example c11_dse1_execute :
  decode_execute 65 (ref_execute 65 [1;2] [9] 6 [0;0;0;0]) =
  Ok {| x_id := [1;2]; x_rmid := []; x_cl := 6; x_params := [0;0;0;0] |}.
Proof. vm_compute. reflexivity. Qed.
Example c11_v5_execute :
  decode_execute 5 (ref_execute 5 [1;2] [9] 6 [0;0;0;0]) =
  Ok {| x_id := [1;2]; x_rmid := [9]; x_cl := 6; x_params := [0;0;0;0] |}.
Proof. vm_compute. reflexivity. Qed.
