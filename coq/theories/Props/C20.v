(** * C20 — configuration values are honoured as documented and bad configurations refused.
    Only statements; every proof is [exact lemma].  [version_table]/[consistency_table]
    are regenerated from proxy/run.go on every run (Gen/Tables.v). *)
From Coq Require Import List ZArith NArith Bool.
From CqlProxy Require Import Lib.Val Lib.Util Gen.Tables Model.Config Proofs.ConfigProofs.
Import ListNotations.
Local Open Scope N_scope.

(** Every documented spelling, in any letter case, selects the value it names. *)
Theorem c20_version_names_correct :
  forall name v s, In (name, v) documented_versions -> lower s = lower name ->
                   parse_version s = Some v.
Proof. exact version_names_correct. Qed.
Print Assumptions c20_version_names_correct.

Theorem c20_consistency_names_correct :
  forall name v s, In (name, v) documented_consistencies -> lower s = lower name ->
                   parse_consistency s = Some v.
Proof. exact consistency_names_correct. Qed.
Print Assumptions c20_consistency_names_correct.

(** Distinct names select distinct values. *)
Theorem c20_distinct_versions :
  forall n1 v1 n2 v2, In (n1, v1) documented_versions -> In (n2, v2) documented_versions ->
                      v1 <> v2 -> parse_version n1 <> parse_version n2.
Proof. exact distinct_versions. Qed.
Print Assumptions c20_distinct_versions.

Theorem c20_distinct_consistencies :
  forall n1 v1 n2 v2, In (n1, v1) documented_consistencies -> In (n2, v2) documented_consistencies ->
                      v1 <> v2 -> parse_consistency n1 <> parse_consistency n2.
Proof. exact distinct_consistencies. Qed.
Print Assumptions c20_distinct_consistencies.

(** Nothing but the documented names is accepted (unknown names are refused). *)
Theorem c20_only_documented_versions :
  forall s v, parse_version s = Some v ->
              exists name, In (name, v) documented_versions /\ lower s = lower name.
Proof. exact only_documented_versions. Qed.
Print Assumptions c20_only_documented_versions.

Theorem c20_only_documented_consistencies :
  forall s v, parse_consistency s = Some v ->
              exists name, In (name, v) documented_consistencies /\ lower s = lower name.
Proof. exact only_documented_consistencies. Qed.
Print Assumptions c20_only_documented_consistencies.

(** Inconsistent configurations are refused. *)
Theorem c20_bad_config_refused :
  forall c,
    (c_backend c = false -> validate c = None) /\
    ((c_heartbeat c >= c_idle c)%Z -> validate c = None) /\
    ((c_numconns c < 1)%Z -> validate c = None) /\
    (forall v m, parse_version (c_version c) = Some v -> parse_version (c_maxversion c) = Some m ->
                 m < v -> validate c = None) /\
    (parse_version (c_version c) = None -> validate c = None) /\
    (parse_version (c_maxversion c) = None -> validate c = None) /\
    (parse_consistency (c_override c) = None -> validate c = None) /\
    (forall s, In s (c_cls c) -> parse_consistency s = None -> validate c = None) /\
    (c_rpc c = false -> c_peers c <> [] -> validate c = None) /\
    (forall p, In p (c_peers c) -> p_has_rpc p = false -> validate c = None) /\
    (forall p, c_tokens c = true -> In p (c_peers c) -> p_is_self p = false ->
               p_has_tokens p = false -> validate c = None).
Proof.
  intro c. repeat split.
  - exact (refuse_no_backend c).
  - exact (refuse_heartbeat c).
  - exact (refuse_numconns c).
  - exact (refuse_version_above_max c).
  - exact (refuse_unknown_version c).
  - exact (refuse_unknown_maxversion c).
  - exact (refuse_unknown_override c).
  - exact (refuse_unknown_cl c).
  - intros H1 H2. exact (refuse_build_nodes c (peers_without_rpc c H1 H2)).
  - intros p H1 H2. exact (refuse_build_nodes c (peer_without_rpc c p H1 H2)).
  - intros p H1 H2 H3 H4. exact (refuse_build_nodes c (own_tokens_without_peer_tokens c p H1 H2 H3 H4)).
Qed.
Print Assumptions c20_bad_config_refused.

(** An accepted configuration runs with exactly the documented values of its names. *)
Theorem c20_good_config_effective :
  forall c e, validate c = Some e ->
    doc_version (c_version c) = Some (e_version e) /\
    doc_version (c_maxversion c) = Some (e_maxversion e) /\
    doc_consistency (c_override c) = Some (e_override e) /\
    e_numconns e = c_numconns c /\ e_heartbeat e = c_heartbeat c /\ e_idle e = c_idle c /\
    (e_version e <= e_maxversion e) /\ (1 <= e_numconns e)%Z /\ (e_heartbeat e < e_idle e)%Z.
Proof. exact good_config_effective. Qed.
Print Assumptions c20_good_config_effective.

(** Non-vacuity: a concrete configuration is accepted, and a concrete one refused. *)
Definition sample_cfg : cfg :=
  {| c_backend := true; c_heartbeat := 30; c_idle := 60; c_numconns := 2;
     c_version := str "V4"; c_maxversion := str "dsev1"; c_cls := [str "Serial"];
     c_override := str "LOCAL_QUORUM"; c_rpc := true; c_tokens := false;
     c_peers := [ {| p_has_rpc := true; p_is_self := false; p_has_tokens := false |} ] |}.
Example c20_sample_accepted :
  option_map (fun e => (e_version e, e_maxversion e, e_cls e, e_override e)) (validate sample_cfg)
  = Some (4, 65, [8], 6).
Proof. vm_compute. reflexivity. Qed.
