(** * C18 — concurrent operation is free of data races.

    Two parts.  (1) The general theorem: in any execution in which every access to a guarded
    variable happens while the accessing goroutine holds the variable's lock (exclusively for a
    write), two conflicting accesses by different goroutines are ordered by happens-before.
    (2) The lock discipline of the source, extracted by the translator (Gen/Locksets.v: every
    syntactic access to a guarded field with the locks of its receiver held there), satisfies
    the premise site by site.  What the extraction cannot see (fields not in its table, atomics,
    channels, hand-over between goroutines) is covered by the race-detector runs only. *)
From Coq Require Import List Arith Bool.
From CqlProxy Require Import Model.Locksets Proofs.LocksetsProofs Gen.Locksets.
Import ListNotations.

Theorem c18_lock_discipline_orders_conflicting_accesses :
  forall guard tr final i j t1 t2 x w1 w2,
    run [] tr = Some final -> disciplined guard tr ->
    i < j -> nth_error tr i = Some (Acc t1 x w1) -> nth_error tr j = Some (Acc t2 x w2) ->
    t1 <> t2 -> w1 || w2 = true -> hb tr i j.
Proof. exact discipline_orders_conflicting_accesses. Qed.
Print Assumptions c18_lock_discipline_orders_conflicting_accesses.

(** every extracted access site holds its guard (a write holds it exclusively), and every call
    of a function that relies on its caller's lock is made with that lock held *)
Theorem c18_every_access_site_holds_its_guard :
  sites_ok lock_guard lock_sites = true /\ lock_assumed_calls_bad = 0.
Proof. split; vm_compute; reflexivity. Qed.
Print Assumptions c18_every_access_site_holds_its_guard.

(** the premises are satisfiable: a reader under RLock and a writer under Lock, in either order *)
Example c18_disciplined_trace :
  let tr := [Acq (1, 0, Sh); Acc 1 7 false; Rel (1, 0, Sh); Acq (2, 0, Ex); Acc 2 7 true; Rel (2, 0, Ex)] in
  run [] tr = Some [] /\ hb tr 1 4.
Proof.
  split; [reflexivity|].
  apply hb_trans with 2; [eapply hb_po; [auto|reflexivity|reflexivity|reflexivity]|].
  apply hb_trans with 3; [eapply hb_sync; [auto|reflexivity|reflexivity|reflexivity|reflexivity]|].
  eapply hb_po; [auto|reflexivity|reflexivity|reflexivity].
Qed.

(** and the site check is not vacuous: a write under the read lock, or an access with nothing held, fails it *)
Example c18_site_check_rejects :
  site_ok lock_guard {| s_var := 0; s_write := true; s_held := [(0, Sh)]; s_where := 0 |} = false /\
  site_ok lock_guard {| s_var := 8; s_write := false; s_held := []; s_where := 0 |} = false.
Proof. split; reflexivity. Qed.
