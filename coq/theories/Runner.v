(** Dispatcher used by the extracted model runner and by the in-Coq cases.v route.
    Depends on Model/ only, so it builds (and the correspondence check runs) even when a
    proof obligation of some property is broken. *)
From Coq Require Import List ZArith NArith Bool.
From CqlProxy Require Import Lib.Val Lib.Util Model.Config Model.LB Model.Codec Model.Retry Model.Frame Model.Override Model.Gate Model.Streams Model.Classify Model.Handled Model.SysTables Model.OneReply Model.Sessions Model.Prepared Model.Events Model.Topology Model.Hostile Model.Astra Model.Core Model.CoreDrive Model.Ast Model.AstGen Model.Front Model.Monitor Model.ConnIO Model.Pool Model.Handshake Model.Heartbeat Model.Lz4.
Import ListNotations.
Local Open Scope N_scope.

Definition is_front_case (prop : bytes) (input : val) : bool :=
  (bytes_eqb prop (str "C03") || bytes_eqb prop (str "C09") || bytes_eqb prop (str "C12") || bytes_eqb prop (str "C04"))
  && (match input with L (I 4%Z :: _ :: _ :: _ :: _ :: []) => true | _ => false end).

Definition is_trace_case (input : val) : bool :=
  match input with L (I 8%Z :: _ :: L _ :: []) => true | _ => false end.

Definition is_connio_case (input : val) : bool :=
  match input with L (I 7%Z :: I _ :: L _ :: L _ :: I _ :: []) => true | _ => false end.

Definition is_hs_case (input : val) : bool :=
  match input with L (I 9%Z :: I _ :: L _ :: I _ :: B _ :: B _ :: I _ :: B _ :: B _ :: []) => true | _ => false end.

Definition is_lz4_case (input : val) : bool :=
  match input with L (I 10%Z :: I _ :: B _ :: []) => true | _ => false end.

Definition run_prop (prop : bytes) (input : val) : val :=
  if is_trace_case input then L [I 0]
  else if is_lz4_case input then run_lz4 input
  else if is_hs_case input then run_hs input
  else if is_connio_case input then run_connio input
  else if is_front_case prop input then run_front input
  else if bytes_eqb prop (str "C20") then run_c20 input
  else if bytes_eqb prop (str "C15") then run_c15 input
  else if bytes_eqb prop (str "C11") then run_c11 input
  else if bytes_eqb prop (str "C05") then run_c05_both input
  else if bytes_eqb prop (str "C04") then run_c05_both input
  else if bytes_eqb prop (str "C03") then (if Nat.eqb (length (vL input)) 7 then run_c12 input else run_c03 input)
  else if bytes_eqb prop (str "C12") then run_c12 input
  else if bytes_eqb prop (str "C13") then run_c13 input
  else if bytes_eqb prop (str "C02") then run_c02 input
  else if bytes_eqb prop (str "C06GEN") then run_c06ast (vN (nthv 0 input))
  else if bytes_eqb prop (str "C06") then (if Z.eqb (vZ (nthv 0 input)) 2 then run_c06_ast input else run_c06 input)
  else if bytes_eqb prop (str "C09") then run_c09 input
  else if bytes_eqb prop (str "C10") then run_c10 input
  else if bytes_eqb prop (str "C01") then run_c01 input
  else if bytes_eqb prop (str "C07") then run_c07 input
  else if bytes_eqb prop (str "C08") then run_c08 input
  else if bytes_eqb prop (str "C14") then run_c14 input
  else if bytes_eqb prop (str "C16") then (if (vZ (nthv 0 input) =? 8)%Z then run_hb input else if (6 <=? vZ (nthv 0 input))%Z then run_pool input else run_c16 input)
  else if bytes_eqb prop (str "C17") then run_c17 input
  else if bytes_eqb prop (str "C19") then run_c19 input
  else if bytes_eqb prop (str "C18") then L [I 0]
  else L [B (str "unknown-property")].

Definition holds_prop (prop : bytes) (input output : val) : val :=
  if is_trace_case input then holds_monitor input output
  else if is_lz4_case input then holds_lz4 input output
  else if is_hs_case input then holds_hs input output
  else if is_connio_case input then holds_connio input output
  else if is_front_case prop input then holds_front input output
  else if bytes_eqb prop (str "C20") then holds_c20 input output
  else if bytes_eqb prop (str "C15") then holds_c15 input output
  else if bytes_eqb prop (str "C11") then holds_c11 input output
  else if bytes_eqb prop (str "C05") then holds_c05 input output
  else if bytes_eqb prop (str "C04") then holds_c05 input output
  else if bytes_eqb prop (str "C03") then (if Nat.eqb (length (vL input)) 7 then holds_c12 input output else holds_c03 input output)
  else if bytes_eqb prop (str "C12") then holds_c12 input output
  else if bytes_eqb prop (str "C13") then holds_c13 input output
  else if bytes_eqb prop (str "C02") then holds_c02 input output
  else if bytes_eqb prop (str "C06") then (if Z.eqb (vZ (nthv 0 input)) 2 then holds_c06_ast input output else holds_c06 input output)
  else if bytes_eqb prop (str "C09") then holds_c09 input output
  else if bytes_eqb prop (str "C10") then holds_c10 input output
  else if bytes_eqb prop (str "C01") then holds_c01 input output
  else if bytes_eqb prop (str "C07") then holds_c07 input output
  else if bytes_eqb prop (str "C08") then holds_c08 input output
  else if bytes_eqb prop (str "C14") then holds_c14 input output
  else if bytes_eqb prop (str "C16") then (if (vZ (nthv 0 input) =? 8)%Z then holds_hb input output else if (6 <=? vZ (nthv 0 input))%Z then holds_pool input output else holds_c16 input output)
  else if bytes_eqb prop (str "C17") then holds_c17 input output
  else if bytes_eqb prop (str "C19") then holds_c19 input output
  else if bytes_eqb prop (str "C18") then (if Z.eqb (vZ (nthv 0 output)) 0 then B [] else B (str "the-race-detector-reported-a-data-race-between-these-two-accesses"))
  else B (str "unknown-property").

(** One line of the case file: [input TAB impl_output]  ->  [model_output TAB holds]. *)
Definition process_line (prop line : bytes) : bytes :=
  match split_tab line [] with
  | inp :: out :: _ =>
      match parse_val inp, parse_val out with
      | Some i, Some o => print_val (run_prop prop i) ++ [9] ++ print_val (holds_prop prop i o)
      | _, _ => str "PARSE-ERROR"
      end
  | [inp] =>
      match parse_val inp with
      | Some i => print_val (run_prop prop i)
      | None => str "PARSE-ERROR"
      end
  | _ => str "PARSE-ERROR"
  end.

(** cases.v route: list of (input, impl_output) pairs -> indices that mismatch or fail. *)
Fixpoint check_cases (prop : bytes) (idx : nat) (cases : list (val * val)) : list (nat * val * val) :=
  match cases with
  | [] => []
  | (i, o) :: r =>
      let m := run_prop prop i in
      let h := holds_prop prop i o in
      if val_eqb m o && val_eqb h (B []) then check_cases prop (S idx) r
      else (idx, m, h) :: check_cases prop (S idx) r
  end.
