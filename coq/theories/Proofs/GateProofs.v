(** Proofs about Model/Gate.v (C13). *)
From Coq Require Import List ZArith NArith Bool Lia.
From CqlProxy Require Import Lib.Val Lib.Util Lib.Wire Gen.Tables Model.Frame Model.Override Model.Gate.
Import ListNotations.
Local Open Scope N_scope.

Lemma gate_out_of_range maxv st h body :
  maxv < h_version h \/ h_version h < 3 ->
  gate maxv st h body = GAnswered [RProtocolErrorVersion (h_version h)] st.
Proof.
  intros H. unfold gate.
  assert (E : (maxv <? h_version h) || (h_version h <? 3) = true).
  { apply orb_true_iff. destruct H; [left|right]; apply N.ltb_lt; assumption. }
  rewrite E. reflexivity.
Qed.

Lemma gate_dispatched_in_range maxv st h body :
  gate maxv st h body = GDispatched -> 3 <= h_version h <= maxv.
Proof.
  unfold gate. destruct ((maxv <? h_version h) || (h_version h <? 3)) eqn:E; [discriminate|].
  intros _. apply orb_false_iff in E. destruct E as [E1 E2].
  apply N.ltb_ge in E1. apply N.ltb_ge in E2. lia.
Qed.

Lemma gate_answers_one_frame maxv st h body rs st' :
  gate maxv st h body = GAnswered rs st' -> length rs = 1%nat.
Proof.
  unfold gate.
  destruct ((maxv <? h_version h) || (h_version h <? 3)); [intro H; inversion H; reflexivity|].
  destruct (flag_compressed (h_flags h) && negb (compression_supported (comp st))); [discriminate|].
  destruct (split_envelope (h_flags h) body) as [[pl msg]|]; [|discriminate].
  destruct (h_opcode h =? 5); [intro H; inversion H; reflexivity|].
  destruct (h_opcode h =? 1).
  { destruct (read_string_map msg) as [opts|]; [|discriminate].
    destruct (map_get (str "COMPRESSION") opts) as [c|].
    - destruct (compression_supported c); intro H; inversion H; reflexivity.
    - intro H; inversion H; reflexivity. }
  destruct (h_opcode h =? 11).
  { destruct (read_string_list msg) as [evs|]; [|discriminate].
    destruct (forallb valid_event_type evs); [|discriminate]. intro H; inversion H; reflexivity. }
  destruct ((h_opcode h =? 7) || (h_opcode h =? 9) || (h_opcode h =? 10) || (h_opcode h =? 13)); [discriminate|].
  destruct (h_opcode h =? 15).
  { destruct (read_bytes_val msg); [|discriminate]. intro H; inversion H; reflexivity. }
  destruct (h_opcode h =? 2); [intro H; inversion H; reflexivity|].
  destruct msg; discriminate.
Qed.

(** OPTIONS, STARTUP and REGISTER are never dispatched (hence never forwarded) *)
Lemma handshake_never_dispatched maxv st h body :
  h_opcode h = 5 \/ h_opcode h = 1 \/ h_opcode h = 11 -> gate maxv st h body <> GDispatched.
Proof.
  intros Hop. unfold gate.
  destruct ((maxv <? h_version h) || (h_version h <? 3)); [discriminate|].
  destruct (flag_compressed (h_flags h) && negb (compression_supported (comp st))); [discriminate|].
  destruct (split_envelope (h_flags h) body) as [[pl msg]|]; [|discriminate].
  destruct Hop as [-> | [-> | ->]]; cbn [N.eqb Pos.eqb].
  - discriminate.
  - destruct (read_string_map msg) as [opts|]; [|discriminate].
    destruct (map_get (str "COMPRESSION") opts) as [c|]; [destruct (compression_supported c)|]; discriminate.
  - destruct (read_string_list msg) as [evs|]; [|discriminate].
    destruct (forallb valid_event_type evs); discriminate.
Qed.

(** the exact answers *)
Lemma options_answer maxv st h body pl msg :
  3 <= h_version h <= maxv -> flag_compressed (h_flags h) = false -> h_opcode h = 5 ->
  split_envelope (h_flags h) body = Some (pl, msg) ->
  gate maxv st h body = GAnswered [RSupported] st.
Proof.
  intros Hv Hc Hop Hs. unfold gate.
  replace ((maxv <? h_version h) || (h_version h <? 3)) with false
    by (symmetry; apply orb_false_iff; split; apply N.ltb_ge; lia).
  rewrite Hc, Hs, Hop. reflexivity.
Qed.

Lemma startup_answer maxv st h body pl msg opts :
  3 <= h_version h <= maxv -> flag_compressed (h_flags h) = false -> h_opcode h = 1 ->
  split_envelope (h_flags h) body = Some (pl, msg) -> read_string_map msg = Some opts ->
  gate maxv st h body =
  match map_get (str "COMPRESSION") opts with
  | Some c => if compression_supported c then GAnswered [RReady] {| comp := c; registered := registered st |}
              else GAnswered [RProtocolErrorCompression] st
  | None => GAnswered [RReady] st
  end.
Proof.
  intros Hv Hc Hop Hs Hm. unfold gate.
  replace ((maxv <? h_version h) || (h_version h <? 3)) with false
    by (symmetry; apply orb_false_iff; split; apply N.ltb_ge; lia).
  rewrite Hc, Hs, Hop. cbn [N.eqb Pos.eqb andb]. rewrite Hm. reflexivity.
Qed.

Lemma register_answer maxv st h body pl msg evs :
  3 <= h_version h <= maxv -> flag_compressed (h_flags h) = false -> h_opcode h = 11 ->
  split_envelope (h_flags h) body = Some (pl, msg) -> read_string_list msg = Some evs ->
  forallb valid_event_type evs = true ->
  gate maxv st h body =
  GAnswered [RReady] {| comp := comp st; registered := registered st || existsb (bytes_eqb (str "SCHEMA_CHANGE")) evs |}.
Proof.
  intros Hv Hc Hop Hs Hm He. unfold gate.
  replace ((maxv <? h_version h) || (h_version h <? 3)) with false
    by (symmetry; apply orb_false_iff; split; apply N.ltb_ge; lia).
  rewrite Hc, Hs, Hop. cbn [N.eqb Pos.eqb andb]. rewrite Hm, He. reflexivity.
Qed.

(** an unknown version byte (or any header the codec rejects) closes the connection *)
Lemma unknown_version_closed maxv st vd fl r lb :
  version_supported (vd mod 128) = false -> receive maxv st (vd :: fl :: r) lb = GClosed.
Proof. intro H. unfold receive, decode_header. rewrite H. reflexivity. Qed.

(** nothing outside [3, maxv] is ever dispatched, whatever the bytes *)
Lemma receive_dispatched_in_range maxv st frame lb :
  receive maxv st frame lb = GDispatched ->
  exists h r, decode_header frame = inr (h, r) /\ 3 <= h_version h <= maxv.
Proof.
  unfold receive. destruct (decode_header frame) as [e|[h r]]; [discriminate|].
  destruct (h_len h <? 0)%Z; [discriminate|].
  destruct (get_z (h_len h) r) as [[body rest]|]; [|discriminate].
  intro H. apply gate_dispatched_in_range in H. eauto.
Qed.

(** ** several connections: a frame on connection [i] leaves every other connection's state alone *)
Definition set_nth {A} (l : list A) (i : nat) (x : A) : list A :=
  firstn i l ++ match skipn i l with [] => [] | _ :: r => x :: r end.

Definition sys_receive (maxv : N) (sts : list cstate) (i : nat) (frame : bytes) (lb : option bytes) : list cstate :=
  match nth_error sts i with
  | None => sts
  | Some st =>
      match receive maxv st frame lb with
      | GAnswered _ st' => set_nth sts i st'
      | _ => sts
      end
  end.

Lemma set_nth_other {A} (l : list A) i j x : i <> j -> nth_error (set_nth l i x) j = nth_error l j.
Proof.
  revert i j. induction l as [|a l IH]; intros i j Hij.
  - unfold set_nth. destruct i; simpl; destruct j; reflexivity.
  - destruct i as [|i]; destruct j as [|j]; try congruence; try reflexivity.
    unfold set_nth in *. simpl. apply IH. congruence.
Qed.

Lemma other_connections_untouched maxv sts i j frame lb :
  i <> j -> nth_error (sys_receive maxv sts i frame lb) j = nth_error sts j.
Proof.
  intro Hij. unfold sys_receive. destruct (nth_error sts i) as [st|]; [|reflexivity].
  destruct (receive maxv st frame lb); try reflexivity. apply set_nth_other. exact Hij.
Qed.
