(** Stronger theorems about Model/Override.v (property C12): for EVERY body the decoders accept
    (not only reference layouts) the overridden, re-encoded body has the length of the original
    and differs from it in exactly the two consistency bytes, whose offset is the length of the
    encoded leading fields; everything before and after is identical.  The side conditions
    (no negative [long string] length, envelope re-encodes to itself) are exact: each one is
    shown necessary by a refutation. *)
From Coq Require Import List ZArith NArith Bool Lia ZifyN ZifyNat ZifyBool.
From CqlProxy Require Import Lib.Val Lib.Util Lib.Wire Proofs.WireProofs Model.Codec Proofs.CodecProofs
  Proofs.CodecProofs2 Model.Override Proofs.OverrideProofs.
Import ListNotations.
Local Open Scope N_scope.

Definition msg_params (m : pmsg) : bytes :=
  match m with MQuery q => q_params q | MExecute x => x_params x | MBatch b => b_params b end.

(** the encoded leading fields that precede the consistency *)
Definition msg_lead (v : N) (m : pmsg) : bytes :=
  match m with
  | MQuery q => enc_long_string (q_query q)
  | MExecute x => enc_short_bytes (x_id x) ++ (if supports_rmid v then enc_short_bytes (x_rmid x) else [])
  | MBatch b => enc_byte (b_type b) ++ enc_short (N.of_nat (length (b_children b))) ++
                concat (map encode_child (b_children b))
  end.

Lemma encode_msg_split v m : encode_msg v m = msg_lead v m ++ enc_short (msg_cl m) ++ msg_params m.
Proof.
  destruct m as [q|x|b]; cbn [encode_msg msg_lead msg_cl msg_params].
  - reflexivity.
  - unfold encode_execute. rewrite <- !app_assoc. reflexivity.
  - unfold encode_batch. rewrite <- !app_assoc. reflexivity.
Qed.

Lemma msg_lead_set_cl v m cl : msg_lead v (set_cl m cl) = msg_lead v m.
Proof. destruct m; reflexivity. Qed.
Lemma msg_params_set_cl m cl : msg_params (set_cl m cl) = msg_params m.
Proof. destruct m; reflexivity. Qed.
Lemma msg_cl_set_cl m cl : msg_cl (set_cl m cl) = cl.
Proof. destruct m; reflexivity. Qed.

Lemma encode_set_cl v m cl : encode_msg v (set_cl m cl) = msg_lead v m ++ enc_short cl ++ msg_params m.
Proof. rewrite encode_msg_split, msg_lead_set_cl, msg_params_set_cl, msg_cl_set_cl. reflexivity. Qed.

(** the message carries a [long string] declared with a negative length (QUERY: the query
    string; BATCH: some child's query string; EXECUTE: never) *)
Definition msg_neg (op : N) (b : bytes) : bool :=
  if op =? 7 then lstr_neg b else if op =? 10 then false else batch_neg b.

Lemma decode_msg_inv op v b m :
  decode_msg op v b = Ok m ->
  (op = 7 /\ exists q, m = MQuery q /\ decode_query b = Ok q) \/
  (op = 10 /\ exists x, m = MExecute x /\ decode_execute v b = Ok x) \/
  (op <> 7 /\ op <> 10 /\ exists bt, m = MBatch bt /\ decode_batch b = Ok bt).
Proof.
  unfold decode_msg. destruct (N.eqb_spec op 7) as [E7|N7].
  - destruct (decode_query b) as [q|e|e|]; try discriminate. intro H. injection H as <-. left. eauto.
  - destruct (N.eqb_spec op 10) as [E10|N10].
    + destruct (decode_execute v b) as [x|e|e|]; try discriminate. intro H. injection H as <-. right. left. eauto.
    + destruct (decode_batch b) as [bt|e|e|]; try discriminate. intro H. injection H as <-. right. right. eauto.
Qed.

(** Re-encoding identity at message level, with its exact side condition. *)
Theorem encode_decode_msg_iff op v b m :
  wf_bytes b -> decode_msg op v b = Ok m -> (encode_msg v m = b <-> msg_neg op b = false).
Proof.
  intros Hwf H. unfold msg_neg.
  destruct (decode_msg_inv op v b m H) as [(-> & q & -> & Hd)|[(-> & x & -> & Hd)|(N7 & N10 & bt & -> & Hd)]];
    cbn [encode_msg N.eqb Pos.eqb].
  - apply encode_decode_query_iff; assumption.
  - split; [reflexivity|]. intros _. apply encode_decode_execute; assumption.
  - destruct (N.eqb_spec op 7); [contradiction|]. destruct (N.eqb_spec op 10); [contradiction|].
    apply encode_decode_batch_iff; assumption.
Qed.

(** What was consumed ahead of the parameters has the length of the encoded leading fields plus
    the two consistency bytes -- for every accepted body, canonical or not. *)
Lemma decode_msg_layout op v b m :
  decode_msg op v b = Ok m ->
  exists p, b = p ++ msg_params m /\ length p = (length (msg_lead v m) + 2)%nat.
Proof.
  intro H.
  destruct (decode_msg_inv op v b m H) as [(-> & q & -> & Hd)|[(-> & x & -> & Hd)|(N7 & N10 & bt & -> & Hd)]];
    cbn [msg_lead msg_params].
  - destruct (decode_query_prefix b q Hd) as (p & Hb & Hl & _). exists p. split; [exact Hb|].
    unfold enc_long_string. rewrite app_length, enc_int_length. lia.
  - destruct (decode_execute_prefix v b x Hd) as (p & Hb & Hl & _). exists p. split; [exact Hb|].
    unfold enc_short_bytes. destruct (supports_rmid v); rewrite !app_length; simpl; lia.
  - destruct (decode_batch_prefix b bt Hd) as (p & Hb & Hl & _). exists p. split; [exact Hb|].
    rewrite !app_length. simpl. lia.
Qed.

(** ** the two-byte patch, on lists *)
Lemma two_byte_patch (L a a' P : bytes) :
  length a = 2%nat -> length a' = 2%nat ->
  let k := length L in
  let x := L ++ a ++ P in
  let y := L ++ a' ++ P in
  length x = length y /\ firstn k x = firstn k y /\ skipn (k + 2) x = skipn (k + 2) y /\
  firstn 2 (skipn k x) = a /\ firstn 2 (skipn k y) = a'.
Proof.
  intros Ha Ha' k x y. unfold x, y, k.
  split; [rewrite !app_length; lia|].
  split; [rewrite !(firstn_app_exact L _ _ eq_refl); reflexivity|].
  split.
  - rewrite !(app_assoc L). rewrite !skipn_app_exact by (rewrite app_length; lia). reflexivity.
  - rewrite !(skipn_app_exact L _ _ eq_refl). rewrite !firstn_app_exact by assumption. auto.
Qed.

Lemma enc_short_length n : length (enc_short n) = 2%nat.
Proof. reflexivity. Qed.

(** ** message level *)

(** ALWAYS (even for non-canonical bodies): same length, and everything after the consistency
    (values, flags, serial consistency, timestamp, paging state, ...) is kept verbatim. *)
Theorem override_msg_length_and_tail op v b m cl' :
  decode_msg op v b = Ok m ->
  let k := length (msg_lead v m) in
  let out := encode_msg v (set_cl m cl') in
  length out = length b /\ skipn (k + 2) out = skipn (k + 2) b /\ skipn (k + 2) b = msg_params m /\
  firstn 2 (skipn k out) = enc_short cl'.
Proof.
  intros H k out. destruct (decode_msg_layout op v b m H) as (p & Hb & Hl).
  unfold out, k. rewrite encode_set_cl. rewrite Hb.
  split; [rewrite !app_length, Hl; simpl; lia|].
  assert (E1 : skipn (length (msg_lead v m) + 2) (msg_lead v m ++ enc_short cl' ++ msg_params m) = msg_params m).
  { rewrite app_assoc. apply skipn_app_exact. rewrite app_length. reflexivity. }
  assert (E2 : skipn (length (msg_lead v m) + 2) (p ++ msg_params m) = msg_params m)
    by (apply skipn_app_exact; exact Hl).
  rewrite E1, E2. split; [reflexivity|]. split; [reflexivity|].
  rewrite (skipn_app_exact _ _ _ eq_refl). apply firstn_app_exact. reflexivity.
Qed.

(** For a canonical body: exactly the two consistency bytes, at offset [length (msg_lead v m)]. *)
Theorem override_msg_two_bytes op v b m cl' :
  wf_bytes b -> decode_msg op v b = Ok m -> msg_neg op b = false ->
  let k := length (msg_lead v m) in
  let out := encode_msg v (set_cl m cl') in
  length out = length b /\
  firstn k out = firstn k b /\
  skipn (k + 2) out = skipn (k + 2) b /\
  firstn 2 (skipn k out) = enc_short cl' /\
  firstn 2 (skipn k b) = enc_short (msg_cl m).
Proof.
  intros Hwf H Hn k out.
  pose proof (proj2 (encode_decode_msg_iff op v b m Hwf H) Hn) as Hid.
  rewrite encode_msg_split in Hid. unfold out, k. rewrite encode_set_cl. clear out k. subst b.
  destruct (two_byte_patch (msg_lead v m) (enc_short cl') (enc_short (msg_cl m)) (msg_params m) eq_refl eq_refl)
    as (H1 & H2 & H3 & H4 & H5).
  auto.
Qed.

(** ** request level: [process_request] *)

(** what [reenc_body] writes ahead of the message *)
Definition reenc_env (flags : N) (pl : option (list pentry)) : bytes :=
  (match pl with Some p => enc_bytes_map p | None => if flag_payload flags then enc_bytes_map [] else [] end) ++
  (if flag_warning flags then [0; 0] else []).

Lemma reenc_body_env v flags pl m : reenc_body v flags pl m = reenc_env flags pl ++ encode_msg v m.
Proof. unfold reenc_body, reenc_env. rewrite <- !app_assoc. reflexivity. Qed.

(** The headline: a matching write whose body [lbody = E ++ rest] (envelope, message) decodes,
    is canonical and whose envelope re-encodes to itself goes out with the same length and with
    only the two bytes at offset [length E + length (msg_lead v m)] replaced by the override
    consistency. *)
Theorem override_changes_exactly_two_bytes c v flags op lbody pl rest m E :
  wf_bytes rest ->
  split_envelope flags lbody = Some (pl, rest) -> decode_msg op v rest = Ok m ->
  is_unsupported c (msg_cl m) = true ->
  msg_neg op rest = false ->
  lbody = E ++ rest -> reenc_env flags pl = E ->
  exists out,
    process_request c false v flags op lbody = FwdReenc out (Z.of_nat (length out)) /\
    let k := (length E + length (msg_lead v m))%nat in
    length out = length lbody /\
    firstn k out = firstn k lbody /\
    skipn (k + 2) out = skipn (k + 2) lbody /\
    firstn 2 (skipn k out) = enc_short (override c) /\
    firstn 2 (skipn k lbody) = enc_short (msg_cl m).
Proof.
  intros Hwf Hs Hd Hu Hn Hb He.
  rewrite (process_when_override _ _ _ _ _ _ _ _ Hs Hd Hu).
  eexists. split; [reflexivity|]. rewrite reenc_body_env, He, Hb.
  pose proof (proj2 (encode_decode_msg_iff op v rest m Hwf Hd) Hn) as Hid.
  rewrite encode_msg_split in Hid. rewrite encode_set_cl. rewrite <- Hid.
  rewrite !(app_assoc E). rewrite <- app_length.
  exact (two_byte_patch (E ++ msg_lead v m) (enc_short (override c)) (enc_short (msg_cl m)) (msg_params m) eq_refl eq_refl).
Qed.

(** the common case: no custom payload and no warning flag -- the envelope is empty *)
Corollary override_changes_exactly_two_bytes_plain c v flags op lbody m :
  wf_bytes lbody -> flag_payload flags = false -> flag_warning flags = false ->
  decode_msg op v lbody = Ok m -> is_unsupported c (msg_cl m) = true -> msg_neg op lbody = false ->
  exists out,
    process_request c false v flags op lbody = FwdReenc out (Z.of_nat (length out)) /\
    let k := length (msg_lead v m) in
    length out = length lbody /\
    firstn k out = firstn k lbody /\
    skipn (k + 2) out = skipn (k + 2) lbody /\
    firstn 2 (skipn k out) = enc_short (override c) /\
    firstn 2 (skipn k lbody) = enc_short (msg_cl m).
Proof.
  intros Hwf Hp Hw Hd Hu Hn.
  assert (Hs : split_envelope flags lbody = Some (None, lbody)) by (unfold split_envelope; rewrite Hp; reflexivity).
  assert (He : reenc_env flags None = []) by (unfold reenc_env; rewrite Hp, Hw; reflexivity).
  exact (override_changes_exactly_two_bytes c v flags op lbody None lbody m [] Hwf Hs Hd Hu Hn eq_refl He).
Qed.

Example override_two_bytes_ex :
  let c := {| unsupported := [6; 7]; override := 4 |} in
  let b := [0;0;0;2;65;66; 0;6; 1;2;3] in
  wf_bytes b /\ msg_neg 7 b = false /\
  process_request c false 4 2 7 b = FwdReenc [0;0;0;2;65;66; 0;4; 1;2;3] 11.
Proof. split; [apply wf_bytesb_true; reflexivity|]. vm_compute. auto. Qed.

(** ** The side conditions are necessary. *)

(** REFUTED without canonicity: a QUERY declared with query-string length -1 and a listed
    consistency goes out with FOUR more bytes changed (the length field ff ff ff ff -> 00 00 00 00). *)
Theorem override_two_bytes_refuted_negative_length :
  exists c v flags lbody out l,
    wf_bytes lbody /\ process_request c false v flags 7 lbody = FwdReenc out l /\
    length out = length lbody /\ firstn 4 out <> firstn 4 lbody.
Proof.
  exists {| unsupported := [6]; override := 4 |}, 4, 0, [255; 255; 255; 255; 0; 6; 0]. eexists. eexists.
  split; [apply wf_bytesb_true; reflexivity|]. split; [vm_compute; reflexivity|].
  split; [reflexivity|]. vm_compute. discriminate.
Qed.

(** REFUTED with the warning flag (0x08) set on the request: the re-encoded body is two bytes
    LONGER (an empty warning list is written), so the message is shifted. *)
Theorem override_two_bytes_refuted_warning_flag :
  exists c v flags lbody out l,
    wf_bytes lbody /\ process_request c false v flags 7 lbody = FwdReenc out l /\
    length out = (length lbody + 2)%nat.
Proof.
  exists {| unsupported := [6]; override := 4 |}, 4, 8, [0; 0; 0; 1; 65; 0; 6; 0]. eexists. eexists.
  split; [apply wf_bytesb_true; reflexivity|]. split; [vm_compute; reflexivity|reflexivity].
Qed.

(** REFUTED for a custom payload with a nil value declared as length -2: written back as -1. *)
Theorem override_two_bytes_refuted_payload_nil :
  exists c v flags lbody out l,
    wf_bytes lbody /\ process_request c false v flags 7 lbody = FwdReenc out l /\
    length out = length lbody /\ firstn 9 out <> firstn 9 lbody.
Proof.
  exists {| unsupported := [6]; override := 4 |}, 4, 4,
    ([0; 1; 0; 1; 107; 255; 255; 255; 254] ++ [0; 0; 0; 1; 65; 0; 6; 0]). eexists. eexists.
  split; [apply wf_bytesb_true; reflexivity|]. split; [vm_compute; reflexivity|].
  split; [reflexivity|]. vm_compute. discriminate.
Qed.

(** ** the envelope (custom payload): when does it re-encode to itself? *)
Definition enc_bval (v : option bytes) : bytes :=
  match v with Some c => enc_int (Z.of_nat (length c)) ++ c | None => enc_int (-1) end.

Lemma enc_entry_eq e : enc_entry e = enc_short_bytes (fst e) ++ enc_bval (snd e).
Proof. unfold enc_entry, enc_bval. destruct (snd e); reflexivity. Qed.

(** the [bytes] value at the head of [b] is a nil declared with a length below -1 *)
Definition bval_neg (b : bytes) : bool :=
  match read_int b with Some (n, _) => (n <? -1)%Z | None => false end.

Lemma read_bytes_val_inv b v r :
  read_bytes_val b = Some (v, r) ->
  exists p, b = p ++ r /\ length (enc_bval v) = length p /\
    (wf_bytes b -> (enc_bval v = p <-> bval_neg b = false)).
Proof.
  unfold read_bytes_val, bval_neg. destruct (read_int b) as [[n r0]|] eqn:Ei; [|discriminate].
  destruct (read_int_consumes _ _ _ Ei) as (p4 & Hb & Hl4 & _).
  destruct (Z.ltb_spec n 0) as [Hneg|Hnn].
  - intro H. injection H as <- <-. exists p4. split; [exact Hb|]. split; [rewrite Hl4; reflexivity|].
    intro Hwf. assert (Hw4 : wf_bytes p4) by (rewrite Hb in Hwf; apply wf_app in Hwf; tauto).
    rewrite Hb in Ei. pose proof (read_int_enc_back p4 n r0 Hw4 Hl4 Ei) as He. cbn [enc_bval].
    destruct (Z.ltb_spec n (-1)) as [Hlt|Hge].
    + split; [|discriminate]. intro E. rewrite <- E in Ei.
      rewrite read_int_enc in Ei by lia. inversion Ei. lia.
    + split; [reflexivity|]. intros _. replace n with (-1)%Z in He by lia. exact He.
  - destruct (get_z n r0) as [[c r']|] eqn:Eg; [|discriminate].
    intro H. injection H as <- <-.
    assert (Hlc : Z.of_nat (length c) = n) by (destruct (get_z_consumes _ _ _ _ Eg) as (_ & Hl' & _); lia).
    apply get_z_split in Eg.
    exists (p4 ++ c). split; [rewrite Hb, Eg, app_assoc; reflexivity|].
    split; [cbn [enc_bval]; rewrite !app_length, enc_int_length, Hl4; reflexivity|].
    intro Hwf. assert (Hw4 : wf_bytes p4) by (rewrite Hb in Hwf; apply wf_app in Hwf; tauto).
    rewrite Hb in Ei. pose proof (read_int_enc_back p4 n r0 Hw4 Hl4 Ei) as He. cbn [enc_bval].
    destruct (Z.ltb_spec n (-1)) as [Hlt|_]; [lia|]. split; [reflexivity|]. intros _.
    rewrite Hlc, He. reflexivity.
Qed.

Fixpoint entries_neg (n : nat) (b : bytes) : bool :=
  match n with
  | O => false
  | S n' =>
      match read_string b with
      | Some (_, r) =>
          bval_neg r || match read_bytes_val r with Some (_, r') => entries_neg n' r' | None => false end
      | None => false
      end
  end.

Lemma read_entries_inv n : forall b es r,
  read_entries n b = Some (es, r) ->
  exists p, b = p ++ r /\ length es = n /\ length (concat (map enc_entry es)) = length p /\
    (wf_bytes b -> (concat (map enc_entry es) = p <-> entries_neg n b = false)).
Proof.
  induction n as [|n IH]; intros b es r H.
  - simpl in H. injection H as <- <-. exists []. repeat split; reflexivity.
  - cbn [read_entries] in H. destruct (read_string b) as [[k r0]|] eqn:Ek; [|discriminate].
    destruct (read_bytes_val r0) as [[v r1]|] eqn:Ev; [|discriminate].
    destruct (read_entries n r1) as [[es' r2]|] eqn:Ee; [|discriminate].
    injection H as <- <-.
    unfold read_string in Ek.
    destruct (read_short_bytes_consumes _ _ _ Ek) as (p2 & Hb & Hl2 & _ & Hwk).
    destruct (read_bytes_val_inv _ _ _ Ev) as (pv & Hr0 & Hlv & Hwv).
    destruct (IH _ _ _ Ee) as (ps & Hr1 & Hn & Hls & Hws).
    exists ((p2 ++ k) ++ pv ++ ps). split; [rewrite Hb, Hr0, Hr1, <- !app_assoc; reflexivity|].
    split; [simpl; lia|].
    assert (Hlk : length (enc_short_bytes k) = length (p2 ++ k))
      by (unfold enc_short_bytes; rewrite !app_length, Hl2; reflexivity).
    split.
    { cbn [map concat]. rewrite enc_entry_eq. cbn [fst snd]. rewrite !app_length. rewrite !app_length in Hlk. lia. }
    intro Hwf. destruct (Hwk Hwf) as [_ Hek].
    assert (Hwr0 : wf_bytes r0) by (rewrite Hb in Hwf; apply wf_app in Hwf; tauto).
    assert (Hwr1 : wf_bytes r1) by (rewrite Hr0 in Hwr0; apply wf_app in Hwr0; tauto).
    specialize (Hwv Hwr0). specialize (Hws Hwr1).
    cbn [map concat entries_neg]. unfold read_string. rewrite Ek, Ev. rewrite enc_entry_eq. cbn [fst snd].
    rewrite Hek, <- !app_assoc. split.
    + intro E. apply app_inv_head in E. apply app_inv_head in E.
      destruct (app_eq_len _ _ _ _ Hlv E) as [Ea Eb].
      apply Hwv in Ea. apply Hws in Eb. rewrite Ea, Eb. reflexivity.
    + intro E. apply orb_false_iff in E. destruct E as [Ea Eb].
      apply Hwv in Ea. apply Hws in Eb. rewrite Ea, Eb. reflexivity.
Qed.

(** some nil value of the [bytes map] at the head of [b] is declared with a length below -1 *)
Definition map_neg (b : bytes) : bool :=
  match read_short b with Some (n, r) => entries_neg (N.to_nat n) r | None => false end.

Lemma read_bytes_map_inv b m r :
  read_bytes_map b = Some (m, r) ->
  exists p, b = p ++ r /\ length (enc_bytes_map m) = length p /\
    (wf_bytes b -> (enc_bytes_map m = p <-> map_neg b = false)).
Proof.
  unfold read_bytes_map, map_neg. destruct (read_short b) as [[n r0]|] eqn:Es; [|discriminate].
  destruct (read_short_consumes _ _ _ Es) as (x & y & Hb & Hn & _).
  intro H. destruct (read_entries_inv _ _ _ _ H) as (ps & Hr0 & Hlen & Hls & Hws).
  exists ([x; y] ++ ps). split; [rewrite Hb, Hr0, app_assoc; reflexivity|].
  split; [unfold enc_bytes_map, enc_short; rewrite !app_length, Hls; reflexivity|].
  intro Hwf. rewrite Hb in Hwf. destruct (wf_short_pair _ _ _ Hwf) as [Hx Hy].
  assert (Hwr0 : wf_bytes r0) by (apply wf_app in Hwf; tauto). specialize (Hws Hwr0).
  unfold enc_bytes_map. replace (N.of_nat (length m)) with (x * 256 + y) by lia.
  rewrite enc_short_bytes2 by assumption. split.
  - intro E. apply app_inv_head in E. apply Hws. exact E.
  - intro E. apply Hws in E. rewrite E. reflexivity.
Qed.

(** the envelope of [lbody] does not re-encode to itself: a nil payload value declared below -1 *)
Definition env_neg (flags : N) (lbody : bytes) : bool := flag_payload flags && map_neg lbody.

Lemma split_envelope_inv flags lbody pl rest :
  split_envelope flags lbody = Some (pl, rest) ->
  exists E, lbody = E ++ rest /\
    (wf_bytes lbody -> flag_warning flags = false -> (reenc_env flags pl = E <-> env_neg flags lbody = false)).
Proof.
  unfold split_envelope, env_neg, reenc_env. destruct (flag_payload flags) eqn:Ep.
  - destruct (read_bytes_map lbody) as [[m r]|] eqn:Em; [|discriminate].
    intro H. injection H as <- <-. destruct (read_bytes_map_inv _ _ _ Em) as (p & Hb & _ & Hw).
    exists p. split; [exact Hb|]. intros Hwf Hwarn. rewrite Hwarn, app_nil_r. cbn [andb]. exact (Hw Hwf).
  - intro H. injection H as <- <-. exists []. split; [reflexivity|].
    intros _ Hwarn. rewrite Hwarn. cbn [andb app]. split; reflexivity.
Qed.

(** The headline without auxiliary hypotheses: exact side conditions only. *)
Theorem override_changes_exactly_two_bytes_full c v flags op lbody pl rest m :
  wf_bytes lbody ->
  split_envelope flags lbody = Some (pl, rest) -> decode_msg op v rest = Ok m ->
  is_unsupported c (msg_cl m) = true ->
  flag_warning flags = false -> env_neg flags lbody = false -> msg_neg op rest = false ->
  exists out,
    process_request c false v flags op lbody = FwdReenc out (Z.of_nat (length out)) /\
    let k := (length lbody - length rest + length (msg_lead v m))%nat in
    length out = length lbody /\
    firstn k out = firstn k lbody /\
    skipn (k + 2) out = skipn (k + 2) lbody /\
    firstn 2 (skipn k out) = enc_short (override c) /\
    firstn 2 (skipn k lbody) = enc_short (msg_cl m).
Proof.
  intros Hwf Hs Hd Hu Hwarn Henv Hn.
  destruct (split_envelope_inv flags lbody pl rest Hs) as (E & Hb & Hw).
  pose proof (proj2 (Hw Hwf Hwarn) Henv) as He.
  assert (Hwr : wf_bytes rest) by (rewrite Hb in Hwf; apply wf_app in Hwf; tauto).
  replace (length lbody - length rest)%nat with (length E) by (rewrite Hb, app_length; lia).
  exact (override_changes_exactly_two_bytes c v flags op lbody pl rest m E Hwr Hs Hd Hu Hn Hb He).
Qed.

Example override_full_ex :
  let c := {| unsupported := [6; 7]; override := 4 |} in
  let lbody := enc_bytes_map [([107], Some [1; 2]); ([108], None)] ++ ref_query [65; 66] 6 [0] in
  let rest := ref_query [65; 66] 6 [0] in
  let lead := msg_lead 4 (MQuery {| q_query := [65; 66]; q_cl := 6; q_params := [0] |}) in
  wf_bytes lbody /\ env_neg 6 lbody = false /\ msg_neg 7 rest = false /\
  (length lbody - length rest + length lead)%nat = 24%nat /\
  match process_request c false 4 6 7 lbody with
  | FwdReenc out _ => firstn 24 out = firstn 24 lbody /\ skipn 26 out = skipn 26 lbody /\
                      firstn 2 (skipn 24 out) = [0; 4] /\ firstn 2 (skipn 24 lbody) = [0; 6]
  | _ => False
  end.
Proof. split; [apply wf_bytesb_true; reflexivity|]. vm_compute. auto 10. Qed.

(** ** axiom audit *)
Print Assumptions encode_decode_msg_iff.
Print Assumptions override_msg_length_and_tail.
Print Assumptions override_msg_two_bytes.
Print Assumptions override_changes_exactly_two_bytes.
Print Assumptions override_changes_exactly_two_bytes_plain.
Print Assumptions override_changes_exactly_two_bytes_full.
Print Assumptions override_two_bytes_refuted_negative_length.
Print Assumptions override_two_bytes_refuted_warning_flag.
Print Assumptions override_two_bytes_refuted_payload_nil.
