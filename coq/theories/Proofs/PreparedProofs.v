(** Proofs about Model/Prepared.v (C08). *)
From Coq Require Import List ZArith NArith Bool Lia.
From CqlProxy Require Import Lib.Val Lib.Util Model.Prepared.
Import ListNotations.
Local Open Scope N_scope.

(** while the statement is cached (and the pools recognise UNPREPARED), the client never sees it *)
Theorem never_unprepared_when_cached w plan : forall known h,
  cached w = true -> (forall x, recognised w x = true) ->
  snd (fst (execute w known plan)) <> RUnprepared h.
Proof.
  induction plan as [|p rest IH]; intros known h Hc Hr; cbn [execute]; [discriminate|].
  destruct (memN p known); [discriminate|]. rewrite Hc, Hr. cbn [andb].
  destruct (prepare_ok w p); [discriminate|].
  specialize (IH known h Hc Hr). destruct (execute w known rest) as [[evs r] k]. exact IH.
Qed.

(** it succeeds on the first host of its plan that knows the statement or accepts the re-PREPARE *)
Theorem succeeds_if_some_host_can_serve w plan : forall known,
  cached w = true -> (forall x, recognised w x = true) ->
  (exists h, In h plan /\ (memN h known = true \/ prepare_ok w h = true)) ->
  exists h, snd (fst (execute w known plan)) = RRows h /\ In h plan.
Proof.
  induction plan as [|p rest IH]; intros known Hc Hr (h & Hin & Hok); [destruct Hin|]. cbn [execute].
  destruct (memN p known) eqn:Hk; [exists p; split; [reflexivity|left; reflexivity]|].
  rewrite Hc, Hr. cbn [andb].
  destruct (prepare_ok w p) eqn:Hp; [exists p; split; [reflexivity|left; reflexivity]|].
  destruct Hin as [<-|Hin]; [destruct Hok; congruence|].
  destruct (IH known Hc Hr (ex_intro _ h (conj Hin Hok))) as (h' & Hrep & Hin').
  destruct (execute w known rest) as [[evs r] k]. exists h'. split; [exact Hrep|right; exact Hin'].
Qed.

(** a failing re-PREPARE moves the request on; when no host can serve it the client is told so
    (the loop ends: [execute] is total on the plan) *)
Theorem no_host_can_serve_then_no_hosts w plan : forall known,
  cached w = true -> (forall x, recognised w x = true) ->
  (forall h, In h plan -> memN h known = false /\ prepare_ok w h = false) ->
  snd (fst (execute w known plan)) = RNoHosts.
Proof.
  induction plan as [|p rest IH]; intros known Hc Hr Hall; [reflexivity|]. cbn [execute].
  destruct (Hall p (or_introl eq_refl)) as [Hk Hp]. rewrite Hk, Hc, Hr, Hp. cbn [andb].
  specialize (IH known Hc Hr (fun h Hin => Hall h (or_intror Hin))).
  destruct (execute w known rest) as [[evs r] k]. exact IH.
Qed.

(** every host is executed on at most once before it is (re-)prepared: the attempts follow the plan *)
Theorem hosts_tried_in_plan_order w plan : forall known,
  let evs := fst (fst (execute w known plan)) in
  exists prefix, firstn (length prefix) plan = prefix /\
                 forall h, In (EvExecute h) evs -> In h prefix.
Proof.
  induction plan as [|p rest IH]; intro known; cbn [execute].
  - exists []. split; [reflexivity|]. intros h [].
  - destruct (memN p known).
    + exists [p]. split; [reflexivity|]. intros h [H|[]]. inversion H; left; reflexivity.
    + destruct (cached w && recognised w p).
      * destruct (prepare_ok w p).
        -- exists [p]. split; [reflexivity|]. intros h [H|[H|[H|[]]]]; inversion H; left; reflexivity.
        -- destruct (IH known) as (prefix & Hp & Hin). destruct (execute w known rest) as [[evs r] k]. cbn [fst] in *.
           exists (p :: prefix). split; [cbn; f_equal; exact Hp|].
           intros h [H|[H|H]]; [inversion H; left; reflexivity|discriminate H|right; apply Hin; exact H].
      * exists [p]. split; [reflexivity|]. intros h [H|[]]. inversion H; left; reflexivity.
Qed.
