(** More proofs about Model/Retry.v: termination, C04 safety, plan order, idempotent success. *)
From Coq Require Import List ZArith NArith Bool Lia.
From CqlProxy Require Import Lib.Val Lib.Util Gen.Tables Model.Retry Proofs.RetryProofs.
Import ListNotations.
Local Open Scope Z_scope.

Ltac inv_iter C :=
  inversion C as [Hhost | h' Hhost Hcan t' r' Hex | h' o' rp Hhost Hcan Ho Hrp Hcond | h' o' next' inc Hhost Hcan Ho Hcond t' r' Hex];
  subst; clear C.

Ltac get_hq :=
  match goal with
  | H : _ = _ ++ _ :: _ |- _ => rename H into Hq
  | H : _ ++ _ :: _ = _ |- _ => symmetry in H; rename H into Hq
  end.

(** *** termination: the loop ends once the backend stops answering UNPREPARED-then-prepared *)
Definition no_prepok_from (e : env) (u : nat) : Prop :=
  forall j h, (u <= j)%nat -> answer e j h <> OUnprepared PrepOk.

Definition measure (next : bool) (st : rstate) (u : nat) : nat :=
  2 * length (plan st) + b2n (negb next) + 2 * b2n (retry st =? 0) + 2 * (u - sent st).

Lemma terminates_gen :
  forall fuel idem e u next st, inv st -> no_prepok_from e u ->
    (measure next st u < fuel)%nat -> snd (exec fuel idem e next st) <> None.
Proof.
  induction fuel as [|f IH]; intros idem e u next st Hinv Hu Hm; [lia|].
  pose proof (exec_cases f idem e next st) as C.
  remember (if next then advance st else st) as st1 eqn:Hst1 in *.
  assert (Hinv1 : inv st1) by (rewrite Hst1; destruct next; auto using inv_advance).
  assert (Hplan : host st1 <> None -> (length (plan st1) + b2n next = length (plan st))%nat).
  { rewrite Hst1. destruct next; simpl; intro Hn; [rewrite (plan_advance st Hn)|]; lia. }
  assert (Hretry : retry st1 = retry st) by (rewrite Hst1; unfold advance; destruct next; [destruct (plan st)|]; reflexivity).
  assert (Hsent : sent st1 = sent st) by (rewrite Hst1; unfold advance; destruct next; [destruct (plan st)|]; reflexivity).
  clear Hst1.
  destruct (exec (S f) idem e next st) as [t r] eqn:E. cbn [snd].
  inversion C; subst; clear C; try discriminate.
  - assert (Hn : host st1 <> None) by congruence. specialize (Hplan Hn).
    match goal with H : exec f _ _ _ _ = _ |- _ => rename H into Hx end.
    specialize (IH idem e u true (bump st1 false false) (inv_bump _ _ _ Hinv1) Hu).
    rewrite Hx in IH. cbn [snd] in IH. apply IH.
    unfold measure in *. cbn [bump plan retry sent negb b2n]. rewrite Hretry, Hsent.
    destruct next; cbn [b2n negb] in *; lia.
  - assert (Hn : host st1 <> None) by congruence. specialize (Hplan Hn).
    match goal with H : exec f _ _ _ _ = _ |- _ => rename H into Hx end.
    specialize (IH idem e u next' (bump st1 true inc) (inv_bump _ _ _ Hinv1) Hu).
    rewrite Hx in IH. cbn [snd] in IH. apply IH. clear IH Hx.
    unfold measure in *. cbn [bump plan retry sent]. rewrite Hretry, Hsent.
    unfold inv in Hinv.
    destruct (answer e (sent st1) h) as [|m|p|] eqn:Ho; try contradiction.
    + match goal with H : _ \/ _ |- _ => destruct H as [(Hd & -> & ->)|(Hd & -> & ->)] end.
      * assert (Hz : (retry st + 1 =? 0) = false) by (apply Z.eqb_neq; lia). rewrite Hz.
        destruct next; cbn [b2n negb] in *; lia.
      * apply same_needs_retry0 in Hd. rewrite Hretry in Hd. rewrite Hd in *.
        cbn [Z.add Z.eqb Pos.eqb b2n negb] in *. destruct next; cbn [b2n negb] in *; lia.
    + destruct p; try contradiction.
      * match goal with H : _ /\ _ |- _ => destruct H as (-> & ->) end.
        assert (sent st < u)%nat.
        { destruct (Nat.lt_ge_cases (sent st) u) as [Hl|Hg]; [exact Hl|].
          exfalso. rewrite Hsent in Ho. exact (Hu _ h Hg Ho). }
        destruct next; cbn [b2n negb] in *; lia.
      * match goal with H : _ /\ _ |- _ => destruct H as (-> & ->) end.
        destruct next; cbn [b2n negb] in *; lia.
      * match goal with H : _ /\ _ /\ _ |- _ => destruct H as (_ & -> & ->) end.
        destruct next; cbn [b2n negb] in *; lia.
      * match goal with H : _ /\ _ |- _ => destruct H as (-> & ->) end.
        destruct next; cbn [b2n negb] in *; lia.
    + match goal with H : _ /\ _ /\ _ |- _ => destruct H as (_ & -> & ->) end.
      destruct next; cbn [b2n negb] in *; lia.
Qed.

Lemma terminates :
  forall fuel idem e u p, no_prepok_from e u ->
    (2 * length p + 2 * u + 2 < fuel)%nat -> snd (run fuel idem e p) <> None.
Proof.
  intros fuel idem e u p Hu Hf. unfold run. apply (terminates_gen fuel idem e u); auto.
  - unfold inv, init_state; simpl; lia.
  - unfold measure, init_state. cbn. lia.
Qed.

(** *** C04: a non-idempotent request is re-sent only after a safe outcome, and an unsafe
    outcome is final: nothing follows it and the client gets that answer. *)
Definition final_reply (h : N) (j : nat) (o : outcome) : reply :=
  match o with
  | OResult => RpResult h j
  | OError _ => RpError h j
  | _ => RpConnLost
  end.

Lemma nonidem_unsafe_is_final :
  forall fuel e next st t r,
    exec fuel false e next st = (t, r) ->
    forall t1 a h j o t2, t = t1 ++ Sent a h j o :: t2 -> safe_to_resend o = false ->
      t2 = [] /\ r = Some (final_reply h j o).
Proof.
  induction fuel as [|f IH]; intros e next st t r E t1 a h j o t2 Ht Hs.
  - simpl in E. inversion E; subst. destruct t1; discriminate.
  - pose proof (exec_cases f false e next st) as C. rewrite E in C.
    remember (if next then advance st else st) as st1 eqn:Hst1 in *. clear Hst1.
    inv_iter C; get_hq.
    + destruct t1; discriminate.
    + destruct t1 as [|x t1]; [discriminate|]. inversion Hq; subst.
      eapply IH in Hex; eauto.
    + destruct t1 as [|x t1].
      * inversion Hq; subst. split; [reflexivity|].
        unfold final_reply. destruct (answer e (sent st1) h) as [| |[]|]; reflexivity.
      * inversion Hq as [[Hx Hy]]. destruct t1; discriminate.
    + destruct t1 as [|x t1].
      * (* the unsafe outcome would have been followed by a retry: impossible *)
        inversion Hq; subst. exfalso.
        destruct (answer e (sent st1) h) as [|m|p|] eqn:Ho; try contradiction.
        -- assert (Hne : handle_error false m (retry st1) <> dec_ReturnError).
           { destruct Hcond as [(Hd & _)|(Hd & _)]; rewrite Hd; discriminate. }
           apply nonidem_retry_is_safe in Hne. congruence.
        -- destruct p; try contradiction; try discriminate.
           destruct Hcond as (Hf & _); discriminate Hf.
        -- destruct Hcond as (Hf & _); discriminate Hf.
      * inversion Hq; subst. eapply IH in Hex; eauto.
Qed.

(** *** the plan is walked in order, each host at most once per traversal *)
Definition wfn (next : bool) (st : rstate) : Prop := next = false -> host st <> None.

Lemma adv_hosts_cons_sent_t h j o t : adv_hosts (Sent true h j o :: t) = h :: adv_hosts t.
Proof. reflexivity. Qed.
Lemma adv_hosts_cons_sent_f h j o t : adv_hosts (Sent false h j o :: t) = adv_hosts t.
Proof. reflexivity. Qed.
Lemma adv_hosts_cons_fail_t h t : adv_hosts (SendFailed true h :: t) = h :: adv_hosts t.
Proof. reflexivity. Qed.
Lemma adv_hosts_cons_fail_f h t : adv_hosts (SendFailed false h :: t) = adv_hosts t.
Proof. reflexivity. Qed.

Lemma adv_hosts_prefix_gen :
  forall fuel idem e next st t r, wfn next st ->
    exec fuel idem e next st = (t, r) ->
    exists rest, plan st = adv_hosts t ++ rest /\ (r = Some RpNoHosts -> rest = []).
Proof.
  induction fuel as [|f IH]; intros idem e next st t r Hw E.
  - simpl in E. inversion E; subst. exists (plan st). split; [reflexivity|discriminate].
  - pose proof (exec_cases f idem e next st) as C. rewrite E in C.
    remember (if next then advance st else st) as st1 eqn:Hst1 in *.
    assert (Hp : match host st1 with
                 | Some h => if next then plan st = h :: plan st1 else plan st = plan st1
                 | None => next = true /\ plan st = [] end).
    { rewrite Hst1. destruct next.
      - unfold advance; destruct (plan st); simpl; auto.
      - specialize (Hw eq_refl). destruct (host st); [reflexivity|congruence]. }
    clear Hst1.
    inv_iter C.
    + rewrite Hhost in Hp. destruct Hp as (_ & Hp). exists []. rewrite Hp. split; auto.
    + rewrite Hhost in Hp.
      apply IH in Hex; [|intro; discriminate].
      destruct Hex as (rest & Hr & Hn). cbn [bump plan] in Hr. exists rest.
      destruct next; [rewrite adv_hosts_cons_fail_t|rewrite adv_hosts_cons_fail_f]; rewrite Hp, Hr; split; auto.
    + rewrite Hhost in Hp. destruct next.
      * exists (plan st1). rewrite adv_hosts_cons_sent_t. simpl. split; [exact Hp|].
        intro Hx. inversion Hx as [Hy]. destruct (answer e (sent st1) h') as [| |[]|]; discriminate.
      * exists (plan st). rewrite adv_hosts_cons_sent_f. simpl. split; [reflexivity|].
        intro Hx. inversion Hx as [Hy]. destruct (answer e (sent st1) h') as [| |[]|]; discriminate.
    + rewrite Hhost in Hp.
      apply IH in Hex.
      2:{ intros _. cbn [bump host]. congruence. }
      destruct Hex as (rest & Hr & Hn). cbn [bump plan] in Hr. exists rest.
      destruct next; [rewrite adv_hosts_cons_sent_t|rewrite adv_hosts_cons_sent_f]; rewrite Hp, Hr; split; auto.
Qed.

Lemma adv_hosts_prefix :
  forall fuel idem e p t r, run fuel idem e p = (t, r) ->
    exists rest, p = adv_hosts t ++ rest /\ (r = Some RpNoHosts -> rest = []).
Proof.
  intros fuel idem e p t r E. unfold run in E.
  apply adv_hosts_prefix_gen in E; [exact E|intro; discriminate].
Qed.

(** a re-send to the same host happens only directly after that host answered *)
Lemma head_of_next_run :
  forall f idem e st r y t2, exec f idem e true st = (y :: t2, r) ->
    match y with Sent false _ _ _ | SendFailed false _ => False | _ => True end.
Proof.
  intros f idem e st r y t2 E. destruct f as [|f']; [simpl in E; inversion E|].
  pose proof (exec_cases f' idem e true st) as C. rewrite E in C.
  remember (advance st) as st1 eqn:Hst1 in *. clear Hst1.
  inversion C; subst; exact Logic.I.
Qed.

Lemma head_of_same_run :
  forall f idem e st h r y t2, host st = Some h -> exec f idem e false st = (y :: t2, r) ->
    match y with Sent false h' _ _ | SendFailed false h' => h' = h | _ => False end.
Proof.
  intros f idem e st h r y t2 Hh E. destruct f as [|f']; [simpl in E; inversion E|].
  pose proof (exec_cases f' idem e false st) as C. rewrite E in C.
  inversion C; subst; congruence.
Qed.

Lemma same_host_follows_sent_gen :
  forall fuel idem e next st t r,
    exec fuel idem e next st = (t, r) ->
    forall t1 x y t2, t = t1 ++ x :: y :: t2 ->
      match y with
      | Sent false h _ _ | SendFailed false h =>
          exists a j o, x = Sent a h j o /\
            (match o with OError _ | OUnprepared PrepOk => True | _ => False end)
      | _ => True
      end.
Proof.
  induction fuel as [|f IH]; intros idem e next st t r E t1 x y t2 Ht.
  - simpl in E. inversion E; subst. destruct t1; discriminate.
  - pose proof (exec_cases f idem e next st) as C. rewrite E in C.
    remember (if next then advance st else st) as st1 eqn:Hst1 in *. clear Hst1.
    inv_iter C; get_hq.
    + destruct t1; discriminate.
    + destruct t1 as [|z t1].
      * inversion Hq; subst. clear Hq.
        pose proof (head_of_next_run _ _ _ _ _ _ _ Hex) as Hy.
        destruct y as [[] ? ? ?|[] ?]; auto; contradiction.
      * inversion Hq; subst. eapply IH; eauto.
    + destruct t1 as [|z t1]; [discriminate|]. inversion Hq as [[Hx Hy]]. destruct t1; discriminate.
    + destruct t1 as [|z t1].
      * inversion Hq; subst. clear Hq.
        destruct next'.
        -- pose proof (head_of_next_run _ _ _ _ _ _ _ Hex) as Hy.
           destruct y as [[] ? ? ?|[] ?]; auto; contradiction.
        -- assert (Hcur : host (bump st1 true inc) = Some h') by (cbn [bump host]; assumption).
           pose proof (head_of_same_run _ _ _ _ _ _ _ _ Hcur Hex) as Hy.
           assert (Hok : match answer e (sent st1) h' with OError _ | OUnprepared PrepOk => True | _ => False end).
           { destruct (answer e (sent st1) h') as [|m|[]|]; try contradiction; auto.
             - destruct Hcond as (Hf & _); discriminate.
             - destruct Hcond as (_ & Hf & _); discriminate.
             - destruct Hcond as (Hf & _); discriminate.
             - destruct Hcond as (_ & Hf & _); discriminate. }
           destruct y as [[] ? ? ?|[] ?]; try contradiction; subst; eauto.
      * inversion Hq; subst. eapply IH; eauto.
Qed.

(** *** an idempotent request succeeds whenever some host of its plan answers successfully *)
Definition moves_on (o : outcome) : Prop :=
  match o with
  | OResult | OLost | OUnprepared PrepErr | OUnprepared PrepLost | OUnprepared PrepSendFail => True
  | OError m => forall r, 0 <= r -> handle_error true m r = dec_RetryNext
  | _ => False
  end.

Lemma idempotent_succeeds_gen :
  forall p e st fuel,
    plan st = p -> inv st -> (length p < fuel)%nat ->
    (forall j h, moves_on (answer e j h)) ->
    (exists h, In h p /\ (forall i, can_send e i h = true) /\ (forall j, answer e j h = OResult)) ->
    exists h j, snd (exec fuel true e true st) = Some (RpResult h j).
Proof.
  induction p as [|h0 p IH]; intros e st fuel Hp Hinv Hf Hm (h & Hin & Hc & Ha); [destruct Hin|].
  destruct fuel as [|f]; [simpl in Hf; lia|].
  unfold exec. cbn [exec_gen]. change (exec_gen handle_error) with exec. unfold advance. rewrite Hp. cbn [host tries sent retry plan].
  set (st1 := {| plan := p; host := Some h0; retry := retry st; tries := tries st; sent := sent st |}).
  assert (Hrec : forall a b, exists h' j', snd (exec f true e true (bump st1 a b)) = Some (RpResult h' j') \/ h0 = h).
  { intros a b. destruct Hin as [Heq|Hin]; [exists h, 0%nat; right; exact Heq|].
    destruct (IH e (bump st1 a b) f) as (h' & j' & Hr); auto.
    - apply inv_bump. exact Hinv.
    - simpl in Hf. lia.
    - exists h; auto.
    - exists h', j'. left; exact Hr. }
  destruct (N.eq_dec h0 h) as [->|Hne].
  - rewrite Hc, Ha. exists h, (sent st). reflexivity.
  - assert (Hrec' : forall a b, exists h' j', snd (exec f true e true (bump st1 a b)) = Some (RpResult h' j')).
    { intros a b. destruct (Hrec a b) as (h' & j' & [Hr|Hr]); [eauto|contradiction]. }
    destruct (can_send e (tries st) h0).
    + specialize (Hm (sent st) h0).
      destruct (answer e (sent st) h0) as [|m|pp|] eqn:Ho.
      * exists h0, (sent st). reflexivity.
      * simpl in Hm. rewrite (Hm (retry st) Hinv). unfold dec_RetryNext. cbn [N.eqb Pos.eqb].
        destruct (Hrec' true true) as (h' & j' & Hr).
        destruct (exec f true e true (bump st1 true true)). exists h', j'. exact Hr.
      * destruct pp; simpl in Hm; try contradiction;
        destruct (Hrec' true false) as (h' & j' & Hr);
        destruct (exec f true e true (bump st1 true false)); exists h', j'; exact Hr.
      * destruct (Hrec' true false) as (h' & j' & Hr).
        destruct (exec f true e true (bump st1 true false)). exists h', j'. exact Hr.
    + destruct (Hrec' false false) as (h' & j' & Hr).
      destruct (exec f true e true (bump st1 false false)). exists h', j'. exact Hr.
Qed.

Lemma idempotent_succeeds :
  forall p e fuel, (length p < fuel)%nat ->
    (forall j h, moves_on (answer e j h)) ->
    (exists h, In h p /\ (forall i, can_send e i h = true) /\ (forall j, answer e j h = OResult)) ->
    exists h j, snd (run fuel true e p) = Some (RpResult h j).
Proof.
  intros p e fuel Hf Hm Hx. unfold run. apply (idempotent_succeeds_gen p); auto.
  unfold inv, init_state; simpl; lia.
Qed.

(** *** the code's run is the documented run, for every environment *)
Lemma exec_eq_doc :
  forall fuel idem e next st, inv st ->
    exec fuel idem e next st = exec_gen (fun i m r => doc_code (doc_policy i m r)) fuel idem e next st.
Proof.
  unfold exec.
  induction fuel as [|f IH]; intros idem e next st Hinv; [reflexivity|].
  cbn [exec_gen].
  set (st1 := if next then advance st else st).
  assert (Hinv1 : inv st1) by (unfold st1; destruct next; auto using inv_advance).
  destruct (host st1) as [h|]; [|reflexivity].
  destruct (can_send e (tries st1) h).
  - destruct (answer e (sent st1) h) as [|m|[]|];
      try rewrite (policy_eq_doc idem m (retry st1) Hinv1);
      try destruct idem; rewrite ?IH by (apply inv_bump; exact Hinv1); reflexivity.
  - rewrite IH by (apply inv_bump; exact Hinv1). reflexivity.
Qed.

Lemma run_eq_doc : forall fuel idem e p, run fuel idem e p = run_doc fuel idem e p.
Proof. intros. unfold run, run_doc. apply exec_eq_doc. unfold inv, init_state; simpl; lia. Qed.
