(** * ControlLoopProofs: the control connection's reader against the cluster's event loop (Model/ControlLoop.v).

    [orig = true] is the code before the repair (OnEvent sends on an unbuffered channel), [orig = false] the repaired
    code (OnEvent appends to a queue).  The refresh is in two steps: [SRefresh] (the query is written, [asked]) and
    [SAnswer] (the backend writes the response).  CL1..CL7 of the brief; headlines are restated in
    Props/PropsAdd_ControlLoop.v. *)
From Coq Require Import List ZArith NArith Bool Lia.
From CqlProxy Require Import Lib.Val Lib.Util Model.ControlLoop.
Import ListNotations.

(** ** Vocabulary *)

Definition no_timeout (sts : list cstep) : bool :=
  forallb (fun st => match st with STimeout => false | _ => true end) sts.

Definition evs (l : list item) : list N :=
  flat_map (fun x => match x with IEvent id => [id] | IResp => [] end) l.

Definition hold_evs (h : option item) : list N :=
  match h with Some (IEvent id) => [id] | _ => [] end.

Lemma in_flight_eq : forall s, in_flight s = queue s ++ hold_evs (holding s) ++ evs (socket s).
Proof. reflexivity. Qed.

Lemma evs_app : forall a b, evs (a ++ b) = evs a ++ evs b.
Proof. intros a b. unfold evs. apply flat_map_app. Qed.

Lemma crun_snoc : forall orig sts st, crun orig (sts ++ [st]) = step orig (crun orig sts) st.
Proof. intros orig sts st. unfold crun. rewrite fold_left_app. reflexivity. Qed.

Lemma crun_app : forall orig a b, crun orig (a ++ b) = fold_left (step orig) b (crun orig a).
Proof. intros orig a b. unfold crun. apply fold_left_app. Qed.

Definition wr1 (st : cstep) : list N := match st with SBackend (IEvent id) => [id] | _ => [] end.

Lemma written_snoc : forall sts st, written (sts ++ [st]) = written sts ++ wr1 st.
Proof.
  intros sts st. unfold written. rewrite flat_map_app. cbn [flat_map]. rewrite app_nil_r. reflexivity.
Qed.

Lemma no_timeout_snoc : forall sts st,
  no_timeout (sts ++ [st]) = no_timeout sts && match st with STimeout => false | _ => true end.
Proof. intros sts st. unfold no_timeout. rewrite forallb_app. cbn [forallb]. rewrite andb_true_r. reflexivity. Qed.

Lemma step_lost : forall orig s st, lost s = true -> step orig s st = s.
Proof. intros orig s st Hl. unfold step, enabled. rewrite Hl. reflexivity. Qed.

Lemma step_disabled : forall orig s st, enabled orig s st = false -> step orig s st = s.
Proof. intros orig s st H. unfold step. rewrite H. reflexivity. Qed.

Lemma take_disabled_orig : forall s, enabled true s STake = false.
Proof. intros s. unfold enabled. cbn [negb]. rewrite andb_false_r, andb_false_r. reflexivity. Qed.

Ltac sc := cbn [lost holding socket lp queue delivered refreshes asked negb andb].

(** ** The invariants of one step *)

Definition waiting (s : cstate) : nat := match lp s with LWaitResp => 1%nat | LSelect => 0%nat end.
Definition in_hand (s : cstate) : nat := match holding s with Some _ => 1%nat | None => 0%nat end.
Definition asked_n (s : cstate) : nat := if asked s then 1%nat else 0%nat.
Definition is_resp (x : item) : bool := match x with IResp => true | IEvent _ => false end.
Definition resp_count (s : cstate) : nat :=
  (match holding s with Some IResp => 1 | _ => 0 end + length (filter is_resp (socket s)))%nat.

(** (d) exactly while the loop waits there is one response: still owed by the backend, on the socket, or in the
    reader's hand *)
Definition count_ok (s : cstate) : Prop := (resp_count s + asked_n s = waiting s)%nat.

Lemma count_ok_step : forall orig s st, count_ok s -> count_ok (step orig s st).
Proof.
  intros orig [sock hold l q d r lo ak] st. unfold count_ok, resp_count, asked_n, waiting. sc. intros H.
  destruct lo; [rewrite step_lost by reflexivity; exact H|].
  destruct st as [[id|]| | | | | |]; unfold step, enabled; sc.
  - rewrite filter_app, app_length. cbn [filter is_resp length]. lia.
  - exact H.
  - destruct hold as [x|]; [exact H|]. destruct sock as [|x r0]; [exact H|]. sc.
    cbn [filter] in H. destruct x as [id|]; cbn [is_resp length] in *; lia.
  - destruct hold as [[id|]|]; [| |exact H].
    + destruct orig; [destruct l|]; sc; exact H.
    + sc. destruct l, ak; lia.
  - destruct l; [|exact H]. destruct orig; [exact H|]. destruct q; exact H.
  - destruct l; [|exact H]. sc. destruct ak; lia.
  - destruct ak; [|exact H]. sc. rewrite filter_app, app_length. cbn [filter is_resp length]. lia.
  - destruct l; [exact H|]. reflexivity.
Qed.

Lemma count_ok_run : forall orig sts, count_ok (crun orig sts).
Proof.
  intros orig sts. induction sts as [|st sts IH] using rev_ind; [reflexivity|].
  rewrite crun_snoc. apply count_ok_step. exact IH.
Qed.

Lemma filter_resp_in : forall l, (0 < length (filter is_resp l))%nat -> In IResp l.
Proof.
  induction l as [|x l IH]; cbn [filter length]; intros H; [lia|].
  destruct x as [id|]; cbn [is_resp] in H; [right; apply IH; exact H|left; reflexivity].
Qed.

(** (a) while the loop waits for the refresh response, that response is still owed by the backend, or on the socket,
    or in the reader's hand *)
Definition resp_pending (s : cstate) : Prop :=
  lp s = LWaitResp -> asked s = true \/ holding s = Some IResp \/ In IResp (socket s).

Lemma count_resp_pending : forall s, count_ok s -> resp_pending s.
Proof.
  intros [sock hold l q d r lo ak]. unfold count_ok, resp_pending, resp_count, asked_n, waiting. sc.
  intros H Hl. subst l. destruct ak; [left; reflexivity|right].
  destruct hold as [[id|]|]; [right|left; reflexivity|right]; apply filter_resp_in; lia.
Qed.

Lemma resp_pending_run : forall orig sts, resp_pending (crun orig sts).
Proof. intros orig sts. apply count_resp_pending, count_ok_run. Qed.

(** (b) the original code never uses the queue *)
Lemma queue_step_orig : forall s st, queue s = [] -> queue (step true s st) = [].
Proof.
  intros [sock hold l q d r lo ak] st H. cbn [queue] in H. subst q.
  destruct lo; [rewrite step_lost by reflexivity; reflexivity|].
  destruct st as [[id|]| | | | | |]; unfold step, enabled; sc; try reflexivity.
  - destruct hold; [reflexivity|]. destruct sock; reflexivity.
  - destruct hold as [[id|]|]; [destruct l| |]; reflexivity.
  - destruct l; reflexivity.
  - destruct l; reflexivity.
  - destruct ak; reflexivity.
  - destruct l; reflexivity.
Qed.

Lemma queue_fold_orig : forall sts s, queue s = [] -> queue (fold_left (step true) sts s) = [].
Proof.
  induction sts as [|st sts IH]; intros s H; [exact H|]. cbn [fold_left]. apply IH. apply queue_step_orig. exact H.
Qed.

Lemma queue_run_orig : forall sts, queue (crun true sts) = [].
Proof. intros sts. apply queue_fold_orig. reflexivity. Qed.

(** (c) a step other than the time-out keeps the connection, and moves events only forwards *)
Lemma step_flight : forall orig s st,
  lost s = false -> (orig = true -> queue s = []) -> st <> STimeout ->
  lost (step orig s st) = false /\
  delivered (step orig s st) ++ in_flight (step orig s st) = (delivered s ++ in_flight s) ++ wr1 st.
Proof.
  intros orig [sock hold l q d r lo ak] st Hlo Hq Hst. cbn [lost queue] in Hlo, Hq. subst lo.
  rewrite !in_flight_eq.
  destruct st as [[id|]| | | | | |]; unfold step, enabled; sc; cbn [wr1].
  - split; [reflexivity|]. rewrite evs_app. cbn [evs flat_map app]. rewrite !app_assoc. reflexivity.
  - split; [reflexivity|]. rewrite app_nil_r. reflexivity.
  - rewrite app_nil_r. destruct hold as [x|]; [split; reflexivity|]. destruct sock as [|x r0]; [split; reflexivity|].
    sc. split; [reflexivity|]. destruct x as [id|]; reflexivity.
  - rewrite app_nil_r. destruct hold as [[id|]|]; [| |split; reflexivity].
    + destruct orig.
      * rewrite (Hq eq_refl). destruct l; sc; cbn [hold_evs app]; split; try reflexivity.
        rewrite <- app_assoc. reflexivity.
      * sc. cbn [hold_evs app]. split; [reflexivity|]. rewrite <- !app_assoc. reflexivity.
    + sc. cbn [hold_evs app]. split; reflexivity.
  - rewrite app_nil_r. destruct l; [|split; reflexivity]. destruct orig; [split; reflexivity|].
    destruct q as [|a q]; [split; reflexivity|]. sc. cbn [app]. split; [reflexivity|].
    rewrite <- !app_assoc. reflexivity.
  - rewrite app_nil_r. destruct l; split; reflexivity.
  - rewrite app_nil_r. destruct ak; [|split; reflexivity]. sc. split; [reflexivity|].
    rewrite evs_app. cbn [evs flat_map app]. rewrite app_nil_r. reflexivity.
  - exfalso. apply Hst. reflexivity.
Qed.
(** ** CL3: conservation *)

Lemma run_flight : forall orig sts, no_timeout sts = true ->
  lost (crun orig sts) = false /\ (orig = true -> queue (crun orig sts) = []) /\
  delivered (crun orig sts) ++ in_flight (crun orig sts) = written sts.
Proof.
  intros orig sts. induction sts as [|st sts IH] using rev_ind; intros Hnt.
  - repeat split; reflexivity.
  - rewrite no_timeout_snoc in Hnt. apply andb_true_iff in Hnt. destruct Hnt as [Hnt Hst].
    destruct (IH Hnt) as [Hlo [Hq Hc]]. rewrite crun_snoc, written_snoc.
    assert (Hne : st <> STimeout) by (intros ->; discriminate Hst).
    destruct (step_flight orig _ st Hlo Hq Hne) as [Hlo' Hc'].
    split; [exact Hlo'|]. split.
    + intros ->. rewrite <- crun_snoc. apply queue_run_orig.
    + rewrite Hc', Hc. reflexivity.
Qed.

Theorem conservation : forall orig sts, no_timeout sts = true ->
  delivered (crun orig sts) ++ in_flight (crun orig sts) = written sts.
Proof. intros orig sts H. apply (run_flight orig sts H). Qed.

Lemma no_timeout_not_lost : forall orig sts, no_timeout sts = true -> lost (crun orig sts) = false.
Proof. intros orig sts H. apply (run_flight orig sts H). Qed.

(** with time-outs: what has been delivered is always a prefix of what was written *)
Lemma prefix_inv : forall orig sts,
  (orig = true -> queue (crun orig sts) = []) /\
  (lost (crun orig sts) = false -> delivered (crun orig sts) ++ in_flight (crun orig sts) = written sts) /\
  exists tail, written sts = delivered (crun orig sts) ++ tail.
Proof.
  intros orig sts. induction sts as [|st sts IH] using rev_ind.
  - split; [reflexivity|]. split; [reflexivity|]. exists []. reflexivity.
  - destruct IH as [Hq [Hc [tail Ht]]]. split; [intros ->; apply queue_run_orig|].
    rewrite crun_snoc, written_snoc.
    destruct (lost (crun orig sts)) eqn:Hlo.
    + rewrite step_lost by exact Hlo. rewrite Hlo. split; [intros H; discriminate H|].
      exists (tail ++ wr1 st). rewrite Ht, app_assoc. reflexivity.
    + specialize (Hc eq_refl).
      assert (Hdec : st = STimeout \/ st <> STimeout) by (destruct st; (left; reflexivity) || (right; discriminate)).
      destruct Hdec as [->|Hne].
      * assert (Hd : delivered (step orig (crun orig sts) STimeout) = delivered (crun orig sts)).
        { unfold step. destruct (negb (enabled orig (crun orig sts) STimeout)); reflexivity. }
        assert (Hl : lost (step orig (crun orig sts) STimeout) = false ->
                     step orig (crun orig sts) STimeout = crun orig sts).
        { unfold step. destruct (negb (enabled orig (crun orig sts) STimeout)); [reflexivity|].
          cbn [lost]. intros H; discriminate H. }
        split.
        -- intros H. rewrite (Hl H). cbn [wr1]. rewrite app_nil_r. exact Hc.
        -- rewrite Hd. exists tail. cbn [wr1]. rewrite app_nil_r. exact Ht.
      * destruct (step_flight orig _ st Hlo Hq Hne) as [Hlo' Hc'].
        split; [intros _; rewrite Hc', Hc; reflexivity|].
        exists (in_flight (step orig (crun orig sts) st)). rewrite Hc', Hc. reflexivity.
Qed.

Theorem delivered_prefix_always : forall orig sts, exists tail, written sts = delivered (crun orig sts) ++ tail.
Proof. intros orig sts. apply (prefix_inv orig sts). Qed.

(** ** CL7 *)
Theorem no_spurious_delivery : forall orig sts id, In id (delivered (crun orig sts)) -> In id (written sts).
Proof.
  intros orig sts id H. destruct (delivered_prefix_always orig sts) as [tail Ht]. rewrite Ht.
  apply in_or_app. left. exact H.
Qed.

(** ** CL1: the repaired code is never stuck (time-outs or not) *)

Lemma stuck_repaired_shape : forall s, stuck false s = true ->
  holding s = None /\ socket s = [] /\ lp s = LWaitResp /\ asked s = false.
Proof.
  intros [sock hold l q d r lo ak]. unfold stuck, enabled. sc.
  destruct lo; cbn [negb andb]; [intros H; discriminate H|].
  destruct hold as [[id|]|]; cbn [negb andb]; try (rewrite ?andb_false_r; intros H; discriminate H).
  destruct sock as [|x r0]; cbn [negb andb]; [|intros H; discriminate H].
  destruct q as [|a q]; cbn [negb andb]; [intros H; discriminate H|].
  destruct l; cbn [negb andb]; [intros H; discriminate H|].
  destruct ak; cbn [negb andb]; [intros H; discriminate H|]. intros _. repeat split.
Qed.

Theorem repaired_never_stuck : forall sts, stuck false (crun false sts) = false.
Proof.
  intros sts. destruct (stuck false (crun false sts)) eqn:Hs; [|reflexivity]. exfalso.
  destruct (stuck_repaired_shape _ Hs) as [Hh [Hso [Hl Ha]]].
  destruct (resp_pending_run false sts Hl) as [H|[H|H]].
  - rewrite Ha in H. discriminate H.
  - rewrite Hh in H. discriminate H.
  - rewrite Hso in H. exact H.
Qed.

(** ** CL2: the original code gets stuck, and stays stuck until the time-out *)

Definition stuck_witness : list cstep := [SBackend (IEvent 7%N); SRefresh; SAnswer; SRead].

Theorem original_gets_stuck : exists sts,
  no_timeout sts = true /\ stuck true (crun true sts) = true /\
  in_flight (crun true sts) <> [] /\ delivered (crun true sts) = [].
Proof.
  exists stuck_witness. split; [reflexivity|]. split; [vm_compute; reflexivity|]. split; [|reflexivity].
  vm_compute. intros H. discriminate H.
Qed.

(** the invariant: the reader holds an event it cannot hand over, the loop waits for a response the reader cannot
    read; every step but the time-out is either disabled or a write of the backend onto the socket *)
Definition wedged (s : cstate) : Prop :=
  lost s = false /\ lp s = LWaitResp /\ (exists id, holding s = Some (IEvent id)).

Lemma wedged_step : forall s st, wedged s -> st <> STimeout ->
  wedged (step true s st) /\ delivered (step true s st) = delivered s /\ refreshes (step true s st) = refreshes s
  /\ holding (step true s st) = holding s /\ (asked s = false -> asked (step true s st) = false).
Proof.
  intros [sock hold l q d r lo ak] st [Hlo [Hl [id Hh]]] Hst. cbn [lost lp holding] in Hlo, Hl, Hh. subst lo l hold.
  destruct st as [[id'|]| | | | | |]; unfold step, enabled; sc;
    try (split; [split; [reflexivity|split; [reflexivity|exists id; reflexivity]]|
                 split; [reflexivity|split; [reflexivity|split; [reflexivity|intros Ha; exact Ha]]]]).
  - destruct ak; sc;
      (split; [split; [reflexivity|split; [reflexivity|exists id; reflexivity]]|
               split; [reflexivity|split; [reflexivity|split; [reflexivity|intros Ha; try exact Ha; reflexivity]]]]).
  - exfalso. apply Hst. reflexivity.
Qed.

Lemma wedged_fold : forall r s, wedged s -> no_timeout r = true ->
  wedged (fold_left (step true) r s) /\ delivered (fold_left (step true) r s) = delivered s /\
  refreshes (fold_left (step true) r s) = refreshes s /\ holding (fold_left (step true) r s) = holding s /\
  (asked s = false -> asked (fold_left (step true) r s) = false).
Proof.
  induction r as [|st r IH]; intros s Hw Hnt.
  - cbn [fold_left]. split; [exact Hw|]. split; [reflexivity|]. split; [reflexivity|]. split; [reflexivity|].
    intros Ha; exact Ha.
  - cbn [no_timeout forallb] in Hnt. apply andb_true_iff in Hnt. destruct Hnt as [Hst Hnt].
    assert (Hne : st <> STimeout) by (intros ->; discriminate Hst).
    destruct (wedged_step s st Hw Hne) as [Hw' [Hd [Hr [Hh Ha]]]].
    cbn [fold_left]. destruct (IH _ Hw' Hnt) as [Hw'' [Hd' [Hr' [Hh' Ha']]]].
    split; [exact Hw''|]. split; [rewrite Hd'; exact Hd|]. split; [rewrite Hr'; exact Hr|].
    split; [rewrite Hh'; exact Hh|]. intros H0. apply Ha', Ha, H0.
Qed.

(** a wedged state is stuck as soon as the backend has answered the query (until then [SAnswer] can still happen, and
    changes nothing but the socket) *)
Lemma wedged_stuck : forall s, wedged s -> asked s = false -> stuck true s = true.
Proof.
  intros [sock hold l q d r lo ak] [Hlo [Hl [id Hh]]] Ha. cbn [lost lp holding asked] in Hlo, Hl, Hh, Ha. subst lo l hold ak.
  unfold stuck, enabled. sc. reflexivity.
Qed.

Lemma witness_wedged : wedged (crun true stuck_witness).
Proof. split; [reflexivity|]. split; [reflexivity|]. exists 7%N. reflexivity. Qed.

Theorem original_stuck_forever_without_timeout : forall r, no_timeout r = true ->
  delivered (crun true (stuck_witness ++ r)) = [] /\ refreshes (crun true (stuck_witness ++ r)) = 0%nat.
Proof.
  intros r Hnt. rewrite crun_app.
  destruct (wedged_fold r _ witness_wedged Hnt) as [_ [Hd [Hr _]]]. rewrite Hd, Hr. split; reflexivity.
Qed.

(** stronger: it is stuck in every such continuation, the event 7 still in the reader's hand *)
Theorem original_stuck_forever_strong : forall r, no_timeout r = true ->
  let s := crun true (stuck_witness ++ r) in
  stuck true s = true /\ holding s = Some (IEvent 7%N) /\ lp s = LWaitResp /\ delivered s = [] /\ refreshes s = 0%nat.
Proof.
  intros r Hnt. cbv zeta. rewrite crun_app.
  destruct (wedged_fold r _ witness_wedged Hnt) as [Hw [Hd [Hr [Hh Ha]]]].
  split; [apply wedged_stuck; [exact Hw|apply Ha; reflexivity]|]. split; [rewrite Hh; reflexivity|].
  split; [apply Hw|]. rewrite Hd, Hr. split; reflexivity.
Qed.

(** the general form: ANY wedged state of the original code stays wedged until the time-out *)
Theorem original_wedged_forever : forall s r, wedged s -> no_timeout r = true ->
  let s' := fold_left (step true) r s in
  wedged s' /\ delivered s' = delivered s /\ refreshes s' = refreshes s /\
  (asked s = false -> stuck true s' = true).
Proof.
  intros s r Hw Hnt. cbv zeta. destruct (wedged_fold r s Hw Hnt) as [Hw' [Hd [Hr [_ Ha]]]].
  split; [exact Hw'|]. split; [exact Hd|]. split; [exact Hr|]. intros H0. apply wedged_stuck; [exact Hw'|apply Ha, H0].
Qed.

(** ** CL4: the drain scheduler -- the reader's, the loop's and the answering backend's own steps *)

(** fires the first enabled of [SHand; SRead; STake; SAnswer], at most [fuel] times *)
Fixpoint drain_gen (orig : bool) (fuel : nat) (s : cstate) : cstate :=
  match fuel with
  | O => s
  | S f =>
      if enabled orig s SHand then drain_gen orig f (step orig s SHand)
      else if enabled orig s SRead then drain_gen orig f (step orig s SRead)
      else if enabled orig s STake then drain_gen orig f (step orig s STake)
      else if enabled orig s SAnswer then drain_gen orig f (step orig s SAnswer)
      else s
  end.

Definition drain (fuel : nat) (s : cstate) : cstate := drain_gen false fuel s.

Fixpoint drain_trace (orig : bool) (fuel : nat) (s : cstate) : list cstep :=
  match fuel with
  | O => []
  | S f =>
      if enabled orig s SHand then SHand :: drain_trace orig f (step orig s SHand)
      else if enabled orig s SRead then SRead :: drain_trace orig f (step orig s SRead)
      else if enabled orig s STake then STake :: drain_trace orig f (step orig s STake)
      else if enabled orig s SAnswer then SAnswer :: drain_trace orig f (step orig s SAnswer)
      else []
  end.

Lemma drain_is_run : forall orig fuel s, drain_gen orig fuel s = fold_left (step orig) (drain_trace orig fuel s) s.
Proof.
  intros orig fuel. induction fuel as [|f IH]; intros s; [reflexivity|]. cbn [drain_gen drain_trace].
  destruct (enabled orig s SHand); [cbn [fold_left]; apply IH|].
  destruct (enabled orig s SRead); [cbn [fold_left]; apply IH|].
  destruct (enabled orig s STake); [cbn [fold_left]; apply IH|].
  destruct (enabled orig s SAnswer); [cbn [fold_left]; apply IH|]. reflexivity.
Qed.

Definition own_step (st : cstep) : Prop := st = SHand \/ st = SRead \/ st = STake \/ st = SAnswer.

Lemma drain_trace_own_steps : forall orig fuel s st, In st (drain_trace orig fuel s) -> own_step st.
Proof.
  unfold own_step. intros orig fuel. induction fuel as [|f IH]; intros s st H; [destruct H|]. cbn [drain_trace] in H.
  destruct (enabled orig s SHand); [destruct H as [<-|H]; [tauto|exact (IH _ _ H)]|].
  destruct (enabled orig s SRead); [destruct H as [<-|H]; [tauto|exact (IH _ _ H)]|].
  destruct (enabled orig s STake); [destruct H as [<-|H]; [tauto|exact (IH _ _ H)]|].
  destruct (enabled orig s SAnswer); [destruct H as [<-|H]; [tauto|exact (IH _ _ H)]|].
  destruct H.
Qed.

Lemma drain_trace_orig_no_take : forall fuel s, ~ In STake (drain_trace true fuel s).
Proof.
  induction fuel as [|f IH]; intros s H; [destruct H|]. cbn [drain_trace] in H.
  destruct (enabled true s SHand); [destruct H as [H|H]; [discriminate H|exact (IH _ H)]|].
  destruct (enabled true s SRead); [destruct H as [H|H]; [discriminate H|exact (IH _ H)]|].
  rewrite take_disabled_orig in H.
  destruct (enabled true s SAnswer); [destruct H as [H|H]; [discriminate H|exact (IH _ H)]|]. destruct H.
Qed.

(** a state in which nothing is left to do *)
Definition quiet (s : cstate) : Prop :=
  socket s = [] /\ holding s = None /\ queue s = [] /\ lp s = LSelect /\ lost s = false /\ asked s = false.

Lemma drain_quiet : forall orig fuel s, quiet s -> drain_gen orig fuel s = s.
Proof.
  intros orig fuel [sock hold l q d r lo ak] [H1 [H2 [H3 [H4 [H5 H6]]]]]. cbn [socket holding queue lp lost asked] in *. subst.
  destruct fuel as [|f]; [reflexivity|]. cbn [drain_gen]. unfold enabled. sc. rewrite andb_false_r. reflexivity.
Qed.

Lemma quiet_in_flight : forall s, quiet s -> in_flight s = [].
Proof. intros s [H1 [H2 [H3 _]]]. rewrite in_flight_eq, H1, H2, H3. reflexivity. Qed.

Lemma quiet_not_stuck : forall orig s, quiet s -> stuck orig s = false.
Proof.
  intros orig [sock hold l q d r lo ak] [H1 [H2 [H3 [H4 [H5 H6]]]]]. cbn [socket holding queue lp lost asked] in *. subst.
  reflexivity.
Qed.

(** the events the reader will meet before it meets a response *)
Fixpoint evs_before_resp (l : list item) : list N :=
  match l with
  | [] => []
  | IResp :: _ => []
  | IEvent id :: r => id :: evs_before_resp r
  end.
Definition ahead (s : cstate) : list N :=
  match holding s with
  | Some IResp => []
  | Some (IEvent id) => id :: evs_before_resp (socket s)
  | None => evs_before_resp (socket s)
  end.

Lemma ebr_app_in : forall l m, In IResp l -> evs_before_resp (l ++ m) = evs_before_resp l.
Proof.
  induction l as [|x l IH]; intros m H; [destruct H|]. destruct x as [id|]; [|reflexivity].
  cbn [app evs_before_resp]. f_equal. apply IH. destruct H as [H|H]; [discriminate H|exact H].
Qed.

Lemma ebr_nil : forall l, evs l = [] -> evs_before_resp (l ++ [IResp]) = [].
Proof.
  induction l as [|x l IH]; intros H; [reflexivity|]. destruct x as [id|]; [discriminate H|reflexivity].
Qed.

(** for the original code: while the loop waits, no event is ahead of the response -- if the response is still owed by
    the backend, no event is on the connection at all *)
Definition calm_state (s : cstate) : Prop :=
  lp s = LWaitResp ->
  if asked s then hold_evs (holding s) ++ evs (socket s) = [] else ahead s = [].

(** what the drain needs of the state it starts in *)
Definition drainable (orig : bool) (s : cstate) : Prop :=
  lost s = false /\ count_ok s /\ (orig = true -> queue s = [] /\ calm_state s).

Lemma hand_facts : forall orig s, lost s = false -> enabled orig s SHand = true ->
  socket (step orig s SHand) = socket s /\ in_hand (step orig s SHand) = 0%nat /\ in_hand s = 1%nat /\
  (refreshes (step orig s SHand) + waiting (step orig s SHand) = refreshes s + waiting s)%nat /\
  asked (step orig s SHand) = asked s /\
  (lp (step orig s SHand) = LWaitResp -> lp s = LWaitResp /\ exists id, holding s = Some (IEvent id)).
Proof.
  intros orig [sock hold l q d r lo ak] Hlo. cbn [lost] in Hlo. subst lo. unfold step. intros He. rewrite He.
  revert He. unfold enabled, in_hand, waiting. sc.
  destruct hold as [[id|]|]; [| |intros H; discriminate H].
  - destruct orig.
    + destruct l; [|intros H; discriminate H]. intros _. sc.
      split; [reflexivity|]. split; [reflexivity|]. split; [reflexivity|]. split; [reflexivity|]. split; [reflexivity|].
      intros H0; discriminate H0.
    + intros _. sc.
      split; [reflexivity|]. split; [reflexivity|]. split; [reflexivity|]. split; [reflexivity|]. split; [reflexivity|].
      intros H0. split; [exact H0|]. exists id. reflexivity.
  - intros _. sc. split; [reflexivity|]. split; [reflexivity|]. split; [reflexivity|].
    split; [destruct l; lia|]. split; [reflexivity|]. intros H. discriminate H.
Qed.

Lemma read_facts : forall orig s, lost s = false -> enabled orig s SRead = true ->
  S (length (socket (step orig s SRead))) = length (socket s) /\
  in_hand (step orig s SRead) = 1%nat /\ in_hand s = 0%nat /\
  refreshes (step orig s SRead) = refreshes s /\ lp (step orig s SRead) = lp s /\
  asked (step orig s SRead) = asked s /\
  ahead (step orig s SRead) = ahead s /\
  hold_evs (holding (step orig s SRead)) ++ evs (socket (step orig s SRead)) = hold_evs (holding s) ++ evs (socket s).
Proof.
  intros orig [sock hold l q d r lo ak] Hlo. cbn [lost] in Hlo. subst lo. unfold step. intros He. rewrite He.
  revert He. unfold enabled, in_hand. sc.
  destruct hold as [x|]; [intros H; discriminate H|]. destruct sock as [|x r0]; [intros H; discriminate H|].
  intros _. unfold ahead. sc. cbn [length].
  split; [reflexivity|]. split; [reflexivity|]. split; [reflexivity|]. split; [reflexivity|]. split; [reflexivity|].
  split; [reflexivity|]. split; destruct x as [id|]; reflexivity.
Qed.

Lemma answer_facts : forall orig s, lost s = false -> enabled orig s SAnswer = true ->
  socket (step orig s SAnswer) = socket s ++ [IResp] /\ holding (step orig s SAnswer) = holding s /\
  lp (step orig s SAnswer) = lp s /\ refreshes (step orig s SAnswer) = refreshes s /\
  asked s = true /\ asked (step orig s SAnswer) = false.
Proof.
  intros orig [sock hold l q d r lo ak] Hlo. cbn [lost] in Hlo. subst lo. unfold step. intros He. rewrite He.
  revert He. unfold enabled. sc. intros ->. repeat split.
Qed.

Lemma take_facts : forall orig s, lost s = false -> count_ok s ->
  enabled orig s SHand = false -> enabled orig s SRead = false -> enabled orig s STake = true ->
  quiet (step orig s STake) /\ refreshes (step orig s STake) = refreshes s /\
  waiting (step orig s STake) = waiting s.
Proof.
  intros orig [sock hold l q d r lo ak] Hlo Hc. cbn [lost] in Hlo. subst lo. unfold step. intros H1 H2 He. rewrite He.
  revert Hc H1 H2 He. unfold count_ok, resp_count, asked_n, enabled, quiet, waiting. sc.
  destruct l; [|intros _ _ _ H; discriminate H]. destruct orig; [intros _ _ _ H; discriminate H|].
  destruct hold as [[id|]|]; [intros _ H; discriminate H|intros _ H; discriminate H|].
  destruct sock as [|x r0]; [|intros _ _ H; discriminate H]. intros Hc _ _ _.
  destruct ak; [cbn in Hc; lia|]. sc. repeat split.
Qed.

Lemma none_facts : forall orig s, drainable orig s ->
  enabled orig s SHand = false -> enabled orig s SRead = false -> enabled orig s STake = false ->
  enabled orig s SAnswer = false -> quiet s.
Proof.
  intros orig s [Hlo [Hc Ho]]. pose proof (count_resp_pending s Hc) as Hrp. revert Hlo Hrp Ho. clear Hc.
  destruct s as [sock hold l q d r lo ak]. unfold resp_pending, calm_state, ahead. sc. intros -> Hrp Ho.
  unfold enabled, quiet. sc.
  destruct hold as [[id|]|].
  - destruct orig; [|intros H; discriminate H]. destruct l; [intros H; discriminate H|].
    destruct (Ho eq_refl) as [Hq Hf]. specialize (Hf eq_refl). destruct ak; discriminate Hf.
  - intros H; discriminate H.
  - intros _. destruct sock as [|x r0]; [|intros H; discriminate H]. intros _ HT HA. subst ak.
    assert (Hl : l = LSelect).
    { destruct l; [reflexivity|]. destruct (Hrp eq_refl) as [H|[H|H]]; [discriminate H|discriminate H|destruct H]. }
    subst l. destruct orig.
    + destruct (Ho eq_refl) as [Hq _]. subst q. repeat split.
    + destruct q as [|a q]; [|discriminate HT]. repeat split.
Qed.

Lemma drainable_step_own : forall orig s st, drainable orig s -> st = SHand \/ st = SRead \/ st = SAnswer ->
  enabled orig s st = true -> drainable orig (step orig s st).
Proof.
  intros orig s st [Hlo [Hc Ho]] Hst He.
  assert (Hq : orig = true -> queue s = []) by (intros H; apply (Ho H)).
  assert (Hne : st <> STimeout) by (destruct Hst as [->|[->| ->]]; discriminate).
  destruct (step_flight orig s st Hlo Hq Hne) as [Hlo' Hfl].
  split; [exact Hlo'|]. split; [apply count_ok_step; exact Hc|].
  intros ->. destruct (Ho eq_refl) as [Hq0 Hw]. split; [apply queue_step_orig; exact Hq0|].
  unfold calm_state in *. destruct Hst as [->|[->| ->]].
  - intros Hl. destruct (hand_facts true s Hlo He) as [_ [_ [_ [_ [_ Hback]]]]].
    destruct (Hback Hl) as [Hl0 [id Hh]]. specialize (Hw Hl0). unfold ahead in Hw. rewrite Hh in Hw.
    destruct (asked s); discriminate Hw.
  - destruct (read_facts true s Hlo He) as [_ [_ [_ [_ [Hl [Hk [Ha Hev]]]]]]]. rewrite Hl, Hk, Ha, Hev. exact Hw.
  - destruct (answer_facts true s Hlo He) as [Hs [Hh [Hl [_ [Hk Hk']]]]]. rewrite Hl, Hk'. intros Hl0.
    specialize (Hw Hl0). rewrite Hk in Hw. unfold ahead. rewrite Hs, Hh.
    destruct (holding s) as [[id|]|]; [discriminate Hw|reflexivity|]. cbn [hold_evs app] in Hw. apply ebr_nil. exact Hw.
Qed.

(** the measure: two steps per frame on the socket, one for the frame in hand, three for a query still to answer *)
Definition todo (s : cstate) : nat := (2 * length (socket s) + in_hand s + 3 * asked_n s)%nat.

Lemma drain_spec_gen : forall orig fuel s,
  drainable orig s -> (todo s <= fuel)%nat ->
  (socket (drain_gen orig fuel s) = [] /\ holding (drain_gen orig fuel s) = None /\
   lp (drain_gen orig fuel s) = LSelect /\ lost (drain_gen orig fuel s) = false /\ asked (drain_gen orig fuel s) = false) /\
  delivered (drain_gen orig fuel s) ++ in_flight (drain_gen orig fuel s) = delivered s ++ in_flight s /\
  (refreshes (drain_gen orig fuel s) = refreshes s + waiting s)%nat /\
  ((todo s + 1 <= fuel)%nat -> queue (drain_gen orig fuel s) = []).
Proof.
  intros orig. induction fuel as [|f IH]; intros s Hdr Hf.
  - cbn [drain_gen]. pose proof Hdr as [Hlo [Hc Ho]]. pose proof (count_resp_pending s Hc) as Hrp.
    revert Hlo Hrp Hf. clear. destruct s as [sock hold l q d r lo ak]. unfold todo, in_hand, asked_n, resp_pending, waiting. sc.
    intros -> Hrp Hf. destruct sock as [|x r0]; [|cbn [length] in Hf; lia]. destruct hold; [lia|]. destruct ak; [lia|].
    assert (Hl : l = LSelect).
    { destruct l; [reflexivity|]. destruct (Hrp eq_refl) as [H|[H|H]]; [discriminate H|discriminate H|destruct H]. }
    subst l. split; [repeat split|]. split; [reflexivity|]. split; [lia|]. intros H; lia.
  - pose proof Hdr as [Hlo [Hc Ho]].
    assert (Hq : orig = true -> queue s = []) by (intros H; apply (Ho H)).
    cbn [drain_gen].
    assert (Hquiet : forall s', quiet s' -> delivered s' ++ in_flight s' = delivered s ++ in_flight s ->
              (refreshes s' = refreshes s + waiting s)%nat ->
              (socket s' = [] /\ holding s' = None /\ lp s' = LSelect /\ lost s' = false /\ asked s' = false) /\
              delivered s' ++ in_flight s' = delivered s ++ in_flight s /\
              (refreshes s' = refreshes s + waiting s)%nat /\ ((todo s + 1 <= S f)%nat -> queue s' = [])).
    { intros s' [Q1 [Q2 [Q3 [Q4 [Q5 Q6]]]]] Hfl Hr. split; [repeat split; assumption|]. split; [exact Hfl|].
      split; [exact Hr|]. intros _. exact Q3. }
    destruct (enabled orig s SHand) eqn:EH.
    { destruct (hand_facts orig s Hlo EH) as [Hs [Hi1 [Hi0 [Hr [Hk _]]]]].
      destruct (step_flight orig s SHand Hlo Hq ltac:(discriminate)) as [_ Hfl].
      cbn [wr1] in Hfl. rewrite app_nil_r in Hfl.
      assert (Ht : (todo (step orig s SHand) + 1 = todo s)%nat) by (unfold todo, asked_n; rewrite Hs, Hi1, Hi0, Hk; lia).
      destruct (IH (step orig s SHand)) as [H1 [H2 [H3 H4]]].
      - apply drainable_step_own; [exact Hdr|left; reflexivity|exact EH].
      - lia.
      - split; [exact H1|]. split; [rewrite H2; exact Hfl|]. split; [lia|]. intros H; apply H4; lia. }
    destruct (enabled orig s SRead) eqn:ER.
    { destruct (read_facts orig s Hlo ER) as [Hs [Hi1 [Hi0 [Hr [Hl [Hk _]]]]]].
      destruct (step_flight orig s SRead Hlo Hq ltac:(discriminate)) as [_ Hfl].
      cbn [wr1] in Hfl. rewrite app_nil_r in Hfl.
      assert (Ht : (todo (step orig s SRead) + 1 = todo s)%nat) by (unfold todo, asked_n; rewrite Hi1, Hi0, Hk; lia).
      destruct (IH (step orig s SRead)) as [H1 [H2 [H3 H4]]].
      - apply drainable_step_own; [exact Hdr|right; left; reflexivity|exact ER].
      - lia.
      - split; [exact H1|]. split; [rewrite H2; exact Hfl|]. split; [unfold waiting in *; rewrite Hl in H3; lia|].
        intros H; apply H4; lia. }
    destruct (enabled orig s STake) eqn:ET.
    { destruct (take_facts orig s Hlo Hc EH ER ET) as [Hqt [Hr Hw]].
      destruct (step_flight orig s STake Hlo Hq ltac:(discriminate)) as [_ Hfl].
      cbn [wr1] in Hfl. rewrite app_nil_r in Hfl.
      rewrite drain_quiet by exact Hqt. apply Hquiet; [exact Hqt|exact Hfl|].
      destruct Hqt as [_ [_ [_ [Hl _]]]]. unfold waiting in *. rewrite Hl in Hw. lia. }
    destruct (enabled orig s SAnswer) eqn:EA.
    { destruct (answer_facts orig s Hlo EA) as [Hs [Hh [Hl [Hr [Hk Hk']]]]].
      destruct (step_flight orig s SAnswer Hlo Hq ltac:(discriminate)) as [_ Hfl].
      cbn [wr1] in Hfl. rewrite app_nil_r in Hfl.
      assert (Ht : (todo (step orig s SAnswer) + 1 = todo s)%nat).
      { unfold todo, asked_n, in_hand. rewrite Hs, Hh, Hk, Hk', app_length. cbn [length]. lia. }
      destruct (IH (step orig s SAnswer)) as [H1 [H2 [H3 H4]]].
      - apply drainable_step_own; [exact Hdr|right; right; reflexivity|exact EA].
      - lia.
      - split; [exact H1|]. split; [rewrite H2; exact Hfl|]. split; [unfold waiting in *; rewrite Hl in H3; lia|].
        intros H; apply H4; lia. }
    apply Hquiet; [exact (none_facts orig s Hdr EH ER ET EA)|reflexivity|].
    destruct (none_facts orig s Hdr EH ER ET EA) as [_ [_ [_ [Hl _]]]]. unfold waiting. rewrite Hl. lia.
Qed.

Lemma todo_bound : forall s, (todo s <= 2 * length (socket s) + 4)%nat.
Proof. intros s. unfold todo, in_hand, asked_n. destruct (holding s), (asked s); lia. Qed.

(** with one step more than [todo] the drain ends quiet, everything delivered *)
Lemma drain_spec : forall orig fuel s,
  drainable orig s -> (2 * length (socket s) + 5 <= fuel)%nat ->
  quiet (drain_gen orig fuel s) /\
  delivered (drain_gen orig fuel s) = delivered s ++ in_flight s /\
  refreshes (drain_gen orig fuel s) = (refreshes s + waiting s)%nat.
Proof.
  intros orig fuel s Hdr Hf. pose proof (todo_bound s) as Hb.
  destruct (drain_spec_gen orig fuel s Hdr ltac:(lia)) as [[H1 [H2 [H3 [H4 H5]]]] [Hd [Hr Hq]]].
  specialize (Hq ltac:(lia)).
  assert (Hquiet : quiet (drain_gen orig fuel s)) by (repeat split; assumption).
  split; [exact Hquiet|]. rewrite (quiet_in_flight _ Hquiet), app_nil_r in Hd. split; [exact Hd|exact Hr].
Qed.

Lemma drainable_repaired : forall sts, no_timeout sts = true -> drainable false (crun false sts).
Proof.
  intros sts Hnt. split; [apply no_timeout_not_lost; exact Hnt|]. split; [apply count_ok_run|].
  intros H; discriminate H.
Qed.

(** the bound of the brief, [2 * length (socket s) + 4], was for the coarser model; with the answer a step of its own
    the worst case (a frame in hand, the query unanswered, something queued) takes one step more *)
Theorem repaired_drains : forall sts, no_timeout sts = true ->
  let s := crun false sts in
  let s' := drain (2 * length (socket s) + 5) s in
  in_flight s' = [] /\ lp s' = LSelect /\ lost s' = false /\ asked s' = false /\ delivered s' = written sts.
Proof.
  intros sts Hnt. cbv zeta. unfold drain.
  destruct (drain_spec false (2 * length (socket (crun false sts)) + 5) _ (drainable_repaired sts Hnt) ltac:(lia))
    as [Hq [Hd _]].
  split; [apply quiet_in_flight; exact Hq|]. split; [apply Hq|]. split; [apply Hq|]. split; [apply Hq|].
  rewrite Hd. apply conservation. exact Hnt.
Qed.

Theorem repaired_drains_bound4_refuted : exists sts, no_timeout sts = true /\
  let s := crun false sts in
  in_flight (drain (2 * length (socket s) + 4) s) <> [] /\ in_flight (drain (2 * length (socket s) + 5) s) = [] /\
  drain_trace false (2 * length (socket s) + 5) s = [SHand; SAnswer; SRead; SHand; STake].
Proof.
  exists [SBackend (IEvent 1%N); SRead; SRefresh]. split; [reflexivity|]. vm_compute.
  split; [intros H; discriminate H|]. split; reflexivity.
Qed.

(** with the brief's bound everything but the final STake has happened *)
Theorem repaired_drains_bound4 : forall sts, no_timeout sts = true ->
  let s := crun false sts in
  let s' := drain (2 * length (socket s) + 4) s in
  socket s' = [] /\ holding s' = None /\ lp s' = LSelect /\ lost s' = false /\ asked s' = false /\
  delivered s' ++ queue s' = written sts.
Proof.
  intros sts Hnt. cbv zeta. unfold drain. pose proof (todo_bound (crun false sts)) as Hb.
  destruct (drain_spec_gen false (2 * length (socket (crun false sts)) + 4) _ (drainable_repaired sts Hnt) Hb)
    as [[H1 [H2 [H3 [H4 H5]]]] [Hd _]].
  repeat (split; [assumption|]). rewrite in_flight_eq, H1, H2 in Hd. cbn [hold_evs evs flat_map app] in Hd.
  rewrite app_nil_r in Hd. rewrite Hd. apply conservation. exact Hnt.
Qed.

Lemma written_app_own : forall sts own, (forall st, In st own -> own_step st) -> written (sts ++ own) = written sts.
Proof.
  intros sts own. induction own as [|st own IH] using rev_ind; intros H; [rewrite app_nil_r; reflexivity|].
  rewrite app_assoc, written_snoc, IH by (intros st' Hi; apply H; apply in_or_app; left; exact Hi).
  assert (Hin : In st (own ++ [st])) by (apply in_or_app; right; left; reflexivity).
  destruct (H st Hin) as [->|[->|[->| ->]]]; apply app_nil_r.
Qed.

Theorem repaired_drains_as_trace : forall sts, no_timeout sts = true ->
  exists own, (forall st, In st own -> own_step st) /\
    let s' := crun false (sts ++ own) in
    in_flight s' = [] /\ lp s' = LSelect /\ lost s' = false /\ delivered s' = written sts /\
    written (sts ++ own) = written sts.
Proof.
  intros sts Hnt.
  exists (drain_trace false (2 * length (socket (crun false sts)) + 5) (crun false sts)).
  split; [apply drain_trace_own_steps|]. cbv zeta. rewrite crun_app, <- drain_is_run.
  destruct (repaired_drains sts Hnt) as [H1 [H2 [H3 [_ H4]]]]. unfold drain in *.
  repeat (split; [assumption|]).
  apply written_app_own. apply drain_trace_own_steps.
Qed.

(** ** CL5: a refresh completes in the repaired code (here the brief's bound suffices) *)
Theorem refresh_completes_repaired : forall sts, no_timeout sts = true -> lp (crun false sts) = LSelect ->
  let s := step false (crun false sts) SRefresh in
  refreshes (drain (2 * length (socket s) + 4) s) = S (refreshes (crun false sts)).
Proof.
  intros sts Hnt Hl. cbv zeta. rewrite <- crun_snoc.
  assert (Hnt' : no_timeout (sts ++ [SRefresh]) = true) by (rewrite no_timeout_snoc, Hnt; reflexivity).
  unfold drain. pose proof (todo_bound (crun false (sts ++ [SRefresh]))) as Hb.
  destruct (drain_spec_gen false (2 * length (socket (crun false (sts ++ [SRefresh]))) + 4) _
              (drainable_repaired _ Hnt') Hb) as [_ [_ [Hr _]]].
  rewrite Hr, crun_snoc. pose proof (no_timeout_not_lost false sts Hnt) as Hlo.
  revert Hl Hlo. generalize (crun false sts). intros [sock hold l q d r lo ak]. cbn [lp lost]. intros -> ->.
  unfold waiting, step, enabled. sc. lia.
Qed.

Theorem refresh_completes_repaired_full : forall sts, no_timeout sts = true -> lp (crun false sts) = LSelect ->
  let s := step false (crun false sts) SRefresh in
  let s' := drain (2 * length (socket s) + 5) s in
  refreshes s' = S (refreshes (crun false sts)) /\ in_flight s' = [] /\ lp s' = LSelect /\ delivered s' = written sts.
Proof.
  intros sts Hnt Hl. cbv zeta. rewrite <- crun_snoc.
  assert (Hnt' : no_timeout (sts ++ [SRefresh]) = true) by (rewrite no_timeout_snoc, Hnt; reflexivity).
  unfold drain.
  destruct (drain_spec false (2 * length (socket (crun false (sts ++ [SRefresh]))) + 5) _
              (drainable_repaired _ Hnt') ltac:(lia)) as [Hq [Hd Hr]].
  split.
  - rewrite Hr, crun_snoc. pose proof (no_timeout_not_lost false sts Hnt) as Hlo.
    revert Hl Hlo. generalize (crun false sts). intros [sock hold l q d r lo ak]. cbn [lp lost]. intros -> ->.
    unfold waiting, step, enabled. sc. lia.
  - split; [apply quiet_in_flight; exact Hq|]. split; [apply Hq|].
    rewrite Hd, (conservation false _ Hnt'), written_snoc. apply app_nil_r.
Qed.

(** ** CL6: why the original code passes tests -- runs in which no event gets ahead of a refresh response *)

(** computed along the run of the ORIGINAL code.
    [calm] (the brief's predicate): when the refresh timer fires no event is in flight, and the backend writes no event
    between [SRefresh] and the [SHand] that delivers its response (that is: while the loop waits).
    [calm_exact]: the same first clause; the second only while the query is still unanswered -- an event written after
    the response is behind it on the socket and harmless. *)
Fixpoint calm_from (s : cstate) (sts : list cstep) : bool :=
  match sts with
  | [] => true
  | st :: r =>
      (match st with
       | SRefresh => negb (enabled true s SRefresh) || (match in_flight s with [] => true | _ => false end)
       | SBackend (IEvent _) => match lp s with LSelect => true | LWaitResp => false end
       | _ => true
       end) && calm_from (step true s st) r
  end.
Definition calm (sts : list cstep) : bool := calm_from cinit sts.

Fixpoint calm_exact_from (s : cstate) (sts : list cstep) : bool :=
  match sts with
  | [] => true
  | st :: r =>
      (match st with
       | SRefresh => negb (enabled true s SRefresh) || (match in_flight s with [] => true | _ => false end)
       | SBackend (IEvent _) => match lp s with LSelect => true | LWaitResp => negb (asked s) end
       | _ => true
       end) && calm_exact_from (step true s st) r
  end.
Definition calm_exact (sts : list cstep) : bool := calm_exact_from cinit sts.

Lemma calm_from_weaker : forall sts s, calm_from s sts = true -> calm_exact_from s sts = true.
Proof.
  induction sts as [|st sts IH]; intros s H; [reflexivity|]. cbn [calm_from calm_exact_from] in *.
  apply andb_true_iff in H. destruct H as [H1 H2]. rewrite (IH _ H2), andb_true_r.
  destruct st as [[id|]| | | | | |]; try reflexivity; [|exact H1]. destruct (lp s); [reflexivity|discriminate H1].
Qed.

Lemma calm_weaker : forall sts, calm sts = true -> calm_exact sts = true.
Proof. intros sts. apply calm_from_weaker. Qed.

Lemma backend_facts : forall orig s id, lost s = false ->
  let s1 := step orig s (SBackend (IEvent id)) in
  socket s1 = socket s ++ [IEvent id] /\ holding s1 = holding s /\ lp s1 = lp s /\ asked s1 = asked s /\
  queue s1 = queue s /\ delivered s1 = delivered s /\ refreshes s1 = refreshes s /\ lost s1 = false.
Proof.
  intros orig [sock hold l q d r lo ak] id Hlo. cbn [lost] in Hlo. subst lo. cbv zeta. unfold step, enabled. sc.
  repeat split.
Qed.

Lemma refresh_facts : forall orig s, lost s = false -> enabled orig s SRefresh = true ->
  let s1 := step orig s SRefresh in
  socket s1 = socket s /\ holding s1 = holding s /\ lp s1 = LWaitResp /\ asked s1 = true /\
  queue s1 = queue s /\ delivered s1 = delivered s /\ refreshes s1 = refreshes s /\ lost s1 = false.
Proof.
  intros orig s Hlo He. cbv zeta. unfold step. rewrite He. sc. repeat split.
Qed.

Lemma calm_step : forall s st r, drainable true s -> st <> STimeout ->
  calm_exact_from s (st :: r) = true ->
  drainable true (step true s st) /\ calm_exact_from (step true s st) r = true.
Proof.
  intros s st r Hdr Hne Hcalm. cbn [calm_exact_from] in Hcalm. apply andb_true_iff in Hcalm.
  destruct Hcalm as [Hcond Hrest]. split; [|exact Hrest]. clear Hrest.
  pose proof Hdr as [Hlo [Hc Ho]]. destruct (Ho eq_refl) as [Hq Hcs].
  pose proof (count_resp_pending s Hc) as Hrp.
  destruct (step_flight true s st Hlo (fun _ => Hq) Hne) as [Hlo' _].
  assert (Hbase : calm_state (step true s st) -> drainable true (step true s st)).
  { intros H. split; [exact Hlo'|]. split; [apply count_ok_step; exact Hc|]. intros _.
    split; [apply queue_step_orig; exact Hq|exact H]. }
  destruct st as [[id|]| | | | | |].
  - apply Hbase. destruct (backend_facts true s id Hlo) as [Hs [Hh [Hl [Hk _]]]].
    unfold calm_state, ahead. rewrite Hs, Hh, Hl, Hk. intros Hl0. rewrite Hl0 in Hcond.
    specialize (Hcs Hl0). destruct (asked s) eqn:Ha; [discriminate Hcond|]. unfold ahead in Hcs.
    destruct (Hrp Hl0) as [Hr|[Hr|Hr]]; [rewrite Ha in Hr; discriminate Hr| |].
    + rewrite Hr. reflexivity.
    + destruct (holding s) as [[id'|]|]; [discriminate Hcs|reflexivity|]. rewrite ebr_app_in by exact Hr. exact Hcs.
  - rewrite step_disabled; [exact Hdr|]. unfold enabled. apply andb_false_r.
  - destruct (enabled true s SRead) eqn:He; [|rewrite step_disabled by exact He; exact Hdr].
    apply drainable_step_own; [exact Hdr|right; left; reflexivity|exact He].
  - destruct (enabled true s SHand) eqn:He; [|rewrite step_disabled by exact He; exact Hdr].
    apply drainable_step_own; [exact Hdr|left; reflexivity|exact He].
  - rewrite step_disabled by apply take_disabled_orig. exact Hdr.
  - destruct (enabled true s SRefresh) eqn:He; [|rewrite step_disabled by exact He; exact Hdr].
    apply Hbase. cbn [negb orb] in Hcond. destruct (refresh_facts true s Hlo He) as [Hs [Hh [_ [Hk _]]]].
    unfold calm_state. rewrite Hs, Hh, Hk. intros _. rewrite in_flight_eq, Hq in Hcond. cbn [app] in Hcond.
    destruct (hold_evs (holding s) ++ evs (socket s)); [reflexivity|discriminate Hcond].
  - destruct (enabled true s SAnswer) eqn:He; [|rewrite step_disabled by exact He; exact Hdr].
    apply drainable_step_own; [exact Hdr|right; right; reflexivity|exact He].
  - exfalso. apply Hne. reflexivity.
Qed.

Lemma calm_fold : forall sts s, drainable true s -> no_timeout sts = true -> calm_exact_from s sts = true ->
  drainable true (fold_left (step true) sts s).
Proof.
  induction sts as [|st sts IH]; intros s Hdr Hnt Hcalm; [exact Hdr|].
  cbn [no_timeout forallb] in Hnt. apply andb_true_iff in Hnt. destruct Hnt as [Hst Hnt].
  assert (Hne : st <> STimeout) by (intros ->; discriminate Hst).
  destruct (calm_step s st sts Hdr Hne Hcalm) as [Hdr' Hcalm'].
  cbn [fold_left]. apply IH; assumption.
Qed.

Lemma drainable_init : forall orig, drainable orig cinit.
Proof.
  intros orig. split; [reflexivity|]. split; [reflexivity|]. intros _. split; [reflexivity|]. intros H; discriminate H.
Qed.

Lemma drainable_calm : forall sts, no_timeout sts = true -> calm_exact sts = true -> drainable true (crun true sts).
Proof. intros sts Hnt Hcalm. apply (calm_fold sts cinit); [apply drainable_init|exact Hnt|exact Hcalm]. Qed.

Lemma stuck_elim : forall orig s, stuck orig s = true ->
  enabled orig s SHand = false /\ enabled orig s SRead = false /\ enabled orig s STake = false /\
  enabled orig s SAnswer = false /\ ~ (socket s = [] /\ holding s = None /\ queue s = []).
Proof.
  intros orig s H. unfold stuck in H.
  apply andb_true_iff in H. destruct H as [H H6].
  apply andb_true_iff in H. destruct H as [H H5]. apply andb_true_iff in H. destruct H as [H H4].
  apply andb_true_iff in H. destruct H as [H H3]. apply andb_true_iff in H. destruct H as [_ H2].
  apply negb_true_iff in H3, H4, H5, H6. repeat (split; [assumption|]).
  intros [E1 [E2 E3]]. rewrite E1, E2, E3 in H2. discriminate H2.
Qed.

Theorem original_fine_if_no_event_ahead_of_response : forall sts, no_timeout sts = true -> calm_exact sts = true ->
  let s := crun true sts in
  let s' := drain_gen true (2 * length (socket s) + 5) s in
  in_flight s' = [] /\ lp s' = LSelect /\ lost s' = false /\ asked s' = false /\ delivered s' = written sts /\
  stuck true s = false /\ stuck true s' = false.
Proof.
  intros sts Hnt Hcalm. cbv zeta.
  pose proof (drainable_calm sts Hnt Hcalm) as Hdr.
  destruct (drain_spec true (2 * length (socket (crun true sts)) + 5) _ Hdr ltac:(lia)) as [Hq [Hd _]].
  split; [apply quiet_in_flight; exact Hq|]. split; [apply Hq|]. split; [apply Hq|]. split; [apply Hq|].
  split; [rewrite Hd; apply conservation; exact Hnt|]. split; [|apply quiet_not_stuck; exact Hq].
  destruct (stuck true (crun true sts)) eqn:Hs; [|reflexivity]. exfalso.
  destruct (stuck_elim _ _ Hs) as [EH [ER [ET [EA Hn]]]]. apply Hn.
  destruct (none_facts true _ Hdr EH ER ET EA) as [H1 [H2 [H3 _]]]. repeat split; assumption.
Qed.

Theorem original_fine_without_events_during_refresh : forall sts, no_timeout sts = true -> calm sts = true ->
  let s := crun true sts in
  let s' := drain_gen true (2 * length (socket s) + 5) s in
  in_flight s' = [] /\ lp s' = LSelect /\ lost s' = false /\ asked s' = false /\ delivered s' = written sts /\
  stuck true s = false /\ stuck true s' = false.
Proof.
  intros sts Hnt Hcalm. apply original_fine_if_no_event_ahead_of_response; [exact Hnt|].
  apply calm_weaker. exact Hcalm.
Qed.

(** both clauses of [calm] are needed now *)
Theorem calm_second_clause_needed_refuted :
  let sts := [SRefresh; SBackend (IEvent 7%N); SAnswer; SRead] in
  no_timeout sts = true /\ calm sts = false /\ calm_exact sts = false /\
  (* the first clause holds: nothing is in flight when the timer fires *)
  calm_from cinit [SRefresh] = true /\
  stuck true (crun true sts) = true /\ in_flight (crun true sts) = [7%N] /\ delivered (crun true sts) = [] /\
  let s' := drain_gen true (2 * length (socket (crun true sts)) + 5) (crun true sts) in
  stuck true s' = true /\ in_flight s' = [7%N] /\ delivered s' = [] /\ refreshes s' = 0%nat.
Proof. vm_compute. repeat split. Qed.

Theorem calm_first_clause_needed_refuted :
  let sts := [SBackend (IEvent 7%N); SRefresh] in
  no_timeout sts = true /\ calm sts = false /\ calm_exact sts = false /\
  let s' := drain_gen true (2 * length (socket (crun true sts)) + 5) (crun true sts) in
  stuck true s' = true /\ in_flight s' = [7%N] /\ delivered s' = [] /\ refreshes s' = 0%nat.
Proof. vm_compute. repeat split. Qed.

(** [calm] is sufficient, not exact: an event written after the backend has answered is behind the response *)
Example calm_not_exact :
  let sts := [SRefresh; SAnswer; SBackend (IEvent 7%N)] in
  no_timeout sts = true /\ calm sts = false /\ calm_exact sts = true /\
  let s' := drain_gen true (2 * length (socket (crun true sts)) + 5) (crun true sts) in
  stuck true s' = false /\ in_flight s' = [] /\ delivered s' = [7%N] /\ refreshes s' = 1%nat.
Proof. vm_compute. repeat split. Qed.

(** ** CL6, converse: [calm_exact] is exact.  Whenever an event of the original code is on the connection while the
    query is unanswered -- it was in flight when the timer fired, or it is written before the answer -- the own steps
    of reader, loop and backend wedge it *)

Lemma drain_wedged0 : forall fuel s, wedged s -> asked s = false -> drain_gen true fuel s = s.
Proof.
  intros fuel [sock hold l q d r lo ak] [Hlo [Hl [id Hh]]] Ha. cbn [lost lp holding asked] in Hlo, Hl, Hh, Ha. subst lo l hold ak.
  destruct fuel as [|f]; [reflexivity|]. cbn [drain_gen]. unfold enabled. sc. reflexivity.
Qed.

Lemma drain_wedged : forall fuel s, wedged s ->
  wedged (drain_gen true (S fuel) s) /\ asked (drain_gen true (S fuel) s) = false /\
  delivered (drain_gen true (S fuel) s) = delivered s /\ refreshes (drain_gen true (S fuel) s) = refreshes s.
Proof.
  intros fuel s Hw. destruct (asked s) eqn:Ha.
  - assert (E1 : enabled true s SHand = false /\ enabled true s SRead = false /\ enabled true s SAnswer = true).
    { revert Hw Ha. destruct s as [sock hold l q d r lo ak]. intros [Hlo [Hl [id Hh]]] Ha.
      cbn [lost lp holding asked] in Hlo, Hl, Hh, Ha. subst lo l hold ak. repeat split. }
    destruct E1 as [E1 [E2 E3]]. cbn [drain_gen]. rewrite E1, E2, take_disabled_orig, E3.
    destruct (wedged_step s SAnswer Hw ltac:(discriminate)) as [Hw' [Hd [Hr _]]].
    assert (Ha' : asked (step true s SAnswer) = false).
    { destruct Hw as [Hlo _]. apply (answer_facts true s Hlo E3). }
    rewrite drain_wedged0 by assumption. repeat split; assumption || apply Hw'.
  - rewrite drain_wedged0 by assumption. repeat split; assumption || apply Hw.
Qed.

Theorem original_wedges_when_event_ahead_of_response : forall sts fuel,
  lost (crun true sts) = false -> asked (crun true sts) = true -> in_flight (crun true sts) <> [] ->
  let s' := drain_gen true (S (S fuel)) (crun true sts) in
  wedged s' /\ stuck true s' = true /\
  delivered s' = delivered (crun true sts) /\ refreshes s' = refreshes (crun true sts).
Proof.
  intros sts fuel Hlo Ha Hfl. cbv zeta.
  pose proof (count_ok_run true sts) as Hc. pose proof (queue_run_orig sts) as Hq.
  revert Hlo Ha Hfl Hc Hq. rewrite in_flight_eq. generalize (crun true sts). intros [sock hold l q d r lo ak].
  unfold count_ok, resp_count, asked_n, waiting. sc. intros -> -> Hfl Hc ->. cbn [app] in Hfl.
  assert (Hgoal : forall s, wedged s -> delivered s = d -> refreshes s = r ->
            wedged (drain_gen true (S fuel) s) /\ stuck true (drain_gen true (S fuel) s) = true /\
            delivered (drain_gen true (S fuel) s) = d /\ refreshes (drain_gen true (S fuel) s) = r).
  { intros s Hw H1 H2. destruct (drain_wedged fuel s Hw) as [Hw' [Ha' [Hd' Hr']]].
    split; [exact Hw'|]. split; [apply wedged_stuck; assumption|]. split; [rewrite Hd'; exact H1|rewrite Hr'; exact H2]. }
  assert (Hl : l = LWaitResp) by (destruct l; [lia|reflexivity]). subst l.
  destruct hold as [[id|]|].
  - match goal with |- wedged (drain_gen true _ ?s) /\ _ => set (s0 := s) end.
    assert (Hw : wedged s0) by (split; [reflexivity|split; [reflexivity|exists id; reflexivity]]).
    destruct (drain_wedged (S fuel) s0 Hw) as [Hw' [Ha' [Hd' Hr']]].
    split; [exact Hw'|]. split; [apply wedged_stuck; assumption|]. split; assumption.
  - exfalso. lia.
  - destruct sock as [|[id|] r0]; [exfalso; apply Hfl; reflexivity| |cbn [filter is_resp length] in Hc; exfalso; lia].
    match goal with |- wedged (drain_gen true _ ?s) /\ _ => set (s0 := s) end.
    assert (E1 : enabled true s0 SHand = false) by reflexivity.
    assert (E2 : enabled true s0 SRead = true) by reflexivity.
    cbn [drain_gen]. rewrite E1, E2.
    apply Hgoal; [split; [reflexivity|split; [reflexivity|exists id; reflexivity]]|reflexivity|reflexivity].
Qed.

Theorem original_wedges_when_event_meets_refresh : forall sts fuel,
  lost (crun true sts) = false -> lp (crun true sts) = LSelect -> in_flight (crun true sts) <> [] ->
  let s' := drain_gen true (S (S fuel)) (step true (crun true sts) SRefresh) in
  wedged s' /\ stuck true s' = true /\
  delivered s' = delivered (crun true sts) /\ refreshes s' = refreshes (crun true sts).
Proof.
  intros sts fuel Hlo Hl Hfl. cbv zeta.
  assert (He : enabled true (crun true sts) SRefresh = true) by (unfold enabled; rewrite Hlo, Hl; reflexivity).
  destruct (refresh_facts true _ Hlo He) as [Hs [Hh [_ [Hk [Hq [Hd [Hr Hlo']]]]]]].
  rewrite <- Hd, <- Hr. rewrite <- crun_snoc in *.
  apply original_wedges_when_event_ahead_of_response; [exact Hlo'|exact Hk|].
  rewrite in_flight_eq, Hs, Hh, Hq, <- in_flight_eq. exact Hfl.
Qed.

Theorem original_wedges_when_event_written_before_answer : forall sts id fuel,
  lost (crun true sts) = false -> asked (crun true sts) = true ->
  let s' := drain_gen true (S (S fuel)) (step true (crun true sts) (SBackend (IEvent id))) in
  wedged s' /\ stuck true s' = true /\
  delivered s' = delivered (crun true sts) /\ refreshes s' = refreshes (crun true sts).
Proof.
  intros sts id fuel Hlo Ha. cbv zeta.
  destruct (backend_facts true _ id Hlo) as [Hs [Hh [_ [Hk [Hq [Hd [Hr Hlo']]]]]]].
  rewrite <- Hd, <- Hr. rewrite <- crun_snoc in *.
  apply original_wedges_when_event_ahead_of_response; [exact Hlo'|rewrite Hk; exact Ha|].
  rewrite in_flight_eq, Hs, evs_app. cbn [evs flat_map app]. intros H.
  apply app_eq_nil in H. destruct H as [_ H]. apply app_eq_nil in H. destruct H as [_ H].
  apply app_eq_nil in H. destruct H as [_ H]. discriminate H.
Qed.

(** ** CL6, the weaker form of the brief: events, drain, refresh, drain -- never stuck in the original code *)

Definition backend_events (ids : list N) : list cstep := map (fun i => SBackend (IEvent i)) ids.

Lemma written_backend_events : forall ids, written (backend_events ids) = ids.
Proof. induction ids as [|i ids IH]; [reflexivity|]. cbn. f_equal. exact IH. Qed.

Lemma no_timeout_backend_events : forall ids, no_timeout (backend_events ids) = true.
Proof. induction ids as [|i ids IH]; [reflexivity|]. exact IH. Qed.

Lemma lp_step_same : forall orig s st,
  (match st with SBackend _ | SRead | STake | SAnswer => True | _ => False end) -> lp (step orig s st) = lp s.
Proof.
  intros orig [sock hold l q d r lo ak] st H. unfold step.
  destruct (negb (enabled orig _ st)); [reflexivity|].
  destruct st; try destruct H; cbn [socket lp]; try reflexivity. destruct sock; reflexivity.
Qed.

Lemma calm_from_backend_events : forall ids s, lp s = LSelect -> calm_from s (backend_events ids) = true.
Proof.
  induction ids as [|i ids IH]; intros s Hl; [reflexivity|]. cbn [backend_events map calm_from]. rewrite Hl.
  apply IH. rewrite lp_step_same by exact Logic.I. exact Hl.
Qed.

Lemma original_refresh_from_quiet : forall s, quiet s ->
  let s2 := step true s SRefresh in
  let s3 := drain_gen true (2 * length (socket s2) + 5) s2 in
  quiet s3 /\ delivered s3 = delivered s /\ refreshes s3 = S (refreshes s).
Proof.
  intros [sock hold l q d r lo ak] [H1 [H2 [H3 [H4 [H5 H6]]]]]. cbn [socket holding queue lp lost asked] in *. subst. cbv zeta.
  unfold step, enabled. sc.
  match goal with |- quiet (drain_gen true ?f ?s) /\ _ => assert (Hdr : drainable true s) end.
  { split; [reflexivity|]. split; [reflexivity|]. intros _. split; [reflexivity|]. intros _. reflexivity. }
  match goal with |- quiet (drain_gen true ?f ?s) /\ _ => destruct (drain_spec true f s Hdr) as [Hq [Hd Hr]] end.
  { cbn [socket length]. lia. }
  split; [exact Hq|]. split; [rewrite Hd; apply app_nil_r|]. rewrite Hr. unfold waiting. cbn [lp refreshes]. lia.
Qed.

Theorem original_fine_events_then_refresh : forall ids,
  let s0 := crun true (backend_events ids) in
  let s1 := drain_gen true (2 * length (socket s0) + 5) s0 in
  let s2 := step true s1 SRefresh in
  let s3 := drain_gen true (2 * length (socket s2) + 5) s2 in
  stuck true s0 = false /\ stuck true s1 = false /\ stuck true s3 = false /\
  in_flight s3 = [] /\ delivered s3 = ids /\ refreshes s3 = S (refreshes s0).
Proof.
  intros ids. cbv zeta.
  pose proof (no_timeout_backend_events ids) as Hnt.
  assert (Hcalm : calm (backend_events ids) = true) by (apply calm_from_backend_events; reflexivity).
  destruct (original_fine_without_events_during_refresh _ Hnt Hcalm) as [_ [_ [_ [_ [Hd [Hs0 Hs1]]]]]].
  pose proof (drainable_calm _ Hnt (calm_weaker _ Hcalm)) as Hdr.
  destruct (drain_spec true (2 * length (socket (crun true (backend_events ids))) + 5) _ Hdr ltac:(lia)) as [Hq [_ Hr]].
  destruct (original_refresh_from_quiet _ Hq) as [Hq3 [Hd3 Hr3]].
  split; [exact Hs0|]. split; [exact Hs1|]. split; [apply quiet_not_stuck; exact Hq3|].
  split; [apply quiet_in_flight; exact Hq3|]. split; [rewrite Hd3, Hd; apply written_backend_events|].
  rewrite Hr3, Hr. f_equal.
  assert (Hl : lp (crun true (backend_events ids)) = LSelect).
  { clear. induction ids as [|i ids IH] using rev_ind; [reflexivity|].
    unfold backend_events. rewrite map_app. cbn [map]. rewrite crun_snoc, lp_step_same by exact Logic.I. exact IH. }
  unfold waiting. rewrite Hl. lia.
Qed.

(** ** Examples: every hypothesis above is satisfiable on a non-trivial run *)

Definition ex_run : list cstep :=
  [SBackend (IEvent 1%N); SRead; SBackend (IEvent 2%N); SRefresh; SHand; SBackend (IEvent 3%N); SAnswer; SRead; SHand;
   SRead; SBackend (IEvent 4%N)].

(* CL1 *)
Example repaired_never_stuck_ex :
  stuck false (crun false stuck_witness) = false /\ stuck true (crun true stuck_witness) = true /\
  stuck false (crun false ex_run) = false.
Proof. vm_compute. repeat split. Qed.

(* while the query is unanswered the backend can still move, so that is not yet "stuck"; the wedge is already there *)
Example wedged_before_answer_ex :
  let s := crun true [SBackend (IEvent 7%N); SRefresh; SRead] in
  stuck true s = false /\ asked s = true /\ stuck true (step true s SAnswer) = true.
Proof. vm_compute. repeat split. Qed.

(* CL2 *)
Example original_stuck_forever_ex :
  let r := [SBackend (IEvent 8%N); SRead; SHand; SRefresh; SAnswer; SHand; SRead] in
  no_timeout r = true /\ delivered (crun true (stuck_witness ++ r)) = [] /\
  in_flight (crun true (stuck_witness ++ r)) = [7%N; 8%N] /\
  lost (crun true (stuck_witness ++ r ++ [STimeout])) = true /\
  in_flight (crun true (stuck_witness ++ r ++ [STimeout])) = [] /\
  delivered (crun true (stuck_witness ++ r ++ [STimeout])) = [].
Proof. vm_compute. repeat split. Qed.

(* CL3, CL7 *)
Example conservation_ex :
  no_timeout ex_run = true /\ written ex_run = [1%N; 2%N; 3%N; 4%N] /\
  delivered (crun false ex_run) = [] /\ in_flight (crun false ex_run) = [1%N; 2%N; 3%N; 4%N] /\
  queue (crun false ex_run) = [1%N; 2%N] /\
  delivered (crun true ex_run) = [] /\ in_flight (crun true ex_run) = [1%N; 2%N; 3%N; 4%N].
Proof. vm_compute. repeat split. Qed.

Example conservation_needs_no_timeout_refuted : exists orig sts,
  no_timeout sts = false /\ delivered (crun orig sts) ++ in_flight (crun orig sts) <> written sts.
Proof. exists false, [SBackend (IEvent 7%N); SRefresh; STimeout]. split; [reflexivity|]. vm_compute. intros H; discriminate H. Qed.

Example delivered_prefix_ex :
  let sts := [SBackend (IEvent 1%N); SRead; SHand; STake; SBackend (IEvent 2%N); SRefresh; STimeout; SBackend (IEvent 5%N)] in
  no_timeout sts = false /\ written sts = [1%N; 2%N; 5%N] /\ delivered (crun false sts) = [1%N].
Proof. vm_compute. repeat split. Qed.

(* CL4 *)
Example repaired_drains_ex :
  let s := crun false ex_run in
  let s' := drain (2 * length (socket s) + 5) s in
  in_flight s' = [] /\ lp s' = LSelect /\ delivered s' = [1%N; 2%N; 3%N; 4%N] /\ refreshes s' = 1%nat /\
  drain_trace false (2 * length (socket s) + 5) s = [SHand; SRead; SHand; SRead; SHand; STake].
Proof. vm_compute. repeat split. Qed.

Example original_same_run_wedged_ex :
  let s := crun true ex_run in
  let s' := drain_gen true (2 * length (socket s) + 5) s in
  stuck true s' = true /\ delivered s' = [] /\ in_flight s' = [1%N; 2%N; 3%N; 4%N] /\ refreshes s' = 0%nat.
Proof. vm_compute. repeat split. Qed.

(* CL5 *)
Example refresh_completes_repaired_ex :
  let sts := [SBackend (IEvent 1%N); SRead; SBackend (IEvent 2%N)] in
  no_timeout sts = true /\ lp (crun false sts) = LSelect /\
  let s := step false (crun false sts) SRefresh in
  refreshes (drain (2 * length (socket s) + 4) s) = 1%nat /\
  delivered (drain (2 * length (socket s) + 5) s) = [1%N; 2%N] /\
  drain_trace false (2 * length (socket s) + 5) s = [SHand; SRead; SHand; SAnswer; SRead; SHand; STake].
Proof. vm_compute. repeat split. Qed.

(* CL6 *)
Example original_fine_ex :
  let sts := [SBackend (IEvent 1%N); SRead; SHand; SBackend (IEvent 2%N); SRead; SHand; SRefresh; SAnswer; SRead; SHand;
              SBackend (IEvent 3%N)] in
  no_timeout sts = true /\ calm sts = true /\ calm_exact sts = true /\
  let s := crun true sts in
  delivered (drain_gen true (2 * length (socket s) + 5) s) = [1%N; 2%N; 3%N] /\ refreshes s = 1%nat.
Proof. vm_compute. repeat split. Qed.

Example original_wedges_ex :
  let sts := [SBackend (IEvent 1%N); SBackend (IEvent 2%N); SRead; SHand] in
  lost (crun true sts) = false /\ lp (crun true sts) = LSelect /\ in_flight (crun true sts) = [2%N] /\
  stuck true (drain_gen true 2 (step true (crun true sts) SRefresh)) = true /\
  (* one step is not enough: the backend has not answered yet *)
  stuck true (drain_gen true 1 (step true (crun true sts) SRefresh)) = false.
Proof. vm_compute. repeat split. Qed.

Example original_wedges_before_answer_ex :
  let sts := [SRefresh] in
  lost (crun true sts) = false /\ asked (crun true sts) = true /\
  stuck true (drain_gen true 2 (step true (crun true sts) (SBackend (IEvent 9%N)))) = true.
Proof. vm_compute. repeat split. Qed.

Example original_fine_events_then_refresh_ex :
  let ids := [5%N; 6%N; 7%N] in
  let s0 := crun true (backend_events ids) in
  let s1 := drain_gen true (2 * length (socket s0) + 5) s0 in
  let s2 := step true s1 SRefresh in
  let s3 := drain_gen true (2 * length (socket s2) + 5) s2 in
  delivered s3 = ids /\ refreshes s3 = 1%nat /\ lp s2 = LWaitResp /\ asked s2 = true.
Proof. vm_compute. repeat split. Qed.

Print Assumptions repaired_never_stuck.
Print Assumptions original_gets_stuck.
Print Assumptions original_stuck_forever_without_timeout.
Print Assumptions original_stuck_forever_strong.
Print Assumptions original_wedged_forever.
Print Assumptions conservation.
Print Assumptions delivered_prefix_always.
Print Assumptions no_spurious_delivery.
Print Assumptions repaired_drains.
Print Assumptions repaired_drains_bound4_refuted.
Print Assumptions repaired_drains_bound4.
Print Assumptions repaired_drains_as_trace.
Print Assumptions refresh_completes_repaired.
Print Assumptions refresh_completes_repaired_full.
Print Assumptions original_fine_if_no_event_ahead_of_response.
Print Assumptions original_fine_without_events_during_refresh.
Print Assumptions calm_second_clause_needed_refuted.
Print Assumptions calm_first_clause_needed_refuted.
Print Assumptions original_wedges_when_event_ahead_of_response.
Print Assumptions original_wedges_when_event_meets_refresh.
Print Assumptions original_wedges_when_event_written_before_answer.
Print Assumptions original_fine_events_then_refresh.
