(** Proofs about Model/Sessions.v (C07). *)
From Coq Require Import List Arith ZArith NArith Bool Lia.
From CqlProxy Require Import Lib.Val Lib.Util Model.Lexer Model.Parser Model.Handled Model.Sessions.
Import ListNotations.
Local Open Scope N_scope.

Lemma set_client_same cs i c : (i < length cs)%nat -> nth_error (set_client cs i c) i = Some c.
Proof.
  revert i. induction cs as [|x cs IH]; intros i H; [simpl in H; lia|].
  destruct i; [reflexivity|]. unfold set_client in *. cbn. apply IH. simpl in H. lia.
Qed.

Lemma set_client_other cs i j c : i <> j -> nth_error (set_client cs i c) j = nth_error cs j.
Proof.
  revert i j. induction cs as [|x cs IH]; intros i j H.
  - unfold set_client. destruct i; cbn; destruct j; reflexivity.
  - destruct i as [|i]; destruct j as [|j]; try congruence; try reflexivity.
    unfold set_client in *. cbn. apply IH. congruence.
Qed.

Lemma set_client_length cs i c : length (set_client cs i c) = length cs.
Proof.
  revert i. induction cs as [|x cs IH]; intro i; [unfold set_client; destruct i; reflexivity|].
  destruct i; [reflexivity|]. unfold set_client in *. cbn. f_equal. apply IH.
Qed.

(** state after a history *)
Fixpoint state_after (cs : list client) (ops : list op) : list client :=
  match ops with
  | [] => cs
  | o :: r => state_after (fst (step cs o)) r
  end.

Lemma step_length cs o : length (fst (step cs o)) = length cs.
Proof.
  destruct o as [i ks ok|i v]; cbn [step].
  - destruct (nth_error cs i); [|reflexivity]. destruct ok; [apply set_client_length|reflexivity].
  - destruct (nth_error cs i); reflexivity.
Qed.

(** the keyspace and compression of client i after any history of any clients' operations:
    the text of ITS last accepted USE, and the compression it started with *)
Theorem keyspace_is_last_accepted_use ops : forall cs i c,
  nth_error cs i = Some c ->
  exists c', nth_error (state_after cs ops) i = Some c' /\
             cl_keyspace c' = last_use i ops (cl_keyspace c) /\ cl_compression c' = cl_compression c.
Proof.
  induction ops as [|o ops IH]; intros cs i c Hc.
  - exists c. auto.
  - cbn [state_after]. destruct o as [j ks ok|j v].
    + cbn [step last_use]. destruct (nth_error cs j) as [cj|] eqn:Hj.
      * destruct ok; cbn [fst].
        -- destruct (Nat.eqb_spec i j) as [Hij|Hne].
           ++ subst j. rewrite Hc in Hj. inversion Hj; subst cj.
              assert (Hlen : (i < length cs)%nat) by (apply nth_error_Some; congruence).
              destruct (IH (set_client cs i {| cl_keyspace := ks; cl_compression := cl_compression c |}) i _ (set_client_same _ _ _ Hlen))
                as (c' & H1 & H2 & H3).
              exists c'. cbn in *. auto.
           ++ apply (IH _ i c). rewrite set_client_other by congruence. exact Hc.
        -- apply (IH cs i c Hc).
      * cbn [fst]. destruct ok.
        -- destruct (Nat.eqb_spec i j) as [Hij|Hne]; [subst j; congruence|apply (IH cs i c Hc)].
        -- apply (IH cs i c Hc).
    + cbn [step last_use]. destruct (nth_error cs j); cbn [fst]; apply (IH cs i c Hc).
Qed.

(** a request runs on the session keyed by its own version, the client's keyspace in force and
    the client's compression; the backend connections of that session are in that keyspace *)
Theorem request_runs_in_current_keyspace cs i c v :
  nth_error cs i = Some c ->
  snd (step cs (ORequest i v)) =
  RanOn {| bv_keyspace := cl_keyspace c; bv_version := v; bv_compression := lower (cl_compression c) |}.
Proof. intro H. cbn [step]. rewrite H. reflexivity. Qed.

(** a failed USE changes nothing; any operation of another client leaves client i untouched *)
Theorem failed_use_keeps_state cs i ks : fst (step cs (OUse i ks false)) = cs.
Proof. cbn [step]. destruct (nth_error cs i); reflexivity. Qed.

Theorem other_clients_untouched cs o i :
  (match o with OUse j _ _ | ORequest j _ => j <> i end) -> nth_error (fst (step cs o)) i = nth_error cs i.
Proof.
  destruct o as [j ks ok|j v]; cbn [step]; intro H.
  - destruct (nth_error cs j); [|reflexivity]. destruct ok; [apply set_client_other; exact H|reflexivity].
  - destruct (nth_error cs j); reflexivity.
Qed.

(** the name in the reply to a successful USE: unquoted text lower-cased, quoted text with its
    quotes removed and doubled quotes unescaped *)
Theorem use_reply_name cs i c ks :
  nth_error cs i = Some c -> snd (step cs (OUse i ks true)) = UseOk (ident_ID (ident_of_lexed ks)).
Proof. intro H. cbn [step]. rewrite H. reflexivity. Qed.
