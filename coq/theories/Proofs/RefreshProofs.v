(** Proofs about Model/Refresh.v: whenever the proxy's routing table is not the backend's, something
    that brings it up to date is already under way, and the proxy's own steps complete it. *)
From Coq Require Import List ZArith NArith Bool Lia.
From CqlProxy Require Import Lib.Val Lib.Util Model.Refresh.
Import ListNotations.
Local Open Scope N_scope.

Lemma list_eqb_refl (l : list N) : list_eqb N.eqb l l = true.
Proof. induction l as [|x l IH]; cbn; [reflexivity|]. rewrite N.eqb_refl, IH. reflexivity. Qed.

Lemma not_stale_when_equal s : hosts s = backend s -> stale s = false.
Proof. intro H. unfold stale. rewrite H, list_eqb_refl. reflexivity. Qed.

Definition timer_idle (t : timer) : bool := match t with TIdle => true | _ => false end.

(** the invariant of the repaired loop *)
Definition Inv (s : rstate) : Prop :=
  (pending s = true -> timer_idle (rtimer s) = false) /\ (stale s = true -> catching_up s = true).

Lemma inv_init t : Inv (init t).
Proof.
  split; cbn; [discriminate|]. intro H. rewrite not_stale_when_equal in H by reflexivity. discriminate.
Qed.

Lemma inv_step s e : Inv s -> Inv (step s e).
Proof.
  intros [Hp Hs]. destruct s as [c p tm h b a].
  destruct e as [t'| | | | | | |]; unfold Inv, step, step_gen, stale, catching_up in *; cbn in *;
    destruct c, p, tm, a; cbn in *; rewrite ?list_eqb_refl; cbn;
    try (destruct (list_eqb N.eqb h b)); try (destruct (list_eqb N.eqb h t')); cbn in *;
    split; intros; try reflexivity; try discriminate; try (apply Hp; assumption); try (apply Hs; assumption);
    try (specialize (Hp eq_refl); discriminate); try (specialize (Hs eq_refl); discriminate).
Qed.

Lemma inv_run t es : Inv (run t es).
Proof.
  unfold run. generalize (inv_init t). generalize (init t).
  induction es as [|e es IH]; intros s H; cbn; [exact H|]. apply IH. apply inv_step. exact H.
Qed.

(** A refresh that is pending always has its timer (running, or fired and waiting to be received). *)
Theorem pending_refresh_has_its_timer t es : pending (run t es) = true -> rtimer (run t es) <> TIdle.
Proof.
  intros H. destruct (inv_run t es) as [Hp _]. specialize (Hp H). intro E. rewrite E in Hp. discriminate.
Qed.

(** Whenever the table the proxy routes by differs from the backend's, the change is on its way
    to the proxy, or a refresh is scheduled with its timer, or the control connection is down
    (and the reconnect re-reads the tables): for every history of backend changes, events,
    timer expiries, control-connection losses and (failed) reconnects. *)
Theorem stale_routing_is_being_caught_up t es : stale (run t es) = true -> catching_up (run t es) = true.
Proof. exact (proj2 (inv_run t es)). Qed.

(** ... and the proxy's own steps then complete it: the announcement arriving, the refresh
    window expiring and the loop taking the timer -- or the reconnect -- leave the proxy routing
    by exactly the backend's table, from every reachable state. *)
Definition own_steps : list revent := [ReconnectOk; EventArrives; TimerExpires; LoopTakesTimer].

Theorem proxy_catches_up_by_its_own_steps t es :
  hosts (fold_left step own_steps (run t es)) = backend (fold_left step own_steps (run t es)).
Proof.
  destruct (inv_run t es) as [Hp Hs]. destruct (run t es) as [c p tm h b a].
  unfold Inv, stale, catching_up in *. cbn in *.
  destruct c; cbn.
  - (* control connection present *)
    destruct a; cbn.
    + destruct p; cbn.
      * specialize (Hp eq_refl). destruct tm; cbn in *; try discriminate; reflexivity.
      * reflexivity.
    + destruct (list_eqb N.eqb h b) eqn:E.
      * (* already up to date: hosts = backend is kept *)
        assert (h = b) as ->.
        { clear -E. revert b E. induction h as [|x h IH]; intros [|y b] E; cbn in E; try discriminate; [reflexivity|].
          apply andb_prop in E as [E1 E2]. apply N.eqb_eq in E1. subst. f_equal. apply IH. exact E2. }
        destruct tm; cbn; reflexivity.
      * specialize (Hs eq_refl). cbn in Hs. destruct p; cbn in Hs; [|discriminate].
        destruct tm; cbn in *; try discriminate; reflexivity.
  - (* no control connection: the reconnect reads the table *)
    destruct tm; cbn; reflexivity.
Qed.

(** The variant that stops the refresh timer when the control connection is lost breaks both:
    a node joins, the control connection is lost inside the refresh window, the proxy reconnects;
    a second node joins and is announced -- the announcement is absorbed by the refresh that is
    still marked pending but has no timer, and nothing will ever bring the table up to date. *)
Definition stuck_history : list revent :=
  [BackendChanges [1; 2; 3]; EventArrives; ControlLost; ReconnectOk; BackendChanges [1; 2; 3; 4]; EventArrives].

Theorem stopping_the_timer_on_loss_gets_stuck :
  let s := run_stopping [1; 2] stuck_history in
  stale s = true /\ catching_up s = false /\
  stale (fold_left (step_gen true) own_steps s) = true.
Proof. vm_compute. repeat split; reflexivity. Qed.

(** the same history on the repaired loop ends up to date *)
Example same_history_catches_up :
  hosts (fold_left step own_steps (run [1; 2] stuck_history)) = [1; 2; 3; 4].
Proof. vm_compute. reflexivity. Qed.
